SPECIFICATION Spec
CONSTANTS
  Bound = 130
INVARIANT Laws
CHECK_DEADLOCK FALSE
