------------------------------------ MODULE DecInt ------------------------------------
(* Unbounded signed integers for TLC (whose native integers are 32-bit): a number is the record   *)
(*     [neg |-> BOOLEAN, d |-> little-endian sequence of decimal digits]                          *)
(* in *normal form*: no most-significant zero digit, zero is [neg |-> FALSE, d |-> <<>>].  Normal  *)
(* forms are unique, so TLA+ equality of two DecInt values is equality of the integers.           *)
(*                                                                                                *)
(* Provided: FromInt / ToInt (native <-> DecInt), DecFromString / DecToString / IsNumeral          *)
(* (canonical decimal numerals "0", "17", "-2100000000000000"; the names avoid TLC!ToString),     *)
(* Add, Sub, Neg, Cmp, Leq, Lt, MulSmall                                                          *)
(* (by a native integer), Mul, Pow (native exponent).  There is deliberately no division:         *)
(* quotients are *checked* (q*d + r = v /\ 0 <= r < d), never computed.                           *)
(* Native arithmetic is used only on single digits and carries (all below 2*10^9).                *)
(* The module is self-contained and is model-checked against native arithmetic by MC_DecInt.      *)
EXTENDS Integers, Sequences

\* ------------------------------------------------------------------ magnitudes (naturals)
NDigit(a, i) == IF i <= Len(a) THEN a[i] ELSE 0

RECURSIVE NTrim(_)
NTrim(a) == IF a # << >> /\ a[Len(a)] = 0 THEN NTrim(SubSeq(a, 1, Len(a) - 1)) ELSE a

IsMag(a) == /\ a = [i \in 1..Len(a) |-> a[i]]
            /\ \A i \in 1..Len(a) : a[i] \in 0..9
            /\ (a # << >> => a[Len(a)] # 0)

RECURSIVE NAddC(_, _, _, _, _)
NAddC(a, b, i, c, acc) ==
    IF i > Len(a) /\ i > Len(b)
    THEN (IF c = 0 THEN acc ELSE Append(acc, c))
    ELSE LET s == NDigit(a, i) + NDigit(b, i) + c
         IN  NAddC(a, b, i + 1, s \div 10, Append(acc, s % 10))
NAdd(a, b) == NAddC(a, b, 1, 0, << >>)

RECURSIVE NCmpAt(_, _, _)
NCmpAt(a, b, i) == IF i = 0 THEN 0
                   ELSE IF a[i] < b[i] THEN -1
                   ELSE IF a[i] > b[i] THEN 1
                   ELSE NCmpAt(a, b, i - 1)
\* -1, 0, 1 for a < b, a = b, a > b (both in normal form)
NCmp(a, b) == IF Len(a) < Len(b) THEN -1
              ELSE IF Len(a) > Len(b) THEN 1
              ELSE NCmpAt(a, b, Len(a))

\* a - b for a >= b
RECURSIVE NSubC(_, _, _, _, _)
NSubC(a, b, i, br, acc) ==
    IF i > Len(a) THEN NTrim(acc)
    ELSE LET s == a[i] - NDigit(b, i) - br
         IN  IF s < 0 THEN NSubC(a, b, i + 1, 1, Append(acc, s + 10))
                      ELSE NSubC(a, b, i + 1, 0, Append(acc, s))
NSub(a, b) == NSubC(a, b, 1, 0, << >>)

\* a * m for a native natural m < 2*10^8 (so that 9*m + carry stays below 2^31)
RECURSIVE NMulSmallC(_, _, _, _, _)
NMulSmallC(a, m, i, c, acc) ==
    IF i > Len(a) /\ c = 0 THEN acc
    ELSE LET s == NDigit(a, i) * m + c
         IN  NMulSmallC(a, m, i + 1, s \div 10, Append(acc, s % 10))
NMulSmall(a, m) == IF m = 0 \/ a = << >> THEN << >> ELSE NMulSmallC(a, m, 1, 0, << >>)

NShift(a, k) == IF a = << >> THEN a ELSE [i \in 1..(k + Len(a)) |-> IF i <= k THEN 0 ELSE a[i - k]]

\* schoolbook product, four digits of b at a time
NChunk(b, j) == NDigit(b, j) + 10 * NDigit(b, j + 1) + 100 * NDigit(b, j + 2) + 1000 * NDigit(b, j + 3)
RECURSIVE NMulAcc(_, _, _, _)
NMulAcc(a, b, j, acc) ==
    IF j > Len(b) THEN acc
    ELSE LET m == NChunk(b, j)
         IN  NMulAcc(a, b, j + 4, IF m = 0 THEN acc ELSE NAdd(acc, NShift(NMulSmall(a, m), j - 1)))
NMul(a, b) == IF a = << >> \/ b = << >> THEN << >>
              ELSE IF Len(a) >= Len(b) THEN NMulAcc(a, b, 1, << >>) ELSE NMulAcc(b, a, 1, << >>)

RECURSIVE NFromNat(_)
NFromNat(n) == IF n = 0 THEN << >> ELSE << n % 10 >> \o NFromNat(n \div 10)

RECURSIVE NToNat(_, _)
NToNat(a, i) == IF i > Len(a) THEN 0 ELSE a[i] + 10 * NToNat(a, i + 1)

\* ------------------------------------------------------------------ signed numbers
Mk(neg, mag) == [neg |-> (neg /\ mag # << >>), d |-> mag]

IsDec(x) == /\ DOMAIN x = {"neg", "d"}
            /\ x.neg \in BOOLEAN
            /\ IsMag(x.d)
            /\ (x.d = << >> => ~x.neg)

Zero == Mk(FALSE, << >>)
One  == Mk(FALSE, << 1 >>)

FromInt(n) == IF n < 0 THEN Mk(TRUE, NFromNat(-n)) ELSE Mk(FALSE, NFromNat(n))
\* only for numbers known to fit a native integer (used by MC_DecInt)
ToInt(x) == IF x.neg THEN -NToNat(x.d, 1) ELSE NToNat(x.d, 1)

Neg(x) == Mk(~x.neg, x.d)
IsZero(x) == x.d = << >>
IsNeg(x) == x.neg

Add(x, y) ==
    IF x.neg = y.neg THEN Mk(x.neg, NAdd(x.d, y.d))
    ELSE LET c == NCmp(x.d, y.d)
         IN  IF c = 0 THEN Zero
             ELSE IF c > 0 THEN Mk(x.neg, NSub(x.d, y.d))
             ELSE Mk(y.neg, NSub(y.d, x.d))
Sub(x, y) == Add(x, Neg(y))

\* -1, 0, 1
Cmp(x, y) == IF x.neg /\ ~y.neg THEN -1
             ELSE IF ~x.neg /\ y.neg THEN 1
             ELSE IF x.neg THEN NCmp(y.d, x.d)
             ELSE NCmp(x.d, y.d)
Leq(x, y) == Cmp(x, y) <= 0
Lt(x, y)  == Cmp(x, y) < 0

\* m a native integer, |m| < 2*10^8
MulSmall(x, m) == IF m < 0 THEN Mk(~x.neg, NMulSmall(x.d, -m)) ELSE Mk(x.neg, NMulSmall(x.d, m))
Mul(x, y) == Mk(x.neg # y.neg, NMul(x.d, y.d))

RECURSIVE Pow(_, _)
Pow(x, e) == IF e = 0 THEN One ELSE Mul(x, Pow(x, e - 1))

\* ------------------------------------------------------------------ canonical decimal numerals
DigitChar(c) == c \in {"0", "1", "2", "3", "4", "5", "6", "7", "8", "9"}
DigitVal(c) == CASE c = "0" -> 0 [] c = "1" -> 1 [] c = "2" -> 2 [] c = "3" -> 3 [] c = "4" -> 4
                 [] c = "5" -> 5 [] c = "6" -> 6 [] c = "7" -> 7 [] c = "8" -> 8 [] c = "9" -> 9
DigitStr(k) == CASE k = 0 -> "0" [] k = 1 -> "1" [] k = 2 -> "2" [] k = 3 -> "3" [] k = 4 -> "4"
                 [] k = 5 -> "5" [] k = 6 -> "6" [] k = 7 -> "7" [] k = 8 -> "8" [] k = 9 -> "9"
Ch(s, i) == SubSeq(s, i, i)

\* "0" | [-] nonzero-digit digit*      (no "+", no leading zeros, no "-0", at most 40 characters)
IsNumeral(s) ==
    /\ Len(s) >= 1 /\ Len(s) <= 40
    /\ LET neg == Ch(s, 1) = "-"
           f == IF neg THEN 2 ELSE 1
       IN  /\ Len(s) >= f
           /\ \A i \in f..Len(s) : DigitChar(Ch(s, i))
           /\ (Ch(s, f) = "0" => (Len(s) = 1))

\* digits of s[f..Len(s)], least significant first
DecFromString(s) ==
    LET neg == Ch(s, 1) = "-"
        f == IF neg THEN 2 ELSE 1
        n == Len(s)
    IN  Mk(neg, NTrim([i \in 1..(n - f + 1) |-> DigitVal(Ch(s, n + 1 - i))]))

RECURSIVE NToStr(_, _)
NToStr(a, i) == IF i = 0 THEN "" ELSE DigitStr(a[i]) \o NToStr(a, i - 1)
DecToString(x) == IF x.d = << >> THEN "0"
               ELSE IF x.neg THEN "-" \o NToStr(x.d, Len(x.d)) ELSE NToStr(x.d, Len(x.d))
=======================================================================================
