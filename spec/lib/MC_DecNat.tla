----------------------------------- MODULE MC_DecNat -----------------------------------
(* DecNat against native arithmetic: all pairs below Bound, plus non-canonical inputs.   *)
EXTENDS Naturals, Sequences, TLC, DecNat

CONSTANT Bound

VARIABLES a, b, done
vars == << a, b, done >>

\* Bound+1 initial states; the second operand is chosen by Next so that the workers share the pairs
Init == a \in 0..Bound /\ b = 0 /\ done = FALSE
Next == done = FALSE /\ done' = TRUE /\ b' \in 0..Bound /\ UNCHANGED a
Spec == Init /\ [][Next]_vars

A == FromInt(a)
B == FromInt(b)
Pad(d) == d \o << 0, 0 >>          \* a non-canonical spelling of the same number

Laws ==
    /\ IsDigits(A) /\ ToInt(A) = a /\ Norm(A) = A /\ Norm(Pad(A)) = A
    /\ Add(A, B) = FromInt(a + b) /\ Add(Pad(A), B) = FromInt(a + b) /\ Add(A, Pad(B)) = FromInt(a + b)
    /\ Cmp(A, B) = (IF a < b THEN 0 ELSE IF a = b THEN 1 ELSE 2)
    /\ Cmp(Pad(A), B) = Cmp(A, B) /\ Cmp(A, Pad(B)) = Cmp(A, B)
    /\ (Lt(A, B) <=> a < b) /\ (Leq(A, B) <=> a <= b) /\ (Eq(A, B) <=> a = b)
    /\ (a >= b => Sub(A, B) = FromInt(a - b) /\ Sub(Pad(A), Pad(B)) = FromInt(a - b))
    /\ MulSmall(A, b) = FromInt(a * b) /\ MulSmall(Pad(A), b) = FromInt(a * b)
    /\ Mul(A, B) = FromInt(a * b) /\ Mul(Pad(A), Pad(B)) = FromInt(a * b)
    /\ (IsZero(A) <=> a = 0) /\ IsZero(<< 0 >>) /\ IsZero(<< >>)
    /\ (Is125(A) <=> \E k \in 0..8 : \E m \in {1, 2, 5} : a = m * 10 ^ k)
    /\ (b <= 6 => Shift(A, b) = FromInt(a * 10 ^ b) /\ ToInt(Pow10(b)) = 10 ^ b)
    /\ Sum(<< A, B, A >>) = FromInt(a + b + a) /\ Sum(<< >>) = Zero
=========================================================================================
