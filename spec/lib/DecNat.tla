------------------------------------ MODULE DecNat ------------------------------------
(* Natural numbers of any size as little-endian sequences of decimal digits (d[1] is the units   *)
(* digit).  TLC's integers are 32-bit; amounts up to MAX_MONEY = 2.1e15 zatoshi and u64 values   *)
(* travel through JSON as digit arrays and are computed with here.  The canonical form has no     *)
(* high-order zero digit; zero is the empty sequence.  Every operator accepts non-canonical input *)
(* (e.g. <<0>> for zero, which is what the Rust loggers write) and returns the canonical form.    *)
(* Model-checked against native arithmetic by MC_DecNat.tla.                                      *)
EXTENDS Naturals, Sequences

IsDigits(d) == /\ DOMAIN d = 1..Len(d)
               /\ \A i \in 1..Len(d) : d[i] \in 0..9

RECURSIVE Norm(_)
Norm(d) == IF Len(d) = 0 THEN << >>
           ELSE IF d[Len(d)] = 0 THEN Norm(SubSeq(d, 1, Len(d) - 1))
           ELSE d

Zero == << >>
IsZero(d) == Norm(d) = << >>

RECURSIVE FromInt(_)
FromInt(n) == IF n = 0 THEN << >> ELSE << n % 10 >> \o FromInt(n \div 10)

RECURSIVE ToIntR(_, _)
ToIntR(d, i) == IF i > Len(d) THEN 0 ELSE d[i] + 10 * ToIntR(d, i + 1)
ToInt(d) == ToIntR(d, 1)              \* only for values that fit a TLC integer

Dig(d, i) == IF i <= Len(d) THEN d[i] ELSE 0
MaxLen(a, b) == IF Len(a) >= Len(b) THEN Len(a) ELSE Len(b)

RECURSIVE AddR(_, _, _, _)
AddR(a, b, i, c) ==
    IF i > MaxLen(a, b) THEN (IF c = 0 THEN << >> ELSE << c >>)
    ELSE LET s == Dig(a, i) + Dig(b, i) + c
         IN  << s % 10 >> \o AddR(a, b, i + 1, s \div 10)
Add(a, b) == Norm(AddR(a, b, 1, 0))

\* comparison, most significant digit first, on canonical forms
RECURSIVE CmpR(_, _, _)
CmpR(a, b, i) == IF i = 0 THEN 1
                 ELSE IF a[i] < b[i] THEN 0
                 ELSE IF a[i] > b[i] THEN 2
                 ELSE CmpR(a, b, i - 1)
\* 0: a < b, 1: a = b, 2: a > b
Cmp(a, b) == LET x == Norm(a)  y == Norm(b)
             IN  IF Len(x) < Len(y) THEN 0
                 ELSE IF Len(x) > Len(y) THEN 2
                 ELSE CmpR(x, y, Len(x))
Lt(a, b)  == Cmp(a, b) = 0
Leq(a, b) == Cmp(a, b) # 2
Eq(a, b)  == Cmp(a, b) = 1

\* a - b for a >= b (the caller checks Leq(b, a); otherwise the result is meaningless)
RECURSIVE SubR(_, _, _, _)
SubR(a, b, i, br) ==
    IF i > Len(a) THEN << >>
    ELSE LET s == Dig(a, i) + 10 - Dig(b, i) - br
         IN  << s % 10 >> \o SubR(a, b, i + 1, 1 - (s \div 10))
Sub(a, b) == Norm(SubR(a, b, 1, 0))

\* a * m for a native multiplier 0 <= m < 10^8 (9*m + carry stays below 2^31)
RECURSIVE MulSmallR(_, _, _, _)
MulSmallR(a, m, i, c) ==
    IF i > Len(a) THEN FromInt(c)
    ELSE LET s == a[i] * m + c
         IN  << s % 10 >> \o MulSmallR(a, m, i + 1, s \div 10)
MulSmall(a, m) == Norm(MulSmallR(a, m, 1, 0))

Shift(a, k) == IF IsZero(a) THEN << >> ELSE [i \in 1..k |-> 0] \o a      \* a * 10^k

RECURSIVE MulR(_, _, _)
MulR(a, b, i) == IF i > Len(b) THEN << >>
                 ELSE Add(Shift(MulSmall(a, b[i]), i - 1), MulR(a, b, i + 1))
Mul(a, b) == MulR(Norm(a), Norm(b), 1)

Pow10(k) == [i \in 1..(k + 1) |-> IF i = k + 1 THEN 1 ELSE 0]

\* the 1-2-5 series is structural in decimal: leading digit 1, 2 or 5, every other digit zero
Is125(d) == LET x == Norm(d)
            IN  /\ Len(x) >= 1
                /\ x[Len(x)] \in {1, 2, 5}
                /\ \A i \in 1..(Len(x) - 1) : x[i] = 0

RECURSIVE SumSeq(_, _)
SumSeq(s, i) == IF i > Len(s) THEN << >> ELSE Add(s[i], SumSeq(s, i + 1))
Sum(s) == SumSeq(s, 1)                \* sum of a sequence of DecNats
=======================================================================================
