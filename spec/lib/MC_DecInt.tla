----------------------------------- MODULE MC_DecInt -----------------------------------
(* DecInt checked against TLC's native arithmetic: every pair of a dense square -R..R, every pair   *)
(* of a sparse set reaching 2^30 (long carry / borrow chains, the four-digit multiplication chunks),*)
(* plus algebraic identities and known answers on 16..30-digit numbers that native integers cannot  *)
(* reach (evaluated once, as ASSUMEs).                                                              *)
EXTENDS DecInt, TLC

CONSTANT R
VARIABLES x, y, done

SparseN == {0, 1, 2, 9, 10, 11, 19, 99, 100, 101, 999, 1000, 1001, 9999, 10000, 10001, 46340, 46341,
            65535, 65536, 99999, 100000, 999999, 1000000, 99999999, 100000000, 199999999,
            999999999, 1000000000, 1073741823}
Sparse == SparseN \cup {-n : n \in SparseN}
XDom == (-R..R) \cup Sparse
YDom(a) == IF a \in (-R..R) THEN (IF a \in Sparse THEN (-R..R) \cup Sparse ELSE -R..R) ELSE Sparse

Abs(n) == IF n < 0 THEN -n ELSE n
Sign(n) == IF n < 0 THEN -1 ELSE IF n > 0 THEN 1 ELSE 0
MulFits(a, b) == a = 0 \/ Abs(b) <= 2147483647 \div Abs(a)

\* one initial state per x (cheap), expanded in parallel into all pairs (x, y)
Init == x \in XDom /\ y = 0 /\ done = FALSE
Pair == ~done /\ y' \in YDom(x) /\ x' = x /\ done' = TRUE
Next == Pair
Spec == Init /\ [][Next]_<<x, y, done>>

Agree ==
    LET X == FromInt(x)  Y == FromInt(y)
    IN  /\ IsDec(X) /\ ToInt(X) = x
        /\ Add(X, Y) = FromInt(x + y) /\ IsDec(Add(X, Y))
        /\ Sub(X, Y) = FromInt(x - y) /\ IsDec(Sub(X, Y))
        /\ Neg(X) = FromInt(-x)
        /\ Cmp(X, Y) = Sign(x - y)
        /\ Leq(X, Y) = (x <= y) /\ Lt(X, Y) = (x < y)
        /\ (X = Y) = (x = y)
        /\ (MulFits(x, y) => Mul(X, Y) = FromInt(x * y) /\ IsDec(Mul(X, Y)))
        /\ (MulFits(x, y) /\ Abs(y) < 200000000 => MulSmall(X, y) = FromInt(x * y))
        /\ DecToString(X) = ToString(x)
        /\ IsNumeral(ToString(x)) /\ DecFromString(ToString(x)) = X

\* ---- beyond 32 bits: identities and known answers
BigS == {"0", "1", "-1", "7", "2100000000000000", "-2100000000000000", "2100000000000001",
         "9223372036854775807", "-9223372036854775808", "18446744073709551615",
         "18446744073709551616", "10000000000000000000", "99999999999999999999",
         "-99999999999999999999", "123456789012345678901234567890", "8784", "100000000"}
Big == {DecFromString(s) : s \in BigS}

ASSUME \A s \in BigS : IsNumeral(s) /\ IsDec(DecFromString(s)) /\ DecToString(DecFromString(s)) = s
ASSUME \A s \in {"", "-", "-0", "00", "01", "-01", "+1", "1a", " 1", "1 ", "0x1", "1.0", "--1"} : ~IsNumeral(s)
ASSUME \A a, b \in Big :
        /\ IsDec(Add(a, b)) /\ IsDec(Sub(a, b)) /\ IsDec(Mul(a, b))
        /\ Sub(Add(a, b), b) = a
        /\ Add(Sub(a, b), b) = a
        /\ Add(a, b) = Add(b, a)
        /\ Mul(a, b) = Mul(b, a)
        /\ Mul(a, Add(b, One)) = Add(Mul(a, b), a)
        /\ Mul(a, Neg(b)) = Neg(Mul(a, b))
        /\ Cmp(a, b) = -Cmp(b, a)
        /\ Leq(a, b) = ~IsNeg(Sub(b, a))
        /\ (Cmp(a, b) = 0) = (a = b)
        /\ \A c \in {DecFromString("2100000000000000"), DecFromString("-18446744073709551615"), FromInt(12345)} :
              /\ Mul(Mul(a, b), c) = Mul(a, Mul(b, c))
              /\ Mul(c, Add(a, b)) = Add(Mul(c, a), Mul(c, b))
              /\ (Leq(a, b) => Leq(Add(a, c), Add(b, c)))
ASSUME Pow(FromInt(2), 64) = DecFromString("18446744073709551616")
ASSUME Pow(FromInt(2), 63) = DecFromString("9223372036854775808")
ASSUME Pow(FromInt(10), 19) = DecFromString("10000000000000000000")
ASSUME Pow(FromInt(256), 8) = Pow(FromInt(2), 64)
ASSUME MulSmall(FromInt(21000000), 100000000) = DecFromString("2100000000000000")
ASSUME Mul(DecFromString("4294967296"), DecFromString("4294967296")) = DecFromString("18446744073709551616")
ASSUME Mul(DecFromString("99999999999999999999"), DecFromString("99999999999999999999"))
         = DecFromString("9999999999999999999800000000000000000001")
ASSUME Sub(DecFromString("10000000000000000000"), One) = DecFromString("9999999999999999999")
ASSUME Add(DecFromString("9999999999999999999"), One) = DecFromString("10000000000000000000")
=========================================================================================
