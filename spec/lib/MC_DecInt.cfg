SPECIFICATION Spec
CONSTANTS
  R = 120
INVARIANT Agree
CHECK_DEADLOCK FALSE
