SPECIFICATION TraceSpec
CONSTANTS
  KnownDanglingBalance = TRUE
  KnownV6OldBranch = TRUE
POSTCONDITION Accepted
CHECK_DEADLOCK FALSE
