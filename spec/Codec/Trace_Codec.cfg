SPECIFICATION TraceSpec
CONSTANTS
  KnownDanglingBalance = FALSE
  KnownV6OldBranch = FALSE
POSTCONDITION Accepted
CHECK_DEADLOCK FALSE
