------------------------------- MODULE MC_CompactSize4 -------------------------------
(* Exhaustive instance of CompactSize at base 4: every one of the 4^8 = 65 536 values, every      *)
(* framing / truncation / extension of each, against the class edges for prefix-freeness; all     *)
(* short vectors and optionals.                                                                   *)
EXTENDS CompactSize
CONSTANT TopDigits     \* values whose two most significant digits are in TopDigits (Digit: all 65 536 values)
VARIABLE v

MaxVDef == << 0, 0, 0, 2, 0, 0, 0, 0 >>          \* 2 * B^3

Top == [i \in 1..W |-> B - 1]
Edges == { Pad(<< 0 >>), Pad(<< TagW2 - 1 >>), Pad(<< TagW2 >>), Pad(<< B - 1 >>), Pad(<< B - 1, B - 1 >>),
           Pad(<< 0, 0, 1 >>), Pad(<< B - 1, B - 1, B - 1, B - 1 >>), Pad(<< 0, 0, 0, 0, 1 >>),
           MaxV, Pad(<< 1, 0, 0, 2 >>), Pad(<< B - 1, B - 1, B - 1, 1 >>), Top }

Init == \E lo \in [1..6 -> Digit], hi \in [7..8 -> TopDigits] : v = [i \in 1..W |-> IF i <= 6 THEN lo[i] ELSE hi[i]]
Next == UNCHANGED v
Spec == Init /\ [][Next]_v

Thm == Theorems(v) /\ \A u \in Edges : PrefixFree(v, u) /\ PrefixFree(u, v)

\* vectors of up to 5 one-digit elements (count classes 1 and 3 digits: TagW2 = 1 at base 4), optionals
ShortSeqs == UNION { [1..n -> {0, B - 1}] : n \in 0..5 }
ASSUME \A xs \in ShortSeqs : VectorLaws(xs)
ASSUME OptionalLaws
\* a vector whose count is written in a wider class than needed is refused
ASSUME \A xs \in ShortSeqs : \A w \in Widths :
          LET c == FromNat(Len(xs)) IN
          (FitsWidth(c, w) /\ w # Width(c)) => ~DecVector(Frame(c, w) \o xs).ok
=========================================================================================
