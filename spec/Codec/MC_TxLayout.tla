------------------------------- MODULE MC_TxLayout -------------------------------
(* Enumerates the shapes valid for every (version, consensus branch) pair - every combination of   *)
(* per-bundle counts from Counts, plus the explicit boundary shapes of Extra (CompactSize class     *)
(* edges in counts, script and proof lengths; the pre-Overwinter versions >= 3) -, checks the       *)
(* TxLayout theorems on each and prints, per shape, the flattened expected token sequence, the      *)
(* total length, the predicted in-memory shape and (for the shapes of the robustness direction)     *)
(* the spec-chosen mutations of every count / amount / constant token.                              *)
EXTENDS TxLayout, Json

CONSTANTS Counts,      \* per-bundle counts of the exhaustive part, e.g. {0, 1, 2}
          Extra,       \* set of explicit additional shapes
          MutCounts,   \* shapes with all counts in MutCounts (and the listed branches) carry mutations
          MutBranches,
          PFCounts,    \* prefix-freeness is checked against all shapes with counts in PFCounts
          Emit

VARIABLES sh, toks, done

MainVersions == { "sprout1", "sprout2", "v3", "v4", "v5", "v6" }

\* script lengths of the exhaustive part: 25 bytes, then the empty script, then assorted short ones
SmallLen(i) == IF i = 1 THEN 25 ELSE IF i = 2 THEN 0 ELSE 1 + ((i * 37) % 200)
SmallLens(n) == [i \in 1..n |-> SmallLen(i)]

Opt(cond, set) == IF cond THEN set ELSE { 0 }

ShapeOf(ver, br, a, b, j, s, o, x, w) ==
    [ver |-> ver, branch |-> br, nIn |-> a, nOut |-> b, nJS |-> j, nSp |-> s, nSO |-> o, nAct |-> x, nIrw |-> w,
     sigLen |-> SmallLens(a), pkLen |-> SmallLens(b),
     proofLen |-> IF x = 0 THEN 0 ELSE CanonProofLen(x), iwProofLen |-> IF w = 0 THEN 0 ELSE CanonProofLen(w)]

ShapesOver(ver, br, cs) ==
    { ShapeOf(ver, br, a, b, j, s, o, x, w) :
        a \in cs, b \in cs, j \in Opt(HasSprout(ver), cs), s \in Opt(HasSapling(ver), cs), o \in Opt(HasSapling(ver), cs),
        x \in Opt(HasOrchard(ver) /\ BundleVersion("orchard", br) # "none", cs),
        w \in Opt(HasIronwood(ver) /\ BundleVersion("ironwood", br) # "none", cs) }

Pairs == { p \in MainVersions \X BranchSet : ValidInBranch(p[1], p[2]) }
BaseShapes == UNION { ShapesOver(p[1], p[2], Counts) : p \in Pairs }
Shapes == BaseShapes \cup Extra

CountsOf(s) == { s.nIn, s.nOut, s.nJS, s.nSp, s.nSO, s.nAct, s.nIrw }
InV(s) == s \in BaseShapes /\ CountsOf(s) \subseteq MutCounts /\ s.branch \in MutBranches

MutsOf(s, ts) == UNION { { [t |-> j, m |-> mu.m, bytes |-> mu.bytes, rej |-> mu.rej] : mu \in Mutations(ts[j], s) } : j \in DOMAIN ts }

CaseRec(s, ts) == [shape |-> s, tokens |-> ts, total |-> SumLen(ts, 1), mem |-> Mem(s),
                   v |-> InV(s), muts |-> IF InV(s) THEN MutsOf(s, ts) ELSE { }]

\* the token sequence is computed once per shape, in the (parallel) Eval step
Init == sh \in Shapes /\ toks = << >> /\ done = FALSE
Eval == /\ ~done /\ done' = TRUE /\ UNCHANGED sh
        /\ toks' = Tokens(sh)
        /\ Emit => PrintT(<< "CASE", ToJson(CaseRec(sh, toks')) >>)
Next == Eval
Spec == Init /\ [][Next]_<< sh, toks, done >>

Thm == WellFormed(sh) /\ (done => ParseInverseT(sh, toks) /\ LengthLawT(sh, toks))
\* prefix-freeness against every shape with counts in PFCounts, for the first branch of each version
\* (the layouts of a version under its other branches differ only in the branch-id constant)
FirstBranch(ver) == Branches[CHOOSE i \in DOMAIN Branches : ValidInBranch(ver, Branches[i]) /\ \A j \in 1..(i - 1) : ~ValidInBranch(ver, Branches[j])]
PF == (done /\ sh \in BaseShapes /\ sh.branch = FirstBranch(sh.ver) /\ CountsOf(sh) \subseteq PFCounts) =>
          \A t \in ShapesOver(sh.ver, sh.branch, PFCounts) : PrefixFree(sh, t) /\ PrefixFree(t, sh)

ASSUME GrammarClosed
ASSUME TablesInjective
ASSUME MutationsSound
ASSUME Emit => PrintT(<< "HDR", ToJson(HeaderCases) >>)
ASSUME Emit => PrintT(<< "WCASES", ToJson(Unrepresentable) >>)
ASSUME Emit => PrintT(<< "CONST", ToJson([maxMoney |-> MaxMoney, pairs |-> Pairs,
                                          branchIds |-> [b \in BranchSet |-> BranchId(b)],
                                          groupIds |-> [v \in { "v3", "v4", "v5", "v6" } |-> GroupId(v)]]) >>)
=========================================================================================
