--------------------------------- MODULE CompactSize ---------------------------------
(* C03 - the CompactSize integer encoding and the Vector / Array / Optional combinators built on   *)
(* it (Zcash protocol spec 7.1 "compactSize", Bitcoin's CompactSize with the canonicity rule,      *)
(* rustdoc of components/zcash_encoding).                                                          *)
(*                                                                                                 *)
(* Numbers are never TLC integers: a value is a sequence of W = 8 digits in base B, little-endian  *)
(* (B = 256: the eight bytes of a u64).  Every rule below is structural in the digits, so the same *)
(* module is checked EXHAUSTIVELY for a tiny base (B = 4: all 65 536 values, every framing of      *)
(* every value) and instantiated at B = 256 to compute the expected encodings / verdicts for the   *)
(* conformance harness (boundary values and seeded values, MC_CompactSize256).                     *)
(*                                                                                                 *)
(*   Enc(v)          the encoding: 1 digit if v < B-3, else tag B-3 / B-2 / B-1 followed by the    *)
(*                   2 / 4 / 8 low digits, using the narrowest class that holds v                  *)
(*   DecU(bs)        unbounded reader: result of reading one CompactSize from the front of bs      *)
(*   DecB(bs)        bounded reader: additionally rejects values above MaxV (MAX_COMPACT_SIZE)     *)
(*   WriteU / WriteB unbounded / bounded writer (the bounded one refuses values above MaxV)        *)
(*   Theorems        RoundTrip, Canonical (a string decodes iff it starts with the Enc of the      *)
(*                   value: no second representation), PrefixFree, TrailingUnread, Truncated,      *)
(*                   Bounded, Monotone widths                                                      *)
EXTENDS Naturals, Sequences, FiniteSets, TLC

CONSTANTS B,       \* digit base (256 for bytes)
          MaxV     \* MAX_COMPACT_SIZE as a value (2 * B^3, i.e. 0x02000000 for B = 256)

W == 8
Digit == 0..(B - 1)
Value == [1..W -> Digit]

TagW2 == B - 3
TagW4 == B - 2
TagW8 == B - 1

ZeroFrom(v, k) == \A i \in k..W : v[i] = 0
Fits1(v) == ZeroFrom(v, 2) /\ v[1] < TagW2
Fits2(v) == ZeroFrom(v, 3)
Fits4(v) == ZeroFrom(v, 5)

Low(v, w) == [i \in 1..w |-> v[i]]
Pad(ds) == [i \in 1..W |-> IF i <= Len(ds) THEN ds[i] ELSE 0]

\* comparison, most significant digit first
RECURSIVE LeqFrom(_, _, _)
LeqFrom(a, b, i) == IF i = 0 THEN TRUE
                    ELSE IF a[i] < b[i] THEN TRUE
                    ELSE IF a[i] > b[i] THEN FALSE
                    ELSE LeqFrom(a, b, i - 1)
Leq(a, b) == LeqFrom(a, b, W)

RECURSIVE Digits(_, _)
Digits(n, k) == IF k = 0 THEN << >> ELSE << n % B >> \o Digits(n \div B, k - 1)
FromNat(n) == Digits(n, W)                        \* n a TLC natural
RECURSIVE ToNatFrom(_, _)
ToNatFrom(v, i) == IF i > 4 THEN 0 ELSE v[i] + B * ToNatFrom(v, i + 1)
ToNat(v) == ToNatFrom(v, 1)                       \* only for v <= MaxV (fits a TLC integer)

-----------------------------------------------------------------------------------------
\* The encoding

Width(v) == IF Fits1(v) THEN 0 ELSE IF Fits2(v) THEN 2 ELSE IF Fits4(v) THEN 4 ELSE 8
TagOf(w) == CASE w = 2 -> TagW2 [] w = 4 -> TagW4 [] w = 8 -> TagW8
Frame(v, w) == IF w = 0 THEN << v[1] >> ELSE << TagOf(w) >> \o Low(v, w)    \* v written in class w
Enc(v) == Frame(v, Width(v))
EncLen(v) == 1 + Width(v)

\* classes in which v can be *framed* at all (the digits above the class width are zero)
FitsWidth(v, w) == CASE w = 0 -> Fits1(v) [] w = 2 -> Fits2(v) [] w = 4 -> Fits4(v) [] w = 8 -> TRUE
Widths == {0, 2, 4, 8}

-----------------------------------------------------------------------------------------
\* The readers.  A result is [ok |-> TRUE, v |-> value, n |-> digits consumed] or [ok |-> FALSE, why |-> ..]

Ok(v, n) == [ok |-> TRUE, v |-> v, n |-> n]
Rej(why) == [ok |-> FALSE, why |-> why]

DecU(bs) ==
    IF Len(bs) < 1 THEN Rej("eof")
    ELSE LET f == bs[1]
         IN  IF f < TagW2 THEN Ok(Pad(<< f >>), 1)
             ELSE LET w == IF f = TagW2 THEN 2 ELSE IF f = TagW4 THEN 4 ELSE 8
                  IN  IF Len(bs) < 1 + w THEN Rej("eof")
                      ELSE LET v == Pad(SubSeq(bs, 2, 1 + w))
                           IN  \* "the value could have been written in a narrower class" => invalid
                               IF (w = 2 /\ Fits1(v)) \/ (w = 4 /\ Fits2(v)) \/ (w = 8 /\ Fits4(v))
                               THEN Rej("noncanonical")
                               ELSE Ok(v, 1 + w)

DecB(bs) == LET r == DecU(bs)
            IN  IF r.ok /\ ~Leq(r.v, MaxV) THEN Rej("toolarge") ELSE r

WriteU(v) == [ok |-> TRUE, bytes |-> Enc(v)]
WriteB(v) == IF Leq(v, MaxV) THEN [ok |-> TRUE, bytes |-> Enc(v)] ELSE [ok |-> FALSE, bytes |-> << >>]

-----------------------------------------------------------------------------------------
\* Vector (count prefix read with the BOUNDED reader, then `count` elements), Array (no prefix),
\* Optional (one flag digit 0 / 1).  Elements are single digits here (the element codec is a parameter
\* of the real combinators; one-digit elements exercise exactly the counting).

EncVector(xs) == Enc(FromNat(Len(xs))) \o xs
DecVector(bs) ==
    LET c == DecB(bs)
    IN  IF ~c.ok THEN Rej(c.why)
        ELSE LET n == ToNat(c.v)
             IN  IF Len(bs) < c.n + n THEN Rej("eof")
                 ELSE [ok |-> TRUE, xs |-> SubSeq(bs, c.n + 1, c.n + n), n |-> c.n + n]
DecArray(bs, k) == IF Len(bs) < k THEN Rej("eof") ELSE [ok |-> TRUE, xs |-> SubSeq(bs, 1, k), n |-> k]

EncOptional(o) == IF o = << >> THEN << 0 >> ELSE << 1 >> \o o          \* o: << >> (None) or << x >> (Some)
DecOptional(bs) ==
    IF Len(bs) < 1 THEN Rej("eof")
    ELSE IF bs[1] = 0 THEN [ok |-> TRUE, xs |-> << >>, n |-> 1]
    ELSE IF bs[1] = 1 THEN (IF Len(bs) < 2 THEN Rej("eof") ELSE [ok |-> TRUE, xs |-> << bs[2] >>, n |-> 2])
    ELSE Rej("noncanonical")

-----------------------------------------------------------------------------------------
\* Theorems about one value v (checked for every v of the instance)

IsPrefix(a, b) == Len(a) <= Len(b) /\ SubSeq(b, 1, Len(a)) = a

RoundTrip(v) == DecU(Enc(v)) = Ok(v, Len(Enc(v)))

\* every framing of v other than Enc(v) is refused; so a string decodes to v iff it starts with Enc(v)
Canonical(v) == \A w \in Widths : FitsWidth(v, w) =>
                    LET r == DecU(Frame(v, w))
                    IN  IF w = Width(v) THEN r = Ok(v, 1 + w) ELSE r = Rej("noncanonical")

Shortest(v) == \A w \in Widths : FitsWidth(v, w) => Width(v) <= w

TrailingUnread(v) == \A x \in {0, TagW2, B - 1} : DecU(Enc(v) \o << x >>) = Ok(v, Len(Enc(v)))

Truncated(v) == \A k \in 0..(Len(Enc(v)) - 1) : DecU(SubSeq(Enc(v), 1, k)) = Rej("eof")

Bounded(v) == /\ DecB(Enc(v)) = (IF Leq(v, MaxV) THEN Ok(v, Len(Enc(v))) ELSE Rej("toolarge"))
              /\ WriteB(v).ok = Leq(v, MaxV)
              /\ WriteB(v).ok => WriteB(v).bytes = WriteU(v).bytes

\* the first digit alone determines how many digits a reader consumes
LengthFromTag(v) == LET e == Enc(v)
                    IN  Len(e) = (IF e[1] < TagW2 THEN 1 ELSE IF e[1] = TagW2 THEN 3 ELSE IF e[1] = TagW4 THEN 5 ELSE 9)

Theorems(v) == RoundTrip(v) /\ Canonical(v) /\ Shortest(v) /\ TrailingUnread(v) /\ Truncated(v)
               /\ Bounded(v) /\ LengthFromTag(v)

\* two values: encodings are distinct and neither is a prefix of the other
PrefixFree(v, u) == v # u => ~IsPrefix(Enc(v), Enc(u))

\* vectors / optionals over short digit strings
VectorLaws(xs) == /\ DecVector(EncVector(xs)) = [ok |-> TRUE, xs |-> xs, n |-> Len(EncVector(xs))]
                  /\ DecVector(EncVector(xs) \o << 1 >>).n = Len(EncVector(xs))
                  /\ Len(xs) > 0 => ~DecVector(SubSeq(EncVector(xs), 1, Len(EncVector(xs)) - 1)).ok
OptionalLaws == /\ DecOptional(EncOptional(<< >>)) = [ok |-> TRUE, xs |-> << >>, n |-> 1]
                /\ \A x \in {0, 1, 2, B - 1} : DecOptional(EncOptional(<< x >>)) = [ok |-> TRUE, xs |-> << x >>, n |-> 2]
                /\ \A f \in Digit \ {0, 1} : ~DecOptional(<< f, 0 >>).ok
=========================================================================================
