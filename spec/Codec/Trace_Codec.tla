---------------------------------- MODULE Trace_Codec ----------------------------------
(* C03, code -> spec (robustness).  Every line of the ndjson file IOEnv.TRACE is one byte string   *)
(* derived from a valid encoding and what the real parser did with it:                             *)
(*   ver, br      version / branch of the valid encoding ("hdr": a block header)                    *)
(*   m            the derivation: id | trunc | extend | flip | a mutation name of TxLayout          *)
(*   tk tn sg tv tval   the token it touches (kind, name, amount sign, count value, constant)       *)
(*   mb           the replacement bytes (spec mutations)                                           *)
(*   len, base    length of the byte string / of the valid encoding                                *)
(*   out          acc | rej | panic;   consumed  bytes the parser took                             *)
(*   wrote        the accepted value could be serialised again;  reser_len, reser_eq  that         *)
(*                serialisation's length / whether it equals the consumed bytes                    *)
(*   reparse      same | same_fields | diff | rej | short | panic: parsing the re-serialisation     *)
(*                gives the same value (same_fields: all fields equal, identifier differs)         *)
(*   same_as_base the accepted value equals the value of the valid encoding                        *)
(*   pv pb porch psap dvb   version / branch / Orchard / Sapling presence of the accepted value;   *)
(*                dvb: the re-serialisation differs only by zeroing one 8-byte window              *)
(* Laws: never a panic; a strict prefix of a valid encoding is rejected (the format is             *)
(* self-delimiting, TxLayout!ParseInverse); a mutation the specification marks invalid             *)
(* (non-minimal count, count above MAX_COMPACT_SIZE, out-of-range amount, undefined version /      *)
(* group id / branch id) is rejected; the valid encoding itself and any extension of it are        *)
(* accepted with consumed = the valid length and the same value (no over-read); whatever is        *)
(* accepted was consumed from within the input, can be written, its re-serialisation equals the    *)
(* consumed bytes (canonical) and parses to the same value.                                        *)
(* KnownDanglingBalance / KnownV6OldBranch tolerate exactly the two documented deviations of the   *)
(* pinned tree when known_findings.json lists them (see notes/c03-report.md).                      *)
EXTENDS TxLayout, Json, IOUtils

CONSTANTS KnownDanglingBalance, KnownV6OldBranch
VARIABLE l

Rec == ndJsonDeserialize(IOEnv.TRACE)

Derivations == { "id", "trunc", "extend", "flip" }
Tok(e) == [k |-> e.tk, n |-> e.tn, sg |-> e.sg, v |-> e.tv, val |-> e.tval]
Sh(e) == [ver |-> e.ver, branch |-> e.br]

\* the record's mutation really is one the specification lists for that token, with those bytes
SpecMut(e) == { mu \in Mutations(Tok(e), Sh(e)) : mu.m = e.m /\ mu.bytes = e.mb }
WellFormedRec(e) ==
    /\ e.out \in { "acc", "rej", "panic" }
    /\ e.ver \in Versions \cup { "hdr" }
    /\ e.m \in Derivations \/ SpecMut(e) # { }
    /\ e.m = "trunc" => e.len < e.base
    /\ e.m = "extend" => e.len > e.base
    /\ e.m = "id" => e.len = e.base

MustReject(e) == e.m = "trunc" \/ (e.m \notin Derivations /\ \E mu \in SpecMut(e) : mu.rej)
MustAcceptAsBase(e) == e.m \in { "id", "extend" }

Canonical(e) == e.wrote /\ e.reser_eq /\ e.reser_len = e.consumed /\ e.reparse = "same"
\* pinned tree: a v4 encoding without Sapling spends/outputs and a non-zero valueBalanceSapling is
\* accepted, the balance dropped; the identifier no longer matches what the value serialises to
DanglingBalance(e) == /\ KnownDanglingBalance /\ e.pv = "v4" /\ ~e.psap /\ e.wrote /\ ~e.reser_eq /\ e.dvb
                      /\ e.reser_len = e.consumed /\ e.reparse = "same_fields"
\* pinned tree: a v6 encoding whose header names a pre-NU6.3 branch and that has Orchard actions is
\* accepted although the value cannot be written
V6OldBranch(e) == /\ KnownV6OldBranch /\ e.pv = "v6" /\ e.pb \in { "Nu5", "Nu6", "Nu6_1", "Nu6_2" } /\ e.porch /\ ~e.wrote

AcceptedOK(e) == e.consumed <= e.len /\ (Canonical(e) \/ DanglingBalance(e) \/ V6OldBranch(e))

Allowed(e) ==
    /\ WellFormedRec(e)
    /\ e.out # "panic"
    /\ MustReject(e) => e.out = "rej"
    /\ MustAcceptAsBase(e) => e.out = "acc" /\ e.consumed = e.base /\ e.same_as_base /\ Canonical(e)
    /\ e.out = "acc" => AcceptedOK(e)

\* short codes (one printed line); checks/c03.py expands them
Why(e) == IF ~WellFormedRec(e) THEN "malformed"
          ELSE IF e.out = "panic" THEN "panic"
          ELSE IF MustReject(e) /\ e.out # "rej" THEN "must-reject"
          ELSE IF MustAcceptAsBase(e) /\ ~(e.out = "acc" /\ e.consumed = e.base /\ e.same_as_base /\ Canonical(e))
               THEN "must-accept"
          ELSE IF e.consumed > e.len THEN "over-consumed"
          ELSE IF ~e.wrote THEN "unwritable"
          ELSE IF e.reparse # "same" THEN "reparse-differs"
          ELSE "non-canonical"

IsEnd(e) == e.m = "end" /\ e.len = l - 1

TraceInit == l = 1
TraceNext == /\ l <= Len(Rec)
             /\ IF Rec[l].m = "end" THEN IsEnd(Rec[l]) /\ l = Len(Rec) ELSE Allowed(Rec[l])
             /\ l' = l + 1
TraceSpec == TraceInit /\ [][TraceNext]_l

Accepted == LET n == TLCGet("stats").diameter - 1
            IN  IF n = Len(Rec) /\ n >= 1 /\ Rec[n].m = "end"
                THEN PrintT(<< "TRACE", "accepted", n >>)
                ELSE IF n = Len(Rec)
                THEN PrintT(<< "TRACE", "rejected", n + 1, "missing-end" >>) /\ FALSE
                ELSE PrintT(<< "TRACE", "rejected", n + 1,
                               IF Rec[n + 1].m = "end" THEN "misplaced-end" ELSE Why(Rec[n + 1]) >>) /\ FALSE
=========================================================================================
