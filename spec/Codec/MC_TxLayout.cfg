\* default configuration (checks/c03.py generates its own with the seeded Extra shapes)
SPECIFICATION Spec
CONSTANTS
  Counts = {0, 1}
  Extra = {}
  MutCounts = {0, 1}
  MutBranches = {"Sprout", "Overwinter", "Sapling", "Nu5", "Nu6_2", "Nu6_3"}
  PFCounts = {0, 1}
  Emit = FALSE
INVARIANTS Thm PF
CHECK_DEADLOCK FALSE
