----------------------------------- MODULE TxLayout -----------------------------------
(* C03 - the transaction wire formats as DATA.                                                     *)
(*                                                                                                 *)
(* For every transaction version (pre-Overwinter 1, 2, >=3; v3 Overwinter; v4 Sapling; v5 ZIP 225; *)
(* v6: the v5 layout followed by an Ironwood bundle in the Orchard layout) the grammar is a         *)
(* sequence of field descriptors                                                                    *)
(*     F(name, len)            fixed-length field                                                   *)
(*     K(name, which)          4-byte field whose VALUE the format fixes (header, group id, branch) *)
(*     A(name, sign)           8-byte amount: "u" in 0..MAX_MONEY, "s" in -MAX_MONEY..MAX_MONEY     *)
(*     C(name, var)            CompactSize count, binds the shape variable var                      *)
(*     S(name, var, indexed)   CompactSize length followed by that many bytes (scripts, proofs)     *)
(*     R(var, body)            body repeated var times, no prefix (the count was read earlier)      *)
(*     I(vars, body)           body present iff the sum of the (already read) vars is non-zero      *)
(* written from the protocol specification 7.1, ZIP 225 and the rustdoc of the pinned tree for v6 / *)
(* Ironwood - not from the control flow of the readers.                                             *)
(*                                                                                                 *)
(* A SHAPE fixes version, consensus branch and every count.  Flat(shape) is the flattened token     *)
(* sequence a serialisation of a transaction of that shape must consist of (counts with the bytes   *)
(* CompactSize!Enc gives them), Mem(shape) what a parser must hold afterwards (a bundle is absent   *)
(* exactly when it is empty; the Orchard-protocol bundle version is the one its pool has under the  *)
(* branch).  Theorems: ParseInverse (a generic parser driven only by the grammar and the tokens'    *)
(* kinds, lengths and count values recovers the shape and consumes exactly the tokens - the format  *)
(* is self-delimiting), PrefixFree, GrammarClosed (conditionals and repetitions only refer to       *)
(* variables read before), LengthLaw.  Mutations(tok) are the spec-chosen invalid re-encodings.     *)
EXTENDS Naturals, Sequences, FiniteSets, TLC

CS == INSTANCE CompactSize WITH B <- 256, MaxV <- << 0, 0, 0, 2, 0, 0, 0, 0 >>

-----------------------------------------------------------------------------------------
\* Constants of the formats (little-endian bytes)

Versions == { "sprout1", "sprout2", "sprout3", "sprout2147483647", "v3", "v4", "v5", "v6" }
SproutVersions == { "sprout1", "sprout2", "sprout3", "sprout2147483647" }
Branches == << "Sprout", "Overwinter", "Sapling", "Blossom", "Heartwood", "Canopy", "Nu5", "Nu6", "Nu6_1", "Nu6_2", "Nu6_3" >>
BranchSet == { Branches[i] : i \in DOMAIN Branches }
BranchIdx(b) == CHOOSE i \in DOMAIN Branches : Branches[i] = b

\* header word = version number, bit 31 = fOverwintered
HeaderBytes(ver) == CASE ver = "sprout1" -> << 1, 0, 0, 0 >>
                      [] ver = "sprout2" -> << 2, 0, 0, 0 >>
                      [] ver = "sprout3" -> << 3, 0, 0, 0 >>
                      [] ver = "sprout2147483647" -> << 255, 255, 255, 127 >>
                      [] ver = "v3" -> << 3, 0, 0, 128 >>
                      [] ver = "v4" -> << 4, 0, 0, 128 >>
                      [] ver = "v5" -> << 5, 0, 0, 128 >>
                      [] ver = "v6" -> << 6, 0, 0, 128 >>
\* nVersionGroupId: 0x03C48270, 0x892F2085, 0x26A7270A, 0xD884B698
GroupId(ver) == CASE ver = "v3" -> << 112, 130, 196, 3 >>
                  [] ver = "v4" -> << 133, 32, 47, 137 >>
                  [] ver = "v5" -> << 10, 39, 167, 38 >>
                  [] ver = "v6" -> << 152, 182, 132, 216 >>
\* consensus branch ids (ZIP 200 and the ZIPs of each upgrade; NU6.2 / NU6.3 from the pinned tree's rustdoc)
BranchId(b) == CASE b = "Sprout"     -> << 0, 0, 0, 0 >>            \* 0
                 [] b = "Overwinter" -> << 25, 27, 168, 91 >>       \* 0x5ba81b19
                 [] b = "Sapling"    -> << 187, 9, 184, 118 >>      \* 0x76b809bb
                 [] b = "Blossom"    -> << 96, 14, 180, 43 >>       \* 0x2bb40e60
                 [] b = "Heartwood"  -> << 11, 35, 185, 245 >>      \* 0xf5b9230b
                 [] b = "Canopy"     -> << 166, 117, 255, 233 >>    \* 0xe9ff75a6
                 [] b = "Nu5"        -> << 180, 208, 214, 194 >>    \* 0xc2d6d0b4
                 [] b = "Nu6"        -> << 85, 16, 231, 200 >>      \* 0xc8e71055
                 [] b = "Nu6_1"      -> << 240, 77, 236, 77 >>      \* 0x4dec4df0
                 [] b = "Nu6_2"      -> << 48, 243, 55, 84 >>       \* 0x5437f330
                 [] b = "Nu6_3"      -> << 91, 22, 165, 55 >>       \* 0x37a5165b

HasOverwinter(ver) == ver \notin SproutVersions
HasSprout(ver) == ver \in { "sprout2", "sprout3", "sprout2147483647", "v3", "v4" }
HasSapling(ver) == ver \in { "v4", "v5", "v6" }
HasOrchard(ver) == ver \in { "v5", "v6" }
HasIronwood(ver) == ver = "v6"
CommitsBranch(ver) == ver \in { "v5", "v6" }       \* the branch id is on the wire

\* which versions may be mined under which branch (ZIP 202 / 243 / 225; v4 stays valid; v6 from NU6.3)
ValidInBranch(ver, b) ==
    CASE ver \in SproutVersions -> b = "Sprout"
      [] ver = "v3" -> b = "Overwinter"
      [] ver = "v4" -> BranchIdx(b) >= BranchIdx("Sapling")
      [] ver = "v5" -> BranchIdx(b) >= BranchIdx("Nu5")
      [] ver = "v6" -> BranchIdx(b) >= BranchIdx("Nu6_3")

\* the Orchard-protocol bundle version of a pool under a branch ("none": the pool does not exist)
BundleVersion(pool, b) ==
    IF pool = "orchard"
    THEN CASE b \in { "Nu5", "Nu6", "Nu6_1" } -> "orchard_insecure_v1"
           [] b = "Nu6_2" -> "orchard_v2"
           [] b = "Nu6_3" -> "orchard_v3"
           [] OTHER -> "none"
    ELSE IF b = "Nu6_3" THEN "ironwood_v3" ELSE "none"
\* every bundle version except the historical one requires the canonical proof length (ZIP 225: 2720 + 2272 n)
EnforcesProofSize(bv) == bv \notin { "orchard_insecure_v1", "none" }
CanonProofLen(n) == 2720 + 2272 * n

PhgrProofLen == 296
GrothProofLen == 192

-----------------------------------------------------------------------------------------
\* Descriptors

F(n, len) == [k |-> "f", n |-> n, len |-> len]
K(n, which) == [k |-> "k", n |-> n, len |-> 4, c |-> which]
A(n, sg) == [k |-> "a", n |-> n, len |-> 8, sg |-> sg]
C(n, var) == [k |-> "c", n |-> n, var |-> var]
S(n, var, ix) == [k |-> "s", n |-> n, var |-> var, ix |-> ix]
R(var, body) == [k |-> "r", var |-> var, body |-> body]
I(vars, body) == [k |-> "i", any |-> vars, body |-> body]

TxIn == << F("in.prevout_hash", 32), F("in.prevout_n", 4), S("in.script", "sigLen", TRUE), F("in.sequence", 4) >>
TxOut == << A("out.value", "u"), S("out.script", "pkLen", TRUE) >>
Transparent == << C("nIn", "nIn"), R("nIn", TxIn), C("nOut", "nOut"), R("nOut", TxOut) >>

JoinSplit(proofLen) ==
    << A("js.vpub_old", "u"), A("js.vpub_new", "u"), F("js.anchor", 32), F("js.nullifiers", 64),
       F("js.commitments", 64), F("js.epk", 32), F("js.random_seed", 32), F("js.macs", 64),
       F("js.proof", proofLen), F("js.ciphertexts", 1202) >>
Sprout(proofLen) == << C("nJS", "nJS"), R("nJS", JoinSplit(proofLen)),
                       I({ "nJS" }, << F("sprout.pubkey", 32), F("sprout.sig", 64) >>) >>

SpendV4 == << F("spend.cv", 32), F("spend.anchor", 32), F("spend.nf", 32), F("spend.rk", 32),
              F("spend.proof", 192), F("spend.sig", 64) >>
OutputV4 == << F("output.cv", 32), F("output.cmu", 32), F("output.epk", 32), F("output.enc", 580),
               F("output.out", 80), F("output.proof", 192) >>
SpendV5 == << F("spend.cv", 32), F("spend.nf", 32), F("spend.rk", 32) >>
OutputV5 == << F("output.cv", 32), F("output.cmu", 32), F("output.epk", 32), F("output.enc", 580), F("output.out", 80) >>

SaplingV5 ==
    << C("nSp", "nSp"), R("nSp", SpendV5), C("nSO", "nSO"), R("nSO", OutputV5),
       I({ "nSp", "nSO" }, << A("sapling.vb", "s") >>),
       I({ "nSp" }, << F("sapling.anchor", 32) >>),
       R("nSp", << F("spend.proof", 192) >>),
       R("nSp", << F("spend.sig", 64) >>),
       R("nSO", << F("output.proof", 192) >>),
       I({ "nSp", "nSO" }, << F("sapling.binding", 64) >>) >>

\* an Orchard-protocol bundle; p = "orchard" | "ironwood", nv its action count, plv its proof length
OrchardLike(p, nv, plv) ==
    << C(nv, nv),
       R(nv, << F(p \o ".cv", 32), F(p \o ".nf", 32), F(p \o ".rk", 32), F(p \o ".cmx", 32),
                F(p \o ".epk", 32), F(p \o ".enc", 580), F(p \o ".out", 80) >>),
       I({ nv }, << F(p \o ".flags", 1), A(p \o ".vb", "s"), F(p \o ".anchor", 32), S(p \o ".proof", plv, FALSE),
                    R(nv, << F(p \o ".sig", 64) >>), F(p \o ".binding", 64) >>) >>

Grammar(ver) ==
    CASE ver = "sprout1" ->
           << K("header", "header") >> \o Transparent \o << F("lock_time", 4) >>
      [] ver \in { "sprout2", "sprout3", "sprout2147483647" } ->
           << K("header", "header") >> \o Transparent \o << F("lock_time", 4) >> \o Sprout(PhgrProofLen)
      [] ver = "v3" ->
           << K("header", "header"), K("vgid", "vgid") >> \o Transparent
              \o << F("lock_time", 4), F("expiry", 4) >> \o Sprout(PhgrProofLen)
      [] ver = "v4" ->
           << K("header", "header"), K("vgid", "vgid") >> \o Transparent
              \o << F("lock_time", 4), F("expiry", 4), A("sapling.vb", "s"),
                    C("nSp", "nSp"), R("nSp", SpendV4), C("nSO", "nSO"), R("nSO", OutputV4) >>
              \o Sprout(GrothProofLen)
              \o << I({ "nSp", "nSO" }, << F("sapling.binding", 64) >>) >>
      [] ver = "v5" ->
           << K("header", "header"), K("vgid", "vgid"), K("branch", "branch"), F("lock_time", 4), F("expiry", 4) >>
              \o Transparent \o SaplingV5 \o OrchardLike("orchard", "nAct", "proofLen")
      [] ver = "v6" ->
           << K("header", "header"), K("vgid", "vgid"), K("branch", "branch"), F("lock_time", 4), F("expiry", 4) >>
              \o Transparent \o SaplingV5 \o OrchardLike("orchard", "nAct", "proofLen")
              \o OrchardLike("ironwood", "nIrw", "iwProofLen")

\* the variables a grammar reads from the wire (in reading order)
RECURSIVE BoundBy(_)
BoundBy(ds) == IF ds = << >> THEN << >>
               ELSE LET d == Head(ds)
                    IN  (CASE d.k \in { "c", "s" } -> << d.var >>
                           [] d.k \in { "r", "i" } -> BoundBy(d.body)
                           [] OTHER -> << >>) \o BoundBy(Tail(ds))
WireVars(ver) == { BoundBy(Grammar(ver))[j] : j \in DOMAIN BoundBy(Grammar(ver)) }

\* GrammarClosed: every R / I only uses variables bound by an earlier C / S of the sequence
RECURSIVE ClosedFrom(_, _)
ClosedFrom(ds, bound) ==
    IF ds = << >> THEN TRUE
    ELSE LET d == Head(ds)
         IN  CASE d.k \in { "c", "s" } -> ClosedFrom(Tail(ds), bound \cup { d.var })
               [] d.k = "r" -> d.var \in bound /\ ClosedFrom(d.body, bound) /\ ClosedFrom(Tail(ds), bound)
               [] d.k = "i" -> d.any \subseteq bound /\ ClosedFrom(d.body, bound) /\ ClosedFrom(Tail(ds), bound)
               [] OTHER -> ClosedFrom(Tail(ds), bound)
GrammarClosed == \A ver \in Versions : ClosedFrom(Grammar(ver), { })

-----------------------------------------------------------------------------------------
\* Shapes

AllVars == { "nIn", "nOut", "nJS", "nSp", "nSO", "nAct", "nIrw", "proofLen", "iwProofLen" }

\* sh = [ver, branch, nIn, nOut, nJS, nSp, nSO, nAct, nIrw : Nat, sigLen, pkLen : sequences of Nat,
\*       proofLen, iwProofLen : Nat (bytes of the Orchard / Ironwood proof; 0 when there is no bundle)]
WellFormed(sh) ==
    /\ sh.ver \in Versions /\ sh.branch \in BranchSet /\ ValidInBranch(sh.ver, sh.branch)
    /\ Len(sh.sigLen) = sh.nIn /\ Len(sh.pkLen) = sh.nOut
    /\ (sh.nJS > 0 => HasSprout(sh.ver))
    /\ (sh.nSp + sh.nSO > 0 => HasSapling(sh.ver))
    /\ (sh.nAct > 0 => HasOrchard(sh.ver) /\ BundleVersion("orchard", sh.branch) # "none")
    /\ (sh.nIrw > 0 => HasIronwood(sh.ver) /\ BundleVersion("ironwood", sh.branch) # "none")
    /\ (IF sh.nAct = 0 THEN sh.proofLen = 0
        ELSE EnforcesProofSize(BundleVersion("orchard", sh.branch)) => sh.proofLen = CanonProofLen(sh.nAct))
    /\ (IF sh.nIrw = 0 THEN sh.iwProofLen = 0 ELSE sh.iwProofLen = CanonProofLen(sh.nIrw))

ConstVal(which, sh) == CASE which = "header" -> HeaderBytes(sh.ver)
                         [] which = "vgid" -> GroupId(sh.ver)
                         [] which = "branch" -> BranchId(sh.branch)

CountTok(n, i, v) == [k |-> "c", n |-> n, i |-> i, v |-> v, enc |-> CS!Enc(CS!FromNat(v))]

RECURSIVE Flat(_, _, _)
RECURSIVE FlatRep(_, _, _, _)
FlatOne(d, sh, i) ==
    CASE d.k = "f" -> << [k |-> "f", n |-> d.n, i |-> i, len |-> d.len] >>
      [] d.k = "k" -> << [k |-> "k", n |-> d.n, i |-> i, len |-> 4, val |-> ConstVal(d.c, sh)] >>
      [] d.k = "a" -> << [k |-> "a", n |-> d.n, i |-> i, len |-> 8, sg |-> d.sg] >>
      [] d.k = "c" -> << CountTok(d.n, i, sh[d.var]) >>
      [] d.k = "s" -> LET l == IF d.ix THEN sh[d.var][i] ELSE sh[d.var]
                      IN  << CountTok(d.n \o ".len", i, l), [k |-> "f", n |-> d.n, i |-> i, len |-> l] >>
      [] d.k = "r" -> FlatRep(d.body, sh, 1, sh[d.var])
      [] d.k = "i" -> IF \E v \in d.any : sh[v] > 0 THEN Flat(d.body, sh, i) ELSE << >>
Flat(ds, sh, i) == IF ds = << >> THEN << >> ELSE FlatOne(Head(ds), sh, i) \o Flat(Tail(ds), sh, i)
FlatRep(body, sh, j, n) == IF j > n THEN << >> ELSE Flat(body, sh, j) \o FlatRep(body, sh, j + 1, n)

Tokens(sh) == Flat(Grammar(sh.ver), sh, 0)

TokLen(t) == IF t.k = "c" THEN Len(t.enc) ELSE t.len
RECURSIVE SumLen(_, _)
SumLen(ts, j) == IF j > Len(ts) THEN 0 ELSE TokLen(ts[j]) + SumLen(ts, j + 1)
TotalLen(sh) == SumLen(Tokens(sh), 1)

\* what a parser holds after reading a serialisation of shape sh
Mem(sh) == [ transparent |-> sh.nIn + sh.nOut > 0,
             sprout      |-> sh.nJS > 0,
             sapling     |-> sh.nSp + sh.nSO > 0,
             orchard     |-> sh.nAct > 0,
             ironwood    |-> sh.nIrw > 0,
             orchardVersion  |-> IF sh.nAct > 0 THEN BundleVersion("orchard", sh.branch) ELSE "none",
             ironwoodVersion |-> IF sh.nIrw > 0 THEN BundleVersion("ironwood", sh.branch) ELSE "none",
             hasExpiry   |-> HasOverwinter(sh.ver),       \* otherwise the expiry height is 0
             branchOnWire |-> CommitsBranch(sh.ver),       \* otherwise the caller supplies the branch
             nIn |-> sh.nIn, nOut |-> sh.nOut, nJS |-> sh.nJS, nSp |-> sh.nSp, nSO |-> sh.nSO,
             nAct |-> sh.nAct, nIrw |-> sh.nIrw ]

-----------------------------------------------------------------------------------------
\* A generic parser of token streams, driven by the grammar alone.  It looks only at the kind and
\* length of each token and at the VALUE of count tokens.  State: [ok, pos, env].

IsIndexed(var) == var \in { "sigLen", "pkLen" }
Bind(env, var, v) == IF IsIndexed(var) THEN [env EXCEPT ![var] = Append(@, v)] ELSE [env EXCEPT ![var] = v]
Env0 == [v \in AllVars \cup { "sigLen", "pkLen" } |-> IF IsIndexed(v) THEN << >> ELSE 0]
Fail(st) == [st EXCEPT !.ok = FALSE]
Adv(st, n) == [st EXCEPT !.pos = @ + n]
Has(ts, st, n) == st.pos + n - 1 <= Len(ts)

RECURSIVE PSeq(_, _, _)
RECURSIVE PRep(_, _, _, _)
POne(d, ts, st) ==
    IF ~st.ok THEN st
    ELSE CASE d.k \in { "f", "k", "a" } ->
                IF Has(ts, st, 1) /\ ts[st.pos].k = d.k /\ ts[st.pos].len = d.len THEN Adv(st, 1) ELSE Fail(st)
           [] d.k = "c" ->
                IF Has(ts, st, 1) /\ ts[st.pos].k = "c"
                THEN [Adv(st, 1) EXCEPT !.env = Bind(st.env, d.var, ts[st.pos].v)] ELSE Fail(st)
           [] d.k = "s" ->
                IF Has(ts, st, 2) /\ ts[st.pos].k = "c" /\ ts[st.pos + 1].k = "f" /\ ts[st.pos + 1].len = ts[st.pos].v
                THEN [Adv(st, 2) EXCEPT !.env = Bind(st.env, d.var, ts[st.pos].v)] ELSE Fail(st)
           [] d.k = "r" -> PRep(d.body, ts, st, st.env[d.var])
           [] d.k = "i" -> IF \E v \in d.any : st.env[v] > 0 THEN PSeq(d.body, ts, st) ELSE st
PSeq(ds, ts, st) == IF ds = << >> \/ ~st.ok THEN st ELSE PSeq(Tail(ds), ts, POne(Head(ds), ts, st))
PRep(body, ts, st, n) == IF n = 0 \/ ~st.ok THEN st ELSE PRep(body, ts, PSeq(body, ts, st), n - 1)

Parse(ver, ts) == PSeq(Grammar(ver), ts, [ok |-> TRUE, pos |-> 1, env |-> Env0])

ShapeVar(sh, v) == sh[v]
\* ts = Tokens(sh) (passed in so that a model computes it once)
ParseInverseT(sh, ts) ==
    LET r == Parse(sh.ver, ts)
    IN  /\ r.ok /\ r.pos = Len(ts) + 1
        /\ \A v \in WireVars(sh.ver) : r.env[v] = ShapeVar(sh, v)
        \* a shorter stream is never a complete parse (no token can be dropped at the end)
        /\ Len(ts) > 0 => ~Parse(sh.ver, SubSeq(ts, 1, Len(ts) - 1)).ok
        \* variables the version does not carry are zero in a well-formed shape
        /\ \A v \in AllVars \ WireVars(sh.ver) : sh[v] = 0
ParseInverse(sh) == ParseInverseT(sh, Tokens(sh))

IsPrefix(a, b) == Len(a) <= Len(b) /\ SubSeq(b, 1, Len(a)) = a
\* wire-visible part of a shape (the branch is not on the wire before v5)
Wire(sh) == [v \in WireVars(sh.ver) \cup { "ver", "branch" } |->
                IF v = "branch" THEN (IF CommitsBranch(sh.ver) THEN sh.branch ELSE "-") ELSE sh[v]]
PrefixFree(s, t) == (s.ver = t.ver /\ Wire(s) # Wire(t)) => ~IsPrefix(Tokens(s), Tokens(t))

\* the total length is the sum of the token lengths: at least the header word, and every count
\* contributes the length of its shortest CompactSize class
LengthLawT(sh, ts) == /\ SumLen(ts, 1) >= 4
                      /\ \A j \in DOMAIN ts : ts[j].k = "c" => Len(ts[j].enc) = CS!EncLen(CS!FromNat(ts[j].v))
LengthLaw(sh) == LengthLawT(sh, Tokens(sh))

-----------------------------------------------------------------------------------------
\* TxVersion header table: (header word, following group id word) -> version / rejection.
\* Overwintered headers are valid only as one of the defined (version, group id) pairs; a
\* non-overwintered header is valid iff its version number is >= 1 (no group id follows).

Overwintered(h) == h[4] >= 128
VersionDigits(h) == << h[1], h[2], h[3], h[4] % 128 >>
RECURSIVE LEVal(_, _)
LEVal(bs, i) == IF i > Len(bs) THEN 0 ELSE bs[i] + 256 * LEVal(bs, i + 1)
HeaderVerdict(h, g) ==
    IF Overwintered(h)
    THEN IF \E ver \in { "v3", "v4", "v5", "v6" } : HeaderBytes(ver) = h /\ GroupId(ver) = g
         THEN [ok |-> TRUE, n |-> 8, ver |-> CHOOSE ver \in { "v3", "v4", "v5", "v6" } : HeaderBytes(ver) = h /\ GroupId(ver) = g, num |-> 0]
         ELSE [ok |-> FALSE, n |-> 0, ver |-> "-", num |-> 0]
    ELSE IF VersionDigits(h) = << 0, 0, 0, 0 >> THEN [ok |-> FALSE, n |-> 0, ver |-> "-", num |-> 0]
         ELSE [ok |-> TRUE, n |-> 4, ver |-> "sprout", num |-> LEVal(VersionDigits(h), 1)]

HeaderWords == { << n, 0, 0, t >> : n \in 0..8, t \in { 0, 128 } } \cup { << 255, 255, 255, 127 >>, << 255, 255, 255, 255 >>,
                 << 5, 1, 0, 128 >>, << 4, 0, 0, 129 >>, << 0, 0, 0, 64 >> }
GroupWords == { GroupId(v) : v \in { "v3", "v4", "v5", "v6" } } \cup { << 0, 0, 0, 0 >>, << 11, 39, 167, 38 >>, << 133, 32, 47, 9 >> }
HeaderCases == { [h |-> h, g |-> g, res |-> HeaderVerdict(h, g)] : h \in HeaderWords, g \in GroupWords }

\* group ids / branch ids are pairwise distinct (a table entry cannot shadow another)
TablesInjective == /\ \A a, b \in { "v3", "v4", "v5", "v6" } : a # b => GroupId(a) # GroupId(b) /\ HeaderBytes(a) # HeaderBytes(b)
                   /\ \A a, b \in BranchSet : a # b => BranchId(a) # BranchId(b)

-----------------------------------------------------------------------------------------
\* Spec-chosen mutations of one token of a valid encoding.  Each is [m, bytes, rej]: replace the
\* token's bytes by `bytes`; rej = TRUE: the format decides that the result is NOT a valid encoding
\* (non-minimal count, count above MAX_COMPACT_SIZE, amount outside its range, undefined version /
\* group id / branch id); rej = FALSE: the result may or may not be valid (count +- 1, another
\* defined branch id) - whatever a parser accepts must then satisfy the acceptance laws.

MaxMoney == << 0, 64, 7, 90, 240, 117, 7, 0 >>            \* 2 100 000 000 000 000 = 0x000775F05A074000
MaxMoneyPlus1 == << 1, 64, 7, 90, 240, 117, 7, 0 >>
NegMaxMoneyMinus1 == << 255, 191, 248, 165, 15, 138, 248, 255 >>   \* two's complement of MAX_MONEY + 1
I64Min == << 0, 0, 0, 0, 0, 0, 0, 128 >>
MinusOne == << 255, 255, 255, 255, 255, 255, 255, 255 >>
TwoPow25Plus1 == CS!Pad(<< 1, 0, 0, 2 >>)

Mut(m, bytes, rej) == [m |-> m, bytes |-> bytes, rej |-> rej]
FlipBit0(bs) == [bs EXCEPT ![1] = IF @ % 2 = 0 THEN @ + 1 ELSE @ - 1]

Mutations(t, sh) ==
    CASE t.k = "c" ->
           LET v == CS!FromNat(t.v)
           IN  { Mut("noncanon" \o ToString(1 + w), CS!Frame(v, w), TRUE) : w \in { w \in { 2, 4, 8 } : w > CS!Width(v) } }
               \cup { Mut("big", CS!Enc(TwoPow25Plus1), TRUE), Mut("plus1", CS!Enc(CS!FromNat(t.v + 1)), FALSE) }
               \cup (IF t.v > 0 THEN { Mut("minus1", CS!Enc(CS!FromNat(t.v - 1)), FALSE) } ELSE { })
      [] t.k = "a" ->
           { Mut("amt_max1", MaxMoneyPlus1, TRUE), Mut("amt_min", I64Min, TRUE),
             Mut("amt_negmax1", NegMaxMoneyMinus1, TRUE), Mut("amt_max", MaxMoney, FALSE) }
           \cup (IF t.sg = "u" THEN { Mut("amt_neg1", MinusOne, TRUE) } ELSE { Mut("amt_neg1", MinusOne, FALSE) })
      [] t.k = "k" /\ t.n = "vgid" ->
           { Mut("vgid_bit", FlipBit0(t.val), TRUE), Mut("vgid_zero", << 0, 0, 0, 0 >>, TRUE) }
           \cup { Mut("vgid_" \o o, GroupId(o), TRUE) : o \in { "v3", "v4", "v5", "v6" } \ { sh.ver } }
      [] t.k = "k" /\ t.n = "branch" ->
           { Mut("branch_bit", FlipBit0(t.val), TRUE), Mut("branch_one", << 1, 0, 0, 0 >>, TRUE) }
           \cup { Mut("branch_" \o o, BranchId(o), FALSE) : o \in BranchSet \ { sh.branch } }
      [] t.k = "k" /\ t.n = "header" ->
           IF HasOverwinter(sh.ver)
           THEN { Mut("header_v7", << 7, 0, 0, 128 >>, TRUE), Mut("header_v0", << 0, 0, 0, 128 >>, TRUE) }
                \cup { Mut("header_" \o o, HeaderBytes(o), TRUE) : o \in { "v3", "v4", "v5", "v6" } \ { sh.ver } }
           ELSE { Mut("header_v0", << 0, 0, 0, 0 >>, TRUE) }
      [] OTHER -> { }

\* one-bit-off ids are really undefined (otherwise "rej" above would be wrong)
MutationsSound == /\ \A a, b \in { "v3", "v4", "v5", "v6" } : FlipBit0(GroupId(a)) # GroupId(b)
                  /\ \A a, b \in BranchSet : FlipBit0(BranchId(a)) # BranchId(b) /\ BranchId(b) # << 1, 0, 0, 0 >>
-----------------------------------------------------------------------------------------
\* Values the public constructors accept but the version's format cannot carry (the writers document
\* a refusal for each).  Faithfulness for them: write(x) fails, or parse(write(x)) = x - never bytes
\* that parse to a different value.  `with` names the component added to an otherwise valid shape.
Unrepresentable ==
    { [ver |-> "v4", branch |-> "Nu5", with |-> "orchard"],            \* Orchard bundle in a v4 transaction
      [ver |-> "v4", branch |-> "Nu6_3", with |-> "orchard"],
      [ver |-> "v5", branch |-> "Nu5", with |-> "sprout"],             \* Sprout bundle in a v5 / v6 transaction
      [ver |-> "v6", branch |-> "Nu6_3", with |-> "sprout"],
      [ver |-> "v3", branch |-> "Overwinter", with |-> "sapling"],     \* Sapling bundle before Sapling
      [ver |-> "sprout2", branch |-> "Sprout", with |-> "sapling"],
      [ver |-> "v6", branch |-> "Nu6_3", with |-> "orchard_v2"],       \* pre-NU6.3 Orchard bundle version in v6:
      [ver |-> "v6", branch |-> "Nu6_3", with |-> "orchard_insecure_v1"] }  \* bit 2 of the flags would change meaning
=========================================================================================
