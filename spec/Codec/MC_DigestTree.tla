------------------------------- MODULE MC_DigestTree -------------------------------
(* Enumerates every shape with per-vector counts from the configured sets (inputs / outputs up to   *)
(* MaxIO so that "another input", "another output" and "an input without a same-index output"       *)
(* exist; a coinbase variant of every one-input shape), checks the DigestTree theorems on each and  *)
(* prints, per shape, the concrete prediction: for the identifier, the authorising-data commitment  *)
(* and every signature case the set of field instances under the digest.  The trees, the field      *)
(* table, the sensitivity table and the hash type / parse / index tables are printed once.          *)
EXTENDS DigestTree, Json

CONSTANTS MaxIO,       \* transparent inputs / outputs range over 0..MaxIO
          ShCounts,    \* counts of every shielded vector (JoinSplits, spends, outputs, actions), e.g. {0, 1}
          TermCounts,  \* the term lemma is checked on shapes whose counts all lie in this set
          Emit

VARIABLES sh, done, txl, aul, sigl

Opt(cond, set) == IF cond THEN set ELSE { 0 }
ShapesOf(ver) ==
    { [ver |-> ver, nIn |-> a, nOut |-> b, cb |-> c, nJS |-> j, nSp |-> s, nSO |-> o, nAct |-> x, nIrw |-> w] :
        a \in 0..MaxIO, b \in 0..MaxIO, c \in BOOLEAN, j \in Opt(HasSprout(ver), ShCounts), s \in Opt(HasSapling(ver), ShCounts),
        o \in Opt(HasSapling(ver), ShCounts), x \in Opt(HasOrchard(ver), ShCounts), w \in Opt(HasIronwood(ver), ShCounts) }
Shapes == { s \in UNION { ShapesOf(ver) : ver \in Versions } : WellFormed(s) }

CountsOf(s) == { s.nIn, s.nOut, s.nJS, s.nSp, s.nSO, s.nAct, s.nIrw }

Pairs(set) == { << fi[1], fi[2] >> : fi \in set }
CaseRec(s, t, a, g) ==
    [shape |-> s, txid |-> Pairs(t), auth |-> Pairs(a),
     sigs |-> { [cs |-> cs, byte |-> HashTypeByte(cs), leaves |-> Pairs(g[cs])] : cs \in SigCases(s) },
     instances |-> Pairs(Instances(s))]

\* the leaves are computed once per shape, in the (parallel) Eval step
Init == sh \in Shapes /\ done = FALSE /\ txl = { } /\ aul = { } /\ sigl = << >>
Eval == /\ ~done /\ done' = TRUE /\ UNCHANGED sh
        /\ txl' = TxidLeaves(sh)
        /\ aul' = IF V5Plus(sh.ver) THEN AuthLeaves(sh) ELSE { }
        /\ sigl' = [cs \in SigCases(sh) |-> SigLeaves(sh, cs)]
        /\ Emit => PrintT(<< "CASE", ToJson(CaseRec(sh, txl', aul', sigl')) >>)
Next == Eval
Spec == Init /\ [][Next]_<< sh, done, txl, aul, sigl >>

WF == WellFormed(sh)
ThmTreeEqualsRule == done => TreeEqualsRule(sh, txl, aul, sigl)
ThmEffecting == done => Effecting(sh, txl, sigl)
ThmAuthorising == done => Authorising(sh, txl, aul, sigl)
ThmTransparent == done => Transparent(sh, sigl)
Lemma == (done /\ CountsOf(sh) \subseteq TermCounts) => TermLemma(sh)

TreeVersions == { "v3", "v4", "v5", "v6" }
ASSUME \A ver \in Versions : ScopedOk(TxidTree(ver), "-")
ASSUME \A ver \in TreeVersions : ScopedOk(SigTree(ver), "-") /\ PersWellFormed(ver)
ASSUME \A ver \in { "v5", "v6" } : ScopedOk(AuthTree(ver), "-")
ASSUME HashTypesSound
\* the v6 strings that replace a v5 string differ from it (a v5 digest can never be read as a v6 one)
ASSUME /\ PersOf(OrchardDigest("v5", "orchard")) \cap PersOf(OrchardDigest("v6", "ironwood")) = { }
       /\ OrchardPers("v5", "orchard").bundle # OrchardPers("v6", "orchard").bundle
       /\ OrchardPers("v5", "orchard").auth # OrchardPers("v6", "orchard").auth
ASSUME Emit => \A ver \in Versions :
    PrintT(<< "TREE", ToJson([ver |-> ver, txid |-> TxidTree(ver),
                              auth |-> IF V5Plus(ver) THEN AuthTree(ver) ELSE Nothing,
                              sig |-> IF HasSighash(ver) THEN SigTree(ver) ELSE Nothing,
                              hashTypes |-> IF HasSighash(ver) THEN HashTypes(ver) ELSE { },
                              roles |-> [f \in Classes |-> Role(ver, f)]]) >>)
ASSUME Emit => PrintT(<< "FIELDS", ToJson(FieldDef) >>)
ASSUME Emit => PrintT(<< "CONSTS", ToJson([branchIds |-> [b \in BranchNames |-> BranchId(b)],
                                           parse |-> [b \in 0..255 |-> ParseAccepts(b)],
                                           indexCases |-> IndexCases]) >>)
ASSUME Emit => PrintT(<< "TABLE", ToJson(Table) >>)
=========================================================================================
