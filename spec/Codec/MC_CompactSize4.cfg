SPECIFICATION Spec
CONSTANTS
  B = 4
  MaxV <- MaxVDef
INVARIANT Thm
CHECK_DEADLOCK FALSE
