SPECIFICATION Spec
CONSTANTS
  B = 4
  MaxV <- MaxVDef
  TopDigits = {0, 1, 2, 3}
INVARIANT Thm
CHECK_DEADLOCK FALSE
