\* default configuration (checks/c04.py generates its own)
SPECIFICATION Spec
CONSTANTS
  MaxIO = 2
  ShCounts = {0, 1}
  TermCounts = {0, 1}
  Emit = FALSE
INVARIANTS WF ThmTreeEqualsRule ThmEffecting ThmAuthorising ThmTransparent Lemma
CHECK_DEADLOCK FALSE
