------------------------------- MODULE Emit_CompactSize -------------------------------
(* CompactSize at base 256 (real bytes): checks the theorems on the sample values and prints the  *)
(* cases the conformance harnesses execute on the real readers / writers:                         *)
(*   CSW  [v, enc, wb]            value (8 LE bytes), its encoding, whether the bounded writer     *)
(*                                accepts it                                                       *)
(*   CSR  [bytes, unb, bnd]       a byte string and what the unbounded / bounded reader returns    *)
(*                                (every framing of every sample, truncations, one trailing byte)  *)
(*   VEC  [bytes, res]            Vector of bytes: encodings, wider count framings, counts beyond   *)
(*                                the data, counts beyond MAX_COMPACT_SIZE                          *)
(*   OPT  [bytes, res]            Optional of one byte                                             *)
(* Samples and VecLens come from the check (boundary values of every class + seeded values).      *)
EXTENDS CompactSize, Json

CONSTANTS Samples,   \* set of values (8-byte little-endian tuples)
          VecLens    \* set of vector lengths

MaxV256 == << 0, 0, 0, 2, 0, 0, 0, 0 >>        \* 0x02000000

ASSUME B = 256
ASSUME \A v \in Samples : v \in Value /\ Theorems(v)
ASSUME \A v \in Samples : \A u \in Samples : PrefixFree(v, u)
ASSUME OptionalLaws

Res(r) == IF r.ok THEN [ok |-> TRUE, v |-> r.v, n |-> r.n] ELSE [ok |-> FALSE, v |-> << >>, n |-> 0]
VRes(r) == IF r.ok THEN [ok |-> TRUE, len |-> Len(r.xs), n |-> r.n] ELSE [ok |-> FALSE, len |-> 0, n |-> 0]
ReadCase(bs) == [bytes |-> bs, unb |-> Res(DecU(bs)), bnd |-> Res(DecB(bs))]

ASSUME \A v \in Samples :
    /\ PrintT(<< "CSW", ToJson([v |-> v, enc |-> Enc(v), wb |-> WriteB(v).ok]) >>)
    /\ \A w \in Widths : FitsWidth(v, w) => PrintT(<< "CSR", ToJson(ReadCase(Frame(v, w))) >>)
    /\ PrintT(<< "CSR", ToJson(ReadCase(Enc(v) \o << 255 >>)) >>)
    /\ \A k \in 0..(Len(Enc(v)) - 1) : PrintT(<< "CSR", ToJson(ReadCase(SubSeq(Enc(v), 1, k))) >>)

Elems(n) == [i \in 1..n |-> (i * 7) % 256]
VecCase(bs) == [bytes |-> bs, res |-> VRes(DecVector(bs))]
ASSUME \A n \in VecLens :
    LET xs == Elems(n)  c == FromNat(n)
    IN  /\ VectorLaws(xs)
        /\ PrintT(<< "VEC", ToJson(VecCase(EncVector(xs))) >>)
        /\ PrintT(<< "VEC", ToJson(VecCase(EncVector(xs) \o << 9 >>)) >>)
        /\ n > 0 => PrintT(<< "VEC", ToJson(VecCase(SubSeq(EncVector(xs), 1, Len(EncVector(xs)) - 1))) >>)
        /\ \A w \in Widths : (FitsWidth(c, w) /\ w # Width(c)) =>
              PrintT(<< "VEC", ToJson(VecCase(Frame(c, w) \o xs)) >>)
\* counts beyond MAX_COMPACT_SIZE / beyond the data
ASSUME /\ PrintT(<< "VEC", ToJson(VecCase(Enc(Pad(<< 1, 0, 0, 2 >>)) \o << 1, 2, 3 >>)) >>)
       /\ PrintT(<< "VEC", ToJson(VecCase(Enc(MaxV) \o << 1, 2, 3 >>)) >>)
       /\ PrintT(<< "VEC", ToJson(VecCase(Enc(Pad(<< 0, 0, 0, 0, 1 >>)) \o << 1, 2, 3 >>)) >>)
       /\ PrintT(<< "VEC", ToJson(VecCase(<< 4, 1, 2, 3 >>)) >>)
       /\ PrintT(<< "VEC", ToJson(VecCase(<< >>)) >>)

OptCase(bs) == LET r == DecOptional(bs)
               IN  [bytes |-> bs, res |-> IF r.ok THEN [ok |-> TRUE, len |-> Len(r.xs), n |-> r.n]
                                                  ELSE [ok |-> FALSE, len |-> 0, n |-> 0]]
ASSUME \A bs \in { << >>, << 0 >>, << 0, 7 >>, << 1 >>, << 1, 7 >>, << 1, 7, 8 >>, << 2, 7 >>, << 255, 7 >>, << 128, 7 >> } :
    PrintT(<< "OPT", ToJson(OptCase(bs)) >>)

VARIABLE u
Init == u = 0
Next == UNCHANGED u
=========================================================================================
