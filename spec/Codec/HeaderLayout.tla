--------------------------------- MODULE HeaderLayout ---------------------------------
(* C03 - the block header wire format (protocol specification 7.6): nVersion (4), hashPrevBlock    *)
(* (32), hashMerkleRoot (32), hashBlockCommitments / hashFinalSaplingRoot / hashReserved (32),     *)
(* nTime (4), nBits (4), nNonce (32), solutionSize (CompactSize) + solution.  The block hash is    *)
(* SHA-256d of exactly this serialisation - all of it, nothing after it.                           *)
(* The grammar is data of the same kind as TxLayout's; the same generic parser shows that it is    *)
(* self-delimiting.  The only shape variable is the solution length.                               *)
EXTENDS TxLayout, Json

CONSTANTS SolLens       \* solution lengths to emit (1344 = Equihash (200, 9), 36 = (48, 5), class edges)

HeaderGrammar == << F("version", 4), F("prev_block", 32), F("merkle_root", 32), F("final_sapling_root", 32),
                    F("time", 4), F("bits", 4), F("nonce", 32), S("solution", "solLen", FALSE) >>

HShape(n) == [solLen |-> n]
HTokens(n) == Flat(HeaderGrammar, HShape(n), 0)
HTotal(n) == SumLen(HTokens(n), 1)
\* the span the block hash covers, as byte offsets [from, to) of the serialisation
HashSpan(n) == [from |-> 0, to |-> HTotal(n)]

HParse(ts) == PSeq(HeaderGrammar, ts, [ok |-> TRUE, pos |-> 1, env |-> [solLen |-> 0]])
HParseInverse(n) == LET ts == HTokens(n)  r == HParse(ts)
                    IN  /\ r.ok /\ r.pos = Len(ts) + 1 /\ r.env.solLen = n
                        /\ ~HParse(SubSeq(ts, 1, Len(ts) - 1)).ok
                        /\ HTotal(n) = 140 + Len(CS!Enc(CS!FromNat(n))) + n

ASSUME ClosedFrom(HeaderGrammar, { })
ASSUME \A n \in SolLens : HParseInverse(n)
ASSUME \A n \in SolLens : \A m \in SolLens : n # m => ~IsPrefix(HTokens(n), HTokens(m))

HMuts(n) == LET ts == HTokens(n)
            IN  UNION { { [t |-> j, m |-> mu.m, bytes |-> mu.bytes, rej |-> mu.rej] : mu \in Mutations(ts[j], HShape(n)) } : j \in DOMAIN ts }
ASSUME \A n \in SolLens :
    PrintT(<< "HCASE", ToJson([solLen |-> n, tokens |-> HTokens(n), total |-> HTotal(n), hash |-> HashSpan(n), muts |-> HMuts(n)]) >>)

VARIABLE u
HInit == u = 0
HNext == UNCHANGED u
=========================================================================================
