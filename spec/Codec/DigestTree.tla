----------------------------------- MODULE DigestTree -----------------------------------
(* C04 - transaction identifiers, authorising-data commitments and signature digests AS DATA.      *)
(*                                                                                                 *)
(* A digest is a TREE.  Inner nodes are H(personalisation, children): the BLAKE2b-256 hash, with    *)
(* the given 16-byte personalisation, of the concatenation of the children.  Leaves are field       *)
(* references (a field CLASS such as "in.prevout_hash" or "output.enc_m"; inside a repetition the   *)
(* class denotes the field of the current element), constants the format fixes, parameters of the   *)
(* signature digest (hash type, script code) and zero fillers.  Structure that depends on the       *)
(* transaction (empty-bundle rules) or on the signature case (hash type table) is an If node over a *)
(* small condition language.  Node kinds:                                                           *)
(*   h     [p, br, c]    BLAKE2b-256, personalisation p (br: p is 12 characters and is followed by   *)
(*                       the 4-byte consensus branch id), of the concatenated children c            *)
(*   f     [f]           the bytes of field class f (FieldDef: source, slice, encoding, vector)      *)
(*   k     [n, bytes]    constant bytes (header word, version group id)                             *)
(*   p     [p, w]        parameter of the signature case: "hash_type" as w bytes little-endian,      *)
(*                       "script_code" (CompactSize-prefixed)                                        *)
(*   z     [n]           n zero bytes                                                                *)
(*   each  [v, c]        the concatenation, over every element of vector v in order, of c            *)
(*   at    [v, c]        c for the element of v whose index is that of the input being signed        *)
(*   if    [cond, t, e]  t if cond holds for (transaction, signature case), else e                   *)
(*   cat   [c]           plain concatenation                                                         *)
(*   sha256d [c], ser    double SHA-256; the whole serialisation (versions 1 to 4)                   *)
(*                                                                                                 *)
(* Sources: ZIP 244 (T.1-T.4 txid, A.1-A.3 authorising data commitment, S.1-S.4 signature digest    *)
(* with the S.2 hash type table), ZIP 143 / ZIP 243 (v3 / v4 signature pre-image; the identifier is *)
(* SHA-256d of the serialisation), and for v6 the variant the pinned tree DOCUMENTS (rustdoc of     *)
(* zcash_primitives::transaction::txid and orchard::bundle::commitments): the Sapling, Orchard and  *)
(* Ironwood anchors leave the effecting digest and enter the authorising digest, nodes whose        *)
(* content changed carry *_v6 personalisations, and an Ironwood node in the Orchard layout with its *)
(* own personalisations follows the Orchard node in all three digests.                              *)
(*                                                                                                 *)
(* With H uninterpreted and injective, a digest changes exactly when a leaf occurring under it      *)
(* changes (lemma TermLemma, checked on the free term algebra).  Leaves(tree, shape, case) is the   *)
(* set of field instances under a digest.  The PROPERTY is stated independently of the trees, as    *)
(* roles (effecting / authorising / external / parameter) plus the documented hash-type exclusions  *)
(* (InTxid, InAuth, InSig), and TLC checks that tree and rule agree on every field instance of      *)
(* every shape and signature case (TreeEqualsRule) together with the property as the theorems       *)
(* EffectingCommitted, AuthorisingSeparated, TransparentCommits.                                    *)
(* Emitted: the trees (JSON), the field table, the sensitivity table                                *)
(* (version, digest case, field class, index relation) |-> changes | unchanged, the hash type       *)
(* table, the SighashType::parse table and the SignableInput index cases.                           *)
EXTENDS Naturals, Sequences, FiniteSets, TLC

-----------------------------------------------------------------------------------------
\* Constants of the formats (little-endian bytes)

Versions == { "sprout1", "sprout2", "v3", "v4", "v5", "v6" }
V5Plus(ver) == ver \in { "v5", "v6" }
HasSighash(ver) == ver \in { "v3", "v4", "v5", "v6" }      \* pre-Overwinter signature hashing is not supported
HasSprout(ver) == ver \in { "sprout2", "v3", "v4" }
HasSapling(ver) == ver \in { "v4", "v5", "v6" }
HasOrchard(ver) == ver \in { "v5", "v6" }
HasIronwood(ver) == ver = "v6"
HasExpiry(ver) == ver \notin { "sprout1", "sprout2" }

\* header word = version number, bit 31 = fOverwintered
HeaderBytes(ver) == CASE ver = "sprout1" -> << 1, 0, 0, 0 >>
                      [] ver = "sprout2" -> << 2, 0, 0, 0 >>
                      [] ver = "v3" -> << 3, 0, 0, 128 >>
                      [] ver = "v4" -> << 4, 0, 0, 128 >>
                      [] ver = "v5" -> << 5, 0, 0, 128 >>
                      [] ver = "v6" -> << 6, 0, 0, 128 >>
\* nVersionGroupId: 0x03C48270, 0x892F2085, 0x26A7270A, 0xD884B698
GroupId(ver) == CASE ver = "v3" -> << 112, 130, 196, 3 >>
                  [] ver = "v4" -> << 133, 32, 47, 137 >>
                  [] ver = "v5" -> << 10, 39, 167, 38 >>
                  [] ver = "v6" -> << 152, 182, 132, 216 >>
\* consensus branch ids (ZIP 200 and the ZIPs of each upgrade; NU6.2 / NU6.3 from the pinned tree's rustdoc)
BranchNames == { "Sprout", "Overwinter", "Sapling", "Blossom", "Heartwood", "Canopy", "Nu5", "Nu6", "Nu6_1", "Nu6_2", "Nu6_3" }
BranchId(b) == CASE b = "Sprout"     -> << 0, 0, 0, 0 >>
                 [] b = "Overwinter" -> << 25, 27, 168, 91 >>       \* 0x5ba81b19
                 [] b = "Sapling"    -> << 187, 9, 184, 118 >>      \* 0x76b809bb
                 [] b = "Blossom"    -> << 96, 14, 180, 43 >>       \* 0x2bb40e60
                 [] b = "Heartwood"  -> << 11, 35, 185, 245 >>      \* 0xf5b9230b
                 [] b = "Canopy"     -> << 166, 117, 255, 233 >>    \* 0xe9ff75a6
                 [] b = "Nu5"        -> << 180, 208, 214, 194 >>    \* 0xc2d6d0b4
                 [] b = "Nu6"        -> << 85, 16, 231, 200 >>      \* 0xc8e71055
                 [] b = "Nu6_1"      -> << 240, 77, 236, 77 >>      \* 0x4dec4df0
                 [] b = "Nu6_2"      -> << 48, 243, 55, 84 >>       \* 0x5437f330
                 [] b = "Nu6_3"      -> << 91, 22, 165, 55 >>       \* 0x37a5165b

-----------------------------------------------------------------------------------------
\* Field classes.  vec: the vector the class is indexed by ("-": one per transaction);
\* src / from / len: the field of the wire format it is (a slice of); len 0: variable length;
\* enc: "raw" | "script" (CompactSize length prefix, then the bytes).

Fd(vec, src, from, len, enc) == [vec |-> vec, src |-> src, from |-> from, len |-> len, enc |-> enc]
Whole(vec, name, len) == Fd(vec, name, 0, len, "raw")

OrchardFields(p) ==
    LET a == p \o ".actions" IN
    [ f \in { p \o "." \o x : x \in { "flags", "vb", "anchor", "proof", "binding", "cv", "nf", "rk", "cmx", "epk",
                                     "enc_c", "enc_m", "enc_n", "out", "sig" } } |->
        CASE f = p \o ".flags" -> Whole("-", f, 1)
          [] f = p \o ".vb" -> Whole("-", f, 8)
          [] f = p \o ".anchor" -> Whole("-", f, 32)
          [] f = p \o ".proof" -> Whole("-", f, 0)
          [] f = p \o ".binding" -> Whole("-", f, 64)
          [] f = p \o ".enc_c" -> Fd(a, p \o ".enc", 0, 52, "raw")
          [] f = p \o ".enc_m" -> Fd(a, p \o ".enc", 52, 512, "raw")
          [] f = p \o ".enc_n" -> Fd(a, p \o ".enc", 564, 16, "raw")
          [] f = p \o ".out" -> Whole(a, f, 80)
          [] f = p \o ".sig" -> Whole(a, f, 64)
          [] OTHER -> Whole(a, f, 32) ]

BaseFields ==
    [ f \in { "branch", "lock_time", "expiry",
              "in.prevout_hash", "in.prevout_n", "in.script", "in.sequence", "out.value", "out.script",
              "coin.value", "coin.script",
              "js.vpub_old", "js.vpub_new", "js.anchor", "js.nullifiers", "js.commitments", "js.epk", "js.random_seed",
              "js.macs", "js.proof", "js.ciphertexts", "sprout.pubkey", "sprout.sig",
              "sapling.vb", "sapling.anchor", "sapling.binding",
              "spend.cv", "spend.anchor", "spend.nf", "spend.rk", "spend.proof", "spend.sig",
              "output.cv", "output.cmu", "output.epk", "output.enc_c", "output.enc_m", "output.enc_n", "output.out",
              "output.proof" } |->
        CASE f \in { "branch", "lock_time", "expiry" } -> Whole("-", f, 4)
          [] f = "in.prevout_hash" -> Whole("vin", f, 32)
          [] f \in { "in.prevout_n", "in.sequence" } -> Whole("vin", f, 4)
          [] f = "in.script" -> Fd("vin", f, 0, 0, "script")
          [] f = "out.value" -> Whole("vout", f, 8)
          [] f = "out.script" -> Fd("vout", f, 0, 0, "script")
          \* the coin an input spends is not part of the transaction; the signer supplies it (one per input)
          [] f = "coin.value" -> Whole("vin", f, 8)
          [] f = "coin.script" -> Fd("vin", f, 0, 0, "script")
          [] f \in { "js.vpub_old", "js.vpub_new" } -> Whole("js", f, 8)
          [] f \in { "js.anchor", "js.epk", "js.random_seed" } -> Whole("js", f, 32)
          [] f \in { "js.nullifiers", "js.commitments", "js.macs" } -> Whole("js", f, 64)
          [] f = "js.proof" -> Whole("js", f, 0)                     \* 296 bytes (PHGR13) before v4, 192 (Groth16) in v4
          [] f = "js.ciphertexts" -> Whole("js", f, 1202)
          [] f = "sprout.pubkey" -> Whole("-", f, 32)
          [] f = "sprout.sig" -> Whole("-", f, 64)
          [] f = "sapling.vb" -> Whole("-", f, 8)
          [] f = "sapling.anchor" -> Whole("-", f, 32)                \* v5+: one anchor per bundle
          [] f = "sapling.binding" -> Whole("-", f, 64)
          [] f \in { "spend.cv", "spend.anchor", "spend.nf", "spend.rk" } -> Whole("spends", f, 32)
          [] f = "spend.proof" -> Whole("spends", f, 192)
          [] f = "spend.sig" -> Whole("spends", f, 64)
          [] f \in { "output.cv", "output.cmu", "output.epk" } -> Whole("outputs", f, 32)
          [] f = "output.enc_c" -> Fd("outputs", "output.enc", 0, 52, "raw")
          [] f = "output.enc_m" -> Fd("outputs", "output.enc", 52, 512, "raw")
          [] f = "output.enc_n" -> Fd("outputs", "output.enc", 564, 16, "raw")
          [] f = "output.out" -> Whole("outputs", f, 80)
          [] f = "output.proof" -> Whole("outputs", f, 192) ]

FieldDef == BaseFields @@ OrchardFields("orchard") @@ OrchardFields("ironwood")
Classes == DOMAIN FieldDef
Params == { "hash_type", "script_code" }
Vectors == { "vin", "vout", "js", "spends", "outputs", "orchard.actions", "ironwood.actions" }

OrchardClasses(p) == DOMAIN OrchardFields(p)

\* on the wire of the version's format (the coin and the branch id of versions <= 4 are not)
OnWire(ver, f) ==
    CASE f = "branch" -> V5Plus(ver)
      [] f = "lock_time" -> TRUE
      [] f = "expiry" -> HasExpiry(ver)
      [] f \in { "coin.value", "coin.script" } -> FALSE
      [] FieldDef[f].vec \in { "vin", "vout" } -> TRUE
      [] FieldDef[f].vec = "js" \/ f \in { "sprout.pubkey", "sprout.sig" } -> HasSprout(ver)
      [] f = "sapling.anchor" -> V5Plus(ver)
      [] f = "spend.anchor" -> ver = "v4"
      [] f \in { "sapling.vb", "sapling.binding" } \/ FieldDef[f].vec \in { "spends", "outputs" } -> HasSapling(ver)
      [] f \in OrchardClasses("orchard") -> HasOrchard(ver)
      [] f \in OrchardClasses("ironwood") -> HasIronwood(ver)

-----------------------------------------------------------------------------------------
\* Shapes and signature cases
\* sh = [ver, nIn, nOut, cb (coinbase: one input whose prevout is null), nJS, nSp, nSO, nAct, nIrw]
\* cs = [kind: "shielded" | "transparent", base: "all" | "none" | "single", acp: BOOLEAN, j: signed input (0: none)]

Count(sh, vec) == CASE vec = "vin" -> sh.nIn [] vec = "vout" -> sh.nOut [] vec = "js" -> sh.nJS
                    [] vec = "spends" -> sh.nSp [] vec = "outputs" -> sh.nSO
                    [] vec = "orchard.actions" -> sh.nAct [] vec = "ironwood.actions" -> sh.nIrw

WellFormed(sh) ==
    /\ sh.ver \in Versions
    /\ (sh.cb => sh.nIn = 1)
    /\ (sh.nJS > 0 => HasSprout(sh.ver))
    /\ (sh.nSp + sh.nSO > 0 => HasSapling(sh.ver))
    /\ (sh.nAct > 0 => HasOrchard(sh.ver))
    /\ (sh.nIrw > 0 => HasIronwood(sh.ver))

\* does the (single, per-transaction) field exist in a transaction of this shape
ExistsSingle(sh, f) ==
    CASE f \in { "branch", "lock_time" } -> TRUE
      [] f = "expiry" -> HasExpiry(sh.ver)
      [] f \in { "sprout.pubkey", "sprout.sig" } -> sh.nJS > 0
      [] f \in { "sapling.vb", "sapling.binding" } -> sh.nSp + sh.nSO > 0
      [] f = "sapling.anchor" -> V5Plus(sh.ver) /\ sh.nSp > 0
      [] f \in OrchardClasses("orchard") -> sh.nAct > 0
      [] f \in OrchardClasses("ironwood") -> sh.nIrw > 0

\* the field instances << class, index >> (index 0: per transaction) of a transaction of shape sh,
\* including the coins its inputs spend
Instances(sh) ==
    { << f, 0 >> : f \in { f \in Classes : FieldDef[f].vec = "-" /\ ExistsSingle(sh, f) } }
    \cup UNION { { << f, i >> : i \in 1..Count(sh, FieldDef[f].vec) } :
                 f \in { f \in Classes : FieldDef[f].vec # "-"
                                         /\ (f = "spend.anchor" => sh.ver = "v4")
                                         /\ (f \in { "coin.value", "coin.script" } => ~sh.cb) } }

SigCases(sh) ==
    IF ~HasSighash(sh.ver) THEN { }
    ELSE { [kind |-> "shielded", base |-> "all", acp |-> FALSE, j |-> 0] }
         \cup (IF sh.cb THEN { }     \* a coinbase input is not signed
               ELSE { [kind |-> "transparent", base |-> b, acp |-> a, j |-> j] :
                      b \in { "all", "none", "single" }, a \in BOOLEAN, j \in 1..sh.nIn })

\* S.2a / ZIP 143: the hash type byte
BaseCode(b) == CASE b = "all" -> 1 [] b = "none" -> 2 [] b = "single" -> 3
HashTypeByte(cs) == BaseCode(cs.base) + (IF cs.acp THEN 128 ELSE 0)

-----------------------------------------------------------------------------------------
\* Node constructors and conditions

H(p, c) == [k |-> "h", p |-> p, br |-> FALSE, c |-> c]
HB(p, c) == [k |-> "h", p |-> p, br |-> TRUE, c |-> c]
Empty(p) == H(p, << >>)
F(f) == [k |-> "f", f |-> f]
K(n, bytes) == [k |-> "k", n |-> n, bytes |-> bytes]
P(p, w) == [k |-> "p", p |-> p, w |-> w]
Z(n) == [k |-> "z", n |-> n]
Each(v, c) == [k |-> "each", v |-> v, c |-> c]
AtSigned(v, c) == [k |-> "at", v |-> v, c |-> c]
If(cond, t, e) == [k |-> "if", cond |-> cond, t |-> t, e |-> e]
Cat(c) == [k |-> "cat", c |-> c]
Nothing == Cat(<< >>)

NonEmpty(v) == [op |-> "any", vs |-> << v >>]
AnyOf(vs) == [op |-> "any", vs |-> vs]
Not(a) == [op |-> "not", a |-> a]
Or(a, b) == [op |-> "or", a |-> a, b |-> b]
And(a, b) == [op |-> "and", a |-> a, b |-> b]
Coinbase == [op |-> "coinbase"]
Acp == [op |-> "acp"]
Base(b) == [op |-> "base", is |-> b]
Kind(x) == [op |-> "kind", is |-> x]
SignedHasOutput == [op |-> "signedHasOutput"]

RECURSIVE Holds(_, _, _)
Holds(c, sh, cs) ==
    CASE c.op = "any" -> \E i \in DOMAIN c.vs : Count(sh, c.vs[i]) > 0
      [] c.op = "not" -> ~Holds(c.a, sh, cs)
      [] c.op = "or" -> Holds(c.a, sh, cs) \/ Holds(c.b, sh, cs)
      [] c.op = "and" -> Holds(c.a, sh, cs) /\ Holds(c.b, sh, cs)
      [] c.op = "coinbase" -> sh.cb
      [] c.op = "acp" -> cs.acp
      [] c.op = "base" -> cs.base = c.is
      [] c.op = "kind" -> cs.kind = c.is
      [] c.op = "signedHasOutput" -> cs.kind = "transparent" /\ cs.j >= 1 /\ cs.j <= sh.nOut

-----------------------------------------------------------------------------------------
\* ZIP 244: transaction identifier (T.1 - T.4)

\* T.1
HeaderDigest(ver) ==
    H("ZTxIdHeadersHash", << K("header", HeaderBytes(ver)), K("vgid", GroupId(ver)), F("branch"), F("lock_time"), F("expiry") >>)

\* T.2a - T.2c
PrevoutsDigest == H("ZTxIdPrevoutHash", << Each("vin", << F("in.prevout_hash"), F("in.prevout_n") >>) >>)
SequenceDigest == H("ZTxIdSequencHash", << Each("vin", << F("in.sequence") >>) >>)
OutputsDigest == H("ZTxIdOutputsHash", << Each("vout", << F("out.value"), F("out.script") >>) >>)
\* T.2
TransparentDigest ==
    If(AnyOf(<< "vin", "vout" >>), H("ZTxIdTranspaHash", << PrevoutsDigest, SequenceDigest, OutputsDigest >>),
       Empty("ZTxIdTranspaHash"))

\* T.3a: v5 (cv, anchor, rk); v6 (documented variant) (cv, rk) under a _v6 personalisation
SaplingSpendsDigest(ver) ==
    If(NonEmpty("spends"),
       H("ZTxIdSSpendsHash",
         << H("ZTxIdSSpendCHash", << Each("spends", << F("spend.nf") >>) >>),
            IF ver = "v5"
            THEN H("ZTxIdSSpendNHash", << Each("spends", << F("spend.cv"), F("sapling.anchor"), F("spend.rk") >>) >>)
            ELSE H("ZTxIdSSpendNH_v6", << Each("spends", << F("spend.cv"), F("spend.rk") >>) >>) >>),
       Empty("ZTxIdSSpendsHash"))
\* T.3b
SaplingOutputsDigest ==
    If(NonEmpty("outputs"),
       H("ZTxIdSOutputHash",
         << H("ZTxIdSOutC__Hash", << Each("outputs", << F("output.cmu"), F("output.epk"), F("output.enc_c") >>) >>),
            H("ZTxIdSOutM__Hash", << Each("outputs", << F("output.enc_m") >>) >>),
            H("ZTxIdSOutN__Hash", << Each("outputs", << F("output.cv"), F("output.enc_n"), F("output.out") >>) >>) >>),
       Empty("ZTxIdSOutputHash"))
\* T.3
SaplingDigest(ver) ==
    If(AnyOf(<< "spends", "outputs" >>),
       H("ZTxIdSaplingHash", << SaplingSpendsDigest(ver), SaplingOutputsDigest, F("sapling.vb") >>),
       Empty("ZTxIdSaplingHash"))

\* personalisations of an Orchard-protocol bundle: Orchard in v5, Orchard in v6 (the action-level
\* strings are reused, bundle and auth strings gain _v6), Ironwood (v6 only, its own strings throughout)
OrchardPers(ver, pool) ==
    IF pool = "orchard"
    THEN [bundle |-> IF ver = "v5" THEN "ZTxIdOrchardHash" ELSE "ZTxIdOrchardH_v6",
          c |-> "ZTxIdOrcActCHash", m |-> "ZTxIdOrcActMHash", n |-> "ZTxIdOrcActNHash",
          auth |-> IF ver = "v5" THEN "ZTxAuthOrchaHash" ELSE "ZTxAuthOrchaH_v6"]
    ELSE [bundle |-> "ZTxIdIronwd_H_v6", c |-> "ZTxIdIrnActCH_v6", m |-> "ZTxIdIrnActMH_v6", n |-> "ZTxIdIrnActNH_v6",
          auth |-> "ZTxAuthIrnwdH_v6"]

\* T.4 (v6: without the anchor)
OrchardDigest(ver, pool) ==
    LET ps == OrchardPers(ver, pool)
        vec == pool \o ".actions"
        f(x) == F(pool \o "." \o x)
    IN  If(NonEmpty(vec),
           H(ps.bundle,
             << H(ps.c, << Each(vec, << f("nf"), f("cmx"), f("epk"), f("enc_c") >>) >>),
                H(ps.m, << Each(vec, << f("enc_m") >>) >>),
                H(ps.n, << Each(vec, << f("cv"), f("rk"), f("enc_n"), f("out") >>) >>),
                f("flags"), f("vb") >> \o (IF ver = "v5" THEN << f("anchor") >> ELSE << >>)),
           Empty(ps.bundle))

ShieldedDigests(ver) ==
    << SaplingDigest(ver), OrchardDigest(ver, "orchard") >> \o (IF ver = "v6" THEN << OrchardDigest(ver, "ironwood") >> ELSE << >>)

Ser == [k |-> "ser"]
TxidTree(ver) ==
    IF V5Plus(ver)
    THEN HB("ZcashTxHash_", << HeaderDigest(ver), TransparentDigest >> \o ShieldedDigests(ver))
    ELSE [k |-> "sha256d", c |-> << Ser >>]          \* versions 1 to 4: SHA-256d of the serialisation

-----------------------------------------------------------------------------------------
\* ZIP 244: authorising data commitment (A.1 - A.3); v6: the anchors are committed here

AuthTransparent == H("ZTxAuthTransHash", << Each("vin", << F("in.script") >>) >>)
AuthSapling(ver) ==
    LET p == IF ver = "v5" THEN "ZTxAuthSapliHash" ELSE "ZTxAuthSapliH_v6"
    IN  If(AnyOf(<< "spends", "outputs" >>),
           H(p, << Each("spends", << F("spend.proof") >>), Each("spends", << F("spend.sig") >>),
                   Each("outputs", << F("output.proof") >>), F("sapling.binding") >>
                \o (IF ver = "v6" THEN << If(NonEmpty("spends"), F("sapling.anchor"), Nothing) >> ELSE << >>)),
           Empty(p))
AuthOrchard(ver, pool) ==
    LET ps == OrchardPers(ver, pool)
        vec == pool \o ".actions"
        f(x) == F(pool \o "." \o x)
    IN  If(NonEmpty(vec),
           H(ps.auth, << f("proof"), Each(vec, << f("sig") >>), f("binding") >>
                      \o (IF ver = "v6" THEN << f("anchor") >> ELSE << >>)),
           Empty(ps.auth))
AuthTree(ver) ==
    HB("ZTxAuthHash_", << AuthTransparent, AuthSapling(ver), AuthOrchard(ver, "orchard") >>
                       \o (IF ver = "v6" THEN << AuthOrchard(ver, "ironwood") >> ELSE << >>))

-----------------------------------------------------------------------------------------
\* ZIP 244: signature digest (S.1 - S.4).  S.1, S.3, S.4 are T.1, T.3, T.4.

SigPrevouts == If(Acp, Empty("ZTxIdPrevoutHash"), PrevoutsDigest)                                             \* S.2b
SigAmounts == If(Acp, Empty("ZTxTrAmountsHash"), H("ZTxTrAmountsHash", << Each("vin", << F("coin.value") >>) >>))   \* S.2c
SigScripts == If(Acp, Empty("ZTxTrScriptsHash"), H("ZTxTrScriptsHash", << Each("vin", << F("coin.script") >>) >>))  \* S.2d
SigSequence == If(Acp, Empty("ZTxIdSequencHash"), SequenceDigest)                                             \* S.2e
\* S.2f; SINGLE for an input without a same-index output: the ZIP declares the signature invalid, the
\* pinned tree documents the hash of no outputs for it
SigOutputs ==
    If(Base("single"),
       If(SignedHasOutput, H("ZTxIdOutputsHash", << AtSigned("vout", << F("out.value"), F("out.script") >>) >>),
          Empty("ZTxIdOutputsHash")),
       If(Base("none"), Empty("ZTxIdOutputsHash"), OutputsDigest))
\* S.2g
TxinSig ==
    If(Kind("transparent"),
       H("Zcash___TxInHash", << AtSigned("vin", << F("in.prevout_hash"), F("in.prevout_n"), F("coin.value"),
                                                  F("coin.script"), F("in.sequence") >>) >>),
       Empty("Zcash___TxInHash"))
\* S.2: coinbase, or no transparent inputs: T.2
TransparentSigDigest ==
    If(Or(Not(NonEmpty("vin")), Coinbase), TransparentDigest,
       H("ZTxIdTranspaHash", << P("hash_type", 1), SigPrevouts, SigAmounts, SigScripts, SigSequence, SigOutputs, TxinSig >>))

\* ZIP 143 (v3) / ZIP 243 (v4): one BLAKE2b over a flat pre-image whose slots are hashes or zeros
ZeroOr(cond, node) == If(cond, node, Z(32))
JoinSplitFields == << F("js.vpub_old"), F("js.vpub_new"), F("js.anchor"), F("js.nullifiers"), F("js.commitments"), F("js.epk"),
                      F("js.random_seed"), F("js.macs"), F("js.proof"), F("js.ciphertexts") >>
OutputEnc == << F("output.enc_c"), F("output.enc_m"), F("output.enc_n") >>
SigTreeV4(ver) ==
    LET all == And(Not(Base("single")), Not(Base("none")))
        sap == ver = "v4"
    IN  HB("ZcashSigHash",
           << K("header", HeaderBytes(ver)), K("vgid", GroupId(ver)),
              ZeroOr(Not(Acp), H("ZcashPrevoutHash", << Each("vin", << F("in.prevout_hash"), F("in.prevout_n") >>) >>)),
              ZeroOr(And(Not(Acp), all), H("ZcashSequencHash", << Each("vin", << F("in.sequence") >>) >>)),
              If(all, H("ZcashOutputsHash", << Each("vout", << F("out.value"), F("out.script") >>) >>),
                 ZeroOr(And(Base("single"), SignedHasOutput),
                        H("ZcashOutputsHash", << AtSigned("vout", << F("out.value"), F("out.script") >>) >>))),
              ZeroOr(NonEmpty("js"), H("ZcashJSplitsHash", << Each("js", JoinSplitFields), F("sprout.pubkey") >>)) >>
           \o (IF sap
               THEN << ZeroOr(NonEmpty("spends"),
                              H("ZcashSSpendsHash", << Each("spends", << F("spend.cv"), F("spend.anchor"), F("spend.nf"),
                                                                       F("spend.rk"), F("spend.proof") >>) >>)),
                       ZeroOr(NonEmpty("outputs"),
                              H("ZcashSOutputHash", << Each("outputs", << F("output.cv"), F("output.cmu"), F("output.epk") >>
                                                                       \o OutputEnc \o << F("output.out"), F("output.proof") >>) >>)) >>
               ELSE << >>)
           \o << F("lock_time"), F("expiry") >>
           \o (IF sap THEN << If(AnyOf(<< "spends", "outputs" >>), F("sapling.vb"), Z(8)) >> ELSE << >>)
           \o << P("hash_type", 4),
                 If(Kind("transparent"),
                    AtSigned("vin", << F("in.prevout_hash"), F("in.prevout_n"), P("script_code", 0), F("coin.value"), F("in.sequence") >>),
                    Nothing) >>)

SigTree(ver) ==
    IF V5Plus(ver)
    THEN HB("ZcashTxHash_", << HeaderDigest(ver), TransparentSigDigest >> \o ShieldedDigests(ver))
    ELSE SigTreeV4(ver)

-----------------------------------------------------------------------------------------
\* Field instances under a digest

RECURSIVE LeavesOf(_, _, _, _)
LeavesSeq(ns, sh, cs, ix) == UNION { LeavesOf(ns[i], sh, cs, ix) : i \in DOMAIN ns }
LeavesOf(n, sh, cs, ix) ==
    CASE n.k = "h" -> LeavesSeq(n.c, sh, cs, ix) \cup (IF n.br THEN { << "branch", 0 >> } ELSE { })
      [] n.k = "f" -> { << n.f, IF FieldDef[n.f].vec = "-" THEN 0 ELSE ix >> }
      [] n.k = "p" -> { << n.p, 0 >> }
      [] n.k \in { "k", "z" } -> { }
      [] n.k = "each" -> UNION { LeavesSeq(n.c, sh, cs, i) : i \in 1..Count(sh, n.v) }
      [] n.k = "at" -> LeavesSeq(n.c, sh, cs, cs.j)
      [] n.k = "if" -> IF Holds(n.cond, sh, cs) THEN LeavesOf(n.t, sh, cs, ix) ELSE LeavesOf(n.e, sh, cs, ix)
      [] n.k = "cat" -> LeavesSeq(n.c, sh, cs, ix)
      [] n.k = "sha256d" -> LeavesSeq(n.c, sh, cs, ix)
      [] n.k = "ser" -> { fi \in Instances(sh) : OnWire(sh.ver, fi[1]) }

NoCase == [kind |-> "none", base |-> "all", acp |-> FALSE, j |-> 0]
TxidLeaves(sh) == LeavesOf(TxidTree(sh.ver), sh, NoCase, 0)
AuthLeaves(sh) == LeavesOf(AuthTree(sh.ver), sh, NoCase, 0)
SigLeaves(sh, cs) == LeavesOf(SigTree(sh.ver), sh, cs, 0)

\* a tree never refers to a field the transaction does not have, and indexes a class by its own vector
RECURSIVE ScopedOk(_, _)
ScopedSeq(ns, v) == \A i \in DOMAIN ns : ScopedOk(ns[i], v)
ScopedOk(n, v) ==
    CASE n.k \in { "h", "cat", "sha256d" } -> ScopedSeq(n.c, v)
      [] n.k = "f" -> n.f \in Classes /\ (FieldDef[n.f].vec = "-" \/ FieldDef[n.f].vec = v)
      [] n.k \in { "each", "at" } -> v = "-" /\ n.v \in Vectors /\ ScopedSeq(n.c, n.v)
      [] n.k = "if" -> ScopedOk(n.t, v) /\ ScopedOk(n.e, v)
      [] n.k = "p" -> n.p \in Params
      [] OTHER -> TRUE

RECURSIVE PersOf(_)
PersSeq(ns) == UNION { PersOf(ns[i]) : i \in DOMAIN ns }
PersOf(n) ==
    CASE n.k = "h" -> { << n.p, n.br >> } \cup PersSeq(n.c)
      [] n.k \in { "cat", "sha256d", "each", "at" } -> PersSeq(n.c)
      [] n.k = "if" -> PersOf(n.t) \cup PersOf(n.e)
      [] OTHER -> { }
\* every personalisation is 16 bytes (12 + the branch id for the roots)
PersWellFormed(ver) ==
    \A tr \in { TxidTree(ver), AuthTree(ver), SigTree(ver) } :
        \A p \in PersOf(tr) : Len(p[1]) = (IF p[2] THEN 12 ELSE 16)

-----------------------------------------------------------------------------------------
\* THE PROPERTY, stated without the trees.

\* what a field is, per version.  effecting: fixes the transaction's effects; authorising: proves /
\* authorises them; context: the branch id of versions <= 4 (not on the wire, personalises the
\* signature hash); external: the coin being spent; absent: the format has no such field.
Role(ver, f) ==
    CASE ~OnWire(ver, f) /\ f \notin { "branch", "coin.value", "coin.script" } -> "absent"
      [] f \in { "coin.value", "coin.script" } -> "external"
      [] f = "branch" -> IF V5Plus(ver) THEN "effecting" ELSE "context"
      \* signatures and input scripts authorise in every version
      [] f \in { "in.script", "spend.sig", "sapling.binding", "sprout.sig", "orchard.sig", "orchard.binding",
                 "ironwood.sig", "ironwood.binding" } -> "authorising"
      \* proofs: v4 signatures cover the Sapling (and Sprout) proofs; from v5 on proofs are authorising data
      [] f \in { "spend.proof", "output.proof", "orchard.proof", "ironwood.proof" } ->
             IF V5Plus(ver) THEN "authorising" ELSE "effecting"
      \* anchors: effecting up to v5, authorising in v6
      [] f \in { "sapling.anchor", "orchard.anchor", "ironwood.anchor" } -> IF ver = "v6" THEN "authorising" ELSE "effecting"
      [] OTHER -> "effecting"

\* ac = [kind, base, acp, tclass: "noinputs" | "coinbase" | "inputs", jout: the signed input has a same-index output]
\* rel = "same" | "other" (position relative to the signed input; for vin / vout classes) | "na"
TClass(sh) == IF sh.nIn = 0 THEN "noinputs" ELSE IF sh.cb THEN "coinbase" ELSE "inputs"
Abstract(sh, cs) == [kind |-> cs.kind, base |-> cs.base, acp |-> cs.acp, tclass |-> TClass(sh),
                     jout |-> cs.kind = "transparent" /\ cs.j <= sh.nOut]
Rel(f, i, cs) == IF cs.kind = "transparent" /\ f \in Classes /\ FieldDef[f].vec \in { "vin", "vout" }
                 THEN (IF i = cs.j THEN "same" ELSE "other") ELSE "na"

InputClasses == { "in.prevout_hash", "in.prevout_n", "in.sequence" }
OutputClasses == { "out.value", "out.script" }

\* the documented hash-type exclusions of a signature digest
\* ZIP 244 S.2 (only when there are transparent inputs and the transaction is not coinbase)
Excluded5(ac, f, rel) ==
    /\ ac.tclass = "inputs"
    /\ \/ f \in InputClasses /\ ac.acp /\ rel # "same"                                  \* ANYONECANPAY: only the signed input
       \/ f \in OutputClasses /\ (ac.base = "none" \/ (ac.base = "single" /\ rel # "same"))  \* NONE: no output; SINGLE: the same-index output
\* ZIP 143 / 243
Excluded4(ac, f, rel) ==
    \/ f \in { "in.prevout_hash", "in.prevout_n" } /\ ac.acp /\ rel # "same"
    \/ f = "in.sequence" /\ (ac.acp \/ ac.base # "all") /\ rel # "same"                 \* NONE / SINGLE also free the other sequences
    \/ f \in OutputClasses /\ (ac.base = "none" \/ (ac.base = "single" /\ rel # "same"))
Excluded(ver, ac, f, rel) == IF V5Plus(ver) THEN Excluded5(ac, f, rel) ELSE Excluded4(ac, f, rel)

InTxid(ver, f) == IF V5Plus(ver) THEN Role(ver, f) = "effecting" ELSE OnWire(ver, f)
\* (the root of the authorising-data commitment is personalised with the consensus branch id)
InAuth(ver, f) == V5Plus(ver) /\ (Role(ver, f) = "authorising" \/ f = "branch")
InSig(ver, ac, f, rel) ==
    CASE f = "hash_type" -> IF V5Plus(ver) THEN ac.tclass = "inputs" ELSE TRUE
      [] f = "script_code" -> ~V5Plus(ver) /\ ac.kind = "transparent"
      [] Role(ver, f) = "effecting" -> ~Excluded(ver, ac, f, rel)
      [] Role(ver, f) = "context" -> TRUE
      \* the coin: v5+ commits to the values and scripts of all coins (of the signed one only under
      \* ANYONECANPAY); v3 / v4 to the value of the signed coin (and to the script code, a parameter)
      [] f = "coin.value" -> IF V5Plus(ver) THEN ac.tclass = "inputs" /\ (~ac.acp \/ rel = "same")
                             ELSE ac.kind = "transparent" /\ rel = "same"
      [] f = "coin.script" -> V5Plus(ver) /\ ac.tclass = "inputs" /\ (~ac.acp \/ rel = "same")
      [] OTHER -> FALSE

\* -- theorems over one shape ------------------------------------------------------------------
AllInstances(sh, cs) == Instances(sh) \cup (IF cs.kind = "transparent" THEN { << "hash_type", 0 >> } ELSE { })
                                      \cup (IF cs.kind = "transparent" THEN { << "script_code", 0 >> } ELSE { })

TreeEqualsRuleT(sh, txl, aul) ==
    /\ \A fi \in Instances(sh) : (fi \in txl) = InTxid(sh.ver, fi[1])
    /\ V5Plus(sh.ver) => \A fi \in Instances(sh) : (fi \in aul) = InAuth(sh.ver, fi[1])
    /\ txl \subseteq Instances(sh) /\ (V5Plus(sh.ver) => aul \subseteq Instances(sh))
TreeEqualsRuleS(sh, cs, sl) ==
    /\ \A fi \in AllInstances(sh, cs) : (fi \in sl) = InSig(sh.ver, Abstract(sh, cs), fi[1], Rel(fi[1], fi[2], cs))
    \* nothing else is under the digest (the hash type of a shielded case is the constant SIGHASH_ALL)
    /\ sl \subseteq AllInstances(sh, cs) \cup { << "hash_type", 0 >> }

\* Effecting(f) => f in txid /\ f in every signature digest defined to cover it
EffectingCommitted(sh, txl, cs, sl) ==
    \A fi \in Instances(sh) : Role(sh.ver, fi[1]) = "effecting" =>
        /\ fi \in txl
        /\ (~Excluded(sh.ver, Abstract(sh, cs), fi[1], Rel(fi[1], fi[2], cs)) => fi \in sl)
        /\ (Excluded(sh.ver, Abstract(sh, cs), fi[1], Rel(fi[1], fi[2], cs)) => fi \notin sl)
\* Authorising(f) /\ version >= 5 => f not in txid, not in any signature digest, in the auth commitment
AuthorisingSeparated(sh, txl, aul, cs, sl) ==
    V5Plus(sh.ver) => \A fi \in Instances(sh) : Role(sh.ver, fi[1]) = "authorising" => fi \notin txl /\ fi \notin sl /\ fi \in aul
\* a transparent signature digest commits to the value and script of the coin being spent and to the hash type
TransparentCommits(sh, cs, sl) ==
    cs.kind = "transparent" =>
        /\ << "hash_type", 0 >> \in sl /\ << "coin.value", cs.j >> \in sl
        /\ (IF V5Plus(sh.ver) THEN << "coin.script", cs.j >> ELSE << "script_code", 0 >>) \in sl
        /\ << "in.prevout_hash", cs.j >> \in sl /\ << "in.prevout_n", cs.j >> \in sl /\ << "in.sequence", cs.j >> \in sl

\* all of them for one shape; txl / aul: the leaves of its identifier / authorising commitment,
\* sigl: signature case |-> leaves of its signature digest
TreeEqualsRule(sh, txl, aul, sigl) ==
    TreeEqualsRuleT(sh, txl, aul) /\ \A cs \in SigCases(sh) : TreeEqualsRuleS(sh, cs, sigl[cs])
Effecting(sh, txl, sigl) ==
    /\ \A fi \in Instances(sh) : Role(sh.ver, fi[1]) = "effecting" => fi \in txl
    /\ \A cs \in SigCases(sh) : EffectingCommitted(sh, txl, cs, sigl[cs])
Authorising(sh, txl, aul, sigl) ==
    /\ V5Plus(sh.ver) => \A fi \in Instances(sh) : Role(sh.ver, fi[1]) = "authorising" => fi \notin txl /\ fi \in aul
    /\ \A cs \in SigCases(sh) : AuthorisingSeparated(sh, txl, aul, cs, sigl[cs])
Transparent(sh, sigl) == \A cs \in SigCases(sh) : TransparentCommits(sh, cs, sigl[cs])

-----------------------------------------------------------------------------------------
\* H uninterpreted and injective: a digest is the TERM built from its tree (free algebra).  A field
\* instance that occurs changes the term, one that does not occur leaves it unchanged.

RECURSIVE TermOf(_, _, _, _, _)
RECURSIVE TermSeq(_, _, _, _, _, _)
TermSeq(ns, k, sh, cs, ix, val) == IF k > Len(ns) THEN << >> ELSE TermOf(ns[k], sh, cs, ix, val) \o TermSeq(ns, k + 1, sh, cs, ix, val)
RECURSIVE TermEach(_, _, _, _, _, _)
TermEach(ns, i, n, sh, cs, val) == IF i > n THEN << >> ELSE TermSeq(ns, 1, sh, cs, i, val) \o TermEach(ns, i + 1, n, sh, cs, val)
\* a term is a sequence of items (concatenation = \o); a hash is ONE item holding its pre-image
TermOf(n, sh, cs, ix, val) ==
    CASE n.k = "h" -> << [h |-> n.p, br |-> IF n.br THEN val[<< "branch", 0 >>] ELSE 0, pre |-> TermSeq(n.c, 1, sh, cs, ix, val)] >>
      [] n.k = "f" -> << val[<< n.f, IF FieldDef[n.f].vec = "-" THEN 0 ELSE ix >>] >>
      [] n.k = "p" -> << val[<< n.p, 0 >>] >>
      [] n.k = "k" -> << n.bytes >>
      [] n.k = "z" -> << [z |-> n.n] >>
      [] n.k = "each" -> TermEach(n.c, 1, Count(sh, n.v), sh, cs, val)
      [] n.k = "at" -> TermSeq(n.c, 1, sh, cs, cs.j, val)
      [] n.k = "if" -> IF Holds(n.cond, sh, cs) THEN TermOf(n.t, sh, cs, ix, val) ELSE TermOf(n.e, sh, cs, ix, val)
      [] n.k \in { "cat", "sha256d" } -> TermSeq(n.c, 1, sh, cs, ix, val)
      [] n.k = "ser" -> << [ser |-> [fi \in { fi \in Instances(sh) : OnWire(sh.ver, fi[1]) } |-> val[fi]]] >>

Val0(sh) == [fi \in Instances(sh) \cup { << "hash_type", 0 >>, << "script_code", 0 >> } |-> "a"]
Flip(val, fi) == [val EXCEPT ![fi] = "b"]
TermLemmaFor(tree, sh, cs, leaves, insts) ==
    \A t0 \in { TermOf(tree, sh, cs, 0, Val0(sh)) } :
        \A fi \in insts : (TermOf(tree, sh, cs, 0, Flip(Val0(sh), fi)) # t0) = (fi \in leaves)
TermLemma(sh) ==
    /\ TermLemmaFor(TxidTree(sh.ver), sh, NoCase, TxidLeaves(sh), Instances(sh))
    /\ V5Plus(sh.ver) => TermLemmaFor(AuthTree(sh.ver), sh, NoCase, AuthLeaves(sh), Instances(sh))
    /\ \A cs \in SigCases(sh) : TermLemmaFor(SigTree(sh.ver), sh, cs, SigLeaves(sh, cs), AllInstances(sh, cs))

-----------------------------------------------------------------------------------------
\* The sensitivity table (what the harness compares one-field mutations with) and the other tables

ACases(ver) ==
    IF ~HasSighash(ver) THEN { }
    ELSE { [kind |-> "shielded", base |-> "all", acp |-> FALSE, tclass |-> t, jout |-> FALSE] : t \in { "noinputs", "coinbase", "inputs" } }
         \cup { [kind |-> "transparent", base |-> b, acp |-> a, tclass |-> "inputs", jout |-> o] :
                b \in { "all", "none", "single" }, a \in BOOLEAN, o \in BOOLEAN }
RelsOf(ac, f) == IF ac.kind = "transparent" /\ f \in Classes /\ FieldDef[f].vec \in { "vin", "vout" } THEN { "same", "other" } ELSE { "na" }
ClassesOf(ver) == { f \in Classes : Role(ver, f) # "absent" }
\* a row can be exercised: the coin exists only with signable inputs; a SINGLE case whose input has no
\* same-index output has no "same" output
RowPossible(ver, ac, f, rel) ==
    /\ (f \in { "coin.value", "coin.script" } => ac.tclass = "inputs")
    /\ (FieldDef[f].vec = "vin" => ac.tclass # "noinputs")
    /\ ~(FieldDef[f].vec = "vout" /\ rel = "same" /\ ~ac.jout)
Yes(b) == IF b THEN "changes" ELSE "unchanged"
NoAC == [kind |-> "-", base |-> "all", acp |-> FALSE, tclass |-> "-", jout |-> FALSE]
Table ==
    UNION { { [ver |-> ver, dig |-> "txid", ac |-> NoAC, f |-> f, rel |-> "na", out |-> Yes(InTxid(ver, f))] :
              f \in { f \in ClassesOf(ver) : Role(ver, f) \notin { "external" } } }
            \cup (IF V5Plus(ver)
                  THEN { [ver |-> ver, dig |-> "auth", ac |-> NoAC, f |-> f, rel |-> "na", out |-> Yes(InAuth(ver, f))] :
                         f \in { f \in ClassesOf(ver) : Role(ver, f) \notin { "external" } } }
                  ELSE { })
            \cup UNION { UNION { { [ver |-> ver, dig |-> "sig", ac |-> ac, f |-> f, rel |-> rel, out |-> Yes(InSig(ver, ac, f, rel))] :
                                   rel \in { r \in RelsOf(ac, f) : RowPossible(ver, ac, f, r) } } : f \in ClassesOf(ver) }
                         \cup (IF ac.kind = "transparent"
                               THEN { [ver |-> ver, dig |-> "sig", ac |-> ac, f |-> p, rel |-> "na", out |-> Yes(InSig(ver, ac, p, "na"))] :
                                      p \in Params }
                               ELSE { }) : ac \in ACases(ver) }
          : ver \in Versions }

\* hash types.  ZIP 244 S.2a: exactly 0x01, 0x02, 0x03, 0x81, 0x82, 0x83 are valid; every other value
\* makes the signature invalid (SighashType::parse refuses it).  ZIP 143: the byte is not restricted;
\* the low five bits select NONE (2) / SINGLE (3) / otherwise ALL, bit 7 is ANYONECANPAY.
ParseAccepts(b) == (b % 128) \in { 1, 2, 3 }
ParseTable == [b \in 0..255 |-> ParseAccepts(b)]
BaseOfByte(b) == CASE (b % 32) = 2 -> "none" [] (b % 32) = 3 -> "single" [] OTHER -> "all"
HashTypes(ver) ==
    IF V5Plus(ver) THEN { [byte |-> b, base |-> BaseOfByte(b), acp |-> b >= 128] : b \in { b \in 0..255 : ParseAccepts(b) } }
    ELSE { [byte |-> b, base |-> BaseOfByte(b), acp |-> b >= 128] : b \in { 1, 2, 3, 129, 130, 131, 0, 4, 65, 35, 34, 255, 163, 128 } }
\* the valid v5 bytes are exactly the encodings of the six named cases
HashTypesSound == \A ht \in HashTypes("v5") : ht.byte = BaseCode(ht.base) + (IF ht.acp THEN 128 ELSE 0)

\* SignableInput::from_parts(bundle, .., index, ..): accepted iff the bundle has an input at that index (0-based)
IndexCases == { [nIn |-> n, index |-> i, ok |-> i < n] : n \in 0..3, i \in 0..4 }

=========================================================================================
