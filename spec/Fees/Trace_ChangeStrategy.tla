------------------------------ MODULE Trace_ChangeStrategy ------------------------------
(* C07, code -> spec: validates an ndjson trace written by harness/h_tx/src/bin/c07_driver.rs.   *)
(* Every line is an independent record (whole-table form): a call of the real code with its      *)
(* abstracted arguments and its outcome.  A record is matched iff the specification allows it:   *)
(*   "bal"     ChangeStrategy::compute_balance        -> ChangeStrategy!Allowed (amounts DecNat) *)
(*   "fee"     FeeRule::fee_required, native numbers  -> Zip317!Fee                              *)
(*   "feebig"  FeeRule::fee_required, huge counts     -> the same formula in DecNat; an amount   *)
(*             above MAX_MONEY must be reported as an overflow error, never wrapped              *)
(* Amounts are little-endian decimal digit arrays (see DecNatFees).                              *)
EXTENDS Integers, Sequences, TLC, Json, IOUtils, DecNatFees

VARIABLE l

DMaxMoney == DMulS(DOf(21000000), 100000000)
\* {1,2,5}*10^k within [MAX_RESIDUAL_VALUE = 10^6, DENOM_CAP = 10^12] zatoshi (ZIP 318)
DCanon(a) == DOneTwoFive(a, 7, 12) \/ (DOneTwoFive(a, 13, 13) /\ a[13] = 1)

CS == INSTANCE ChangeStrategy WITH NAdd <- DAdd, NSub <- DSub, NLe <- DLe, NOf <- DOf,
                                   NMulS <- DMulS, NCanon <- DCanon, MaxMoney <- DMaxMoney,
                                   FoldCap <- 100000,
                                   \* env C07_KNOWN_ORCHARD_OUTPUTS = "1" iff known_findings.json lists
                                   \* C07-orchard-outputs-after-nu63 as open (set by checks/c07.py on every run)
                                   KnownOrchardOutputs <- (IOEnv.C07_KNOWN_ORCHARD_OUTPUTS = "1")

Rec == ndJsonDeserialize(IOEnv.TRACE)

\* --- fee_required on native numbers ---
FeeRecOK(r) ==
    LET c == [tin |-> r.tin, tout |-> r.tout, ss |-> r.ss, so |-> r.so, ao |-> r.ao, ai |-> r.ai]
    IN  r.res = "ok" /\ r.fee = CS!Fee(r.rule, c)

\* --- fee_required with counts and marginal fee as DecNat ---
DCeilOK(q, bytes, unit) ==   \* q = ceil(bytes / unit), checked not computed
    /\ DLe(bytes, DMulS(q, unit))
    /\ (q # << >> => DLt(DMulS(DSub(q, DOf(1)), unit), bytes))
FeeBigOK(r) ==
    /\ DCeilOK(r.qin, r.tin, r.rule.pin) /\ DCeilOK(r.qout, r.tout, r.rule.pout)
    /\ LET la  == DAdd(DAdd(DMax(r.qin, r.qout), DMax(r.ss, r.so)), DAdd(r.ao, r.ai))
           fee == DMul(r.rule.m, DMax(DOf(r.rule.g), la))
       IN  IF DLe(fee, DMaxMoney) THEN r.res = "ok" /\ r.fee = fee
                                  ELSE r.res = "overflow"

RecOK(r) == CASE r.a = "bal"    -> CS!Allowed(r.q, r.o)
              [] r.a = "fee"    -> FeeRecOK(r)
              [] r.a = "feebig" -> FeeBigOK(r)
              [] OTHER          -> FALSE

TraceInit == l = 1
TraceNext == l <= Len(Rec) /\ RecOK(Rec[l]) /\ l' = l + 1
TraceSpec == TraceInit /\ [][TraceNext]_l

Accepted == LET n == TLCGet("stats").diameter - 1
            IN  IF n = Len(Rec) THEN PrintT(<< "TRACE", "accepted", n >>)
                ELSE /\ (Rec[n + 1].a = "bal" => PrintT(<< "WHY", ToJson(CS!Diagnose(Rec[n + 1].q, Rec[n + 1].o)) >>))
                    /\ PrintT(<< "TRACE", "rejected", n + 1, ToJson(Rec[n + 1]) >>) /\ FALSE
=========================================================================================
