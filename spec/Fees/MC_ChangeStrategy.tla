--------------------------------- MODULE MC_ChangeStrategy ---------------------------------
(* C07: ChangeStrategy.tla instantiated with native integers on a small domain (marginal fee   *)
(* 10, amounts below 200, FoldCap 20).  TLC checks, for every request of the domain:           *)
(*   Satisfiable   the postconditions never demand the impossible: for every pool the change   *)
(*                 may go to, the straightforward answer (Witness: compare the inputs with     *)
(*                 outputs + fee of the shape with the split policy's number of change notes,   *)
(*                 apply the dust policy) is allowed -- unless it breaks the Orchard turnstile, *)
(*                 and some pool always works;                                                  *)
(*   Sensitive     the postconditions are not vacuous: moving one marginal fee between fee and *)
(*                 change, dropping the remainder of a split, shortening the required amount    *)
(*                 of a refusal, or refusing a fundable request, is rejected.                   *)
(*   Promises      what the property text promises follows from the postconditions;            *)
(*   AlgorithmMeetsPostconditions   the core of `single_pool_output_balance` transcribed --      *)
(*                 `select_change_pool` (incl. the NU6.3 turnstile redirection) followed by the  *)
(*                 Witness computation -- satisfies every postcondition on the whole domain.     *)
EXTENDS Integers, Sequences, TLC

CONSTANTS MaxIn,       \* the tuned input ranges over the boundary-adjacent values of 0..MaxIn
          Slices, Slice  \* only requests of this 1/Slices sample are checked (quick tier: slices rotate with the seed;
                         \* thorough tier: all slices)

IAdd(a, b) == a + b
ISub(a, b) == a - b
ILe(a, b) == a <= b
IOf(n) == n
IMul(a, k) == a * k
CanonV == 50                      \* the one "canonical denomination" of the small domain
ICanon(v) == v = CanonV
Cap == 20

N == INSTANCE ChangeStrategy WITH NAdd <- IAdd, NSub <- ISub, NLe <- ILe, NOf <- IOf, NMulS <- IMul,
                                  NCanon <- ICanon, MaxMoney <- 1000000, FoldCap <- Cap,
                                  KnownOrchardOutputs <- TRUE   \* the model of the pinned algorithm: finding open

VARIABLES q, ws, done      \* ws: pool -> Witness, computed once per request
vars == << q, ws, done >>

M == 10
Rule == [m |-> M, g |-> 2, pin |-> 150, pout |-> 34]
OutV == 25
OtherIn == 11

\* (tin, tout, sin, sout, oin, oout, iin, iout) counts; the first input present is the tuned one
Patterns == { << 1, 1, 0, 0, 0, 0, 0, 0 >>, << 2, 0, 0, 1, 0, 0, 0, 0 >>, << 0, 0, 1, 1, 0, 0, 0, 0 >>,
              << 0, 0, 1, 2, 0, 0, 0, 0 >>, << 0, 1, 2, 0, 0, 0, 0, 0 >>, << 0, 0, 0, 0, 1, 1, 0, 0 >>,
              << 0, 0, 0, 0, 1, 0, 0, 1 >>, << 0, 0, 0, 0, 2, 0, 0, 1 >>, << 0, 0, 0, 0, 0, 0, 1, 1 >>,
              << 0, 0, 1, 0, 0, 1, 0, 0 >>, << 0, 0, 1, 0, 1, 0, 0, 1 >>, << 1, 0, 0, 0, 0, 0, 0, 0 >> }
Acts == {"reject", "allow", "addfee"}
Thrs == { [has |-> FALSE, v |-> 0], [has |-> TRUE, v |-> 0], [has |-> TRUE, v |-> 15], [has |-> TRUE, v |-> 35] }
Splits == { [hasMeta |-> FALSE, target |-> 1, notes |-> -1, min |-> 0],
            [hasMeta |-> TRUE, target |-> 3, notes |-> 0, min |-> 0],
            [hasMeta |-> TRUE, target |-> 3, notes |-> 0, min |-> 12],
            [hasMeta |-> TRUE, target |-> 3, notes |-> 1, min |-> 30] }
Regimes == { [nu63 |-> FALSE, ov3 |-> FALSE, grid |-> TRUE], [nu63 |-> TRUE, ov3 |-> TRUE, grid |-> TRUE],
             [nu63 |-> TRUE, ov3 |-> TRUE, grid |-> FALSE] }
\* f: built with `transparent-inputs` (the ephemeral output is listed among the change values)
\* (an ephemeral input with the feature is covered by tpolicy = "allowed", which implies the feature)
Ephs == { [k |-> "none", v |-> 0, f |-> FALSE], [k |-> "in", v |-> 30, f |-> FALSE], [k |-> "out", v |-> 30, f |-> FALSE],
          [k |-> "out", v |-> 30, f |-> TRUE] }
TPols == {"shield", "allowed"}

Rep(n, v) == [j \in 1..n |-> v]
Tuned(pat, slot, iv) ==   \* values of the inputs of pool `slot` (1 transparent, 3 sapling, 5 orchard, 7 ironwood)
    LET first == CHOOSE s \in {1, 3, 5, 7} : pat[s] > 0 /\ \A t \in {1, 3, 5, 7} : t < s => pat[t] = 0
    IN  [j \in 1..pat[slot] |-> IF slot = first /\ j = 1 THEN iv ELSE OtherIn]

MkReq(pat, iv, act, thr, sp, memo, hr, ep, tp, fb) ==
    [rule |-> Rule, hasMeta |-> sp.hasMeta, notes |-> sp.notes, target |-> sp.target, minSplit |-> sp.min,
     act |-> act, hasThr |-> thr.has, thr |-> thr.v, fallback |-> fb, memo |-> memo,
     ephK |-> ep.k, ephV |-> ep.v,
     targetH |-> IF hr.nu63 THEN 250 ELSE 150, nu63H |-> 200, anchorH |-> IF hr.grid THEN 144 ELSE 145, interval |-> 144,
     ov3 |-> hr.ov3, sapType |-> "default",
     tinV |-> Tuned(pat, 1, iv), tinS |-> Rep(pat[1], 150),
     toutV |-> Rep(pat[2], OutV), toutS |-> Rep(pat[2], 34),
     sin |-> Tuned(pat, 3, iv), sout |-> Rep(pat[4], OutV),
     oin |-> Tuned(pat, 5, iv), oout |-> Rep(pat[6], OutV),
     iin |-> Tuned(pat, 7, iv), iout |-> Rep(pat[8], CanonV),
     tpolicy |-> tp, tfeat |-> ep.f \/ tp = "allowed"]

NoReq == MkReq(<< 1, 0, 0, 0, 0, 0, 0, 0 >>, 0, "reject", [has |-> FALSE, v |-> 0],
               [hasMeta |-> FALSE, target |-> 1, notes |-> -1, min |-> 0], FALSE,
               [nu63 |-> FALSE, ov3 |-> FALSE, grid |-> TRUE], [k |-> "none", v |-> 0, f |-> FALSE], "shield", "sapling")

(* ------------------------------------------------------------------------------------------ *)
Out(k) == [k |-> k, change |-> << >>, fee |-> 0, hasDummy |-> FALSE, dummy |-> << 0, 0, 0 >>,
           available |-> 0, required |-> 0, dt |-> << >>, ds |-> << >>, do |-> << >>, di |-> << >>, e |-> ""]

WitnessOf(q0, p) ==
    LET d    == N!Facts(q0)
        in   == d.in
        out  == d.out
        sh   == d.sh
        fee0 == d.fee0
        k    == d.pool[p].notes
        fee  == d.pool[p].fee
        need == out + fee
        chg  == in - need
        memo == d.memo
        \* with `transparent-inputs` the ephemeral output is appended to the change values (common.rs:827) and the
        \* recorded padding is computed from the list that includes it
        ephs == IF q0.tfeat /\ q0.ephK = "out"
                THEN << [pool |-> "transparent", v |-> q0.ephV, memo |-> FALSE, eph |-> TRUE] >> ELSE << >>
        bal(chs, f, man) == [Out("balance") EXCEPT !.change = chs \o ephs, !.fee = f, !.hasDummy = TRUE,
                                                   !.dummy = N!Dummies(sh, [man EXCEPT !.e = Len(ephs)])]
        notes == [j \in 1..k |-> [pool |-> p, v |-> IF j = 1 THEN (chg \div k) + (chg % k) ELSE chg \div k,
                                  memo |-> memo, eph |-> FALSE]]
        simple == IF p = "transparent" /\ chg = 0 THEN bal(<< >>, fee, N!NoChange) ELSE bal(notes, fee, N!InPool(p, k))
        refuse(r) == [Out("insufficient") EXCEPT !.available = in, !.required = r]
    IN  IF in < out + fee0 THEN refuse(out + fee0)
        ELSE IF in = out + fee0 /\ N!NoShieldedValue(q0) /\ ~memo THEN bal(<< >>, fee0, N!NoChange)
        ELSE IF in < need THEN refuse(need)
        ELSE IF chg >= d.thr THEN simple
        ELSE IF q0.act = "reject" THEN (IF chg = 0 THEN simple ELSE refuse(need + d.thr))
        ELSE IF q0.act = "allow" THEN simple
        ELSE IF chg > Cap THEN simple
        ELSE IF memo THEN bal(<< [pool |-> p, v |-> 0, memo |-> TRUE, eph |-> FALSE] >>, fee + chg, N!InPool(p, 1))
        ELSE bal(<< >>, fee + chg, N!NoChange)

\* two levels so that the workers share the enumeration
\* fees are multiples of 10, outputs of 5, thresholds 0/10/15/35: every boundary is a multiple of 5 or next to one
InVals == {x \in 0..MaxIn : x % 5 \in {0, 1, 4}}
\* a slice is a 1/Slices sample spread over the whole product of the domain
Salt(r, iv, memo, hr, ep) ==
    (iv \div 5) + (iv % 5) * 3 + Len(r.tinV) + 2 * Len(r.toutV) + 3 * Len(r.sin) + 5 * Len(r.sout) + 7 * Len(r.oin)
    + 11 * Len(r.oout) + 13 * Len(r.iin) + (IF r.act = "reject" THEN 0 ELSE IF r.act = "allow" THEN 17 ELSE 19)
    + r.thr + r.minSplit + r.notes + 1 + (IF r.hasThr THEN 43 ELSE 0) + (IF memo THEN 23 ELSE 0)
    + (IF hr.nu63 THEN 29 ELSE 0) + (IF hr.grid THEN 0 ELSE 31) + (IF ep.k = "in" THEN 37 ELSE IF ep.k = "out" THEN 41 ELSE 0)
    + (IF ep.f THEN 47 ELSE 0)
Init == /\ q = NoReq /\ done = 0 /\ ws = << >>
Pick1 == /\ done = 0 /\ done' = 1 /\ ws' = ws
         /\ \E pat \in Patterns, act \in Acts, thr \in Thrs, sp \in Splits :
              q' = MkReq(pat, 0, act, thr, sp, FALSE, [nu63 |-> FALSE, ov3 |-> FALSE, grid |-> TRUE],
                         [k |-> "none", v |-> 0, f |-> FALSE], "shield", "sapling")
Pick2 == /\ done = 1 /\ done' = 2
         /\ \E iv \in InVals, memo \in BOOLEAN, hr \in Regimes, ep \in Ephs, tp \in TPols, fb \in {"sapling", "orchard"} :
              /\ (fb = "orchard" => N!NoShieldedIO(q))      \* the fallback pool only matters for transparent flows
              /\ Salt(q, iv, memo, hr, ep) % Slices = Slice
              /\ (tp = "allowed" => N!NoShieldedIO(q))       \* the policy only matters for transparent flows
              /\ LET pat == << Len(q.tinV), Len(q.toutV), Len(q.sin), Len(q.sout), Len(q.oin), Len(q.oout),
                               Len(q.iin), Len(q.iout) >>
                 IN  q' = MkReq(pat, iv, q.act, [has |-> q.hasThr, v |-> q.thr],
                                [hasMeta |-> q.hasMeta, target |-> q.target, notes |-> q.notes, min |-> q.minSplit],
                                memo, hr, ep, tp, fb)
         /\ ws' = [p \in N!CandPools(q') |-> WitnessOf(q', p)]
Next == Pick1 \/ Pick2
Spec == Init /\ [][Next]_vars

Ready == done = 2
Ok(d, w) == N!AllowedD(q, d, w)

Satisfiable ==
    Ready =>
      LET d == N!Facts(q)
      IN  /\ \A p \in d.cand :
               LET w == ws[p]
               IN  (w.k = "balance" /\ ~N!TurnstileA(q, d, N!Answer(q, d, w))) \/ Ok(d, w)
          /\ \E p \in d.cand : Ok(d, ws[p])

\* perturbations of a legitimate answer that the property forbids
Sensitive ==
    Ready =>
      LET d == N!Facts(q)
      IN  \A p \in d.cand :
            LET w == ws[p]
            IN  /\ w.k = "balance" =>
                     \* the fee is not negotiable: a marginal fee moved from the fee into the change, or back
                     /\ (Len(w.change) > 0 /\ ~w.change[1].eph /\ w.fee >= M =>
                            ~Ok(d, [w EXCEPT !.fee = @ - M, !.change[1].v = @ + M]))
                     /\ (Len(w.change) > 0 /\ ~w.change[1].eph /\ w.change[1].v > M =>
                            ~Ok(d, [w EXCEPT !.fee = @ + M, !.change[1].v = @ - M]))
                     \* the ephemeral output is listed exactly once with exactly the requested value
                     /\ (\E j \in 1..Len(w.change) : w.change[j].eph) =>
                            LET j == CHOOSE j \in 1..Len(w.change) : w.change[j].eph
                            IN  /\ ~Ok(d, [w EXCEPT !.change = SubSeq(w.change, 1, j - 1)])
                                /\ ~Ok(d, [w EXCEPT !.change = @ \o << w.change[j] >>])
                                /\ ~Ok(d, [w EXCEPT !.change[j].v = @ + 1])
                                /\ ~Ok(d, [w EXCEPT !.change[j].eph = FALSE])
                     \* value is conserved exactly
                     /\ ~Ok(d, [w EXCEPT !.fee = @ + 1])
                     /\ (Len(w.change) > 0 => ~Ok(d, [w EXCEPT !.change[1].v = @ + 1]))
                     \* a zero-valued transparent change output is not created
                     /\ (d.mayT /\ w.change = << >> =>
                            ~Ok(d, [w EXCEPT !.change = << [pool |-> "transparent", v |-> 0, memo |-> FALSE, eph |-> FALSE] >>]))
                     \* the remainder of a split is not lost
                     /\ (Len(w.change) > 1 /\ w.change[1].v > w.change[2].v =>
                            ~Ok(d, [w EXCEPT !.change[1].v = w.change[2].v]))
                     \* the padding recorded for the builder is the padding that was paid for
                     /\ ~Ok(d, [w EXCEPT !.dummy[3] = @ + 1])
                /\ w.k = "insufficient" =>
                     /\ ~Ok(d, [w EXCEPT !.required = @ - 1])
                     /\ ~Ok(d, [w EXCEPT !.available = @ + 1])
                \* a fundable request may not be refused with made-up numbers, nor answered with a panic
                /\ ((\A p2 \in d.cand : ws[p2].k = "balance") =>
                        ~Ok(d, [Out("insufficient") EXCEPT !.available = d.in, !.required = d.in + 1]))
                /\ ~Ok(d, Out("panic"))

\* `select_change_pool` transcribed: stay in a pool the transaction already touches (Orchard, else
\* Ironwood, else Sapling), else the fallback pool; after NU6.3 Orchard only if Orchard notes are
\* spent and even the largest possible change is smaller than what they remove; transparent change
\* when the policy allows it for fully transparent flows
Pos(s) == N!NSum(s) > 0
SelectPool(d) ==
    LET preferred == IF Pos(q.oin) \/ Pos(q.oout) THEN "orchard"
                     ELSE IF Pos(q.iin) \/ Pos(q.iout) THEN "ironwood"
                     ELSE IF Pos(q.sin) \/ Pos(q.sout) THEN "sapling"
                     ELSE q.fallback
        maxChange == IF d.in >= d.out + d.fee0 THEN d.in - (d.out + d.fee0) ELSE 0
    IN  IF d.mayT THEN "transparent"
        ELSE IF d.nu63 /\ preferred = "orchard" /\ (~Pos(q.oin) \/ maxChange >= N!NSum(q.oin)) THEN "ironwood"
        ELSE preferred
\* the algorithm -- pool selection, then the witness computation -- meets every postcondition,
\* the Orchard turnstile included
AlgorithmMeetsPostconditions ==
    Ready => LET d == N!Facts(q) IN Ok(d, ws[SelectPool(d)])

\* the literal turnstile law of the property holds for every allowed balance outside the known class
\* (requested Orchard output value after NU6.3), and inside the class the pinned algorithm does break it
\* for some request of the domain (so the excuse is not vacuous: checking OrchardLawBrokenSomewhere as an
\* invariant by hand makes TLC print such a request as the "counterexample")
LiteralTurnstile ==
    Ready =>
      LET d == N!Facts(q)
      IN  \A p \in d.cand :
            LET w == ws[p]
            IN  (w.k = "balance" /\ Ok(d, w) /\ ~N!InKnownOrchardClass(q, d)) =>
                  N!OrchardNeverGains(q, d, N!Answer(q, d, w))
OrchardLawBrokenSomewhere ==     \* NOT an invariant: a counterexample is the witness of the known finding
    Ready => LET d == N!Facts(q) IN
               LET w == ws[SelectPool(d)] IN w.k = "balance" => N!OrchardNeverGains(q, d, N!Answer(q, d, w))

\* what the property promises about any allowed balance, derived from the postconditions
Promises ==
    Ready =>
      LET d == N!Facts(q)
      IN  \A p \in d.cand :
            LET w == ws[p]
                f == N!ShapeFee(q.rule, d.sh, N!Manifest(w))
            IN  (w.k = "balance" /\ Ok(d, w)) =>
                  /\ w.fee >= Rule.m * Rule.g
                  /\ w.fee >= f
                  /\ (w.fee > f => q.act = "addfee" \/ d.mayT)
                  \* value is conserved over everything listed: inputs = requested outputs + listed change values + fee
                  /\ N!NSum(q.tinV) + N!EphIn(q) + N!NSum(q.sin) + N!NSum(q.oin) + N!NSum(q.iin)
                       = N!NSum(q.toutV) + N!NSum(q.sout) + N!NSum(q.oout) + N!NSum(q.iout)
                         + N!NSum(N!Values(w.change)) + w.fee + (IF q.tfeat THEN 0 ELSE N!EphOut(q))
===========================================================================================
