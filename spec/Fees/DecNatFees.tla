---------------------------------- MODULE DecNatFees ----------------------------------
(* Natural numbers beyond TLC's 32-bit integers, for C07 (MAX_MONEY = 2.1 * 10^15 zatoshi).       *)
(* A number is a little-endian sequence of decimal digits without leading zeros (so the highest   *)
(* digit, the last element, is non-zero and zero is << >>); equality of numbers is equality of    *)
(* sequences.  MC_DecNatFees checks every operator against native arithmetic.                     *)
EXTENDS Integers, Sequences

DIsNum(a) == /\ \A i \in 1..Len(a) : a[i] \in 0..9
             /\ (Len(a) > 0 => a[Len(a)] # 0)

DDigit(a, i) == IF i <= Len(a) THEN a[i] ELSE 0

RECURSIVE DOf(_)
DOf(n) == IF n = 0 THEN << >> ELSE << n % 10 >> \o DOf(n \div 10)

RECURSIVE DNorm(_)
DNorm(a) == IF Len(a) = 0 THEN a
            ELSE IF a[Len(a)] = 0 THEN DNorm(SubSeq(a, 1, Len(a) - 1)) ELSE a

RECURSIVE DAddR(_, _, _, _)
DAddR(a, b, i, c) ==
    IF i > Len(a) /\ i > Len(b) THEN (IF c = 0 THEN << >> ELSE << c >>)
    ELSE LET s == DDigit(a, i) + DDigit(b, i) + c
         IN  << s % 10 >> \o DAddR(a, b, i + 1, s \div 10)
DAdd(a, b) == DAddR(a, b, 1, 0)

RECURSIVE DCmpR(_, _, _)
DCmpR(a, b, i) == IF i = 0 THEN 0
                  ELSE IF a[i] < b[i] THEN -1
                  ELSE IF a[i] > b[i] THEN 1
                  ELSE DCmpR(a, b, i - 1)
DCmp(a, b) == IF Len(a) < Len(b) THEN -1
              ELSE IF Len(a) > Len(b) THEN 1
              ELSE DCmpR(a, b, Len(a))
DLe(a, b) == DCmp(a, b) <= 0
DLt(a, b) == DCmp(a, b) < 0

\* a - b for a >= b (the callers guard with DLe); digits of a beyond b are copied with the borrow
RECURSIVE DSubR(_, _, _, _)
DSubR(a, b, i, br) ==
    IF i > Len(a) THEN << >>
    ELSE LET d == DDigit(a, i) - DDigit(b, i) - br
         IN  IF d < 0 THEN << d + 10 >> \o DSubR(a, b, i + 1, 1)
                      ELSE << d >> \o DSubR(a, b, i + 1, 0)
DSub(a, b) == DNorm(DSubR(a, b, 1, 0))

\* a * k for a native k (k < 10^8 keeps every intermediate far below 2^31)
RECURSIVE DMulR(_, _, _, _)
DMulR(a, k, i, c) ==
    IF i > Len(a) THEN DOf(c)
    ELSE LET p == a[i] * k + c
         IN  << p % 10 >> \o DMulR(a, k, i + 1, p \div 10)
DMulS(a, k) == IF k = 0 \/ Len(a) = 0 THEN << >> ELSE DMulR(a, k, 1, 0)

\* general product (schoolbook)
RECURSIVE DMulG(_, _, _)
DMulG(a, b, i) ==
    IF i > Len(b) THEN << >>
    ELSE LET rest == DMulG(a, b, i + 1)
             sh   == IF Len(rest) = 0 THEN << >> ELSE << 0 >> \o rest
         IN  DAdd(DMulS(a, b[i]), sh)
DMul(a, b) == DMulG(a, b, 1)

DMax(a, b) == IF DLe(a, b) THEN b ELSE a

\* {1, 2, 5} * 10^k with at least lo and at most hi digits
DOneTwoFive(a, lo, hi) ==
    /\ Len(a) >= lo /\ Len(a) <= hi
    /\ a[Len(a)] \in {1, 2, 5}
    /\ \A i \in 1..(Len(a) - 1) : a[i] = 0
=======================================================================================
