------------------------------------- MODULE Builder -------------------------------------
(* C14: what a transaction builder must return for a *request*.                                 *)
(*                                                                                              *)
(* Written from the property text, ZIP 317 (fee, through Zip317.tla), ZIP 225 / ZIP 243 / the   *)
(* NU6.3 transaction format (which transaction version exists under which network upgrade and   *)
(* which pools a version carries), the rustdoc of `Builder`, `BuildConfig`, `BundlePadding`,    *)
(* `Error::{InsufficientFunds, ChangeRequired, TargetIncompatible}`, of                         *)
(* `TransparentInputInfo::serialized_len` (the size a not-yet-signed input is charged for) and  *)
(* of the bundle builders of sapling-crypto 0.7.0 / orchard 0.15.3 (padding; "a bundle that     *)
(* disables cross-address transfers cannot carry plain outputs").  It does not follow the       *)
(* builder's control flow: BuildSpec is a definition over the request alone.                    *)
(*                                                                                              *)
(* A request q:                                                                                 *)
(*   regime   "sap" (Sapling..Canopy, v4) | "nu5" (NU5..NU6.2, v5) | "nu63" (NU6.3, v6)          *)
(*   hsel     which of two heights of the regime (first / last branch of it)                     *)
(*   pv       proposed transaction version ("none" = the builder's default) and pvWhen:          *)
(*            proposed "before" or "after" the spends and outputs are added                      *)
(*   rule     fee rule (ZIP 317 with its four parameters, or a fixed fee)                        *)
(*   tin      transparent coins spent, in order: "pkh" | "sh12" | "sh23" (k-of-n multisig P2SH)  *)
(*   tout     transparent outputs, in order: "pkh" | "sh"                                        *)
(*   sIn, sOutN, oIn, oOutN, oChgN, iIn, iOutN   shielded spends / outputs per pool (oChg =       *)
(*            wallet-owned Orchard outputs added through add_orchard_change_output)              *)
(*   opad, ipad   BundlePadding of the Orchard / Ironwood bundle                                 *)
(*   allAnch  anchors configured for every pool (else only for the pools the request uses)       *)
(*   keys     which transparent signing keys the signing set holds                               *)
(*   delta    inputs - outputs - fee (the funding input's value is chosen to make it so)         *)
EXTENDS Zip317, FiniteSets

Regimes == {"sap", "nu5", "nu63"}
Versions == {"V3", "V4", "V5", "V6"}
Pools == {"t", "s", "o", "i"}
Paddings == {"default", "unpadded", "required", "required1"}

(* ---------------------------------------------------------------------------------------- *)
(* Transaction versions (ZIP 202: v3 is the Overwinter format only; ZIP 243: v4 from        *)
(* Sapling, still valid until ZIP 2003 retires it in a later upgrade; ZIP 225: v5 from NU5;  *)
(* v6 from NU6.3) and the pools each format has a slot for.                                  *)

VersionValid(v, regime) ==
    CASE v = "V3" -> FALSE
      [] v = "V4" -> TRUE
      [] v = "V5" -> regime \in {"nu5", "nu63"}
      [] v = "V6" -> regime = "nu63"

DefaultVersion(regime) == CASE regime = "sap" -> "V4" [] regime = "nu5" -> "V5" [] regime = "nu63" -> "V6"

Carries(v, pool) ==
    CASE pool = "t" -> TRUE
      [] pool = "s" -> v \in {"V4", "V5", "V6"}
      [] pool = "o" -> v \in {"V5", "V6"}
      [] pool = "i" -> v = "V6"

\* the pool exists on chain under the regime's consensus branches
PoolActive(regime, pool) ==
    CASE pool = "o" -> regime # "sap"
      [] pool = "i" -> regime = "nu63"
      [] OTHER -> TRUE

EffVersion(q) == IF q.pv = "none" THEN DefaultVersion(q.regime) ELSE q.pv

(* ---------------------------------------------------------------------------------------- *)
(* Shape of the request                                                                      *)

InCount(q) == Len(q.tin) + q.sIn + q.oIn + q.iIn
OutCount(q) == Len(q.tout) + q.sOutN + q.oOutN + q.oChgN + q.iOutN

Required(pad) == pad \in {"required", "required1"}
MinPad(pad) == IF pad \in {"default", "required"} THEN 2 ELSE 1

Used(q, pool) ==
    CASE pool = "t" -> Len(q.tin) + Len(q.tout) > 0
      [] pool = "s" -> q.sIn + q.sOutN > 0
      [] pool = "o" -> q.oIn + q.oOutN + q.oChgN > 0
      [] pool = "i" -> q.iIn + q.iOutN > 0

\* a bundle the caller asked for: something to spend or create in it, or BundlePadding.bundle_required
Wanted(q, pool) ==
    \/ Used(q, pool)
    \/ pool = "o" /\ Required(q.opad) /\ PoolActive(q.regime, "o")
    \/ pool = "i" /\ Required(q.ipad) /\ PoolActive(q.regime, "i")

\* the caller configures an anchor (hence a bundle builder) for the pool
Anchored(q, pool) == q.allAnch \/ Wanted(q, pool)

\* the Orchard pool from NU6.3 on forbids transfers between addresses: plain outputs cannot be built
\* (orchard `BundleType::num_actions`: with cross-address transfers disabled a requested spend and a requested
\* output never share an action - requested actions = spends + outputs, else max(spends, outputs).  The bundle
\* version, hence this rule, follows the consensus branch of the target height - "Orchard pool, NU6.3 onward:
\* cross-address disabled (consensus-mandated)" - and not the transaction version that is proposed.)
CrossAddress(q, pool) == ~(pool = "o" /\ q.regime = "nu63")

\* every add_* call of the request can be made at all
Addable(q) ==
    /\ \A p \in Pools : Used(q, p) => PoolActive(q.regime, p)
    /\ q.oOutN > 0 => CrossAddress(q, "o")

\* A bundle the caller asked for - by adding something to it or by BundlePadding.bundle_required -
\* must have a slot in the transaction format: the builder may neither drop a bundle it charged for
\* nor hand out a transaction that cannot be encoded.
Unsupported(q) ==
    \/ ~Addable(q)
    \/ ~VersionValid(EffVersion(q), q.regime)
    \/ \E p \in Pools : Wanted(q, p) /\ ~Carries(EffVersion(q), p)

(* ---------------------------------------------------------------------------------------- *)
(* Sizes of transparent inputs and outputs as the fee rule sees them.                        *)
(* P2PKH input: ZIP 317's standard size, whatever the rule's own divisor is.  P2SH k-of-n    *)
(* multisig input: outpoint + CompactSize + scriptSig + sequence, the scriptSig being        *)
(* OP_0, k pushes of a maximal signature (72-byte DER + hash type) and the push of the       *)
(* redeem script  OP_k (33-byte key push)*n OP_n OP_CHECKMULTISIG.                            *)

MsK(kind) == IF kind = "sh12" THEN 1 ELSE 2
MsN(kind) == IF kind = "sh12" THEN 2 ELSE 3
CompactSizeLen(n) == IF n < 253 THEN 1 ELSE IF n <= 65535 THEN 3 ELSE 5
PushLen(n) == IF n <= 75 THEN 1 + n ELSE IF n <= 255 THEN 2 + n ELSE 3 + n
MultisigRedeemLen(n) == 1 + 34 * n + 1 + 1
P2shScriptSigLen(k, n) == 1 + k * (1 + 73) + PushLen(MultisigRedeemLen(n))
TxInSize(scriptSigLen) == 36 + CompactSizeLen(scriptSigLen) + scriptSigLen + 4
InputSize(kind) == IF kind = "pkh" THEN 150 ELSE TxInSize(P2shScriptSigLen(MsK(kind), MsN(kind)))
OutputSize(kind) == IF kind = "pkh" THEN 8 + 1 + 25 ELSE 8 + 1 + 23

RECURSIVE SumSeq(_)
SumSeq(s) == IF s = << >> THEN 0 ELSE Head(s) + SumSeq(Tail(s))

TinBytes(q) == SumSeq([j \in 1..Len(q.tin) |-> InputSize(q.tin[j])])
ToutBytes(q) == SumSeq([j \in 1..Len(q.tout) |-> OutputSize(q.tout[j])])

(* ---------------------------------------------------------------------------------------- *)
(* Padded shape: what the bundle builders turn the request into (environment: Zip317.tla).   *)

BundleActions(pad, cross, nIn, nOut) ==
    IF Required(pad)
    THEN Max2(IF cross THEN Max2(nIn, nOut) ELSE nIn + nOut, MinPad(pad))
    ELSE OrchardActions(MinPad(pad), cross, nIn, nOut)

\* a bundle builder exists for the pool: anchor configured and the pool active at the height
HasBuilder(q, pool) == Anchored(q, pool) /\ PoolActive(q.regime, pool)

PaddedCounts(q) ==
    [tin  |-> TinBytes(q),
     tout |-> ToutBytes(q),
     ss   |-> SaplingSpends("default", q.sIn),
     so   |-> SaplingOutputs("default", q.sIn, q.sOutN),
     ao   |-> IF HasBuilder(q, "o")
              THEN BundleActions(q.opad, CrossAddress(q, "o"), q.oIn, q.oOutN + q.oChgN) ELSE 0,
     ai   |-> IF HasBuilder(q, "i")
              THEN BundleActions(q.ipad, TRUE, q.iIn, q.iOutN) ELSE 0]

\* the same counts without any padding (for the theorem that padding never lowers the fee)
Unpadded(q) ==
    [tin |-> TinBytes(q), tout |-> ToutBytes(q), ss |-> q.sIn, so |-> q.sOutN,
     ao |-> IF CrossAddress(q, "o") THEN Max2(q.oIn, q.oOutN + q.oChgN) ELSE q.oIn + q.oOutN + q.oChgN,
     ai |-> Max2(q.iIn, q.iOutN)]

RuleFee(rule, c) == IF rule.kind = "fixed" THEN rule.fixed ELSE Fee(rule, c)
FeeOf(q) == RuleFee(q.rule, PaddedCounts(q))

(* ---------------------------------------------------------------------------------------- *)
(* Values.  Outputs take values from a small lattice by position (rotated by the number of   *)
(* inputs); every input but the first has a small distinct value; the first ("funding")      *)
(* input makes  inputs - outputs - fee = delta.                                              *)

OutLattice == << 50000, 0, 1, 123456, 7000, 1000000 >>
OutVal(q, j) == OutLattice[((j - 1 + InCount(q)) % Len(OutLattice)) + 1]
OutSeg(q, from, n) == [j \in 1..n |-> OutVal(q, from + j)]

ToutV(q) == OutSeg(q, 0, Len(q.tout))
SOutV(q) == OutSeg(q, Len(q.tout), q.sOutN)
OOutV(q) == OutSeg(q, Len(q.tout) + q.sOutN, q.oOutN)
OChgV(q) == OutSeg(q, Len(q.tout) + q.sOutN + q.oOutN, q.oChgN)
IOutV(q) == OutSeg(q, Len(q.tout) + q.sOutN + q.oOutN + q.oChgN, q.iOutN)
SumOut(q) == SumSeq(OutSeg(q, 0, OutCount(q)))

SumOther(q) == SumSeq([k \in 1..(InCount(q) - 1) |-> k])
Funding(q) == SumOut(q) + FeeOf(q) + q.delta - SumOther(q)
InVal(q, k) == IF k = 1 THEN Funding(q) ELSE k - 1
InSeg(q, from, n) == [j \in 1..n |-> InVal(q, from + j)]

TinV(q) == InSeg(q, 0, Len(q.tin))
SInV(q) == InSeg(q, Len(q.tin), q.sIn)
OInV(q) == InSeg(q, Len(q.tin) + q.sIn, q.oIn)
IInV(q) == InSeg(q, Len(q.tin) + q.sIn + q.oIn, q.iIn)
SumIn(q) == SumSeq(InSeg(q, 0, InCount(q)))

\* per-pool value balance: what the pool gives to the transaction
PoolBalance(q) ==
    [t |-> SumSeq(TinV(q)) - SumSeq(ToutV(q)),
     s |-> SumSeq(SInV(q)) - SumSeq(SOutV(q)),
     o |-> SumSeq(OInV(q)) - SumSeq(OOutV(q)) - SumSeq(OChgV(q)),
     i |-> SumSeq(IInV(q)) - SumSeq(IOutV(q))]

(* ---------------------------------------------------------------------------------------- *)
(* The rule.                                                                                 *)

Balance(q) ==
    LET bal == SumIn(q) - SumOut(q)
        fee == FeeOf(q)
    IN  IF bal < fee THEN [k |-> "insufficient", amt |-> fee - bal]
        ELSE IF bal > fee THEN [k |-> "change", amt |-> bal - fee]
        ELSE [k |-> "ok", amt |-> 0]

BuildSpec(q) == IF Unsupported(q) THEN [k |-> "unsupported", amt |-> 0] ELSE Balance(q)

\* what an emitted transaction (or partial transaction) looks like
OkShape(q) ==
    LET p == PaddedCounts(q)
    IN  [tin |-> Len(q.tin), tout |-> Len(q.tout), ss |-> p.ss, so |-> p.so, ao |-> p.ao, ai |-> p.ai]

(* Environment rules that are not the builder's: a PCZT can only carry Sapling data produced  *)
(* under ZIP 212 (sapling-crypto `Error::PcztRequiresZip212`), so build_for_pczt refuses      *)
(* whenever a Sapling bundle builder is configured below the end of the ZIP 212 grace period. *)
Zip212On(q) == ~(q.regime = "sap" /\ q.hsel = 0)
PcztRefused(q) == Anchored(q, "s") /\ ~Zip212On(q)

(* Signing: the full build needs the key of every P2PKH coin and k of the n keys of every     *)
(* multisig coin.  keys: "exact" (P2PKH keys, the last k keys of each multisig), "all",       *)
(* "short" (k-1 keys of each multisig), "nopkh" (multisig keys only).                         *)
HasKind(q, pred(_)) == \E j \in 1..Len(q.tin) : pred(q.tin[j])
IsSh(kind) == kind # "pkh"
IsPkh(kind) == kind = "pkh"
SigningComplete(q) ==
    /\ q.keys = "short" => ~HasKind(q, IsSh)
    /\ q.keys = "nopkh" => ~HasKind(q, IsPkh)

(* A coin may only be added together with the key (P2PKH) or the redeem script (P2SH) that     *)
(* hashes to the address in its script: same kind, same keys, same order, same threshold.     *)
(* Variants: kind + key set; "sh23C" holds the keys of "sh23A" in another order.              *)
CoinVariants == {"pkhA", "pkhB", "sh12A", "sh12B", "sh23A", "sh23C"}
SpendInfoAccepted(coin, info) == coin = info

(* ---------------------------------------------------------------------------------------- *)
(* Theorems (checked by TLC on every request of the model's domain).                         *)

\* an emitted transaction's value balance over all pools is the fee of its padded shape
OkPaysFee(q) ==
    BuildSpec(q).k = "ok" =>
        LET vb == PoolBalance(q)
        IN  /\ vb.t + vb.s + vb.o + vb.i = FeeOf(q)
            /\ FeeOf(q) = RuleFee(q.rule, PaddedCounts(q))
            /\ VersionValid(EffVersion(q), q.regime)
            /\ \A p \in Pools : Wanted(q, p) => Carries(EffVersion(q), p) /\ PoolActive(q.regime, p)
            \* every bundle that is charged for is emitted and has a slot in the format
            /\ (PaddedCounts(q).ao > 0 => Carries(EffVersion(q), "o"))
            /\ (PaddedCounts(q).ai > 0 => Carries(EffVersion(q), "i"))

\* padding only adds: every bundle is at least as large as requested, and the fee never drops
PaddingCovers(q) ==
    LET p == PaddedCounts(q)
    IN  /\ p.ss >= q.sIn /\ p.so >= q.sOutN
        /\ (q.sIn + q.sOutN > 0 => p.so >= 2)
        /\ (HasBuilder(q, "o") => p.ao >= Unpadded(q).ao)
        /\ (HasBuilder(q, "i") => p.ai >= Unpadded(q).ai)
        /\ (Addable(q) => RuleFee(q.rule, p) >= RuleFee(q.rule, Unpadded(q)))

\* one zatoshi decides: short by d -> InsufficientFunds(d); over by d -> ChangeRequired(d); exact -> built
Trichotomy(q) ==
    (~Unsupported(q) /\ InCount(q) > 0) =>
        /\ q.delta = 0 => BuildSpec(q).k = "ok"
        /\ q.delta < 0 => BuildSpec(q) = [k |-> "insufficient", amt |-> 0 - q.delta]
        /\ q.delta > 0 => BuildSpec(q) = [k |-> "change", amt |-> q.delta]
        /\ Funding(q) > 0

\* without inputs the whole of outputs + fee is missing
NoInputs(q) ==
    (~Unsupported(q) /\ InCount(q) = 0) => BuildSpec(q) = [k |-> "insufficient", amt |-> SumOut(q) + FeeOf(q)]

\* the shape that is built and charged does not depend on the proposed transaction version
CountsIgnoreProposedVersion(q) == PaddedCounts(q) = PaddedCounts([q EXCEPT !.pv = "none"])

\* support does not depend on amounts
SupportIsStructural(q) == Unsupported(q) = Unsupported([q EXCEPT !.delta = 0])
=========================================================================================
