------------------------------------- MODULE Zip317 -------------------------------------
(* C07: the ZIP 317 conventional fee, and the padding rules of the bundle builders the fee has  *)
(* to anticipate.  Written from ZIP 317 ("Fee calculation"), from the rustdoc of                *)
(* sapling-crypto 0.7.0 `BundleType::{num_spends, num_outputs}`, orchard 0.15.3                 *)
(* `BundleType::num_actions` / `BundleVersion::default_flags`, and from the rustdoc of          *)
(* `Step::is_canonical_crossing` (zcash_client_backend/src/proposal.rs) for the one case in     *)
(* which the Ironwood bundle is left unpadded.  The padding rules belong to the *environment*   *)
(* of the property: they are external crates the fee computation must agree with.               *)
(*                                                                                              *)
(* Everything here is native arithmetic over counts, byte sizes and a marginal fee small        *)
(* enough for the products to stay below 2^31 (amounts beyond that are handled by the           *)
(* number algebra of ChangeStrategy.tla and by Trace_ChangeStrategy.tla in DecNatFees).         *)
EXTENDS Integers, Sequences

Max2(a, b) == IF a >= b THEN a ELSE b
Min2(a, b) == IF a <= b THEN a ELSE b
CeilDiv(a, b) == (a + b - 1) \div b

(* ---------------------------------------------------------------------------------------- *)
(* ZIP 317.  rule = [m: marginal fee, g: grace actions, pin/pout: standard P2PKH in/out size] *)

StandardRule == [m |-> 5000, g |-> 2, pin |-> 150, pout |-> 34]

\* counts = [tin: bytes of transparent inputs, tout: bytes of transparent outputs,
\*           ss: Sapling spends, so: Sapling outputs, ao: Orchard actions, ai: Ironwood actions]
LogicalActions(rule, c) ==
    Max2(CeilDiv(c.tin, rule.pin), CeilDiv(c.tout, rule.pout)) + Max2(c.ss, c.so) + c.ao + c.ai

Fee(rule, c) == rule.m * Max2(rule.g, LogicalActions(rule, c))

(* ---------------------------------------------------------------------------------------- *)
(* Environment: what the builders turn requested spends/outputs into.                        *)

SaplingTypes == {"default", "required", "coinbase"}

\* sapling-crypto `BundleType::num_spends`; "err" for spends in a coinbase bundle
SaplingSpends(type, nIn) ==
    IF type = "coinbase" THEN (IF nIn = 0 THEN 0 ELSE -1)
    ELSE IF type = "required" \/ nIn > 0 THEN Max2(nIn, 1) ELSE 0

\* sapling-crypto `BundleType::num_outputs`: padded to 2 outputs whenever the bundle exists
SaplingOutputs(type, nIn, nOut) ==
    IF type = "coinbase" THEN (IF nIn = 0 THEN nOut ELSE -1)
    ELSE IF type = "required" \/ nIn > 0 \/ nOut > 0 THEN Max2(nOut, 2) ELSE 0

\* orchard `BundleType::Transactional{bundle_required: FALSE, pad_to_minimum: minPad}.num_actions`
\* with the default flags of the bundle version: a spend and an output share an action unless
\* cross-address transfers are disabled (the Orchard pool from NU6.3: `orchard_v3`).
OrchardActions(minPad, crossAddress, nIn, nOut) ==
    LET req == IF crossAddress THEN Max2(nIn, nOut) ELSE nIn + nOut
    IN  IF req > 0 THEN Max2(req, minPad) ELSE 0

(* ---------------------------------------------------------------------------------------- *)
(* A *request shape* and a *change manifest* give the final transaction shape.               *)
(* sh = [tinBytes, toutBytes, sIn, sOut, oIn, oOut, iIn, iOut: Nat, sapType, ov3: BOOLEAN,   *)
(*       crossable: BOOLEAN]   crossable = the request has exactly one Ironwood output, its   *)
(*       value is a canonical ZIP 318 denomination, the anchor lies on the bucket grid and    *)
(*       the step creates no ephemeral transparent output (ZIP 320).                          *)
(* ch = [t: transparent P2PKH change outputs, e: ephemeral outputs listed as change,          *)
(*       s, o, i: change outputs per shielded pool]                                           *)

NoChange == [t |-> 0, e |-> 0, s |-> 0, o |-> 0, i |-> 0]
InPool(p, n) == [t |-> IF p = "transparent" THEN n ELSE 0, e |-> 0,
                 s |-> IF p = "sapling" THEN n ELSE 0,
                 o |-> IF p = "orchard" THEN n ELSE 0,
                 i |-> IF p = "ironwood" THEN n ELSE 0]

P2pkhChangeSize == 34

\* `Step::is_canonical_crossing` minus its fee clause: one Orchard input, at most one Orchard
\* change output, no change elsewhere, no Ironwood spends, a single Ironwood output of canonical
\* denomination, anchor on the grid.  Exactly then the Ironwood bundle is built unpadded.
CanonicalCrossing(sh, ch) ==
    /\ sh.oIn = 1 /\ sh.iIn = 0
    /\ ch.i = 0 /\ ch.o <= 1 /\ ch.s = 0 /\ ch.t = 0 /\ ch.e = 0
    /\ sh.iOut = 1 /\ sh.crossable

Padded(sh, ch) ==
    [tin  |-> sh.tinBytes,
     tout |-> sh.toutBytes + P2pkhChangeSize * ch.t,
     ss   |-> SaplingSpends(sh.sapType, sh.sIn),
     so   |-> SaplingOutputs(sh.sapType, sh.sIn, sh.sOut + ch.s),
     ao   |-> OrchardActions(2, ~sh.ov3, sh.oIn, sh.oOut + ch.o),
     ai   |-> OrchardActions(IF CanonicalCrossing(sh, ch) THEN 1 ELSE 2, TRUE, sh.iIn, sh.iOut + ch.i)]

BundleRefused(sh) == SaplingSpends(sh.sapType, sh.sIn) < 0

ShapeFee(rule, sh, ch) == Fee(rule, Padded(sh, ch))

\* dummy outputs per shielded bundle = action/output slots not filled by a real output
Dummies(sh, ch) ==
    LET p == Padded(sh, ch)
    IN  << p.so - (sh.sOut + ch.s), p.ao - (sh.oOut + ch.o), p.ai - (sh.iOut + ch.i) >>
=========================================================================================
