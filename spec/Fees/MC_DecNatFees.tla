---------------------------------- MODULE MC_DecNatFees ----------------------------------
(* DecNatFees against native arithmetic on all pairs below N (TLC evaluates the ASSUME).   *)
EXTENDS DecNatFees, TLC
CONSTANT N
RECURSIVE ToInt(_)
ToInt(a) == IF Len(a) = 0 THEN 0 ELSE a[1] + 10 * ToInt(Tail(a))
OneTwoFive == {1, 2, 5, 10, 20, 50, 100, 200, 500, 1000, 2000, 5000}
ASSUME DecOK ==
    \A x \in 0..N :
      /\ DIsNum(DOf(x)) /\ ToInt(DOf(x)) = x
      /\ (DOneTwoFive(DOf(x), 2, 3) <=> (x \in OneTwoFive /\ x >= 10 /\ x <= 999))
      /\ \A y \in 0..N :
          /\ DAdd(DOf(x), DOf(y)) = DOf(x + y)
          /\ DLe(DOf(x), DOf(y)) = (x <= y)
          /\ DLt(DOf(x), DOf(y)) = (x < y)
          /\ (y <= x => DSub(DOf(x), DOf(y)) = DOf(x - y))
          /\ DMulS(DOf(x), y) = DOf(x * y)
          /\ DMul(DOf(x), DOf(y)) = DOf(x * y)
          /\ DMax(DOf(x), DOf(y)) = DOf(IF x <= y THEN y ELSE x)
ASSUME Big ==
    LET mm == DMulS(DOf(21000000), 100000000)
    IN  /\ Len(mm) = 16 /\ mm[16] = 2 /\ mm[15] = 1
        /\ DSub(DAdd(mm, DOf(999999)), DOf(999999)) = mm
        /\ DMul(DOf(5000), DMulS(DOf(1000000), 1000000)) = DMulS(DMulS(DOf(5000), 1000000), 1000000)
        /\ DLt(mm, DMul(DOf(5000), DMulS(DOf(1000000), 1000000)))
VARIABLE x
Init == x = 0
Next == UNCHANGED x
==========================================================================================
