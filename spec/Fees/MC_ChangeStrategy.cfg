SPECIFICATION Spec
CONSTANTS MaxIn = 220
  Slices = 48
  Slice = 0
INVARIANTS Satisfiable Sensitive Promises AlgorithmMeetsPostconditions
CHECK_DEADLOCK FALSE
