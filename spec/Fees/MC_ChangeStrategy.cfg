SPECIFICATION Spec
CONSTANTS MaxIn = 30
  Slices = 1
  Slice = 0
INVARIANTS Satisfiable Sensitive Promises
CHECK_DEADLOCK FALSE
