CONSTANT N = 250
INIT Init
NEXT Next
