SPECIFICATION Spec
CONSTANT Emit = TRUE
CHECK_DEADLOCK FALSE
