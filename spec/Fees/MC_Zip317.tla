------------------------------------ MODULE MC_Zip317 ------------------------------------
(* C07: the ZIP 317 fee formula on a small exhaustive domain.                                    *)
(*  - theorems about Fee (invariants over every case);                                           *)
(*  - spec -> code: with Emit = TRUE every case is printed with the fee the specification        *)
(*    computes; c07_driver fee-replay calls the real `fee_required` on each (run with -workers 1).*)
EXTENDS Zip317, TLC, Json

CONSTANT Emit
VARIABLES rule, c, done
vars == << rule, c, done >>

Rules == {StandardRule,
          [m |-> 10, g |-> 3, pin |-> 100, pout |-> 30],
          [m |-> 1, g |-> 0, pin |-> 150, pout |-> 34]}
Around(u) == {0, 1, u - 1, u, u + 1, 2 * u, 2 * u + 1}

Init == \E r \in Rules :
           /\ rule = r
           /\ c \in [tin : Around(r.pin), tout : Around(r.pout), ss : 0..3, so : 0..3, ao : 0..3, ai : 0..3]
           /\ done = FALSE

Eval == /\ ~done /\ done' = TRUE /\ UNCHANGED << rule, c >>
        /\ Emit => PrintT(<< "CASE", ToJson([rule |-> rule, c |-> c, fee |-> Fee(rule, c)]) >>)

Next == Eval
Spec == Init /\ [][Next]_vars

Fields == {"tin", "tout", "ss", "so", "ao", "ai"}
Bump(f) == [c EXCEPT ![f] = c[f] + 1]
L(x) == LogicalActions(rule, x)

\* the fee is the marginal fee times at least the grace allowance
FeeFloor == Fee(rule, c) >= rule.m * rule.g /\ Fee(rule, c) = rule.m * Max2(rule.g, L(c))
\* one more byte / spend / output / action never lowers the fee and costs at most one marginal fee
FeeMonotone == \A f \in Fields : Fee(rule, Bump(f)) >= Fee(rule, c) /\ Fee(rule, Bump(f)) <= Fee(rule, c) + rule.m
\* transparent inputs and outputs share actions (max, not sum); so do Sapling spends and outputs;
\* Orchard and Ironwood actions are added
MaxNotSum ==
    /\ L(c) = Max2(L([c EXCEPT !.tin = 0]), L([c EXCEPT !.tout = 0]))
    /\ L(c) = Max2(L([c EXCEPT !.ss = 0]), L([c EXCEPT !.so = 0]))
    /\ L(c) = L([c EXCEPT !.ao = 0, !.ai = 0]) + c.ao + c.ai
\* a whole standard-size unit is one action, one byte more is two
CeilLaw == /\ CeilDiv(rule.pin, rule.pin) = 1 /\ CeilDiv(rule.pin + 1, rule.pin) = 2 /\ CeilDiv(0, rule.pin) = 0
           /\ CeilDiv(c.tin, rule.pin) * rule.pin >= c.tin
           /\ (c.tin = 0 \/ (CeilDiv(c.tin, rule.pin) - 1) * rule.pin < c.tin)
==========================================================================================
