------------------------------------ MODULE MC_Builder ------------------------------------
(* C14: the builder rule on an exhaustive finite domain of requests, as a union of slices     *)
(* (shape x regime x balance; padding configurations; proposed versions; fee rules; anchor    *)
(* configurations; signing sets; many pools at once).                                         *)
(*  - theorems of Builder.tla as invariants over every request;                               *)
(*  - spec -> code: with Emit = TRUE every request is printed with its concrete amounts and    *)
(*    the specification's verdict; c14_replay executes each on the real builder (-workers 1).  *)
EXTENDS Builder, TLC, Json

CONSTANTS Emit,    \* print one CASE line per request
          Wide     \* thorough tier: both heights of every regime, more balance offsets
VARIABLES q, done
vars == << q, done >>

Rules == [std |-> [kind |-> "zip317", m |-> 5000, g |-> 2, pin |-> 150, pout |-> 34, fixed |-> 0],
          alt |-> [kind |-> "zip317", m |-> 7, g |-> 3, pin |-> 100, pout |-> 30, fixed |-> 0],
          fix |-> [kind |-> "fixed", m |-> 0, g |-> 0, pin |-> 1, pout |-> 1, fixed |-> 1234]]

TinShapes == { << >>, << "pkh" >>, << "pkh", "pkh" >>, << "sh12" >>, << "sh23", "pkh" >>, << "pkh", "sh12", "pkh" >> }
ToutShapes == { << >>, << "pkh" >>, << "pkh", "sh" >>, << "sh", "pkh", "pkh" >> }
TShapes == TinShapes \X ToutShapes
SShapes == (0..2) \X (0..3)
\* << spends, plain outputs, change outputs >>
OShapes == { <<0,0,0>>, <<1,0,0>>, <<2,0,0>>, <<0,1,0>>, <<1,1,0>>, <<2,1,0>>, <<1,2,0>>, <<0,3,0>>,
             <<0,0,1>>, <<1,0,1>>, <<2,0,1>>, <<1,0,2>>, <<1,1,1>> }
IShapes == { <<0,0>>, <<1,0>>, <<2,0>>, <<0,1>>, <<1,1>>, <<2,1>>, <<1,2>>, <<0,3>> }

TNone == << << >>, << >> >>
SNone == <<0, 0>>
ONone == <<0, 0, 0>>
INone == <<0, 0>>

Mk(slice, regime, hsel, pv, pvWhen, rule, t, s, o, i, opad, ipad, allAnch, keys, delta) ==
    [slice |-> slice, regime |-> regime, hsel |-> hsel, pv |-> pv, pvWhen |-> pvWhen, rule |-> rule,
     tin |-> t[1], tout |-> t[2], sIn |-> s[1], sOutN |-> s[2],
     oIn |-> o[1], oOutN |-> o[2], oChgN |-> o[3], iIn |-> i[1], iOutN |-> i[2],
     opad |-> opad, ipad |-> ipad, allAnch |-> allAnch, keys |-> keys, delta |-> delta]

\* at most two pools in use
AtMostTwo(t, s, o, i) ==
    Cardinality({p \in {"t", "s", "o", "i"} :
        (p = "t" /\ t # TNone) \/ (p = "s" /\ s # SNone) \/ (p = "o" /\ o # ONone) \/ (p = "i" /\ i # INone)}) <= 2

NIn(t, s, o, i) == Len(t[1]) + s[1] + o[1] + i[1]
NAll(t, s, o, i) == NIn(t, s, o, i) + Len(t[2]) + s[2] + o[2] + o[3] + i[2]
\* without inputs the balance offset means nothing: one case only; a request that cannot even be
\* expressed (plain Orchard outputs after NU6.3) is enumerated with one offset as well
Deltas(t, s, o, i, ds) == IF NIn(t, s, o, i) = 0 THEN {0} ELSE ds
Expressible(r, o, i) == (o = ONone \/ r # "sap") /\ (i = INone \/ r = "nu63") /\ (o[2] = 0 \/ r # "nu63")
DeltasIn(r, t, s, o, i, ds) == IF Expressible(r, o, i) THEN Deltas(t, s, o, i, ds) ELSE {0}
\* the height of the regime: both in the thorough tier, else alternating with the size of the request
Heights(t, s, o, i) == IF Wide THEN {0, 1} ELSE {NAll(t, s, o, i) % 2}

Shapes2 == {sh \in TShapes \X SShapes \X OShapes \X IShapes : AtMostTwo(sh[1], sh[2], sh[3], sh[4])}

\* S1: every shape with at most two pools, in every regime, exactly balanced / one zatoshi off
S1 == UNION {UNION {{Mk("shape", r, h, "none", "after", Rules.std, sh[1], sh[2], sh[3], sh[4], "default", "default",
                        FALSE, "exact", d) :
                        d \in DeltasIn(r, sh[1], sh[2], sh[3], sh[4], IF Wide THEN {0, 0 - 1, 1, 0 - 5000, 5000} ELSE {0, 0 - 1, 1}),
                        h \in Heights(sh[1], sh[2], sh[3], sh[4])} :
                    sh \in Shapes2} : r \in Regimes}

\* S2: padding configurations of the Orchard and Ironwood bundles, funded transparently or from the pools
S2 == LET T2 == {TNone, << << "pkh" >>, << >> >>}
      IN  UNION {{Mk("padding", "nu63", NAll(t, SNone, o, i) % 2, "none", "after", Rules.std, t, SNone, o, i, op, ip, FALSE, "exact", d) :
                    d \in DeltasIn("nu63", t, SNone, o, i, {0, 0 - 1}), op \in Paddings, ip \in Paddings} :
                 <<t, o, i>> \in T2 \X OShapes \X IShapes}
          \cup UNION {{Mk("padding", "nu5", NAll(t, SNone, o, INone) % 2, "none", "after", Rules.std, t, SNone, o, INone, op, "default", FALSE, "exact", d) :
                    d \in Deltas(t, SNone, o, INone, {0, 0 - 1}), op \in Paddings} :
                 <<t, o>> \in T2 \X OShapes}

\* S3: proposed versions, before or after the adds, against every pool-usage pattern
S3 == LET t == << << "pkh" >>, << "pkh" >> >>
      IN  UNION {{Mk("version", r, 1, pv, w, Rules.std, t, s, o, i, "default", "default", FALSE, "exact", d) :
                    r \in Regimes, pv \in Versions, w \in {"before", "after"}, d \in {0, 0 - 1}} :
                 <<s, o, i>> \in {<<0,0>>, <<1,1>>, <<0,1>>} \X {<<0,0,0>>, <<1,0,0>>, <<0,1,0>>, <<0,0,1>>} \X {<<0,0>>, <<1,0>>, <<0,1>>}}

\* S4: other fee rules (ZIP 317 with non-standard parameters, a fixed fee)
S4 == LET Sh == {sh \in Shapes2 : Cardinality({k \in 2..4 : sh[k] # (IF k = 2 THEN SNone ELSE IF k = 3 THEN ONone ELSE INone)}) <= 1}
      IN  UNION {UNION {{Mk("rule", r, NAll(sh[1], sh[2], sh[3], sh[4]) % 2, "none", "after", rule, sh[1], sh[2], sh[3], sh[4],
                            "default", "default", FALSE, "exact", d) :
                            rule \in {Rules.alt, Rules.fix}, d \in DeltasIn(r, sh[1], sh[2], sh[3], sh[4], {0, 1})} :
                        r \in {"nu5", "nu63"}} :
                 sh \in Sh}

\* S5: anchors configured for every pool, whatever the request uses
S5 == LET t == << << "pkh" >>, << >> >>
      IN  UNION {{Mk("anchors", r, h, "none", "after", Rules.std, t, sh[1], sh[2], sh[3], "default", "default", TRUE, "exact", 0) :
                    r \in Regimes, h \in {0, 1}} :
                 sh \in {x \in SShapes \X OShapes \X IShapes : AtMostTwo(t, x[1], x[2], x[3]) }}

\* S6: three and four pools at once
S6 == LET t == << << "pkh", "sh12" >>, << "pkh" >> >>
      IN  UNION {{Mk("many", r, h, "none", "after", rule, t, s, o, i, "default", "default", FALSE, "all", d) :
                    r \in {"nu5", "nu63"}, h \in {0, 1}, rule \in {Rules.std, Rules.alt}, d \in {0, 1, 0 - 1}} :
                 <<s, o, i>> \in {<<1,1>>, <<0,1>>, <<2,3>>} \X {<<1,0,1>>, <<1,1,0>>, <<0,0,1>>, <<0,0,0>>} \X {<<1,1>>, <<0,1>>, <<2,1>>, <<0,0>>}}

\* S7: signing sets against multisig and P2PKH coins
S7 == UNION {{Mk("keys", r, 1, "none", "after", Rules.std, << tin, << "pkh" >> >>, s, ONone, INone, "default", "default", FALSE, k, 0) :
                r \in Regimes, k \in {"exact", "all", "short", "nopkh"}, s \in {SNone, <<0, 1>>}} :
             tin \in {<< "sh12" >>, << "sh23" >>, << "sh23", "pkh" >>, << "pkh", "sh23" >>, << "pkh", "pkh", "pkh" >>, << "sh12", "sh23" >>}}

\* S8: a bundle required by BundlePadding.bundle_required against proposed versions that can / cannot carry it
S8 == LET Pads == {<< "required", "default" >>, << "default", "required" >>, << "required1", "required" >>}
          Pvs == {<< "none", "after" >>} \cup ({"V3", "V4", "V5", "V6"} \X {"before", "after"})
      IN  UNION {{Mk("required", r, 1, pv[1], pv[2], Rules.std, << << "pkh" >>, tout >>, SNone, o, i, pad[1], pad[2], FALSE, "exact", d) :
                    r \in Regimes, pv \in Pvs, pad \in Pads, d \in {0}} :
                 <<tout, o, i>> \in {<< >>} \X {ONone, <<1,0,0>>, <<0,0,1>>} \X {INone, <<0,1>>}}

\* S9: Orchard-family bundles with several spends AND several outputs, where "spends + outputs" (cross-address
\* transfers disabled: the Orchard pool from NU6.3, whatever transaction version is proposed) and
\* "max(spends, outputs)" (Ironwood; Orchard before NU6.3) differ, padded and unpadded, against the proposed versions
S9 == LET T9 == {TNone, << << "pkh" >>, << >> >>}
          Pad2 == {"default", "unpadded"}
          D3 == {0, 1, 0 - 1}
          PvO == {<< "none", "after" >>} \cup ({"V5", "V6"} \X {"before", "after"})
          PvI == {<< "none", "after" >>} \cup ({"V6"} \X {"before", "after"})
          Pv5 == {<< "none", "after" >>} \cup ({"V5"} \X {"before", "after"})
      IN  {Mk("crossaddr", "nu63", h, pv[1], pv[2], Rules.std, t, SNone, o, INone, pad, "default", FALSE, "exact", d) :
              h \in {0, 1}, pv \in PvO, t \in T9, o \in {<<1,0,2>>, <<2,0,1>>, <<2,0,2>>, <<3,0,1>>}, pad \in Pad2, d \in D3}
          \cup {Mk("crossaddr", "nu63", h, pv[1], pv[2], Rules.std, t, SNone, ONone, i, "default", pad, FALSE, "exact", d) :
              h \in {0, 1}, pv \in PvI, t \in T9, i \in {<<1,2>>, <<2,1>>, <<2,2>>, <<3,1>>}, pad \in Pad2, d \in D3}
          \cup {Mk("crossaddr", "nu5", h, pv[1], pv[2], Rules.std, t, SNone, o, INone, pad, "default", FALSE, "exact", d) :
              h \in {0, 1}, pv \in Pv5, t \in T9, o \in {<<1,2,0>>, <<2,1,0>>, <<2,2,0>>}, pad \in Pad2, d \in D3}

Domain == S1 \cup S2 \cup S3 \cup S4 \cup S5 \cup S6 \cup S7 \cup S8 \cup S9

Case(r) ==
    LET x == BuildSpec(r)
        alt == Balance(r)
    IN  [q |-> [slice |-> r.slice, regime |-> r.regime, hsel |-> r.hsel, pv |-> r.pv, pvWhen |-> r.pvWhen,
                rule |-> r.rule, tin |-> r.tin, tinV |-> TinV(r), tout |-> r.tout, toutV |-> ToutV(r),
                sInV |-> SInV(r), sOutV |-> SOutV(r), oInV |-> OInV(r), oOutV |-> OOutV(r), oChgV |-> OChgV(r),
                iInV |-> IInV(r), iOutV |-> IOutV(r), opad |-> r.opad, ipad |-> r.ipad,
                anch |-> [s |-> Anchored(r, "s"), o |-> Anchored(r, "o"), i |-> Anchored(r, "i")],
                keys |-> r.keys, delta |-> r.delta],
         x |-> [k |-> x.k, amt |-> x.amt,
                altK |-> alt.k, altAmt |-> alt.amt,
                addable |-> Addable(r),
                fee |-> IF Addable(r) THEN FeeOf(r) ELSE 0 - 1,
                ver |-> EffVersion(r),
                shape |-> OkShape(r), vb |-> PoolBalance(r),
                pcztRefused |-> PcztRefused(r), signOk |-> SigningComplete(r)]]

\* the table of the coin validator, printed once
ASSUME Emit => PrintT(<< "VTABLE", ToJson([c \in CoinVariants |-> [i \in CoinVariants |-> SpendInfoAccepted(c, i)]]) >>)

Init == q \in Domain /\ done = FALSE
Eval == /\ ~done /\ done' = TRUE /\ UNCHANGED q
        /\ Emit => PrintT(<< "CASE", ToJson(Case(q)) >>)
Next == Eval
Spec == Init /\ [][Next]_vars

ThOkPaysFee == done => OkPaysFee(q)
ThPaddingCovers == done => PaddingCovers(q)
ThTrichotomy == done => Trichotomy(q)
ThNoInputs == done => NoInputs(q)
ThSupportIsStructural == done => SupportIsStructural(q)
ThCountsIgnoreProposedVersion == done => CountsIgnoreProposedVersion(q)
\* amounts stay inside TLC's integers and inside what the lattice intends
ThAmountsSane == done => /\ SumIn(q) < 100000000 /\ SumOut(q) < 100000000
                         /\ \A k \in 1..InCount(q) : InVal(q, k) > 0
==========================================================================================
