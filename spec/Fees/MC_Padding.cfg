SPECIFICATION Spec
INVARIANTS PadCovers PadFloor PadMonotone CrossingFee
CHECK_DEADLOCK FALSE
