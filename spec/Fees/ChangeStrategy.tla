--------------------------------- MODULE ChangeStrategy ---------------------------------
(* C07: what a ZIP 317 change strategy (`ChangeStrategy::compute_balance` of                    *)
(* `SingleOutputChangeStrategy` / `MultiOutputChangeStrategy`) may answer for a request.        *)
(* This module states POSTCONDITIONS of each possible answer -- the property -- not the         *)
(* algorithm: `Allowed(q, o)` says whether outcome o is a legitimate answer to request q.       *)
(* Where the code has freedom the property does not constrain (which shielded pool receives the *)
(* change, which of several justified refusals is reported first) the predicate is relational.  *)
(*                                                                                              *)
(* Amounts (zatoshi) range up to MAX_MONEY = 2.1*10^15 and do not fit TLC integers, so the      *)
(* module is written over a number algebra and instantiated twice: with native integers for     *)
(* the exhaustive small-domain run (MC_ChangeStrategy) and with decimal digit sequences         *)
(* (DecNatFees) for validating traces of the real code (Trace_ChangeStrategy).  Counts, byte    *)
(* sizes, heights and the marginal fee are native; ZIP 317 fees are native and enter the        *)
(* algebra through NOf.                                                                         *)
EXTENDS Zip317, FiniteSets

CONSTANTS NAdd(_, _),   \* amount + amount
          NSub(_, _),   \* amount - amount, only used when the result is >= 0
          NLe(_, _),    \* amount <= amount
          NOf(_),       \* native natural -> amount
          NMulS(_, _),  \* amount * native natural
          NCanon(_),    \* amount is a canonical ZIP 318 denomination ({1,2,5}*10^k in [0.01, 10000] ZEC)
          MaxMoney,     \* amount: the largest representable value
          FoldCap       \* native: the most dust AddDustToFee may fold into the fee (10 * MINIMUM_FEE)

NLt(a, b) == ~NLe(b, a)
NZero == NOf(0)
NMax(a, b) == IF NLe(a, b) THEN b ELSE a
NSat(a, b) == IF NLe(b, a) THEN NSub(a, b) ELSE NZero

RECURSIVE NSumR(_, _)
NSumR(s, i) == IF i > Len(s) THEN NZero ELSE NAdd(s[i], NSumR(s, i + 1))
NSum(s) == NSumR(s, 1)

RECURSIVE SumNatR(_, _)
SumNatR(s, i) == IF i > Len(s) THEN 0 ELSE s[i] + SumNatR(s, i + 1)
SumNat(s) == SumNatR(s, 1)

MaxOf(S) == CHOOSE x \in S : \A y \in S : y <= x

ShPools == {"sapling", "orchard", "ironwood"}

(* ------------------------------------------------------------------------------------------ *)
(* The request q (every field always present):                                                *)
(*   rule [m, g, pin, pout]           the ZIP 317 parameters of the strategy's fee rule       *)
(*   hasMeta, notes, target, minSplit wallet metadata present (multi-output strategy), number *)
(*                                    of existing notes (-1 unknown), split policy            *)
(*   act, hasThr, thr                 dust policy ("reject" | "allow" | "addfee"), threshold  *)
(*   fallback, memo, ephK, ephV       fallback pool, change memo?, ephemeral balance          *)
(*   targetH, nu63H, anchorH, interval heights (nu63H = -1: NU6.3 never activates)            *)
(*   ov3, sapType                     Orchard bundle version is orchard_v3; Sapling bundle type*)
(*   tinV, tinS, toutV, toutS         transparent inputs/outputs: values, sizes (-1 unknown)  *)
(*   sin, sout, oin, oout, iin, iout  shielded inputs/outputs: values                         *)
(*   tpolicy                          "shield" | "allowed" (transparent change policy)        *)

Thr(q) == IF q.hasThr THEN q.thr ELSE NOf(q.rule.m)
Nu63(q) == q.nu63H >= 0 /\ q.targetH >= q.nu63H
EffMemo(q) == q.memo /\ q.ephK # "in"      \* the memo belongs to the step that creates the ephemeral output

\* number of change notes the split policy aims for
TargetCount(q) == IF ~q.hasMeta \/ q.notes < 0 THEN 1 ELSE Max2(1, q.target - q.notes)

EphIn(q)  == IF q.ephK = "in"  THEN q.ephV ELSE NZero
EphOut(q) == IF q.ephK = "out" THEN q.ephV ELSE NZero
SumIn(q)  == NAdd(NAdd(NAdd(NSum(q.tinV), EphIn(q)), NSum(q.sin)), NAdd(NSum(q.oin), NSum(q.iin)))
SumOut(q) == NAdd(NAdd(NAdd(NSum(q.toutV), EphOut(q)), NSum(q.sout)), NAdd(NSum(q.oout), NSum(q.iout)))

UnknownInput(q) == \E i \in 1..Len(q.tinS) : q.tinS[i] < 0

Shape(q) ==
    [tinBytes  |-> SumNat([i \in 1..Len(q.tinS) |-> Max2(q.tinS[i], 0)]) + (IF q.ephK = "in" THEN 150 ELSE 0),
     toutBytes |-> SumNat(q.toutS) + (IF q.ephK = "out" THEN 34 ELSE 0),
     sIn |-> Len(q.sin), sOut |-> Len(q.sout),
     oIn |-> Len(q.oin), oOut |-> Len(q.oout),
     iIn |-> Len(q.iin), iOut |-> Len(q.iout),
     sapType |-> q.sapType, ov3 |-> q.ov3,
     crossable |-> Len(q.iout) = 1 /\ NCanon(q.iout[1]) /\ q.anchorH % q.interval = 0]

FeeOf(q, ch) == ShapeFee(q.rule, Shape(q), ch)

NoShieldedIO(q) == Len(q.sin) + Len(q.sout) + Len(q.oin) + Len(q.oout) + Len(q.iin) + Len(q.iout) = 0
NoShieldedValue(q) == NAdd(NAdd(NAdd(NSum(q.sin), NSum(q.sout)), NAdd(NSum(q.oin), NSum(q.oout))),
                           NAdd(NSum(q.iin), NSum(q.iout))) = NZero

\* pools a change output may be sent to: any shielded pool (the choice is the strategy's), the
\* transparent pool only for fully transparent flows without memo under the opt-in policy
MayTransparentChange(q) == q.tpolicy = "allowed" /\ NoShieldedValue(q) /\ ~EffMemo(q)
CandPools(q) == ShPools \cup (IF MayTransparentChange(q) THEN {"transparent"} ELSE {})
PoolTarget(q, p) == IF p = "transparent" THEN 1 ELSE TargetCount(q)

\* `SplitPolicy`: as many notes as the target allows while each is worth at least minSplit, judged
\* on the change that would remain if the targeted number of notes were created
SplitRule(tc, min, x) ==
    LET ok == {j \in 1..tc : NLe(NMulS(min, j), x)}
    IN  IF ok = {} THEN 1 ELSE MaxOf(ok)
Basis(q, p)   == NSat(SumIn(q), NAdd(SumOut(q), NOf(FeeOf(q, InPool(p, PoolTarget(q, p))))))
Notes(q, p)   == IF p = "transparent" THEN 1 ELSE SplitRule(TargetCount(q), q.minSplit, Basis(q, p))
FeeFin(q, p)  == FeeOf(q, InPool(p, Notes(q, p)))
Need(q, p)    == NAdd(SumOut(q), NOf(FeeFin(q, p)))    \* what the inputs must cover when change goes to p

(* ------------------------------------------------------------------------------------------ *)
(* Outcome o (every field always present):                                                    *)
(*   k        "balance" | "insufficient" | "dust" | "strategy" | "bundle" | "panic"           *)
(*   change   sequence of [pool, v, memo, eph]; fee; hasDummy, dummy <<sapling, orchard, iw>> *)
(*   available, required                         (InsufficientFunds)                          *)
(*   dt, ds, do, di                              1-based indices of the inputs named as dust  *)
(*   e        "overflow" | "underflow" | "p2sh" | other                                       *)

Real(o) == SelectSeq(o.change, LAMBDA c : ~c.eph)
Ephs(o) == SelectSeq(o.change, LAMBDA c : c.eph)
CountIn(s, p) == Len(SelectSeq(s, LAMBDA c : c.pool = p))
Manifest(o) == [t |-> CountIn(Real(o), "transparent"), e |-> Len(Ephs(o)),
                s |-> CountIn(Real(o), "sapling"), o |-> CountIn(Real(o), "orchard"),
                i |-> CountIn(Real(o), "ironwood")]
Values(s) == [j \in 1..Len(s) |-> s[j].v]
ChangeTotal(o) == NSum(Values(Real(o)))

\* an ephemeral output, when listed among the change values, is exactly the requested one; its value
\* is part of Sigma out either way
EphOK(q, o) ==
    /\ Len(Ephs(o)) <= 1
    /\ Len(Ephs(o)) = 1 => /\ q.ephK = "out" /\ Ephs(o)[1].v = q.ephV
                           /\ Ephs(o)[1].pool = "transparent" /\ ~Ephs(o)[1].memo

\* Sigma in = Sigma out + Sigma change + fee, exactly (the ephemeral output is part of Sigma out and
\* is not counted a second time when it is also listed as a change value)
Conservation(q, o) == SumIn(q) = NAdd(NAdd(SumOut(q), ChangeTotal(o)), o.fee)

\* no non-zero change below the dust threshold unless the policy allows it; AddDustToFee keeps
\* dust change only when folding it would overpay by more than FoldCap
DustOK(q, o) ==
    LET t == ChangeTotal(o)
    IN  \/ t = NZero
        \/ NLe(Thr(q), t)
        \/ q.act = "allow"
        \/ (q.act = "addfee" /\ NLt(NOf(FoldCap), t))

\* after NU6.3 no value may enter the Orchard pool: Orchard change only from Orchard inputs and
\* strictly less than they remove
TurnstileOK(q, o) ==
    Nu63(q) => \/ Manifest(o).o = 0
               \/ NLt(NSum(Values(SelectSeq(Real(o), LAMBDA c : c.pool = "orchard"))), NSum(q.oin))

\* the recorded padding is the padding of the final shape
DummyOK(q, o) == o.hasDummy /\ o.dummy = Dummies(Shape(q), Manifest(o))

\* equal notes, the remainder of the division on the first
SplitValues(r) ==
    Len(r) >= 2 =>
        /\ \A j \in 2..Len(r) : r[j].v = r[2].v
        /\ NLe(r[2].v, r[1].v)
        /\ NLt(NSub(r[1].v, r[2].v), NOf(Len(r)))

FinalFee(q, o) == NOf(FeeOf(q, Manifest(o)))

\* --- the ways a balance may look ---
\* no change output: the fee is exactly the fee of that shape
Changeless(q, o) == Real(o) = << >> /\ o.fee = FinalFee(q, o)

\* change outputs, all in one pool, as many as the split policy says; fee exactly the fee of the final shape
Simple(q, o) ==
    /\ Real(o) # << >>
    /\ \E p \in CandPools(q) :
         /\ \A j \in 1..Len(Real(o)) : Real(o)[j].pool = p
         /\ Len(Real(o)) = Notes(q, p)
         /\ p = "transparent" => Real(o)[1].v # NZero
    /\ o.fee = FinalFee(q, o)
    /\ SplitValues(Real(o))

\* the named exception: a zero-valued transparent change output is omitted although the fee counts it
ZeroTransparentChangeOmitted(q, o) ==
    /\ MayTransparentChange(q) /\ Real(o) = << >>
    /\ o.fee = NOf(FeeOf(q, [Manifest(o) EXCEPT !.t = 1]))

\* AddDustToFee: change below the threshold (and at most FoldCap) is added to the fee of the shape
\* that would have carried it; no change output remains, or a single zero-valued one for the memo
DustFolded(q, o) ==
    /\ q.act = "addfee"
    /\ \/ Real(o) = << >>
       \/ (Len(Real(o)) = 1 /\ Real(o)[1].v = NZero /\ Real(o)[1].pool \in ShPools)
    /\ NLe(FinalFee(q, o), o.fee)
    /\ \E p \in (IF Real(o) = << >> THEN CandPools(q) ELSE {Real(o)[1].pool}) :
         /\ NLe(Need(q, p), SumIn(q))
         /\ LET d == NSub(SumIn(q), Need(q, p))
            IN  /\ NLt(d, Thr(q)) /\ NLe(d, NOf(FoldCap))
                /\ o.fee = NAdd(NOf(FeeFin(q, p)), d)

BalanceOK(q, o) ==
    /\ ~UnknownInput(q) /\ ~BundleRefused(Shape(q))
    /\ EphOK(q, o)
    /\ Conservation(q, o)
    /\ \A j \in 1..Len(o.change) : o.change[j].memo => q.memo
    /\ \/ Changeless(q, o) \/ Simple(q, o) \/ ZeroTransparentChangeOmitted(q, o) \/ DustFolded(q, o)
    /\ DustOK(q, o)
    /\ TurnstileOK(q, o)
    /\ DummyOK(q, o)

\* --- refusals ---
\* InsufficientFunds{available, required}: available is the input total, really smaller than
\* required, and required is outputs + the fee of a shape the strategy may emit (no change; or the
\* change notes it must create), or -- under Reject -- what would lift the change to the threshold.
\* A fully transparent request that balances exactly without change must not be refused.
InsufficientOK(q, o) ==
    /\ ~BundleRefused(Shape(q))
    /\ o.available = SumIn(q)
    /\ NLt(SumIn(q), o.required)
    /\ ~(NoShieldedIO(q) /\ ~EffMemo(q) /\ SumIn(q) = NAdd(SumOut(q), NOf(FeeOf(q, NoChange))))
    /\ \/ o.required = NAdd(SumOut(q), NOf(FeeOf(q, NoChange)))
       \/ \E p \in CandPools(q) : o.required = Need(q, p)
       \/ /\ q.act = "reject"
          /\ \E p \in CandPools(q) :
               /\ NLt(Need(q, p), SumIn(q))
               /\ NLt(NSub(SumIn(q), Need(q, p)), Thr(q))
               /\ o.required = NAdd(Need(q, p), Thr(q))

\* DustInputs: only inputs worth at most the marginal fee are ever named (necessary condition)
NamedOK(idx, vals, m) ==
    /\ \A j \in 1..Len(idx) : idx[j] \in 1..Len(vals) /\ NLe(vals[idx[j]], NOf(m))
    /\ \A j, k \in 1..Len(idx) : j # k => idx[j] # idx[k]
DustInputsOK(q, o) ==
    /\ q.rule.m > 0
    /\ Len(o.dt) + Len(o.ds) + Len(o.do) + Len(o.di) > 0
    /\ NamedOK(o.dt, q.tinV, q.rule.m) /\ NamedOK(o.ds, q.sin, q.rule.m)
    /\ NamedOK(o.do, q.oin, q.rule.m) /\ NamedOK(o.di, q.iin, q.rule.m)

\* an amount computation may be refused only when some total really leaves the valid range
TopFee(q) == MaxOf({FeeOf(q, InPool(p, PoolTarget(q, p))) : p \in ShPools \cup {"transparent"}})
NearOverflow(q) ==
    NLt(MaxMoney, NAdd(NAdd(NMax(SumIn(q), SumOut(q)), Thr(q)), NOf(TopFee(q) + FoldCap)))
StrategyOK(q, o) ==
    \/ (o.e = "p2sh" /\ UnknownInput(q))
    \/ (o.e = "overflow" /\ NearOverflow(q))

Allowed(q, o) ==
    CASE o.k = "balance"      -> BalanceOK(q, o)
      [] o.k = "insufficient" -> InsufficientOK(q, o)
      [] o.k = "dust"         -> DustInputsOK(q, o)
      [] o.k = "strategy"     -> StrategyOK(q, o)
      [] o.k = "bundle"       -> BundleRefused(Shape(q))
      [] OTHER                -> FALSE       \* a panic is never an answer

(* ------------------------------------------------------------------------------------------ *)
(* Which clause fails: printed next to a rejected trace record (diagnostics only).            *)
Diagnose(q, o) ==
    IF o.k = "balance" THEN
        [kind |-> "balance", sumIn |-> SumIn(q), sumOut |-> SumOut(q), finalShapeFee |-> FinalFee(q, o),
         inputsKnown |-> ~UnknownInput(q), bundleOk |-> ~BundleRefused(Shape(q)), ephemeral |-> EphOK(q, o),
         conservation |-> Conservation(q, o),
         feeMode |-> [changeless |-> Changeless(q, o), simple |-> Simple(q, o),
                      zeroTransparentChangeOmitted |-> ZeroTransparentChangeOmitted(q, o), dustFolded |-> DustFolded(q, o)],
         notesWanted |-> [p \in CandPools(q) |-> Notes(q, p)],
         dust |-> DustOK(q, o), turnstile |-> TurnstileOK(q, o), dummy |-> DummyOK(q, o),
         dummyWanted |-> Dummies(Shape(q), Manifest(o))]
    ELSE IF o.k = "insufficient" THEN
        [kind |-> "insufficient", sumIn |-> SumIn(q), sumOut |-> SumOut(q),
         availableIsSumIn |-> o.available = SumIn(q), reallySmaller |-> NLt(SumIn(q), o.required),
         feeNoChange |-> FeeOf(q, NoChange), need |-> [p \in CandPools(q) |-> Need(q, p)], threshold |-> Thr(q)]
    ELSE [kind |-> o.k, sumIn |-> SumIn(q), sumOut |-> SumOut(q), nearOverflow |-> NearOverflow(q),
          unknownInput |-> UnknownInput(q), bundleRefused |-> BundleRefused(Shape(q))]
=========================================================================================
