--------------------------------- MODULE ChangeStrategy ---------------------------------
(* C07: what a ZIP 317 change strategy (`ChangeStrategy::compute_balance` of                    *)
(* `SingleOutputChangeStrategy` / `MultiOutputChangeStrategy`) may answer for a request.        *)
(* This module states POSTCONDITIONS of each possible answer -- the property -- not the         *)
(* algorithm: `Allowed(q, o)` says whether outcome o is a legitimate answer to request q.       *)
(* Where the code has freedom the property does not constrain (which shielded pool receives the *)
(* change, which of several justified refusals is reported first) the predicate is relational.  *)
(*                                                                                              *)
(* Amounts (zatoshi) range up to MAX_MONEY = 2.1*10^15 and do not fit TLC integers, so the      *)
(* module is written over a number algebra and instantiated twice: with native integers for     *)
(* the exhaustive small-domain run (MC_ChangeStrategy) and with decimal digit sequences         *)
(* (DecNatFees) for validating traces of the real code (Trace_ChangeStrategy).  Counts, byte    *)
(* sizes, heights and the marginal fee are native; ZIP 317 fees are native and enter the        *)
(* algebra through NOf.                                                                         *)
EXTENDS Zip317, FiniteSets

CONSTANTS NAdd(_, _),   \* amount + amount
          NSub(_, _),   \* amount - amount, only used when the result is >= 0
          NLe(_, _),    \* amount <= amount
          NOf(_),       \* native natural -> amount
          NMulS(_, _),  \* amount * native natural
          NCanon(_),    \* amount is a canonical ZIP 318 denomination ({1,2,5}*10^k in [0.01, 10000] ZEC)
          MaxMoney,     \* amount: the largest representable value
          FoldCap,      \* native: the most dust AddDustToFee may fold into the fee (10 * MINIMUM_FEE)
          KnownOrchardOutputs  \* BOOLEAN: known finding C07-orchard-outputs-after-nu63 is open (see OrchardNeverGains)

NLt(a, b) == ~NLe(b, a)
NZero == NOf(0)
NMax(a, b) == IF NLe(a, b) THEN b ELSE a
NSat(a, b) == IF NLe(b, a) THEN NSub(a, b) ELSE NZero

RECURSIVE NSumR(_, _)
NSumR(s, i) == IF i > Len(s) THEN NZero ELSE NAdd(s[i], NSumR(s, i + 1))
NSum(s) == NSumR(s, 1)

RECURSIVE SumNatR(_, _)
SumNatR(s, i) == IF i > Len(s) THEN 0 ELSE s[i] + SumNatR(s, i + 1)
SumNat(s) == SumNatR(s, 1)

MaxOf(S) == CHOOSE x \in S : \A y \in S : y <= x

ShPools == {"sapling", "orchard", "ironwood"}

(* ------------------------------------------------------------------------------------------ *)
(* The request q (every field always present):                                                *)
(*   rule [m, g, pin, pout]           the ZIP 317 parameters of the strategy's fee rule       *)
(*   hasMeta, notes, target, minSplit wallet metadata present (multi-output strategy), number *)
(*                                    of existing notes (-1 unknown), split policy            *)
(*   act, hasThr, thr                 dust policy ("reject" | "allow" | "addfee"), threshold  *)
(*   fallback, memo, ephK, ephV       fallback pool, change memo?, ephemeral balance          *)
(*   targetH, nu63H, anchorH, interval heights (nu63H = -1: NU6.3 never activates)            *)
(*   ov3, sapType                     Orchard bundle version is orchard_v3; Sapling bundle type*)
(*   tinV, tinS, toutV, toutS         transparent inputs/outputs: values, sizes (-1 unknown)  *)
(*   sin, sout, oin, oout, iin, iout  shielded inputs/outputs: values                         *)
(*   tpolicy                          "shield" | "allowed" (transparent change policy)        *)
(*   tfeat                            the strategy is built with `transparent-inputs`: only   *)
(*                                    then may tpolicy be "allowed", and exactly then is the   *)
(*                                    ephemeral output of the step listed among the change     *)
(*                                    values (`ChangeValue::ephemeral_transparent`)            *)
(*                                                                                            *)
(* ZIP 320 (`EphemeralBalance`): a step may have ONE ephemeral transparent item. "in": the     *)
(* output of the previous step is spent -- its value is an input of this step and its size    *)
(* (a standard P2PKH input, 150 bytes) counts in the transparent-input term of the fee. "out": *)
(* the step creates a transparent output of value ephV for the next step -- a standard P2PKH   *)
(* output (34 bytes) of the fee's transparent-output term and part of "outputs" in the          *)
(* conservation law, but NOT a payment of the request and not change: it never counts towards  *)
(* the change total, the dust law or the split law.                                            *)

Thr(q) == IF q.hasThr THEN q.thr ELSE NOf(q.rule.m)
Nu63(q) == q.nu63H >= 0 /\ q.targetH >= q.nu63H
EffMemo(q) == q.memo /\ q.ephK # "in"      \* the memo belongs to the step that creates the ephemeral output

\* number of change notes the split policy aims for
TargetCount(q) == IF ~q.hasMeta \/ q.notes < 0 THEN 1 ELSE Max2(1, q.target - q.notes)

EphIn(q)  == IF q.ephK = "in"  THEN q.ephV ELSE NZero
EphOut(q) == IF q.ephK = "out" THEN q.ephV ELSE NZero
SumIn(q)  == NAdd(NAdd(NAdd(NSum(q.tinV), EphIn(q)), NSum(q.sin)), NAdd(NSum(q.oin), NSum(q.iin)))
SumOut(q) == NAdd(NAdd(NAdd(NSum(q.toutV), EphOut(q)), NSum(q.sout)), NAdd(NSum(q.oout), NSum(q.iout)))

UnknownInput(q) == \E i \in 1..Len(q.tinS) : q.tinS[i] < 0

Shape(q) ==
    [tinBytes  |-> SumNat([i \in 1..Len(q.tinS) |-> Max2(q.tinS[i], 0)]) + (IF q.ephK = "in" THEN 150 ELSE 0),
     toutBytes |-> SumNat(q.toutS) + (IF q.ephK = "out" THEN 34 ELSE 0),
     sIn |-> Len(q.sin), sOut |-> Len(q.sout),
     oIn |-> Len(q.oin), oOut |-> Len(q.oout),
     iIn |-> Len(q.iin), iOut |-> Len(q.iout),
     sapType |-> q.sapType, ov3 |-> q.ov3,
     \* a step that creates an ephemeral (transparent) output is never shaped like a migration transfer: the output
     \* is listed with the change (`Step::is_canonical_crossing`: "no change in any other pool"), so the Ironwood
     \* bundle of such a step is padded whether or not this build lists the output (finding
     \* C07-crossing-fee-with-ephemeral-output: the fee once assumed the unpadded bundle there)
     crossable |-> Len(q.iout) = 1 /\ NCanon(q.iout[1]) /\ q.anchorH % q.interval = 0 /\ q.ephK # "out"]

NoShieldedIO(q) == Len(q.sin) + Len(q.sout) + Len(q.oin) + Len(q.oout) + Len(q.iin) + Len(q.iout) = 0
NoShieldedValue(q) == NAdd(NAdd(NAdd(NSum(q.sin), NSum(q.sout)), NAdd(NSum(q.oin), NSum(q.oout))),
                           NAdd(NSum(q.iin), NSum(q.iout))) = NZero

\* pools a change output may be sent to: any shielded pool (the choice is the strategy's), the
\* transparent pool only for fully transparent flows without memo under the opt-in policy
MayTransparentChange(q) == q.tpolicy = "allowed" /\ NoShieldedValue(q) /\ ~EffMemo(q)
CandPools(q) == ShPools \cup (IF MayTransparentChange(q) THEN {"transparent"} ELSE {})

\* `SplitPolicy`: as many notes as the target allows while each is worth at least minSplit, judged
\* on the change that would remain if the targeted number of notes were created
SplitRule(tc, min, x) ==
    LET ok == {j \in 1..tc : NLe(NMulS(min, j), x)}
    IN  IF ok = {} THEN 1 ELSE MaxOf(ok)

(* Everything the predicates below need to know about a request, computed once (TLC evaluates an  *)
(* operator body at every use; a record is evaluated when it is built).  Per change pool p:       *)
(*   notes[p]  how many change notes the split policy creates when the change goes to p,          *)
(*   fee[p]    the ZIP 317 fee of the request shape with those notes,                              *)
(*   need[p]   outputs + fee[p]: what the inputs must cover.                                       *)
Facts(q) ==
    LET in  == SumIn(q)
        out == SumOut(q)
        sh  == Shape(q)
        tc  == TargetCount(q)
        feeOf(ch) == ShapeFee(q.rule, sh, ch)
        target(p) == IF p = "transparent" THEN 1 ELSE tc
        basis(p)  == NSat(in, NAdd(out, NOf(feeOf(InPool(p, target(p))))))
        notes(p)  == IF p = "transparent" THEN 1 ELSE SplitRule(tc, q.minSplit, basis(p))
        per(p) == LET n == notes(p)
                      f == feeOf(InPool(p, n))
                  IN  [notes |-> n, fee |-> f, need |-> NAdd(out, NOf(f)), top |-> feeOf(InPool(p, target(p)))]
    IN  [in |-> in, out |-> out, sh |-> sh, thr |-> Thr(q), nu63 |-> Nu63(q), memo |-> EffMemo(q),
         fee0 |-> feeOf(NoChange), cand |-> CandPools(q), mayT |-> MayTransparentChange(q),
         pool |-> [transparent |-> per("transparent"), sapling |-> per("sapling"),
                   orchard |-> per("orchard"), ironwood |-> per("ironwood")]]

\* the same quantities as plain operators (used by MC_ChangeStrategy's witness)
FeeOf(q, ch) == ShapeFee(q.rule, Shape(q), ch)
Notes(q, p)  == Facts(q).pool[p].notes
FeeFin(q, p) == Facts(q).pool[p].fee
Need(q, p)   == Facts(q).pool[p].need

(* ------------------------------------------------------------------------------------------ *)
(* Outcome o (every field always present):                                                    *)
(*   k        "balance" | "insufficient" | "dust" | "strategy" | "bundle" | "panic"           *)
(*   change   sequence of [pool, v, memo, eph]; fee; hasDummy, dummy <<sapling, orchard, iw>> *)
(*   available, required                         (InsufficientFunds)                          *)
(*   dt, ds, do, di                              1-based indices of the inputs named as dust  *)
(*   e        "overflow" | "underflow" | "p2sh" | other                                       *)

CountIn(s, p) == Len(SelectSeq(s, LAMBDA c : c.pool = p))
Values(s) == [j \in 1..Len(s) |-> s[j].v]
Manifest(o) ==
    LET real == SelectSeq(o.change, LAMBDA c : ~c.eph)
    IN  [t |-> CountIn(real, "transparent"), e |-> Len(o.change) - Len(real),
         s |-> CountIn(real, "sapling"), o |-> CountIn(real, "orchard"), i |-> CountIn(real, "ironwood")]

\* what the predicates need to know about a returned balance, computed once
\*   real: the change values proper; ephs: ephemeral outputs listed as change; man: their counts;
\*   total: the change total; final: the ZIP 317 fee of the final shape (request + change + padding)
Answer(q, d, o) ==
    LET real == SelectSeq(o.change, LAMBDA c : ~c.eph)
        man  == Manifest(o)
    IN  [real |-> real, ephs |-> SelectSeq(o.change, LAMBDA c : c.eph), man |-> man,
         total |-> NSum(Values(real)),
         orchard |-> NSum(Values(SelectSeq(real, LAMBDA c : c.pool = "orchard"))),
         final |-> NOf(ShapeFee(q.rule, d.sh, man))]

\* with `transparent-inputs` the requested ephemeral output is listed among the change values exactly once, with
\* exactly the requested value (the transaction is built from that list: an unlisted output would not be created, and
\* the inputs would exceed outputs + change + fee by its value); without the feature it is never listed
EphOK(q, a) ==
    /\ Len(a.ephs) = (IF q.tfeat /\ q.ephK = "out" THEN 1 ELSE 0)
    /\ Len(a.ephs) = 1 => /\ a.ephs[1].v = q.ephV
                          /\ a.ephs[1].pool = "transparent" /\ ~a.ephs[1].memo

\* Sigma in = Sigma out + Sigma change + fee, exactly (the ephemeral output is part of Sigma out and
\* is not counted a second time when it is also listed as a change value)
Conservation(d, a, o) == d.in = NAdd(NAdd(d.out, a.total), o.fee)

\* no non-zero change below the dust threshold unless the policy allows it; AddDustToFee keeps
\* dust change only when folding it would overpay by more than FoldCap
DustOK(q, d, a) ==
    \/ a.total = NZero
    \/ NLe(d.thr, a.total)
    \/ q.act = "allow"
    \/ (q.act = "addfee" /\ NLt(NOf(FoldCap), a.total))

\* after NU6.3 no value may enter the Orchard pool: Orchard change only from Orchard inputs and
\* strictly less than they remove
ChangeTurnstile(q, d, a) == d.nu63 => (a.man.o = 0 \/ NLt(a.orchard, NSum(q.oin)))

\* the literal law of the property: after NU6.3 the Orchard pool never gains value,
\*   Sigma requested Orchard outputs + Sigma Orchard change <= Sigma Orchard inputs.
\* Known finding C07-orchard-outputs-after-nu63 (known_findings.json): on the pinned tree a request that
\* itself carries Orchard output value after NU6.3 is not refused, and change is routed by comparing the
\* change bound with the Orchard inputs only.  Exactly that class -- positive requested Orchard output
\* value -- is excused while the entry is open (KnownOrchardOutputs, set by checks/c07.py from the file);
\* a gain of the pool without requested Orchard outputs is never excused.
InKnownOrchardClass(q, d) == d.nu63 /\ NSum(q.oout) # NZero
OrchardNeverGains(q, d, a) == d.nu63 => NLe(NAdd(NSum(q.oout), a.orchard), NSum(q.oin))
TurnstileA(q, d, a) ==
    /\ ChangeTurnstile(q, d, a)
    /\ OrchardNeverGains(q, d, a) \/ (KnownOrchardOutputs /\ InKnownOrchardClass(q, d))

\* the recorded padding is the padding of the final shape
DummyOK(d, a, o) == o.hasDummy /\ o.dummy = Dummies(d.sh, a.man)

\* equal notes, the remainder of the division on the first
SplitValues(r) ==
    Len(r) >= 2 =>
        /\ \A j \in 2..Len(r) : r[j].v = r[2].v
        /\ NLe(r[2].v, r[1].v)
        /\ NLt(NSub(r[1].v, r[2].v), NOf(Len(r)))

\* --- the ways a balance may look ---
\* no change output: the fee is exactly the fee of that shape
Changeless(a, o) == a.real = << >> /\ o.fee = a.final

\* change outputs, all in one pool, as many as the split policy says; fee exactly the fee of the final shape
Simple(d, a, o) ==
    /\ a.real # << >>
    /\ \E p \in d.cand :
         /\ \A j \in 1..Len(a.real) : a.real[j].pool = p
         /\ Len(a.real) = d.pool[p].notes
         /\ p = "transparent" => a.real[1].v # NZero
    /\ o.fee = a.final
    /\ SplitValues(a.real)

\* the named exception: a zero-valued transparent change output is omitted although the fee counts it
ZeroTransparentChangeOmitted(q, d, a, o) ==
    /\ d.mayT /\ a.real = << >>
    /\ o.fee = NOf(ShapeFee(q.rule, d.sh, [a.man EXCEPT !.t = 1]))

\* AddDustToFee: change below the threshold (and at most FoldCap) is added to the fee of the shape
\* that would have carried it; no change output remains, or a single zero-valued one for the memo
DustFolded(q, d, a, o) ==
    /\ q.act = "addfee"
    /\ \/ a.real = << >>
       \/ (Len(a.real) = 1 /\ a.real[1].v = NZero /\ a.real[1].pool \in ShPools)
    /\ NLe(a.final, o.fee)
    /\ \E p \in (IF a.real = << >> THEN d.cand ELSE {a.real[1].pool}) :
         /\ NLe(d.pool[p].need, d.in)
         /\ LET dust == NSub(d.in, d.pool[p].need)
            IN  /\ NLt(dust, d.thr) /\ NLe(dust, NOf(FoldCap))
                /\ o.fee = NAdd(NOf(d.pool[p].fee), dust)

BalanceA(q, d, a, o) ==
    /\ ~UnknownInput(q) /\ ~BundleRefused(d.sh)
    /\ EphOK(q, a)
    /\ Conservation(d, a, o)
    /\ \A j \in 1..Len(o.change) : o.change[j].memo => q.memo
    /\ \/ Changeless(a, o) \/ Simple(d, a, o) \/ ZeroTransparentChangeOmitted(q, d, a, o) \/ DustFolded(q, d, a, o)
    /\ DustOK(q, d, a)
    /\ TurnstileA(q, d, a)
    /\ DummyOK(d, a, o)

BalanceD(q, d, o) == BalanceA(q, d, Answer(q, d, o), o)

\* --- refusals ---
\* InsufficientFunds{available, required}: available is the input total, really smaller than
\* required, and required is outputs + the fee of a shape the strategy may emit (no change; or the
\* change notes it must create), or -- under Reject -- what would lift the change to the threshold.
\* A fully transparent request that balances exactly without change must not be refused.
InsufficientD(q, d, o) ==
    /\ ~BundleRefused(d.sh)
    /\ o.available = d.in
    /\ NLt(d.in, o.required)
    /\ ~(NoShieldedIO(q) /\ ~d.memo /\ d.in = NAdd(d.out, NOf(d.fee0)))
    /\ \/ o.required = NAdd(d.out, NOf(d.fee0))
       \/ \E p \in d.cand : o.required = d.pool[p].need
       \/ /\ q.act = "reject"
          /\ \E p \in d.cand :
               /\ NLt(d.pool[p].need, d.in)
               /\ NLt(NSub(d.in, d.pool[p].need), d.thr)
               /\ o.required = NAdd(d.pool[p].need, d.thr)

\* DustInputs: only inputs worth at most the marginal fee are ever named (necessary condition)
NamedOK(idx, vals, m) ==
    /\ \A j \in 1..Len(idx) : idx[j] \in 1..Len(vals) /\ NLe(vals[idx[j]], NOf(m))
    /\ \A j, k \in 1..Len(idx) : j # k => idx[j] # idx[k]
DustInputsOK(q, o) ==
    /\ q.rule.m > 0
    /\ Len(o.dt) + Len(o.ds) + Len(o.do) + Len(o.di) > 0
    /\ NamedOK(o.dt, q.tinV, q.rule.m) /\ NamedOK(o.ds, q.sin, q.rule.m)
    /\ NamedOK(o.do, q.oin, q.rule.m) /\ NamedOK(o.di, q.iin, q.rule.m)

\* an amount computation may be refused only when some total really leaves the valid range
NearOverflowD(d) ==
    LET top == MaxOf({d.pool[p].top : p \in ShPools \cup {"transparent"}})
    IN  NLt(MaxMoney, NAdd(NAdd(NMax(d.in, d.out), d.thr), NOf(top + FoldCap)))
StrategyD(q, d, o) ==
    \/ (o.e = "p2sh" /\ UnknownInput(q))
    \/ (o.e = "overflow" /\ NearOverflowD(d))

AllowedD(q, d, o) ==
    CASE o.k = "balance"      -> BalanceD(q, d, o)
      [] o.k = "insufficient" -> InsufficientD(q, d, o)
      [] o.k = "dust"         -> DustInputsOK(q, o)
      [] o.k = "strategy"     -> StrategyD(q, d, o)
      [] o.k = "bundle"       -> BundleRefused(d.sh)
      [] OTHER                -> FALSE       \* a panic is never an answer

Allowed(q, o) == AllowedD(q, Facts(q), o)
TurnstileOK(q, o) == LET d == Facts(q) IN TurnstileA(q, d, Answer(q, d, o))

(* ------------------------------------------------------------------------------------------ *)
(* Which clause fails: printed next to a rejected trace record (diagnostics only).            *)
Diagnose(q, o) ==
    LET d == Facts(q)
        a == Answer(q, d, o)
    IN  IF o.k = "balance" THEN
            [kind |-> "balance", sumIn |-> d.in, sumOut |-> d.out, finalShapeFee |-> a.final,
             inputsKnown |-> ~UnknownInput(q), bundleOk |-> ~BundleRefused(d.sh), ephemeral |-> EphOK(q, a),
             conservation |-> Conservation(d, a, o),
             feeMode |-> [changeless |-> Changeless(a, o), simple |-> Simple(d, a, o),
                          zeroTransparentChangeOmitted |-> ZeroTransparentChangeOmitted(q, d, a, o),
                          dustFolded |-> DustFolded(q, d, a, o)],
             notesWanted |-> [p \in d.cand |-> d.pool[p].notes],
             dust |-> DustOK(q, d, a), turnstile |-> TurnstileA(q, d, a),
             orchardChangeBelowInputs |-> ChangeTurnstile(q, d, a), orchardNeverGains |-> OrchardNeverGains(q, d, a),
             dummy |-> DummyOK(d, a, o),
             dummyWanted |-> Dummies(d.sh, a.man)]
        ELSE IF o.k = "insufficient" THEN
            [kind |-> "insufficient", sumIn |-> d.in, sumOut |-> d.out,
             availableIsSumIn |-> o.available = d.in, reallySmaller |-> NLt(d.in, o.required),
             feeNoChange |-> d.fee0, need |-> [p \in d.cand |-> d.pool[p].need], threshold |-> d.thr]
        ELSE [kind |-> o.k, sumIn |-> d.in, sumOut |-> d.out, nearOverflow |-> NearOverflowD(d),
              unknownInput |-> UnknownInput(q), bundleRefused |-> BundleRefused(d.sh)]
=========================================================================================
