------------------------------------ MODULE MC_Padding ------------------------------------
(* C07: theorems about the padding environment and the fee of a padded shape, for every small   *)
(* request shape and every single-pool change manifest.                                         *)
EXTENDS Zip317, TLC

VARIABLES sh, done
vars == << sh, done >>

Pools == {"transparent", "sapling", "orchard", "ironwood"}

\* two levels so that TLC's workers share the enumeration: Init fixes the flags, Next the counts
Counts == 0..2
Init == /\ sh \in [tinBytes : {0, 150}, toutBytes : {0, 34}, sIn : {0}, sOut : {0}, oIn : {0}, oOut : {0},
                   iIn : {0}, iOut : {0}, sapType : SaplingTypes, ov3 : BOOLEAN, crossable : BOOLEAN]
        /\ done = FALSE
Next == /\ ~done /\ done' = TRUE
        /\ \E a, b, c, d, e, f \in Counts :
              sh' = [sh EXCEPT !.sIn = a, !.sOut = b, !.oIn = c, !.oOut = d, !.iIn = e, !.iOut = f]
Spec == Init /\ [][Next]_vars

Manifests == {InPool(p, n) : p \in Pools, n \in 0..3}

\* every real spend and output has a slot; dummies are never negative
PadCovers ==
    (done /\ ~BundleRefused(sh)) =>
      \A ch \in Manifests :
        LET p == Padded(sh, ch)
        IN  /\ p.ss >= sh.sIn /\ p.so >= sh.sOut + ch.s
            /\ p.ao >= Max2(sh.oIn, sh.oOut + ch.o) /\ p.ai >= Max2(sh.iIn, sh.iOut + ch.i)
            /\ (sh.ov3 => p.ao >= sh.oIn + sh.oOut + ch.o)
            /\ \A j \in 1..3 : Dummies(sh, ch)[j] >= 0
\* a bundle is absent or has at least two outputs/actions, except the Ironwood bundle of a canonical crossing
PadFloor ==
    (done /\ ~BundleRefused(sh)) =>
      \A ch \in Manifests :
        LET p == Padded(sh, ch)
        IN  /\ (sh.sapType # "coinbase" => p.so = 0 \/ p.so >= 2)
            /\ (p.ao = 0 \/ p.ao >= 2)
            /\ (p.ai = 0 \/ p.ai >= 2 \/ (p.ai = 1 /\ CanonicalCrossing(sh, ch)))
            /\ (CanonicalCrossing(sh, ch) => p.ai = 1 /\ p.ao >= 2)
\* adding change outputs to a pool never lowers any padded count -- hence, with FeeMonotone of
\* MC_Zip317, never the fee: the fee with the targeted number of change notes is the largest fee the
\* strategy can arrive at, and the fee without change the smallest
PadMonotone ==
    (done /\ ~BundleRefused(sh)) =>
      \A p \in Pools, n \in 0..3 :
        LET a == Padded(sh, InPool(p, n))
            b == Padded(sh, InPool(p, n + 1))
        IN  /\ b.tin = a.tin /\ b.ss = a.ss
            /\ b.tout >= a.tout /\ b.so >= a.so /\ b.ao >= a.ao /\ b.ai >= a.ai
            /\ ShapeFee(StandardRule, sh, InPool(p, n + 1)) >= ShapeFee(StandardRule, sh, InPool(p, n))
\* the canonical ZIP 318 crossing costs three marginal fees, with or without its Orchard change
\* (rustdoc of `fees::canonical_crossing_fee`)
CrossingFee ==
    (/\ done /\ sh.oIn = 1 /\ sh.oOut = 0 /\ sh.iIn = 0 /\ sh.iOut = 1 /\ sh.crossable /\ sh.ov3
     /\ sh.sIn = 0 /\ sh.sOut = 0 /\ sh.tinBytes = 0 /\ sh.toutBytes = 0 /\ sh.sapType = "default")
    => /\ ShapeFee(StandardRule, sh, NoChange) = 15000
       /\ ShapeFee(StandardRule, sh, InPool("orchard", 1)) = 15000
       /\ ShapeFee(StandardRule, sh, InPool("ironwood", 1)) = 20000
==========================================================================================
