SPECIFICATION Spec
CONSTANTS
  Emit = FALSE
  Wide = FALSE
INVARIANTS ThOkPaysFee ThPaddingCovers ThTrichotomy ThNoInputs ThSupportIsStructural ThCountsIgnoreProposedVersion ThAmountsSane
CHECK_DEADLOCK FALSE
