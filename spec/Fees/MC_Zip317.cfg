SPECIFICATION Spec
CONSTANT Emit = FALSE
INVARIANTS FeeFloor FeeMonotone MaxNotSum CeilLaw
CHECK_DEADLOCK FALSE
