---------------------------------- MODULE ScanQueue ----------------------------------
(* C15, Layer A: the scan queue as a function height -> priority, the dominance rule applied      *)
(* pointwise to the sequence of insertions, with gaps of the hull filled with Historic *at the    *)
(* moment of the insertion*.  Layer B (SpanningTree) is run in lock step; the invariants state    *)
(* that the vector the data structure yields is the canonical form of the pointwise function      *)
(* (sorted, gap-free, non-overlapping, adjacent equal priorities merged).                         *)
EXTENDS Integers, Sequences, TLC, Json, SpanningTree

CONSTANTS MaxH,      \* heights are 0..MaxH-1, range bounds 0..MaxH
          MaxLen,    \* number of insertions explored
          EmitDepth  \* edges whose source state has fewer than this many insertions are printed (0: none)

VARIABLES queue,     \* [0..MaxH-1 -> -1..6], -1 = not covered
          lo, hi,    \* hull of all inserted ranges (lo > hi: nothing inserted yet)
          tree,      \* Layer B
          emptySeen, \* an empty range has been inserted (the code may then panic, see DESIGN C15)
          hist       \* insertions so far (hidden by VIEW)

vars == << queue, lo, hi, tree, emptySeen, hist >>
None == -1
NoTree == [k |-> "N"]

Dom(c, i, f) == IF c = None THEN i
                ELSE IF c = i THEN c
                ELSE IF i \in {Verify, Scanned} THEN i
                ELSE IF c = Scanned /\ ~f THEN c
                ELSE IF c < i THEN i ELSE c

Ranges == { <<s, e>> \in (0..MaxH) \X (0..MaxH) : s <= e }

\* the canonical vector of a queue function: maximal runs of equal priority, ascending
RECURSIVE Runs(_, _, _)
Runs(q, h, acc) ==
    IF h >= MaxH THEN acc
    ELSE IF q[h] = None THEN Runs(q, h + 1, acc)
    ELSE IF acc # << >> /\ acc[Len(acc)].e = h /\ acc[Len(acc)].p = q[h]
         THEN Runs(q, h + 1, [acc EXCEPT ![Len(acc)].e = h + 1])
         ELSE Runs(q, h + 1, Append(acc, R(h, h + 1, q[h])))
Canon(q) == Runs(q, 0, << >>)

InsertA(q, l, h, s, e, p, f) ==
    LET nl == Min2(l, s)  nh == Max2(h, e)
    IN  [x \in 0..(MaxH - 1) |->
            IF s <= x /\ x < e THEN Dom(q[x], p, f)
            ELSE IF nl <= x /\ x < nh /\ q[x] = None THEN Historic
            ELSE q[x]]

Init == /\ queue = [x \in 0..(MaxH - 1) |-> None]
        /\ lo = MaxH + 1 /\ hi = -1
        /\ tree = NoTree
        /\ emptySeen = FALSE
        /\ hist = << >>

Insert(s, e, p, f) ==
    /\ Len(hist) < MaxLen
    /\ tree.k # "X"
    /\ queue' = InsertA(queue, lo, hi, s, e, p, f)
    /\ lo' = Min2(lo, s) /\ hi' = Max2(hi, e)
    /\ tree' = IF tree.k = "N" THEN Leaf(R(s, e, p)) ELSE TInsert(tree, R(s, e, p), f)
    /\ emptySeen' = (emptySeen \/ s = e)
    /\ hist' = Append(hist, << s, e, p, f >>)
    /\ (Len(hist) < EmitDepth) =>
          PrintT(<< "EDGE", ToJson([pre |-> hist, step |-> << s, e, p, f >>,
                                    vec |-> [i \in 1..Len(Canon(queue')) |->
                                              << Canon(queue')[i].s, Canon(queue')[i].e, Canon(queue')[i].p >>],
                                    mayPanic |-> emptySeen',
                                    panics |-> (tree'.k = "X" \/ (tree'.k # "X" /\ IsPanicJ(IntoVec(tree')))),
                                    shape |-> tree']) >>)

Next == \E r \in Ranges, p \in Prio, f \in BOOLEAN : Insert(r[1], r[2], p, f)

Spec == Init /\ [][Next]_vars
View == << queue, lo, hi, tree, emptySeen, Len(hist) >>

---------------------------------------------------------------------------------------
\* Invariants

TreeVec == IF tree.k \in {"L", "P"} THEN IntoVec(tree) ELSE << >>

\* the data structure computes exactly the pointwise dominance rule (or panics, only after an empty range)
Refines == /\ (tree.k = "X" => emptySeen)
           /\ (tree.k \in {"L", "P"} =>
                  IF IsPanicJ(TreeVec) THEN emptySeen
                  ELSE TreeVec = Canon(queue))

\* gap-free partition of the hull
GapFree == \A x \in 0..(MaxH - 1) : (lo <= x /\ x < hi) <=> queue[x] # None

\* sorted, non-overlapping, contiguous, adjacent-merged
CanonShape == LET v == Canon(queue)
              IN  /\ \A i \in 1..Len(v) : v[i].s < v[i].e
                  /\ \A i \in 1..(Len(v) - 1) : v[i].e = v[i + 1].s /\ v[i].p # v[i + 1].p
                  /\ (v # << >> => v[1].s = lo /\ v[Len(v)].e = hi)

\* dominance facts the property names
Sticky == [][\A x \in 0..(MaxH - 1) :
               queue[x] = Scanned /\ queue'[x] # Scanned
                  => \E i \in {Len(hist')} : hist'[i][1] <= x /\ x < hist'[i][2]
                                            /\ (hist'[i][3] = Verify \/ hist'[i][4])]_vars
=====================================================================================
