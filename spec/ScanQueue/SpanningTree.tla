-------------------------------- MODULE SpanningTree --------------------------------
(* Layer B of C15: a transcription of the data structure the wallet uses to recompute its scan    *)
(* queue (zcash_client_backend/src/data_api/scanning/spanning_tree.rs): ScanRange helpers,        *)
(* RangeOrdering, dominance, join_nonoverlapping, join_overlapping, the leaf-level and the        *)
(* parent-level insert with all its case arms, and into_vec.  A failed assert!/expect of the      *)
(* code is the absorbing tree PanicT.                                                             *)
EXTENDS Integers, Sequences

Ignored == 0  Scanned == 1  Historic == 2  OpenAdjacent == 3  FoundNote == 4  ChainTip == 5  Verify == 6
Prio == 0..6

Max2(a, b) == IF a >= b THEN a ELSE b
Min2(a, b) == IF a <= b THEN a ELSE b

R(s, e, p) == [s |-> s, e |-> e, p |-> p]
NoRange    == R(-1, -1, -1)
IsNone(r)  == r.p = -1
IsEmpty(r) == r.s >= r.e
PanicJ     == << NoRange >>              \* a Joined value standing for a failed assertion
IsPanicJ(j) == Len(j) > 0 /\ IsNone(j[1])

Flip(on) == IF on = "L" THEN "R" ELSE "L"

\* dominance(current, inserted, insert): which side wins; `on` is the side of the inserted range
Dominance(cur, ins, on, force) ==
    IF cur = ins THEN "E"
    ELSE IF ins \in {Verify, Scanned} THEN on
    ELSE IF cur = Scanned /\ ~force THEN Flip(on)
    ELSE IF cur < ins THEN on
    ELSE Flip(on)

\* RangeOrdering::cmp(a, b); the two disjointness tests come first
Cmp(a, b) ==
    IF a.e <= b.s THEN "LFD"
    ELSE IF b.e <= a.s THEN "RFD"
    ELSE IF a.s < b.s /\ a.e < b.e THEN "LFO"
    ELSE IF (a.s >= b.s /\ a.e < b.e) \/ (a.s > b.s /\ a.e = b.e) THEN "LC"
    ELSE IF a.s = b.s /\ a.e = b.e THEN "EQ"
    ELSE IF (a.s <= b.s /\ a.e > b.e) \/ (a.s < b.s /\ a.e = b.e) THEN "RC"
    ELSE "RFO"

TruncStart(r, h) == IF h >= r.e \/ IsEmpty(r) THEN NoRange ELSE R(Max2(r.s, h), r.e, r.p)
TruncEnd(r, h)   == IF h <= r.s \/ IsEmpty(r) THEN NoRange ELSE R(r.s, Min2(r.e, h), r.p)
SplitAt(r, p)    == IF p > r.s /\ p < r.e THEN << R(r.s, p, r.p), R(p, r.e, r.p) >> ELSE << >>

\* join of two adjacent ranges
Adj(l, r) == IF l.p = r.p THEN << R(l.s, r.e, l.p) >> ELSE << l, r >>

JoinNonoverlapping(l, r) ==
    IF l.e > r.s THEN PanicJ
    ELSE IF l.e = r.s THEN Adj(l, r)
    ELSE LET gap == R(l.e, r.s, Historic)
             j1  == Adj(l, gap)
         IN  IF Len(j1) = 1 THEN Adj(j1[1], r)
             ELSE LET j2 == Adj(gap, r)
                  IN  IF Len(j2) = 1 THEN << l, j2[1] >> ELSE << l, gap, r >>

JoinOverlapping(l, r, on, force) ==
    IF ~(l.s <= r.s /\ l.e > r.s) THEN PanicJ
    ELSE LET dom == IF on = "L" THEN Dominance(r.p, l.p, on, force)
                                ELSE Dominance(l.p, r.p, on, force)
         IN  CASE dom = "L" -> LET t == TruncStart(r, l.e) IN IF IsNone(t) THEN << l >> ELSE << l, t >>
               [] dom = "E" -> << R(l.s, Max2(l.e, r.e), l.p) >>
               [] dom = "R" -> LET before == TruncEnd(l, r.s)
                                   after  == TruncStart(l, r.e)
                               IN  IF ~IsNone(before) /\ ~IsNone(after) THEN << before, r, after >>
                                   ELSE IF ~IsNone(before) THEN << before, r >>
                                   ELSE IF ~IsNone(after) THEN << r, after >>
                                   ELSE << r >>

\* the leaf-level `insert(current, to_insert, force_rescans)`
InsertLeaf(cur, ins, force) ==
    LET c == Cmp(ins, cur)
    IN  CASE c = "LFD" -> JoinNonoverlapping(ins, cur)
          [] c \in {"LFO", "RC"} -> JoinOverlapping(ins, cur, "L", force)
          [] c = "EQ" -> << R(ins.s, ins.e,
                              IF Dominance(cur.p, ins.p, "R", force) \in {"L", "E"} THEN cur.p ELSE ins.p) >>
          [] c \in {"RFO", "LC"} -> JoinOverlapping(cur, ins, "R", force)
          [] c = "RFD" -> JoinNonoverlapping(cur, ins)

\* trees: Leaf, Parent (span = left.start .. right.end), PanicT
PanicT  == [k |-> "X"]
Leaf(r) == [k |-> "L", s |-> r.s, e |-> r.e, p |-> r.p]
Parent(l, r) == IF l.k = "X" \/ r.k = "X" THEN PanicT
                ELSE [k |-> "P", s |-> l.s, e |-> r.e, l |-> l, r |-> r]

FromJoined(j) ==
    IF IsPanicJ(j) THEN PanicT
    ELSE CASE Len(j) = 1 -> Leaf(j[1])
           [] Len(j) = 2 -> Parent(Leaf(j[1]), Leaf(j[2]))
           [] Len(j) = 3 -> Parent(Leaf(j[1]), Parent(Leaf(j[2]), Leaf(j[3])))

RECURSIVE TInsert(_, _, _)
TInsert(t, ins, force) ==
    IF t.k = "X" THEN t
    ELSE IF t.k = "L" THEN FromJoined(InsertLeaf(R(t.s, t.e, t.p), ins, force))
    ELSE LET split == t.l.e
             c == Cmp(R(t.s, t.e, 0), ins)
             IntoLeft  == Parent(TInsert(t.l, ins, force), t.r)
             IntoRight == Parent(t.l, TInsert(t.r, ins, force))
             Split == LET sp == SplitAt(ins, split)
                      IN  IF Len(sp) = 0 THEN PanicT     \* .expect("Split point is within the range of to_insert")
                          ELSE Parent(TInsert(t.l, sp[1], force), TInsert(t.r, sp[2], force))
         IN  CASE c = "LFD" -> IntoRight
               [] c = "LFO" -> IF split > ins.s THEN Split ELSE IntoRight
               [] c = "RC"  -> IF ins.s >= split THEN IntoRight
                               ELSE IF ins.e <= split THEN IntoLeft ELSE Split
               [] c = "EQ"  -> IF split > ins.s THEN Split ELSE TInsert(t.r, ins, force)
               [] c = "LC"  -> Split
               [] c = "RFO" -> IF split < ins.e THEN Split ELSE IntoLeft
               [] c = "RFD" -> IntoLeft

RECURSIVE LeavesOf(_)
LeavesOf(t) == IF t.k = "L" THEN << R(t.s, t.e, t.p) >> ELSE LeavesOf(t.l) \o LeavesOf(t.r)

RECURSIVE FoldVec(_, _, _)
FoldVec(acc, ls, i) ==
    IF i > Len(ls) THEN acc
    ELSE IF IsEmpty(ls[i]) THEN FoldVec(acc, ls, i + 1)
    ELSE IF acc = << >> THEN FoldVec(<< ls[i] >>, ls, i + 1)
    ELSE LET j == JoinNonoverlapping(acc[Len(acc)], ls[i])
         IN  IF IsPanicJ(j) \/ Len(j) = 3 THEN PanicJ          \* assert / unreachable!()
             ELSE FoldVec(SubSeq(acc, 1, Len(acc) - 1) \o j, ls, i + 1)

\* into_vec: in-order leaves, empty ones skipped, neighbours joined
IntoVec(t) == FoldVec(<< >>, LeavesOf(t), 1)
=====================================================================================
