------------------------------ MODULE Trace_WalletQueue ------------------------------
(* C15, wallet level, code -> spec: the histories the wallet driver (harness c01_driver) recorded   *)
(* against the real SQLite wallet are replayed on WalletQueue.tla.  After every operation with a    *)
(* checked projection the WHOLE `scan_queue` table -- ranges AND priorities -- must be the table of *)
(* the specification's queue: the dominance rule folded over the insertions the documented          *)
(* behaviour of that operation generates (update_chain_tip, scan_complete with the found-note       *)
(* extension over every pool, truncation), from the same inputs:                                    *)
(*   reset  birthday, activation heights, the initial table          block  the wallet's notes      *)
(*   roots  (pool, shard index, end height)                                 with their positions    *)
(*   tip    the new tip                    scan   the range          trunc  the height settled on   *)
(* The one thing the documentation leaves open -- which shard end heights the wallet still knows    *)
(* after a rewind -- is read off the projection, constrained to a subset of what it knew before;    *)
(* after every other operation the table of known shard ends is predicted and compared as well.     *)
(* Trace_Wallet.tla validates the ledger side of the same traces (and that the scanned blocks it    *)
(* logs are the ones the history scanned); this module relies on it for the blocks left by a rewind.*)
EXTENDS Integers, Sequences, FiniteSets, TLC, Json, IOUtils

Rec == ndJsonDeserialize(IOEnv.TRACE)

PoolSet == { "S", "O", "I" }
SeqToSet(s) == { s[i] : i \in DOMAIN s }
HasPost(r) == "post" \in DOMAIN r /\ r.post.chk

\* ---- the height interval the trace lives in
QHeights(q) == UNION { { q[i][1], q[i][2] } : i \in DOMAIN q }
ShHeights(sh) == UNION { { sh[P][i][2] : i \in DOMAIN sh[P] } : P \in PoolSet }
HeightsOf(r) == (IF HasPost(r) THEN QHeights(r.post.queue) \cup ShHeights(r.post.shards) ELSE {})
                \cup (IF r.a \in { "roots", "tip", "block", "prune" } THEN { r.h } ELSE {})
                \cup (IF r.a = "rescan" THEN UNION { { r.ranges[i][1], r.ranges[i][2] } : i \in DOMAIN r.ranges } ELSE {})
                \cup (IF r.a = "reset" THEN { r.bday } \cup { r.act[i][2] : i \in DOMAIN r.act } ELSE {})
                \cup (IF r.a = "trunc" THEN { r.req } ELSE {})
                \cup (IF r.a = "rewind" THEN { r.target } ELSE {})
AllH == { 0 } \cup UNION { HeightsOf(Rec[i]) : i \in DOMAIN Rec }
TLo == (CHOOSE x \in AllH : \A y \in AllH : x <= y) - 2
THi == (CHOOSE x \in AllH : \A y \in AllH : x >= y) + 14

WQ == INSTANCE WalletQueue WITH HLo <- TLo, HHi <- THi, PruningDepth <- 100, VerifyLookahead <- 10, ShardLeaves <- 65536

VARIABLES l,
          Q,         \* the specification's queue
          scanned,   \* heights of the blocks the wallet has scanned
          top,       \* height of the harness chain
          notesAt,   \* height -> the wallet's notes in that block, as << pool, position >>
          ends,      \* pool -> { << shard index, end height >> } the wallet knows
          bday, act, \* wallet birthday; pool -> activation height (WQ!NoH: not active)
          apart      \* an earlier insertion of this history lay APART from the stored queue (the open finding of the check:
                     \* replace_queue_entries leaves the heights between unqueued); the table is read off the projection then
vars == << l, Q, scanned, top, notesAt, ends, bday, act, apart >>

LoggedEnds(sh) == [P \in PoolSet |-> { << sh[P][i][1], sh[P][i][2] >> : i \in DOMAIN sh[P] }]
ActOf(a) == [P \in PoolSet |-> IF \E i \in DOMAIN a : a[i][1] = P THEN a[CHOOSE i \in DOMAIN a : a[i][1] = P][2] ELSE WQ!NoH]
NotesOf(txs) == UNION { { << o.pool, o.pos >> : o \in { o \in SeqToSet(txs[i].outs) : o.n # 0 } } : i \in DOMAIN txs }
MaxScanned == IF scanned = {} THEN WQ!NoH ELSE CHOOSE x \in scanned : \A y \in scanned : x >= y

IsEvent(e) == l <= Len(Rec) /\ Rec[l].a = e /\ l' = l + 1

\* the queue after an operation: the prediction `pred`, made from the insertions `ins` the operation generates.  The step
\* whose insertions lie apart from the queue is still predicted exactly (WQ!Replace leaves the gap the row-wise code
\* leaves); from the next operation on the pointwise model no longer describes the row-wise code and the specification
\* follows the logged table until the next reset.
ApartNow(ins) == ins # << >> /\ Q.lo < Q.hi /\ ~(Q.lo <= WQ!SeqMax(ins, 1, TLo - 1) /\ WQ!SeqMin(ins, 1, THi + 1) <= Q.hi)
SetQ(pred, ins, r) ==
    IF ~apart /\ ApartNow(ins) /\ HasPost(r)
    THEN \* the pinned code leaves the heights between unqueued (the listed finding) ...
         \/ /\ Q' = pred /\ apart' = TRUE
            /\ WQ!Vec(pred) = r.post.queue
            /\ PrintT(<< "WQSTAT", "apart", r.a, l >>)
         \* ... the dominance rule of the property makes them Historic (a repaired replace_queue_entries)
         \/ /\ Q' = WQ!FoldIns(Q.f, Q.lo, Q.hi, ins, 1) /\ apart' = FALSE
    ELSE /\ apart' = (apart \/ ApartNow(ins))
         /\ Q' = IF apart /\ HasPost(r) THEN WQ!FromVec(r.post.queue) ELSE pred

\* ---- the logged table is the specification's (EXPLAIN=1: a difference is printed and the trace goes on)
Agrees(r) == \/ ~HasPost(r)
             \/ /\ WQ!Vec(Q') = r.post.queue
                /\ ends' = LoggedEnds(r.post.shards)
PostOK(r) == \/ Agrees(r)
             \/ /\ IOEnv.EXPLAIN = "1"
                /\ PrintT(<< "WQEXPLAIN", l, ToJson([expected |-> WQ!Vec(Q'), got |-> r.post.queue,
                                                     ends |-> [P \in PoolSet |-> ends'[P]], logged_ends |-> r.post.shards]) >>)

TReset == /\ IsEvent("reset")
          /\ Q' = WQ!FromVec(Rec[l].post.queue)            \* the wallet as created (Ignored below the birthday, if anything)
          /\ scanned' = {} /\ top' = 0 /\ notesAt' = << >>
          /\ ends' = LoggedEnds(Rec[l].post.shards)
          /\ bday' = Rec[l].bday /\ act' = ActOf(Rec[l].act) /\ apart' = FALSE
          /\ PostOK(Rec[l])

TBlock == /\ IsEvent("block")
          /\ top' = Rec[l].h
          /\ notesAt' = [x \in 1..Rec[l].h |-> IF x = Rec[l].h THEN NotesOf(Rec[l].txs) ELSE notesAt[x]]
          /\ UNCHANGED << Q, scanned, ends, bday, act, apart >>
          /\ PostOK(Rec[l])

\* statistics for the vacuity guard of the check (which rule a tip update exercised)
TipKind(ins) == LET e == ins[Len(ins)]
                IN  IF e.p = WQ!Verify THEN (IF e.s < e.e THEN "verify" ELSE "verify-empty")
                    ELSE IF e.p = WQ!ChainTip THEN "chaintip" ELSE IF Len(ins) = 2 THEN "historic+shard" ELSE "historic"
TTip == /\ IsEvent("tip")
        /\ LET ms  == MaxScanned
               mst == WQ!MinShardTip(ends)
               t   == Rec[l].h
               ins == IF Rec[l].res # "ok" \/ t < act["S"] \/ (ms # WQ!NoH /\ t < ms) THEN << >>
                      ELSE IF ms = WQ!NoH /\ bday = WQ!NoH THEN << WQ!Ins(act["S"], t + 1, WQ!Ignored, FALSE) >>
                      ELSE WQ!TipInsertions(t, ms, bday, mst)
           IN  /\ SetQ(IF Rec[l].res = "ok" THEN WQ!UpdateChainTip(Q, t, act["S"], ms, bday, mst) ELSE Q, ins, Rec[l])
               /\ (Rec[l].res = "ok" /\ t >= act["S"] /\ ~(ms # WQ!NoH /\ t < ms) /\ bday # WQ!NoH) =>
                     PrintT(<< "WQSTAT", "tip", TipKind(WQ!TipInsertions(t, ms, bday, mst)),
                               \* every known shard ends above the block after the highest scanned one: a Historic gap may remain
                               IF ms # WQ!NoH /\ mst # WQ!NoH /\ mst > ms + 1 /\ mst <= t THEN "shard-above-scanned" ELSE "-" >>)
        /\ UNCHANGED << scanned, top, notesAt, ends, bday, act >>
        /\ PostOK(Rec[l])

TScan == /\ IsEvent("scan")
         /\ LET R     == { h \in Rec[l].from..(Rec[l].from + Rec[l].n - 1) : h <= top /\ h >= 1 }
                ok    == Rec[l].res = "ok" /\ R # {}
                s     == Rec[l].from
                e     == (CHOOSE x \in R : \A y \in R : x >= y) + 1
                found == UNION { notesAt[h] : h \in R }
                pf    == { n[1] : n \in found }
                res   == WQ!ScanComplete(Q, s, e, found, ends, act, bday)
            IN  /\ SetQ(IF ok THEN res ELSE Q,           \* a refused scan (only the open C06 finding refuses one) changes nothing
                        IF ok THEN WQ!ScanInsertions(s, e, found, ends, act, bday) ELSE << >>, Rec[l])
                /\ scanned' = IF ok THEN scanned \cup R ELSE scanned
                \* statistics for the vacuity guard: a batch that found notes in two or more pools -- do the pools' extents
                \* differ, and for which pools would the table be another if that pool's notes had not been found?
                /\ (ok /\ Cardinality(pf) >= 2) =>
                      PrintT(<< "WQSTAT", "scan",
                                IF Cardinality({ WQ!PoolExt(<< s, e >>, found, ends, act, bday, P) : P \in pf }) >= 2 THEN "extents-differ" ELSE "extents-equal",
                                [P \in pf |-> WQ!ScanComplete(Q, s, e, { n \in found : n[1] # P }, ends, act, bday) # res] >>)
         /\ UNCHANGED << top, notesAt, ends, bday, act >>
         /\ PostOK(Rec[l])

\* a rewind cuts the queue above the height the wallet settled on; which blocks and which shard end heights are left
\* is read off the projection (the latter must have been known before)
TTrunc == /\ IsEvent("trunc")
          /\ LET ok == Rec[l].res = "ok"
                 to == Rec[l].to
             IN  /\ SetQ(IF ok THEN WQ!Cut(Q, to) ELSE Q, << >>, Rec[l])
                 /\ scanned' = IF ok THEN SeqToSet(Rec[l].post.blocks) ELSE scanned
                 /\ top' = IF ok /\ Rec[l].fork /\ to < top THEN to ELSE top
                 /\ notesAt' = IF ok /\ Rec[l].fork /\ to < top THEN [x \in 1..(IF to < 0 THEN 0 ELSE to) |-> notesAt[x]] ELSE notesAt
                 /\ ends' = IF ok THEN LoggedEnds(Rec[l].post.shards) ELSE ends
                 /\ ok => /\ \A P \in PoolSet : ends'[P] \subseteq ends[P]
                          /\ scanned' \subseteq { h \in scanned : h <= to }
          /\ UNCHANGED << bday, act >>
          /\ PostOK(Rec[l])

TRoots == /\ IsEvent("roots")
          /\ ends' = IF Rec[l].res = "ok" THEN WQ!PutRoot(ends, Rec[l].pool, Rec[l].index, Rec[l].h) ELSE ends
          /\ UNCHANGED << scanned, top, notesAt, bday, act >>
          /\ SetQ(Q, << >>, Rec[l])
          /\ PostOK(Rec[l])

\* prune_scan_queue_below(h, retain): retain -1 = None, else the lowest retained priority
TPrune == /\ IsEvent("prune")
          /\ LET r == IF Rec[l].retain < 0 THEN WQ!None ELSE Rec[l].retain
                 pred == IF Rec[l].res = "ok" THEN WQ!Prune(Q, Rec[l].h, r) ELSE Q
             IN  /\ SetQ(pred, << >>, Rec[l])
                 /\ (Rec[l].res = "ok" /\ ~apart) =>
                       PrintT(<< "WQSTAT", "prune", IF r = WQ!None THEN "none" ELSE "some",
                                 IF \E x \in WQ!Hts : Q.f[x] # WQ!None /\ pred.f[x] = WQ!None THEN "deleted" ELSE "-",
                                 IF \E x \in WQ!Hts : Q.f[x] \notin { WQ!None, WQ!Ignored } /\ pred.f[x] = WQ!Ignored THEN "demoted" ELSE "-",
                                 \* a retained entry lies between pruned ones (demotion needed to keep the table gap-free)
                                 LET D == { x \in WQ!Hts : Q.f[x] # WQ!None /\ pred.f[x] = WQ!None }
                                     Z == { z \in WQ!Hts : Q.f[z] \notin { WQ!None, WQ!Ignored } /\ pred.f[z] = WQ!Ignored }
                                 IN  IF D # {} /\ Z # {} /\ \E y \in WQ!Hts : /\ pred.f[y] = Q.f[y] /\ Q.f[y] \notin { WQ!None, WQ!Ignored }
                                                                                /\ y > WQ!SetMin(D) /\ y < WQ!SetMax(Z)
                                     THEN "island" ELSE "-" >>)
          /\ UNCHANGED << scanned, top, notesAt, ends, bday, act >>
          /\ PostOK(Rec[l])

\* queue_rescans(ranges, priority): forced insertions
TRescan == /\ IsEvent("rescan")
           /\ LET ins == WQ!RescanInsertions(Rec[l].ranges, Rec[l].p)
                  ok  == Rec[l].res = "ok"
              IN  /\ SetQ(IF ok THEN WQ!Replace(Q, ins) ELSE Q, IF ok THEN ins ELSE << >>, Rec[l])
                  /\ (ok /\ ~apart) =>
                        PrintT(<< "WQSTAT", "rescan",
                                  IF \E i \in DOMAIN ins : \E x \in WQ!Hts : ins[i].s <= x /\ x < ins[i].e /\ Q.f[x] = WQ!Scanned /\ ins[i].p > WQ!Scanned
                                  THEN "over-scanned" ELSE "-" >>)
           /\ UNCHANGED << scanned, top, notesAt, ends, bday, act >>
           /\ PostOK(Rec[l])

\* rewind_to_chain_state(target) on an unchanged chain: the height the wallet settled on is not logged; it is any height at
\* or above the target that explains which blocks are left (nothing was truncated when the target is not below the highest
\* scanned block)
TRewind == /\ IsEvent("rewind")
           /\ LET ok == Rec[l].res = "ok"
                  target == Rec[l].target
                  left == SeqToSet(Rec[l].post.blocks)
                  \* the listed finding: the wallet settled BELOW the target (no pool retains a checkpoint at or above it, so it
                  \* falls back to the pruning floor) and drops scanned blocks at or below the target, but the heights between
                  \* are not queued again (RewindTo leaves them unqueued exactly as the code does: the table is compared, the
                  \* finding reported, and the rest of the history follows the logged table)
                  below == IF ok /\ MaxScanned # WQ!NoH /\ target < MaxScanned /\ \E h \in scanned : h <= target /\ h \notin left
                           THEN { th \in WQ!Hts : th < target /\ left = { h \in scanned : h <= th } } ELSE {}
                  cands == IF ~ok THEN { WQ!NoH }
                           ELSE IF MaxScanned # WQ!NoH /\ target < MaxScanned
                                THEN { th \in WQ!Hts : th >= target /\ left = { h \in scanned : h <= th } } \cup below
                                ELSE { WQ!NoH }
              IN  /\ ok => left \subseteq scanned
                  /\ \E th \in cands :
                       /\ scanned' = IF ok THEN left ELSE scanned
                       /\ SetQ(IF ok THEN WQ!RewindTo(Q, target, th) ELSE Q, IF ok THEN WQ!RewindInsertions(target, Q.hi) ELSE << >>, Rec[l])
                       /\ (th \in below) => PrintT(<< "WQSTAT", "rewind-below", l >>)
                  /\ ends' = IF ok THEN LoggedEnds(Rec[l].post.shards) ELSE ends
                  /\ ok => \A P \in PoolSet : ends'[P] \subseteq ends[P]
                  \* statistics: was anything truncated; do scanned blocks above the target stay in the wallet (they are queued again)
                  /\ (ok /\ ~apart) => PrintT(<< "WQSTAT", "rewind", l, IF cands = { WQ!NoH } THEN "none" ELSE "trunc",
                                                IF \E x \in left : x > target THEN "kept" ELSE "-",
                                                IF left # scanned THEN "removed" ELSE "-" >>)   \* (kept short: TLC wraps long tuples over several lines)
           /\ UNCHANGED << top, notesAt, bday, act >>
           /\ PostOK(Rec[l])

\* suggest_scan_ranges, the end of a sync loop, the comparison with a fresh wallet, ...: no effect on the queue
TOther == /\ l <= Len(Rec) /\ Rec[l].a \notin { "reset", "block", "tip", "scan", "trunc", "roots", "prune", "rescan", "rewind" } /\ l' = l + 1
          /\ UNCHANGED << scanned, top, notesAt, ends, bday, act >>
          /\ SetQ(Q, << >>, Rec[l])
          /\ PostOK(Rec[l])

TraceInit == /\ l = 1 /\ Q = WQ!EmptyQueue /\ scanned = {} /\ top = 0 /\ notesAt = << >>
             /\ ends = [P \in PoolSet |-> {}] /\ bday = WQ!NoH /\ act = [P \in PoolSet |-> WQ!NoH] /\ apart = FALSE
TraceNext == TReset \/ TBlock \/ TTip \/ TScan \/ TTrunc \/ TRoots \/ TPrune \/ TRescan \/ TRewind \/ TOther
TraceSpec == TraceInit /\ [][TraceNext]_vars

Accepted == LET n == TLCGet("stats").diameter - 1
            IN  IF n = Len(Rec) THEN PrintT(<< "TRACE", "accepted", n >>)
                ELSE PrintT(<< "TRACE", "rejected", n + 1, ToJson(Rec[n + 1]) >>) /\ FALSE
=====================================================================================
