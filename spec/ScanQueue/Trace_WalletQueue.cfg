SPECIFICATION TraceSpec
POSTCONDITION Accepted
CHECK_DEADLOCK FALSE
