--------------------------------- MODULE WalletQueue ---------------------------------
(* C15, wallet level: WHICH insertions the wallet's operations make into its scan queue.            *)
(*                                                                                                  *)
(* ScanQueue.tla says what one insertion (range, priority, force) does to the queue: the dominance  *)
(* rule applied pointwise, gaps of the hull filled with Historic.  This module says which sequence  *)
(* of insertions each wallet operation generates, transcribed from the documented behaviour of      *)
(* zcash_client_sqlite/src/wallet/scanning.rs (the comments of update_chain_tip, extend_range,      *)
(* scan_complete) and wallet.rs (trim_scan_queue_to), and defines the queue after the operation as  *)
(* the fold of ScanQueue's dominance operator over that sequence:                                   *)
(*                                                                                                  *)
(*   UpdateChainTip   the entry for the last incomplete shard (ChainTip from the lowest of the      *)
(*                    pools' latest known shard ends, not below the birthday) and the entry that    *)
(*                    connects the highest scanned block to the new tip (Historic without shard     *)
(*                    metadata or before the first scan; ChainTip when the highest scanned block    *)
(*                    is above the stable height tip - PRUNING_DEPTH; else Verify on at most        *)
(*                    VERIFY_LOOKAHEAD blocks, not beyond the stable height); nothing when the new  *)
(*                    tip is below the highest scanned block                                        *)
(*   ScanComplete     Scanned on exactly the scanned range; when notes of the wallet were found,    *)
(*                    FoundNote on the rest of the range extended, for every pool in which a note   *)
(*                    was found, down to the end height of the shard before the lowest shard with   *)
(*                    a found note (the pool's activation height for the first shard; never below   *)
(*                    the birthday) and up to the end height of the highest such shard -- as far    *)
(*                    as those end heights are known from put_*_subtree_roots; an unknown end does  *)
(*                    not extend.  "Each pool widens the range in turn": the result is the hull of  *)
(*                    the UNION of the pools' extensions                                            *)
(*   Truncate         the queue is cut above the height (no insertion)                              *)
(*   put_*_subtree_roots  no effect on the queue; the end height becomes known                      *)
(*   Prune            prune_scan_queue_below: demote / delete what is queued below a height          *)
(*   QueueRescans     the given ranges at the given priority, forced                                 *)
(*   RewindTo         rewind_to_chain_state: cut at the height the wallet settles on, then Historic  *)
(*                    (forced) from the target to the old tip                                        *)
(*                                                                                                  *)
(* The rustdoc leaves open which shard end heights the wallet still knows after a rewind; users of  *)
(* this module treat that table as an input (see Trace_WalletQueue).  Everything else is exact.     *)
EXTENDS Integers, Sequences, FiniteSets, TLC

CONSTANTS HLo, HHi,          \* heights are HLo..HHi-1, range bounds HLo..HHi
          PruningDepth,      \* PRUNING_DEPTH (100)
          VerifyLookahead,   \* VERIFY_LOOKAHEAD (10)
          ShardLeaves        \* leaves of one shard of a note commitment tree (2^16)

\* the dominance rule is ScanQueue's (Layer A of C15), not a second copy
SQ == INSTANCE ScanQueue WITH MaxH <- HHi, MaxLen <- 0, EmitDepth <- 0, queue <- << >>, lo <- 0, hi <- 0,
                              tree <- << >>, emptySeen <- FALSE, hist <- << >>

Ignored == SQ!Ignored  Scanned == SQ!Scanned  Historic == SQ!Historic  OpenAdjacent == SQ!OpenAdjacent
FoundNote == SQ!FoundNote  ChainTip == SQ!ChainTip  Verify == SQ!Verify
None == SQ!None
NoH == -999999                 \* "no such height" (nothing scanned, no birthday, end height unknown, upgrade not active)
Pools == << "S", "O", "I" >>   \* Sapling, Orchard, Ironwood: the order in which scan_complete widens the range

MaxOf(a, b) == IF a >= b THEN a ELSE b
MinOf(a, b) == IF a <= b THEN a ELSE b
Hts == HLo..(HHi - 1)

\* ---- the queue: a function height -> priority with its hull (lo > hi: empty)
EmptyQueue == [f |-> [x \in Hts |-> None], lo |-> HHi + 1, hi |-> HLo - 1]
Ins(s, e, p, force) == [s |-> s, e |-> e, p |-> p, f |-> force]

\* one insertion, pointwise (ScanQueue!InsertA over an arbitrary height interval)
InsertP(f, l, h, s, e, p, force) ==
    LET nl == MinOf(l, s)  nh == MaxOf(h, e)
    IN  [x \in Hts |-> IF s <= x /\ x < e THEN SQ!Dom(f[x], p, force)
                       ELSE IF nl <= x /\ x < nh /\ f[x] = None THEN Historic
                       ELSE f[x]]

RECURSIVE FoldIns(_, _, _, _, _)
FoldIns(f, l, h, ins, i) ==
    IF i > Len(ins) THEN [f |-> f, lo |-> l, hi |-> h]
    ELSE FoldIns(InsertP(f, l, h, ins[i].s, ins[i].e, ins[i].p, ins[i].f), MinOf(l, ins[i].s), MaxOf(h, ins[i].e), ins, i + 1)

RECURSIVE SeqMin(_, _, _)
SeqMin(ins, i, acc) == IF i > Len(ins) THEN acc ELSE SeqMin(ins, i + 1, MinOf(acc, ins[i].s))
RECURSIVE SeqMax(_, _, _)
SeqMax(ins, i, acc) == IF i > Len(ins) THEN acc ELSE SeqMax(ins, i + 1, MaxOf(acc, ins[i].e))

\* replace_queue_entries: the stored entries that overlap or touch the hull of the insertions, then the insertions,
\* go through the dominance rule.  For a queue that is an interval this is the fold over the whole queue when the
\* insertions overlap or touch it; insertions apart from it leave a gap (the queue stops being an interval).
\* (empty ranges take part in the fold -- they widen the hull that is gap-filled -- but are not stored: the hull of the
\* result is that of the stored rows, and a queue without rows is the empty queue)
Norm(Q) == LET rem == { x \in Hts : Q.f[x] # None }
           IN  IF rem = {} THEN EmptyQueue
               ELSE [f |-> Q.f, lo |-> CHOOSE x \in rem : \A y \in rem : x <= y, hi |-> (CHOOSE x \in rem : \A y \in rem : x >= y) + 1]
Replace(Q, ins) ==
    IF ins = << >> THEN Q
    ELSE LET qs == SeqMin(ins, 1, HHi + 1)
             qe == SeqMax(ins, 1, HLo - 1)
             touched == Q.lo < Q.hi /\ Q.lo <= qe /\ qs <= Q.hi
         IN  IF touched THEN Norm(FoldIns(Q.f, Q.lo, Q.hi, ins, 1))
             ELSE LET R == FoldIns(Q.f, HHi + 1, HLo - 1, ins, 1)
                  IN  Norm([f |-> R.f, lo |-> MinOf(Q.lo, R.lo), hi |-> MaxOf(Q.hi, R.hi)])

\* trim_scan_queue_to: no range extends above h
Cut(Q, h) == IF h + 1 <= Q.lo THEN EmptyQueue
             ELSE [f |-> [x \in Hts |-> IF x > h THEN None ELSE Q.f[x]], lo |-> Q.lo, hi |-> MinOf(Q.hi, h + 1)]

\* the canonical table: maximal runs of one priority, ascending, as << start, end, priority >>
RECURSIVE Runs(_, _, _)
Runs(f, h, acc) ==
    IF h >= HHi THEN acc
    ELSE IF f[h] = None THEN Runs(f, h + 1, acc)
    ELSE IF acc # << >> /\ acc[Len(acc)][2] = h /\ acc[Len(acc)][3] = f[h]
         THEN Runs(f, h + 1, [acc EXCEPT ![Len(acc)] = << acc[Len(acc)][1], h + 1, f[h] >>])
         ELSE Runs(f, h + 1, Append(acc, << h, h + 1, f[h] >>))
Vec(Q) == Runs(Q.f, HLo, << >>)

\* a table (sequence of << start, end, priority >>) as a queue
FromVec(v) == [f |-> [x \in Hts |-> IF \E i \in DOMAIN v : v[i][1] <= x /\ x < v[i][2]
                                    THEN v[CHOOSE i \in DOMAIN v : v[i][1] <= x /\ x < v[i][2]][3] ELSE None],
               lo |-> IF v = << >> THEN HHi + 1 ELSE v[1][1],
               hi |-> IF v = << >> THEN HLo - 1 ELSE v[Len(v)][2]]

-----------------------------------------------------------------------------------------
\* update_chain_tip(t).  a0: Sapling activation; ms: highest scanned height; b: wallet birthday; mst: the lowest, over
\* the pools that know any, of the pools' highest known shard end heights (NoH where there is none)
TipInsertions(t, ms, b, mst) ==
    LET ce       == t + 1                                       \* ranges have exclusive ends
        hasShard == mst # NoH /\ mst < ce
        shardE   == IF hasShard                                  \* the fragment of the last shard leading up to the tip,
                    THEN << Ins(IF b # NoH /\ b > mst THEN b ELSE mst, ce, ChainTip, FALSE) >>     \* bounded below by the birthday
                    ELSE << >>
        stable   == t - PruningDepth
        tipE     == IF ms = NoH THEN Ins(b, ce, Historic, FALSE)             \* recovery: everything from the birthday
                    ELSE IF ~hasShard THEN Ins(ms + 1, ce, Historic, FALSE)  \* linear scanning
                    ELSE IF ms > stable THEN Ins(ms + 1, ce, ChainTip, FALSE)           \* close to the tip: catch up
                    ELSE Ins(ms + 1, MinOf(stable + 1, ms + 1 + VerifyLookahead), Verify, FALSE)   \* confirm the old tip first
    IN  shardE \o << tipE >>

UpdateChainTip(Q, t, a0, ms, b, mst) ==
    IF t < a0 THEN Q                                            \* before Sapling activation: nothing
    ELSE IF ms # NoH /\ t < ms THEN Q                           \* the caller caught the chain in the middle of a reorg: nothing
    ELSE IF ms = NoH /\ b = NoH THEN Replace(Q, << Ins(a0, t + 1, Ignored, FALSE) >>)   \* no account yet: nothing to scan for
    ELSE Replace(Q, TipInsertions(t, ms, b, mst))

-----------------------------------------------------------------------------------------
\* scan_complete(range, positions of the wallet's notes found in the range).
\*   found : set of << pool, position >>;   ends : [pool -> set of << shard index, end height >>] (what the wallet knows);
\*   act   : [pool -> activation height of the pool's tree, or NoH];   b : birthday or NoH
ShardOf(pos) == pos \div ShardLeaves
EndOf(ends, P, i) == IF \E r \in ends[P] : r[1] = i THEN (CHOOSE r \in ends[P] : r[1] = i)[2] ELSE NoH
SetMin(S) == CHOOSE x \in S : \A y \in S : x <= y
SetMax(S) == CHOOSE x \in S : \A y \in S : x >= y

\* extend_range for one pool: << start, end >> of r widened to the shards of the pool's found notes
PoolExt(r, found, ends, act, b, P) ==
    LET idx == { ShardOf(n[2]) : n \in { n \in found : n[1] = P } }
    IN  IF idx = {} THEN r
        ELSE LET mn  == SetMin(idx)
                 mx  == SetMax(idx)
                 lo0 == IF mn > 0 THEN EndOf(ends, P, mn - 1) ELSE act[P]   \* end of the previous shard / fallback
                 lo1 == IF lo0 = NoH \/ b = NoH THEN lo0 ELSE MaxOf(b, lo0)  \* never below the birthday
                 hi0 == EndOf(ends, P, mx)
             IN  << IF lo1 = NoH THEN r[1] ELSE MinOf(r[1], lo1),
                    IF hi0 = NoH THEN r[2] ELSE MaxOf(r[2], hi0 + 1) >>

\* the documented result: the hull of the union of the pools' extensions
Extended(r, found, ends, act, b) ==
    << SetMin({ PoolExt(r, found, ends, act, b, Pools[i])[1] : i \in 1..3 }),
       SetMax({ PoolExt(r, found, ends, act, b, Pools[i])[2] : i \in 1..3 }) >>
\* as the code computes it: Sapling, then Orchard on the result, then Ironwood on that
Chained(r, found, ends, act, b) ==
    PoolExt(PoolExt(PoolExt(r, found, ends, act, b, "S"), found, ends, act, b, "O"), found, ends, act, b, "I")

ScanInsertions(s, e, found, ends, act, b) ==
    LET x == Extended(<< s, e >>, found, ends, act, b)
    IN  << Ins(s, e, Scanned, FALSE) >>
        \o (IF x[1] < s THEN << Ins(x[1], s, FoundNote, FALSE) >> ELSE << >>)      \* empty ranges are not inserted
        \o (IF x[2] > e THEN << Ins(e, x[2], FoundNote, FALSE) >> ELSE << >>)

ScanComplete(Q, s, e, found, ends, act, b) == Replace(Q, ScanInsertions(s, e, found, ends, act, b))

\* the lowest of the pools' highest known shard ends
MinShardTip(ends) ==
    LET tips == { SetMax({ r[2] : r \in ends[Pools[i]] }) : i \in { i \in 1..3 : ends[Pools[i]] # {} } }
    IN  IF tips = {} THEN NoH ELSE SetMin(tips)

-----------------------------------------------------------------------------------------
\* prune_scan_queue_below(h, retain).  retain = None: nothing below h is retained; otherwise the entries of priority
\* >= retain and the bookkeeping priorities Scanned / Ignored are retained (untouched even where they straddle h).
\* "Pruning must not leave a gap": what is pruned is demoted to Ignored from the lowest retained entry upwards and
\* deleted below it ("only coverage below the lowest retained entry may be deleted"); nothing at or above h changes.
\* Entries are maximal runs of one priority, so the entry-wise rule is this pointwise one.
Retained(p, retain) == retain # None /\ (p <= Scanned \/ p >= retain)
Prune(Q, h, retain) ==
    LET below == { x \in Hts : x < h /\ Q.f[x] # None }
        kept  == { x \in below : Retained(Q.f[x], retain) }
        floor == IF kept = {} THEN NoH ELSE SetMin(kept)
        f2    == [x \in Hts |-> IF x \in below /\ x \notin kept
                                THEN (IF floor # NoH /\ x >= floor THEN Ignored ELSE None)
                                ELSE Q.f[x]]
        rem   == { x \in Hts : f2[x] # None }
    IN  IF rem = {} THEN EmptyQueue ELSE [f |-> f2, lo |-> SetMin(rem), hi |-> SetMax(rem) + 1]
\* the number the operation returns: entries of the table that were removed or altered
PruneCount(Q, h, retain) ==
    LET v == Vec(Q)  w == Vec(Prune(Q, h, retain))
    IN  Cardinality({ i \in DOMAIN v : ~\E j \in DOMAIN w : w[j] = v[i] })

\* queue_rescans(ranges, priority): the ranges are inserted with that priority, FORCED (Scanned is not sticky)
RescanInsertions(ranges, p) == [i \in DOMAIN ranges |-> Ins(ranges[i][1], ranges[i][2], p, TRUE)]
QueueRescans(Q, ranges, p) == Replace(Q, RescanInsertions(ranges, p))

\* rewind_to_chain_state(target).  When the target lies below the highest scanned block the wallet is first truncated to a
\* height th >= target it can rewind to (never below the pruning floor; one of its checkpoints) and the queue is cut above
\* th; then everything above the target, up to the tip the queue knew BEFORE the cut, is queued again as Historic, FORCED:
\* the blocks between the target and th stay in the wallet but are scanned again (only ChainTip, OpenAdjacent, FoundNote
\* and Verify survive there).  th = NoH: nothing was truncated.
RewindInsertions(target, hi) == IF target + 1 < hi THEN << Ins(target + 1, hi, Historic, TRUE) >> ELSE << >>
RewindTo(Q, target, th) == Replace(IF th = NoH THEN Q ELSE Cut(Q, th), RewindInsertions(target, Q.hi))

\* put_*_subtree_roots(index, end height)
PutRoot(ends, P, i, h) == [ends EXCEPT ![P] = { r \in ends[P] : r[1] # i } \cup { << i, h >> }]
=====================================================================================
