-------------------------------- MODULE MC_WalletQueue --------------------------------
(* A small wallet around WalletQueue.tla: a fixed chain of commitments in three pools with shards of *)
(* ShardLeaves = 2 leaves that end at different heights per pool, any choice of up to MaxNotes of    *)
(* them as the wallet's notes, and every interleaving (up to MaxOps operations) of new blocks,       *)
(* subtree roots becoming known, chain-tip updates, scans of any range below the known tip and       *)
(* rewinds.  Checked:                                                                                *)
(*   FoldEq        the queue the wallet-level operations leave (replace_queue_entries looks only at  *)
(*                 the stored entries near the insertions) is the dominance rule folded over ALL     *)
(*                 insertions generated so far, in order (the property's reading), cut by rewinds    *)
(*   LayerB        (okB) replace_queue_entries transcribed literally -- the touched rows, then the         *)
(*                 insertions, through the SpanningTree of SpanningTree.tla, into_vec, rows replaced *)
(*                 -- yields the same table                                                          *)
(*   ScanCovers    a scan marks exactly its range Scanned and raises, for EVERY pool with a found    *)
(*                 note, that pool's shard extent to FoundNote under the dominance rule              *)
(*   ChainedIsUnion  widening pool after pool is the hull of the union of the pools' extensions      *)
(*   ScannedExact, Contiguous, NoneLost, BelowBirthday, SameAsLayerA                                 *)
EXTENDS WalletQueue

CONSTANTS Birthday, MaxTop, MaxOps, MaxNotes,
          Menu,     \* 0: any choice of up to MaxNotes commitments as the wallet's notes; 1: the multi-pool menus below; 2: both
          Hyg       \* TRUE: the queue-hygiene operations (prune_scan_queue_below, queue_rescans) are part of the interleavings

VARIABLES Q,        \* the wallet's queue
          G,        \* ghost: the global fold of every insertion so far
          scanned, top, ends, wn, ops,
          last,     \* the last operation (for the action properties)
          okB,      \* Layer B agreed on the last operation
          hyg,      \* ghost: a hygiene operation has deliberately dropped coverage / Scanned marks
          apart     \* ghost: some insertion lay apart from the stored queue (neither overlapping nor touching it)
vars == << Q, G, scanned, top, ends, wn, ops, last, okB, hyg, apart >>

\* the chain: commitments per pool, by position, with the height of their block (positions rise with heights)
CmS == << 1, 3, 5, 8, 10 >>          \* Sapling positions 0..4: shard 0 ends at 3, shard 1 at 8
CmO == << 4, 6, 6, 9 >>              \* Orchard positions 0..3: shard 0 ends at 6 (the same block starts shard 1), shard 1 at 9
CmI == << 7, 7, 11 >>                \* Ironwood positions 0..2: shard 0 ends at 7
CmOf(P) == IF P = "S" THEN CmS ELSE IF P = "O" THEN CmO ELSE CmI
AllCm == { << Pools[i], p - 1 >> : i \in 1..3, p \in 1..5 } \cap { x \in { << Pools[i], p - 1 >> : i \in 1..3, p \in 1..5 } : x[2] + 1 <= Len(CmOf(x[1])) }
HeightOf(n) == CmOf(n[1])[n[2] + 1]
TrueEnds(P) == { << i, CmOf(P)[(i + 1) * ShardLeaves] >> : i \in { i \in 0..2 : (i + 1) * ShardLeaves <= Len(CmOf(P)) } }
Act == [P \in { "S", "O", "I" } |-> IF P = "I" THEN 1 ELSE 0]
A0 == 0
NoEnds == [P \in { "S", "O", "I" } |-> {}]

\* notes in two and three pools: in the open shards, in the completed ones, at the last / first leaf of a shard
Menus == { { << "S", 2 >>, << "O", 2 >> },                   \* first leaves of shard 1 (blocks 5, 6): downwards to 3 and 6
           { << "S", 3 >>, << "O", 3 >> },                   \* last leaves of shard 1 (blocks 8, 9)
           { << "S", 1 >>, << "O", 0 >>, << "I", 0 >> },      \* shard 0 of every pool (blocks 3, 4, 7): upwards to 3, 6, 7
           { << "S", 2 >>, << "O", 1 >>, << "I", 2 >> },      \* blocks 5, 6, 11
           { << "S", 4 >>, << "O", 2 >>, << "I", 1 >> } }     \* blocks 10, 6, 7

FoundIn(s, e) == { n \in wn : s <= HeightOf(n) /\ HeightOf(n) < e }
MaxScanned == IF scanned = {} THEN NoH ELSE SetMax(scanned)

\* ---- replace_queue_entries, literally (Layer B)
Touches(r, qs, qe) == ~(r[1] > qe \/ qs > r[2])
\* (the stored rows and the insertions all go in with the call's force flag; stored rows do not overlap one another)
RECURSIVE TreeFold(_, _, _, _)
TreeFold(t, rs, i, force) == IF i > Len(rs) THEN t
                             ELSE TreeFold(IF t.k = "N" THEN SQ!Leaf(rs[i]) ELSE SQ!TInsert(t, rs[i], force), rs, i + 1, force)
TableB(Qpre, ins) ==
    IF ins = << >> THEN { Vec(Qpre)[i] : i \in DOMAIN Vec(Qpre) }
    ELSE LET v  == Vec(Qpre)
             qs == SeqMin(ins, 1, HHi + 1)
             qe == SeqMax(ins, 1, HLo - 1)
             tr == SelectSeq(v, LAMBDA r : Touches(r, qs, qe))          \* ORDER BY block_range_end: Vec is ascending
             rs == [i \in 1..Len(tr) |-> SQ!R(tr[i][1], tr[i][2], tr[i][3])] \o [i \in 1..Len(ins) |-> SQ!R(ins[i].s, ins[i].e, ins[i].p)]
             t  == TreeFold(SQ!NoTree, rs, 1, ins[1].f)
             nv == IF t.k = "X" THEN SQ!PanicJ ELSE SQ!IntoVec(t)
         IN  IF SQ!IsPanicJ(nv) THEN { << "panic" >> }
             ELSE { v[i] : i \in { i \in DOMAIN v : ~Touches(v[i], qs, qe) } } \cup { << nv[i].s, nv[i].e, nv[i].p >> : i \in DOMAIN nv }
AgreesB(Qpre, ins, Qpost) == TableB(Qpre, ins) = { Vec(Qpost)[i] : i \in DOMAIN Vec(Qpost) }

\* this module's pointwise insertion is ScanQueue's (over 0..HHi-1), on every insertion generated
RECURSIVE AgreesA(_, _, _, _, _)
AgreesA(f, l, h, ins, i) ==
    IF i > Len(ins) THEN TRUE
    ELSE /\ InsertP(f, l, h, ins[i].s, ins[i].e, ins[i].p, ins[i].f) = SQ!InsertA(f, l, h, ins[i].s, ins[i].e, ins[i].p, ins[i].f)
         /\ AgreesA(InsertP(f, l, h, ins[i].s, ins[i].e, ins[i].p, ins[i].f), MinOf(l, ins[i].s), MaxOf(h, ins[i].e), ins, i + 1)

Apply(ins, what) ==
    /\ ops < MaxOps /\ ops' = ops + 1
    /\ Q' = Replace(Q, ins)
    /\ G' = IF ins = << >> THEN G ELSE Norm(FoldIns(G.f, G.lo, G.hi, ins, 1))
    /\ okB' = (AgreesB(Q, ins, Replace(Q, ins)) /\ AgreesA(G.f, G.lo, G.hi, ins, 1))
    /\ last' = what
    /\ hyg' = (hyg \/ what.k = "rescan")
    /\ apart' = (apart \/ (ins # << >> /\ Q.lo < Q.hi /\ ~(Q.lo <= SeqMax(ins, 1, HLo - 1) /\ SeqMin(ins, 1, HHi + 1) <= Q.hi)))

Init == /\ Q = Replace(EmptyQueue, IF A0 < Birthday THEN << Ins(A0, Birthday, Ignored, FALSE) >> ELSE << >>)   \* account creation
        /\ G = Q
        /\ scanned = {} /\ top = MaxTop /\ ends = NoEnds /\ ops = 0
        /\ wn \in (IF Menu \in { 0, 2 } THEN { S \in SUBSET AllCm : Cardinality(S) <= MaxNotes /\ \A n \in S : HeightOf(n) >= Birthday } ELSE {})
                   \cup (IF Menu \in { 1, 2 } THEN Menus ELSE {})
        /\ last = [k |-> "init"] /\ okB = TRUE /\ hyg = FALSE /\ apart = FALSE

NewBlocks == /\ top < MaxTop /\ \E k \in { 1, 3 } : top' = MinOf(MaxTop, top + k)
             /\ ops < MaxOps /\ ops' = ops + 1
             /\ last' = [k |-> "blocks"] /\ UNCHANGED << Q, G, scanned, ends, wn, okB, hyg, apart >>

\* put_*_subtree_roots: the wallet learns the end heights of the shards the chain has completed, for some of the pools
Known(P) == { r \in TrueEnds(P) : r[2] <= top }
LearnRoots == \E PS \in (SUBSET { "S", "O", "I" }) \ { {} } :
                /\ \E P \in PS : Known(P) # ends[P]
                /\ ends' = [P \in DOMAIN ends |-> IF P \in PS THEN Known(P) ELSE ends[P]]
                /\ ops < MaxOps /\ ops' = ops + 1
                /\ last' = [k |-> "root"] /\ UNCHANGED << Q, G, scanned, top, wn, okB, hyg, apart >>

\* quick models scan 1 or 3 blocks; MaxNotes >= 2 adds 2 and 5
ScanLens(s) == IF MaxNotes >= 2 THEN { s + 2, s + 5 } ELSE {}

Tip == \E t \in Birthday..top :
          /\ Apply(IF MaxScanned # NoH /\ t < MaxScanned THEN << >> ELSE TipInsertions(t, MaxScanned, Birthday, MinShardTip(ends)),
                   [k |-> "tip", t |-> t])
          /\ UNCHANGED << scanned, top, ends, wn >>

Scan == \E s \in Birthday..top : \E e \in { s + 1, s + 3 } \cup ScanLens(s) :
          /\ e <= top + 1 /\ e <= Q.hi                                                      \* the wallet knows the tip before it scans up to it
          /\ Apply(ScanInsertions(s, e, FoundIn(s, e), ends, Act, Birthday), [k |-> "scan", s |-> s, e |-> e])
          /\ scanned' = scanned \cup (s..(e - 1))
          /\ UNCHANGED << top, ends, wn >>

Trunc == \E h \in Birthday..(Q.hi - 2) :
          /\ ops < MaxOps /\ ops' = ops + 1
          /\ Q' = Cut(Q, h) /\ G' = Cut(G, h)
          /\ scanned' = { x \in scanned : x <= h }
          \* a reorg (the chain and the shard ends the wallet knew above h are gone) or a plain rewind
          /\ \E fork \in BOOLEAN : /\ top' = IF fork THEN MinOf(top, h) ELSE top
                                   /\ ends' = IF fork THEN [P \in DOMAIN ends |-> { r \in ends[P] : r[2] <= h }] ELSE ends
          /\ last' = [k |-> "trunc", h |-> h] /\ okB' = TRUE /\ UNCHANGED << wn, hyg, apart >>

\* prune_scan_queue_below at any height, retaining nothing / OpenAdjacent and above / ChainTip and above
PruneOp == /\ Hyg
           /\ \E h \in Birthday..(top + 1) : \E retain \in { None, OpenAdjacent, ChainTip } :
                /\ ops < MaxOps /\ ops' = ops + 1
                /\ Q' = Prune(Q, h, retain) /\ G' = Prune(G, h, retain)
                /\ last' = [k |-> "prune", h |-> h, retain |-> retain] /\ okB' = TRUE /\ hyg' = TRUE
                /\ UNCHANGED << scanned, top, ends, wn, apart >>
\* queue_rescans: one range or two ranges apart, Historic or FoundNote, forced
RescanOp == /\ Hyg
            /\ \E s \in Birthday..top : \E e \in { s + 1, s + 3 } : \E p \in { Historic, FoundNote } : \E two \in BOOLEAN :
                 /\ e <= top + 1
                 /\ two => e + 2 <= top + 1
                 /\ Apply(RescanInsertions(IF two THEN << << s, e >>, << e + 1, e + 2 >> >> ELSE << << s, e >> >>, p), [k |-> "rescan"])
                 /\ UNCHANGED << scanned, top, ends, wn >>

\* An insertion APART from the stored queue: the pinned replace_queue_entries looks only at the stored entries that
\* overlap or touch the hull of the insertions, so the heights between stay unqueued and the table stops being a
\* partition of an interval (Replace models exactly that).  Reachable through queue_rescans with a range above the end of
\* the queue and through a tip update below a floor that prune_scan_queue_below(_, None) raised; the ghost `apart`
\* records it and the interval laws are claimed for the histories without it (a finding of the check, see DESIGN).
\* rewind_to_chain_state to any target from the block before the birthday on; the wallet settles on any height between
\* the target and the highest scanned block (which one is the commitment trees' business)
RewindOp == /\ Hyg
            /\ \E target \in (Birthday - 1)..top :
                 \E th \in (IF MaxScanned # NoH /\ target < MaxScanned THEN target..MaxScanned ELSE { NoH }) :
                    /\ ops < MaxOps /\ ops' = ops + 1
                    /\ Q' = RewindTo(Q, target, th) /\ G' = RewindTo(G, target, th)
                    /\ scanned' = IF th = NoH THEN scanned ELSE { x \in scanned : x <= th }
                    /\ last' = [k |-> "rewind", target |-> target, th |-> th] /\ okB' = TRUE /\ hyg' = TRUE
                    /\ UNCHANGED << top, ends, wn, apart >>

\* (a history is followed up to its first insertion apart from the queue: from there on the pointwise Replace is no
\* longer what the row-wise code does)
Next == ~apart /\ (NewBlocks \/ LearnRoots \/ Tip \/ Scan \/ Trunc \/ PruneOp \/ RescanOp \/ RewindOp)
Spec == Init /\ [][Next]_vars
View == << Q, G, scanned, top, ends, wn, okB, hyg, apart >>

-----------------------------------------------------------------------------------------
FoldEq == ~apart => Q = G
LayerB == okB
Contiguous == ~apart => \A x \in Hts : (Q.lo <= x /\ x < Q.hi) <=> Q.f[x] # None
\* Scanned only on scanned heights; on exactly those unless a hygiene operation dropped marks on purpose
ScannedExact == \A x \in Hts : (Q.f[x] = Scanned => x \in scanned) /\ (~hyg /\ x \in scanned => Q.f[x] = Scanned)
\* nothing between the birthday and the tip is lost: every such height is scanned or will be suggested
NoneLost == (~hyg /\ ~apart) => \A x \in Hts : (Birthday <= x /\ x < Q.hi) => Q.f[x] \notin { None, Ignored }
BelowBirthday == \A x \in Hts : x < Birthday => Q.f[x] \in { None, Ignored }
\* pruning: nothing at or above the height changes, below it retained priorities stay and everything else is Ignored or
\* gone, and what is gone lies below everything that is left below the height
PruneLaw ==
    [][last'.k = "prune" =>
         LET h == last'.h  r == last'.retain
         IN  \A x \in Hts :
                /\ x >= h => Q'.f[x] = Q.f[x]
                /\ (x < h /\ Q.f[x] # None /\ Retained(Q.f[x], r)) => Q'.f[x] = Q.f[x]
                /\ (x < h /\ Q.f[x] # None /\ ~Retained(Q.f[x], r)) => Q'.f[x] \in { Ignored, None }
                /\ (x < h /\ Q.f[x] = None) => Q'.f[x] = None
                /\ (Q.f[x] # None /\ Q'.f[x] = None) => \A y \in Hts : (y < h /\ Q'.f[y] # None) => y > x]_vars
NoOpenAdjacent == \A x \in Hts : Q.f[x] # OpenAdjacent
\* widening pool after pool (the code) is the hull of the union of the pools' extensions (the documented intent)
ChainedIsUnion == \A s \in Birthday..top : \A e \in (s + 1)..(top + 1) :
                     LET fd == FoundIn(s, e) IN Chained(<< s, e >>, fd, ends, Act, Birthday) = Extended(<< s, e >>, fd, ends, Act, Birthday)
\* this module's canonical table is ScanQueue's (over 0..HHi-1)
SameAsLayerA == /\ LET c == SQ!Canon(Q.f) IN Vec(Q) = [i \in DOMAIN c |-> << c[i].s, c[i].e, c[i].p >>]
                /\ FromVec(Vec(Q)) = Q

Raised(c) == IF c = None THEN FoundNote ELSE SQ!Dom(c, FoundNote, FALSE)
ScanCovers ==
    [][last'.k = "scan" =>
         LET s == last'.s  e == last'.e  found == FoundIn(s, e)
             ext(i) == PoolExt(<< s, e >>, found, ends, Act, Birthday, Pools[i])
             inExt(x) == \E i \in 1..3 : ext(i)[1] <= x /\ x < ext(i)[2]
             all == Extended(<< s, e >>, found, ends, Act, Birthday)
         IN  \A x \in Hts :
                Q'.f[x] = IF s <= x /\ x < e THEN Scanned
                          ELSE IF inExt(x) THEN Raised(Q.f[x])
                          ELSE IF all[1] <= x /\ x < all[2] THEN Raised(Q.f[x])          \* between two pools' extents: the hull
                          ELSE Q.f[x]]_vars
\* a rewind leaves nothing queued above the old tip, queues every height above the target up to the old tip, leaves
\* everything at or below the target alone, and above the target only Historic or what outranks a forced Historic
RewindLaw ==
    [][last'.k = "rewind" =>
         LET t == last'.target  hi == Q.hi
         IN  \A x \in Hts :
                /\ x <= t => Q'.f[x] = Q.f[x]
                /\ (t < x /\ x < hi) => Q'.f[x] \in { Historic, OpenAdjacent, FoundNote, ChainTip, Verify }
                /\ (t < x /\ x < hi /\ Q'.f[x] # Historic) => Q'.f[x] = Q.f[x]
                /\ (x >= hi /\ x > t) => Q'.f[x] = None]_vars
\* a tip update never touches a scanned height and never lowers a priority
TipMonotone ==
    [][last'.k = "tip" => \A x \in Hts : (Q.f[x] = Scanned => Q'.f[x] = Scanned) /\ (Q.f[x] # None => Q'.f[x] >= Q.f[x])]_vars
=====================================================================================
