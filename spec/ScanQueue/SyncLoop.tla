---------------------------------- MODULE SyncLoop ----------------------------------
(* C15, "syncing terminates": the documented sync client (zcash_client_backend data_api/chain.rs    *)
(* module documentation) as a process against the scan queue of ScanQueue.tla's Layer A.            *)
(*   client: UpdateTip; then repeatedly take the first suggested range (priority DESC, end DESC)    *)
(*           and scan a chunk from its start; a scan marks its blocks Scanned and may discover      *)
(*           notes, upon which the wallet re-prioritises earlier unscanned blocks as FoundNote.     *)
(*   environment (bounded): new blocks, rewinds.                                                    *)
(* Safety: a client step scans only unscanned blocks and at least one (the measure - the number of  *)
(* unscanned heights up to the tip - strictly decreases on client steps).  Liveness, under weak      *)
(* fairness of the client and with finitely many environment steps: eventually nothing is           *)
(* suggested and everything up to the tip is scanned, for good.                                     *)
EXTENDS Integers, Sequences, FiniteSets, FiniteSetsExt, TLC

CONSTANTS MaxTop, EnvBudget

Ignored == 0  Scanned == 1  Historic == 2  OpenAdjacent == 3  FoundNote == 4  ChainTip == 5  Verify == 6
None == -1

VARIABLES top,     \* height of the chain
          q,       \* [1..MaxTop -> None or priority]: the scan queue, pointwise
          budget,  \* environment steps left
          steps    \* client scan steps taken since the last environment step
vars == << top, q, budget, steps >>

Tip == IF \E h \in 1..MaxTop : q[h] # None THEN Max({ h \in 1..MaxTop : q[h] # None }) ELSE 0
Unscanned == { h \in 1..MaxTop : q[h] \notin {None, Scanned, Ignored} }

Dom(c, i) == IF c = None THEN i ELSE IF c = i THEN c ELSE IF i \in {Verify, Scanned} THEN i
             ELSE IF c = Scanned THEN c ELSE IF c < i THEN i ELSE c

\* maximal runs of one priority that are suggested (priority >= Historic), as << start, end, prio >>
Runs == { r \in (1..MaxTop) \X (1..MaxTop) \X (0..6) :
            /\ r[1] <= r[2] /\ q[r[1]] = r[3] /\ r[3] >= Historic /\ \A h \in r[1]..r[2] : q[h] = r[3]
            /\ (r[1] = 1 \/ q[r[1] - 1] # r[3]) /\ (r[2] = MaxTop \/ q[r[2] + 1] # r[3]) }
\* suggest_scan_ranges: priority DESC, end DESC
First == CHOOSE r \in Runs : \A s \in Runs : r[3] > s[3] \/ (r[3] = s[3] /\ r[2] >= s[2])

Init == top = 1 /\ q = [h \in 1..MaxTop |-> None] /\ budget = EnvBudget /\ steps = 0

\* update_chain_tip(top): everything unknown up to the tip becomes Historic (ChainTip near the tip is a refinement)
UpdateTip == /\ Tip < top
             /\ q' = [h \in 1..MaxTop |-> IF h <= top /\ q[h] = None THEN (IF h = top THEN ChainTip ELSE Historic) ELSE q[h]]
             /\ UNCHANGED << top, budget, steps >>

\* scan a chunk [a, a+n) from the start of the first suggested range; `found`: a note is discovered and the
\* wallet extends FoundNote priority backwards to a height lo (the shard it needs)
Scan(n, found, lo) ==
    /\ Runs # {}
    /\ LET r == First IN
       /\ n >= 1 /\ r[1] + n - 1 <= r[2] /\ r[1] + n - 1 <= top
       /\ q' = [h \in 1..MaxTop |->
                  IF r[1] <= h /\ h < r[1] + n THEN Scanned
                  ELSE IF found /\ lo <= h /\ h < r[1] /\ q[h] # None THEN Dom(q[h], FoundNote)
                  ELSE q[h]]
    /\ steps' = steps + 1
    /\ UNCHANGED << top, budget >>

EnvBlock == budget > 0 /\ top < MaxTop /\ top' = top + 1 /\ budget' = budget - 1 /\ steps' = 0 /\ UNCHANGED q
\* a rewind to h (truncate_to_height trims the queue to h) followed by a different continuation
EnvRewind(h) == /\ budget > 0 /\ h >= 1 /\ h < Tip
                /\ q' = [x \in 1..MaxTop |-> IF x > h THEN None ELSE q[x]]
                /\ budget' = budget - 1 /\ steps' = 0 /\ UNCHANGED top

Client == UpdateTip \/ \E n \in 1..MaxTop, found \in BOOLEAN, lo \in 1..MaxTop : Scan(n, found, lo)
Env == EnvBlock \/ \E h \in 1..MaxTop : EnvRewind(h)
Next == Client \/ Env
Spec == Init /\ [][Next]_vars /\ WF_vars(Client)

--------------------------------------------------------------------------------------
\* every client scan step scans only blocks that were not scanned, and at least one: the measure decreases
Progress == [][steps' = steps + 1 => Cardinality(Unscanned') < Cardinality(Unscanned)]_vars
\* between two environment steps the client never needs more scan steps than there are blocks
StepBound == steps <= MaxTop
\* the queue never holds a block above the chain
NoneAboveTop == \A h \in 1..MaxTop : h > top => q[h] = None
Done == Runs = {} /\ Tip = top /\ \A h \in 1..top : q[h] = Scanned
Terminates == <>[]Done
=====================================================================================
