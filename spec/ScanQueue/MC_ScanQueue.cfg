SPECIFICATION Spec
CONSTANTS
  MaxH = 3
  MaxLen = 3
  EmitDepth = 0
VIEW View
INVARIANTS Refines GapFree CanonShape
PROPERTY Sticky
CHECK_DEADLOCK FALSE
