SPECIFICATION Spec
CONSTANTS
  MaxTop = 5
  EnvBudget = 3
INVARIANTS StepBound NoneAboveTop
PROPERTIES Progress Terminates
CHECK_DEADLOCK FALSE
