SPECIFICATION Spec
CONSTANTS
  HLo = 0
  HHi = 13
  PruningDepth = 4
  VerifyLookahead = 2
  ShardLeaves = 2
  Birthday = 2
  MaxTop = 11
  MaxOps = 3
  MaxNotes = 1
  Menu = 2
  Hyg = TRUE
VIEW View
INVARIANTS FoldEq LayerB Contiguous ScannedExact NoneLost BelowBirthday NoOpenAdjacent ChainedIsUnion SameAsLayerA
PROPERTIES ScanCovers TipMonotone PruneLaw RewindLaw
CHECK_DEADLOCK FALSE
