------------------------------- MODULE TxnAtomic -------------------------------
(* C02 -- wallet database writes are all-or-nothing and never observed half-applied.             *)
(*                                                                                               *)
(* One SQLite database file with two connections.  `db` is what is durable (a version number and *)
(* a content: in the model the set of statement effects applied, in trace validation the digest  *)
(* of the canonical table dump + the digest of get_wallet_summary); the writer's connection has   *)
(* a private pending delta `w.pend` while a transaction is open; the reader's connection reads    *)
(* one snapshot per read transaction.  A wallet API call is bracketed by OpStart / OpEnd.         *)
(*                                                                                               *)
(* The module has two layers:                                                                     *)
(*  - database-layer actions with parameters (OpStart, WBegin, WStmt, WInterrupt, WRollback,      *)
(*    WEnd, WCommit, WCommitBusy, WAutoCommit, RBegin, RRead, REnd, CrashImage, OpEnd).  They only *)
(*    maintain the state and the history the properties talk about.  Trace_TxnAtomic drives them  *)
(*    with the events recorded from the real wallet;                                              *)
(*  - a program layer (P...) for model checking: how a wallet write method is supposed to use the *)
(*    database (`transactionally`: BEGIN, the statements, COMMIT on Ok, roll back and return the  *)
(*    error otherwise; AGENTS.md, Database Write Atomicity), one reader, one crash, one injected  *)
(*    fault, one retry.  `Mutant` switches in what the implementation must not do; every mutant   *)
(*    must break an invariant (the check runs them: the properties are not vacuous).              *)
(*                                                                                               *)
(* Besides the relative properties (a call ends in the pre-state or in the post-state of the     *)
(* uninterrupted run) there is an absolute one: every content that is ever durable -- and hence  *)
(* every content any observer of a committed state can see -- is Sound: it satisfies the         *)
(* cross-table invariants of a wallet database.  An error the operation's own logic raises half  *)
(* way (no fault involved) and that is swallowed further up makes the *uninterrupted* run commit *)
(* a half-applied state; the relative properties cannot see that (the reference run is what it   *)
(* is), Consistent does.                                                                         *)
EXTENDS Naturals, FiniteSets, Sequences

CONSTANTS MaxStmts,   \* statements of the writer's operation (program layer)
          MaxReads,   \* reads of the reader's transaction (program layer)
          Wal,        \* TRUE: write-ahead log (a commit succeeds while a reader holds a snapshot)
                      \* FALSE: rollback journal (the commit is refused, SQLITE_BUSY)
          Mutant,     \* "none" | "StmtOutsideTxn" | "CommitOnErr" | "SwallowError" | "TwoTxns" | "ReaderNoTxn" | "SwallowRefusal"
          Sound(_)    \* Sound(c): the content c satisfies the cross-table invariants of a wallet database.
                      \* Trace validation: the conjunction of the facts the driver computed by SQL in the same
                      \* snapshot as the dump (no `blocks` row, no note-commitment-tree checkpoint, no mined
                      \* transaction, no tx-locator entry above the scan queue's tip).  Model checking: MCSound.

VARIABLES db,    \* [ver, data]: the durable content of the database file
          w,     \* writer connection: [txn, pend]
          r,     \* reader connection: [txn, has, snap, seen, live, n]
          op,    \* the bracket of the wallet API call in progress / last finished, with its history
          exp,   \* [known, res, data]: result and content of an uninterrupted run from the same pre-state
          pc     \* program layer only

dbvars == << db, w, r, op, exp >>
vars == << db, w, r, op, exp, pc >>

Failed(res) == res \in {"err", "panic"}

IdleW == [txn |-> FALSE, pend |-> << >>]
IdleR(d) == [txn |-> FALSE, has |-> FALSE, snap |-> d, seen |-> {}, live |-> {d}, n |-> 0]
IdleOp(d) == [st |-> "idle", mode |-> "plain", pre |-> d, commits |-> 0, faults |-> 0, res |-> "none",
              post |-> d, wpost |-> d, auto |-> TRUE, clean |-> FALSE, crash |-> {}]

DbInit(d, e) ==
    /\ db = [ver |-> 0, data |-> d]
    /\ w = IdleW
    /\ r = IdleR(d)
    /\ op = IdleOp(d)
    /\ exp = e

-----------------------------------------------------------------------------
(* Database layer *)

\* A wallet API call starts.  mode: "ref" (uninterrupted, defines exp), "plain" (uninterrupted),
\* "fault" (a fault will be injected), "retry" (the same call again after it failed).
OpStart(mode) ==
    /\ op.st # "run"
    /\ mode = "retry" => op.st = "end" /\ Failed(op.res)
    /\ op' = [st |-> "run", mode |-> mode, pre |-> db.data, commits |-> 0, faults |-> 0, res |-> "none",
              post |-> db.data, wpost |-> db.data, auto |-> TRUE,
              clean |-> (mode = "retry" /\ op.post = op.pre /\ db.data = op.pre),  \* retried from the unchanged pre-state
              crash |-> {}]
    /\ UNCHANGED << db, w, r, exp >>

WBegin ==
    /\ op.st = "run" /\ ~w.txn
    /\ w' = [txn |-> TRUE, pend |-> << >>]
    /\ UNCHANGED << db, r, op, exp >>

\* A statement inside the open transaction; its effect e stays private to the writer's connection.
WStmt(e) ==
    /\ op.st = "run" /\ w.txn
    /\ w' = [w EXCEPT !.pend = Append(@, e)]
    /\ UNCHANGED << db, r, op, exp >>

\* A fault inside a statement: SQLite undoes the statement (statement journal), the call sees an
\* error.  (Faults are not injected into a BEGIN / COMMIT that has already taken effect: SQLite would
\* only mis-report a statement that ran to completion.)
WInterrupt ==
    /\ op.st = "run"
    /\ op' = [op EXCEPT !.faults = @ + 1]
    /\ UNCHANGED << db, w, r, exp >>

\* The open transaction is rolled back (WErrorReturn = this, then OpEnd with an error).
WRollback ==
    /\ w.txn
    /\ w' = IdleW
    /\ UNCHANGED << db, r, op, exp >>

WErrorReturn == WRollback

\* The transaction ends without a write commit and without a rollback: it wrote nothing (COMMIT of a
\* read-only transaction; neither hook fires).  Nothing becomes durable.
WEnd ==
    /\ w.txn
    /\ w' = IdleW
    /\ UNCHANGED << db, r, op, exp >>

Commit(c) ==
    /\ db' = [ver |-> db.ver + 1, data |-> c]
    /\ op' = [op EXCEPT !.commits = @ + 1]
    /\ r' = IF r.txn THEN [r EXCEPT !.live = @ \cup {c}] ELSE r
    /\ UNCHANGED exp

\* COMMIT: the pending delta becomes the durable content c, atomically (SQLite's atomic commit is
\* the trusted base).
WCommit(c) ==
    /\ op.st = "run" /\ w.txn
    /\ w' = IdleW
    /\ Commit(c)

\* COMMIT refused (rollback-journal mode, a reader holds a shared lock): nothing changes, the
\* transaction stays open.
WCommitBusy ==
    /\ op.st = "run" /\ w.txn
    /\ UNCHANGED dbvars

\* A write statement outside any transaction commits on its own.
WAutoCommit(c) ==
    /\ op.st = "run" /\ ~w.txn
    /\ w' = w
    /\ Commit(c)

\* The reader's snapshot read (one read transaction, or what is documented as one).
RBegin ==
    /\ ~r.txn
    /\ r' = [txn |-> TRUE, has |-> FALSE, snap |-> db.data, seen |-> {}, live |-> {db.data}, n |-> 0]
    /\ UNCHANGED << db, w, op, exp >>

RRead(v) ==
    /\ r.txn
    /\ r' = [r EXCEPT !.has = TRUE, !.snap = IF r.has THEN @ ELSE v, !.seen = @ \cup {v}, !.n = @ + 1]
    /\ UNCHANGED << db, w, op, exp >>

\* the read was refused (database locked): nothing observed
RBusy ==
    /\ r.txn
    /\ UNCHANGED dbvars

REnd ==
    /\ r.txn
    /\ r' = [r EXCEPT !.txn = FALSE]
    /\ UNCHANGED << db, w, op, exp >>

\* The process dies here and the database is reopened: v is what recovery (hot journal / WAL) yields.
CrashImage(v) ==
    /\ op.st = "run"
    /\ op' = [op EXCEPT !.crash = @ \cup {v}]
    /\ UNCHANGED << db, w, r, exp >>

\* The call returns.  post: durable content observed afterwards through the other connection;
\* wpost: what the writer's own connection sees; auto: its autocommit flag.
OpEnd(res, post, wpost, auto) ==
    /\ op.st = "run"
    /\ op' = [op EXCEPT !.st = "end", !.res = res, !.post = post, !.wpost = wpost, !.auto = auto]
    /\ exp' = IF op.mode = "ref" THEN [known |-> TRUE, res |-> res, data |-> post] ELSE exp
    /\ UNCHANGED << db, w, r >>

-----------------------------------------------------------------------------
(* The property *)

Ended == op.st = "end"

\* What was observed after the call is what the commit events account for: no commit the model did not
\* see, nothing visible that was not committed, and the writer's connection sees the same.
Durable == Ended => op.post = db.data /\ op.wpost = op.post

\* A failed call leaves the database exactly as it was.
Atomic == Ended /\ Failed(op.res) => op.post = op.pre

OneCommit ==
    /\ op.commits <= 1
    /\ Ended /\ Failed(op.res) => op.commits = 0
    /\ Ended /\ op.res = "ok" /\ op.post # op.pre => op.commits = 1

\* A call that returns Ok -- with or without an injected fault -- has exactly the effect of the
\* uninterrupted run (an error swallowed inside a closure is an Ok with another state).
OkMeansComplete ==
    Ended /\ op.res = "ok" /\ exp.known /\ (op.mode = "retry" => op.clean) => exp.res = "ok" /\ op.post = exp.data
FaultMeansErrOrComplete ==
    Ended /\ op.faults > 0 /\ ~Failed(op.res) /\ exp.known => exp.res = "ok" /\ op.post = exp.data

NoDanglingTx ==
    /\ op.st # "run" => ~w.txn
    /\ Ended => op.auto

\* Every value a reader transaction observes is the content of one version that was durable at some
\* moment of that transaction, the same for all its reads.
Snapshot == r.seen \subseteq r.live /\ Cardinality(r.seen) <= 1

\* Whenever the process dies, recovery yields the pre-state or the complete post-state.
CrashAtomic == op.crash \subseteq ({op.pre} \cup (IF exp.known THEN (IF exp.res = "ok" THEN {exp.data} ELSE {}) ELSE {db.data}))

\* The failed call, repeated, behaves as the uninterrupted run.
RetryConverges == Ended /\ op.mode = "retry" /\ op.clean /\ exp.known => op.res = exp.res /\ op.post = exp.data

\* Every content observed as committed -- what is durable, the state before the call, the state after a call
\* that returned (Ok or Err), every crash image after recovery, everything a reader transaction saw -- satisfies
\* the cross-table invariants.  Unlike the properties above this does not refer to the uninterrupted run.
Committed == {db.data, op.pre} \cup (IF Ended THEN {op.post} ELSE {}) \cup op.crash \cup r.seen
Consistent == \A c \in Committed : Sound(c)

-----------------------------------------------------------------------------
(* Program layer (model checking): one writer operation of MaxStmts statements, one reader of    *)
(* MaxReads reads, one injected fault, one crash, one retry; contents are sets of effects.        *)

Effects == 1..MaxStmts
Apply(d, p) == d \cup {p[k] : k \in DOMAIN p}
Mutants == {"none", "StmtOutsideTxn", "CommitOnErr", "SwallowError", "TwoTxns", "ReaderNoTxn", "SwallowRefusal"}

\* Model checking: a cross-table invariant ties the effect of the first statement to that of the last one
\* (say: the scan queue is trimmed by the first, the block rows above it are deleted by the last).
MCSound(d) == (1 \in d) <=> (MaxStmts \in d)

ASSUME Mutant \in Mutants /\ Wal \in BOOLEAN /\ MaxStmts \in Nat /\ MaxReads \in Nat

\* rfs = 1: in this pre-state the operation's own logic refuses at its last statement (the statements before it
\* have been executed inside the transaction): the uninterrupted run is an Err that leaves the database as it was.
\* learn = 1: what the uninterrupted run does is not given but learnt from a first run of mode "ref", as the
\* driver does it (then the relative properties hold of whatever that run did).
Init ==
    \E f \in {0, 1}, rf \in {0, 1}, ln \in {0, 1} :
        /\ ln = 1 => f = 0
        /\ pc = [at |-> "idle", i |-> 1, flt |-> f, rd |-> "idle", cr |-> 0, retry |-> 1, rfs |-> rf, learn |-> ln]
        /\ DbInit({}, IF ln = 1 THEN [known |-> FALSE, res |-> "none", data |-> {}]
                      ELSE IF rf = 1 THEN [known |-> TRUE, res |-> "err", data |-> {}]
                      ELSE [known |-> TRUE, res |-> "ok", data |-> Effects])

Go(at) == pc' = [pc EXCEPT !.at = at]
\* rollback journal: the shared lock of a reader's open transaction blocks the commit (reads outside a
\* transaction hold no lock between statements)
CanCommit == Wal \/ ~(r.txn /\ r.has) \/ Mutant = "ReaderNoTxn"

\* "Repeating the failed operation afterwards succeeds": afterwards = without a new fault and, with a
\* rollback journal, once the reader that blocked the commit is gone.
PStart ==
    /\ pc.at \in {"idle", "failed", "recovered"}
    /\ pc.at = "failed" => Wal \/ pc.rd # "txn"
    /\ (pc.learn = 1 /\ ~exp.known /\ ~Wal) => pc.rd # "txn"     \* the reference run is not disturbed by a reader's lock
    /\ OpStart(IF pc.at = "failed" THEN "retry" ELSE IF pc.learn = 1 /\ ~exp.known THEN "ref"
               ELSE IF pc.flt > 0 THEN "fault" ELSE "plain")
    /\ pc' = [pc EXCEPT !.at = IF Mutant = "StmtOutsideTxn" /\ 1 \notin db.data THEN "early" ELSE "begin", !.i = 1,
                        !.rd = IF pc.at = "failed" /\ ~Wal THEN "done" ELSE @,
                        !.flt = IF pc.at = "failed" THEN 0 ELSE @]

\* mutant: the first statement runs on the connection before the transaction is opened
PEarly ==
    /\ pc.at = "early"
    /\ WAutoCommit(db.data \cup {1})
    /\ pc' = [pc EXCEPT !.at = "begin", !.i = 2]

PBegin ==
    /\ pc.at = "begin"
    /\ WBegin
    /\ Go("stmt")

Refuses == pc.rfs = 1 /\ pc.i = MaxStmts

PStmt ==
    /\ pc.at = "stmt" /\ pc.i <= MaxStmts /\ ~Refuses
    /\ WStmt(pc.i)
    /\ pc' = [pc EXCEPT !.i = @ + 1,
                        !.at = IF Mutant = "TwoTxns" /\ pc.i = 2 /\ MaxStmts > 2 THEN "midcommit" ELSE "stmt"]

\* The operation's own logic refuses (a precondition found violated half way: no fault): the error is returned,
\* the transaction rolled back.  mutant: the error is swallowed further up, the call carries on and commits.
PRefuse ==
    /\ pc.at = "stmt" /\ pc.i <= MaxStmts /\ Refuses
    /\ pc' = [pc EXCEPT !.at = IF Mutant = "SwallowRefusal" THEN "stmt" ELSE "err",
                        !.i = IF Mutant = "SwallowRefusal" THEN @ + 1 ELSE @]
    /\ UNCHANGED dbvars

\* mutant: the operation is split over two transactions
PMidCommit ==
    /\ pc.at = "midcommit"
    /\ IF CanCommit THEN WCommit(Apply(db.data, w.pend)) /\ Go("begin") ELSE WCommitBusy /\ Go("err")

\* the injected fault, inside statement pc.i
PFault ==
    /\ pc.at = "stmt" /\ pc.i <= MaxStmts /\ pc.flt > 0
    /\ WInterrupt
    /\ pc' = [pc EXCEPT !.flt = 0, !.at = IF Mutant = "SwallowError" THEN "stmt" ELSE "err",
                        !.i = IF Mutant = "SwallowError" THEN @ + 1 ELSE @]   \* mutant: `let _ =` and carry on

PCommit ==
    /\ pc.at = "stmt" /\ pc.i > MaxStmts
    /\ \/ CanCommit /\ WCommit(Apply(db.data, w.pend)) /\ Go("ret_ok")
       \/ ~CanCommit /\ WCommitBusy /\ Go("err")
       \/ pc.flt > 0 /\ WInterrupt /\ pc' = [pc EXCEPT !.flt = 0, !.at = "err"]     \* fault before the commit point

PErr ==
    /\ pc.at = "err"
    /\ IF Mutant = "CommitOnErr" /\ CanCommit THEN WCommit(Apply(db.data, w.pend)) ELSE WRollback
    /\ Go("ret_err")

PRetOk ==
    /\ pc.at = "ret_ok"
    /\ OpEnd("ok", db.data, Apply(db.data, w.pend), ~w.txn)
    /\ Go("done")

PRetErr ==
    /\ pc.at = "ret_err"
    /\ OpEnd("err", db.data, Apply(db.data, w.pend), ~w.txn)
    /\ pc' = [pc EXCEPT !.at = IF pc.retry > 0 THEN "failed" ELSE "done", !.retry = 0]

PRBegin == pc.rd = "idle" /\ ~(~Wal /\ op.st = "run" /\ op.mode = "ref") /\ RBegin /\ pc' = [pc EXCEPT !.rd = "txn"]
PRRead ==
    /\ pc.rd = "txn" /\ r.n < MaxReads
    /\ RRead(IF Mutant = "ReaderNoTxn" \/ ~r.has THEN db.data ELSE r.snap)   \* SQLite: reads of one transaction see one snapshot
    /\ UNCHANGED pc
PREnd == pc.rd = "txn" /\ REnd /\ pc' = [pc EXCEPT !.rd = "done"]

\* The process dies: everything volatile is lost; what is durable is what recovery yields.  The
\* operation is started again afterwards.
Crash ==
    /\ op.st = "run" /\ pc.cr = 0
    /\ op' = [op EXCEPT !.st = "crashed", !.crash = @ \cup {db.data}]
    /\ w' = IdleW
    /\ r' = [r EXCEPT !.txn = FALSE]
    /\ pc' = [pc EXCEPT !.at = "crashed", !.rd = "done", !.cr = 1, !.flt = 0]
    /\ UNCHANGED << db, exp >>

\* The database is reopened: the hot journal is rolled back / the WAL tail without a commit record is
\* ignored.  What recovery yields is `db` (the commit point is WCommit: SQLite's atomic commit is trusted).
Recover ==
    /\ pc.at = "crashed"
    /\ Go("recovered")
    /\ UNCHANGED dbvars

Next == \/ PStart \/ PEarly \/ PBegin \/ PStmt \/ PRefuse \/ PMidCommit \/ PFault \/ PCommit
        \/ PErr \/ PRetOk \/ PRetErr \/ PRBegin \/ PRRead \/ PREnd \/ Crash \/ Recover

Spec == Init /\ [][Next]_vars

\* (constraint used by the check to show what Consistent adds: only behaviours in which the uninterrupted run is learnt)
LearnOnly == pc.learn = 1

TypeOK ==
    /\ db.ver \in Nat /\ db.data \subseteq Effects
    /\ w.txn \in BOOLEAN
    /\ r.txn \in BOOLEAN /\ r.n \in 0..MaxReads
    /\ op.st \in {"idle", "run", "end", "crashed"} /\ op.commits \in Nat
    /\ pc.at \in {"idle", "early", "begin", "stmt", "midcommit", "err", "ret_ok", "ret_err", "failed", "crashed", "recovered", "done"}
=============================================================================
