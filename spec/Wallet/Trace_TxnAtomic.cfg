SPECIFICATION TraceSpec
INVARIANTS Durable Atomic OneCommit OkMeansComplete FaultMeansErrOrComplete NoDanglingTx Snapshot CrashAtomic RetryConverges
POSTCONDITION Accepted
CHECK_DEADLOCK FALSE
