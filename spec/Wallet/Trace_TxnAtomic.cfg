SPECIFICATION TraceSpec
INVARIANTS Atomic OneCommit OkMeansComplete FaultMeansErrOrComplete NoDanglingTx Snapshot CrashAtomic RetryConverges Durable Consistent
POSTCONDITION Accepted
CHECK_DEADLOCK FALSE
