-------------------------------- MODULE Trace_Wallet --------------------------------
(* Trace validation for C01 (and the ledger side of C06/C15): every operation the driver ran     *)
(* against the real SQLite wallet must be a step of Wallet.tla, and the projection of the real   *)
(* database / balance API logged after the call must equal the specification's state.            *)
EXTENDS Wallet, Json, IOUtils, TreeOps

CONSTANT Budget      \* shardtree checkpoint budget of the wallet (PRUNING_DEPTH = 100)

VARIABLES l,
          grid, gbase,   \* anchor-retention grid of this wallet (0: policy inactive) and the absolute height of height 0
          cmAt,          \* height -> << commitments the block adds to the Sapling, Orchard, Ironwood tree >>
          covered,       \* retention-grid heights that lay inside a successfully scanned batch and were not rewound since
          lostOK,        \* << h, pool >>: boundaries the *known finding* C06-retained-boundary-lost explains (see below)
          locks,         \* C08: note -> << owner, expiry height >> (the lock columns of the received-note tables)
          sugg,          \* C15: the ranges the wallet last suggested to the sync client
          mck, mret,     \* Layer B (TreeOps, as on the pinned tree): the checkpoint ids / retained registrations the
                         \* transcribed update_tree predicts per pool; used only to recognise the known finding
          rootEnds,      \* completion heights of the subtree roots handed to the wallet (put_*_subtree_roots)
          taintR         \* the chain was replaced below the completion height of such a root (known finding, see below)
Rec == ndJsonDeserialize(IOEnv.TRACE)
cvars == << grid, gbase, cmAt, covered, lostOK, mck, mret, rootEnds, taintR >>
tvars == << wvars, l, cvars, locks, sugg >>

\* Known findings (DESIGN C06, known_findings.json).  The check enables an excuse only while the finding
\* is listed as open; each use is printed so that the check can report it as KNOWN-FINDING.
KnownStale(what)  == IOEnv.KF_STALE = "1" /\ PrintT(<< "KNOWN", "C06-stale-frontier-after-rewind", what >>)
\* C06-stale-subtree-root-after-reorg: a subtree root handed to the wallet stays cached when the chain is replaced below
\* the height at which that subtree was completed (same cause: shardtree leaves annotated hashes behind on truncation)
KnownStaleRoot(what) == IOEnv.KF_STALEROOT = "1" /\ PrintT(<< "KNOWN", "C06-stale-subtree-root-after-reorg", what >>)
KnownRetain(h, i) == IOEnv.KF_RETAIN = "1" /\ PrintT(<< "KNOWN", "C06-retained-boundary-lost", h, i >>)
EmptyCk == [i \in 1..3 |-> {}]
Retains(h) == grid > 0 /\ h >= 1 /\ (gbase + h) % grid = 0

IsEvent(e) == l <= Len(Rec) /\ Rec[l].a = e /\ l' = l + 1

\* ---- the logged projection agrees with the (primed) specification state
RowOf(n) == [n |-> n, acct |-> ninfo'[n].acct, mined |-> txs'[ninfo'[n].t].mined, minobs |-> txs'[ninfo'[n].t].minobs,
             exp |-> txs'[ninfo'[n].t].exp,
             sp |-> { << k[2], txs'[k[2]].mined, txs'[k[2]].minobs, txs'[k[2]].exp >> : k \in { k \in links' : k[1] = n } }]
LoggedRow(r) == [n |-> r.n, acct |-> r.acct, mined |-> r.mined, minobs |-> r.minobs, exp |-> r.exp,
                 sp |-> { << s[1], s[2], s[3], s[4] >> : s \in SeqToSet(r.sp) }]

\* Wallet!Unexpired / Counted in the state after the step
UnexpiredP(t) == \/ (txs'[t].mined # -1 /\ txs'[t].mined < tip' + 1)
                 \/ txs'[t].exp = Never
                 \/ (txs'[t].exp >= 0 /\ txs'[t].exp >= tip' + 1)
                 \/ (txs'[t].exp = -1 /\ txs'[t].minobs + ExpiryDelta >= tip' + 1)
CountedP(n) == UnexpiredP(ninfo'[n].t) /\ \A k \in links' : k[1] = n => ~UnexpiredP(k[2])
LedgerP(a, p)  == FoldSet(LAMBDA n, acc : acc + ninfo'[n].v, 0,
                     { n \in known' : ninfo'[n].pool = p /\ ninfo'[n].acct = a /\ ninfo'[n].v > Dust /\ CountedP(n) })
LedgerDustP(a, p) == FoldSet(LAMBDA n, acc : acc + ninfo'[n].v, 0,
                     { n \in known' : ninfo'[n].pool = p /\ ninfo'[n].acct = a /\ ninfo'[n].v <= Dust /\ CountedP(n) })

\* the scan queue (C15, wallet level): sorted, gap-free, non-overlapping, adjacent priorities merged,
\* ends at the tip, and exactly the scanned heights carry priority Scanned (= 1)
QueueOK(q, sc, tp) ==
    /\ \A i \in DOMAIN q : q[i][1] < q[i][2]
    /\ \A i \in 1..(Len(q) - 1) : q[i][2] = q[i + 1][1] /\ q[i][3] # q[i + 1][3]
    /\ (q # << >> => q[Len(q)][2] - 1 = tp)
    /\ (q = << >> => tp = -1)
    /\ \A h \in sc : \E i \in DOMAIN q : q[i][1] <= h /\ h < q[i][2] /\ q[i][3] = 1
    /\ \A i \in DOMAIN q : q[i][3] = 1 => \A h \in q[i][1]..(q[i][2] - 1) : h \in sc

\* ---- note commitment trees (C06).  The harness compared, for every checkpoint the wallet retains,
\* the root the wallet computes with the true root of the chain it fabricated, and every Merkle path
\* the wallet produced for a mined note with the true root at that checkpoint; the verdicts are
\* logged.  RootLaw / WitnessLaw: never a different root ("none"/"err": not computable, legitimate).
\* In a *tainted* history (a rewind went below a frontier an earlier scan inserted) wrong roots are
\* the known finding of DESIGN C06 and are accepted here (the check reports them as KNOWN-FINDING).
Pools == << "S", "O", "I" >>
VerdictOK(v, tn) == \/ v \in {"ok", "none", "err"}
                    \/ (tn /\ v = "wrong" /\ KnownStale("root"))
                    \/ (taintR' /\ v = "wrong" /\ KnownStaleRoot("root"))
TreesOK(tr, sc, tn, cov, lost) ==
    /\ (IOEnv.EXPLAIN = "2" /\ \E i \in 1..3 : SeqToSet(tr[Pools[i]].ck) # mck'[i]) =>
          PrintT(<< "DRIFT", l, [i \in 1..3 |-> << SeqToSet(tr[Pools[i]].ck) \ mck'[i], mck'[i] \ SeqToSet(tr[Pools[i]].ck) >>] >>)
    /\ LET cs == [i \in 1..3 |-> SeqToSet(tr[Pools[i]].ck)]                 \* AlignedCheckpoints: a height checkpointed
           un == [i \in 1..3 |-> cs[i] \ SeqToSet(tr[Pools[i]].ret)]        \* in one pool and not in another lies below
       IN  \A i, j \in 1..3 : \A h \in cs[i] \ cs[j] : un[j] = {} \/ h < Min(un[j])   \* the other pool's pruning horizon (its
                                                                                 \* oldest ordinary, unretained checkpoint)
    /\ LET mx == IF sc = {} THEN -1 ELSE Max(sc)
       IN  \A i \in 1..3 :
             LET t == tr[Pools[i]]
                 cks == SeqToSet(t.ck)
             IN  /\ \A j \in DOMAIN t.roots : VerdictOK(t.roots[j][2], tn)                            \* RootLaw
                 /\ \A j \in DOMAIN t.wit : VerdictOK(t.wit[j][3], tn) /\ t.wit[j][4] = "pos-ok"      \* WitnessLaw
                 /\ \A h \in cks : h <= Max2(mx, 0) \/ h \in mck'[i]  \* no checkpoint above everything scanned (0: the birthday frontier;
                                                                      \* mck: the frontier a truncate_to_chain_state caller supplied)
                 /\ \A h \in cov : h \in cks \/ (<< h, i >> \in lost /\ KnownRetain(h, i))    \* RetainedBoundaries

PostAgrees(post) ==
    \/ ~post.chk
    \/ /\ (IOEnv.CHECK_LEDGER = "1") =>
            /\ post.tip = tip'
            /\ QueueOK(post.queue, scanned', tip')
            /\ SeqToSet(post.blocks) = scanned' /\ Len(post.blocks) = Cardinality(scanned')
            /\ { LoggedRow(post.notes[i]) : i \in DOMAIN post.notes } = { RowOf(n) : n \in known' }
            /\ Len(post.notes) = Cardinality(known')
            /\ post.balp =>                 \* no summary is reported while scan progress is not computable: no claim then
                  \A a \in 1..2 :                      \* for every account and pool
                     /\ post.bal[a].S = << LedgerP(a, "S"), LedgerDustP(a, "S") >>
                     /\ post.bal[a].O = << LedgerP(a, "O"), LedgerDustP(a, "O") >>
                     /\ post.bal[a].I = << LedgerP(a, "I"), LedgerDustP(a, "I") >>
       /\ (IOEnv.CHECK_LOCKS = "1" /\ "locks" \in DOMAIN post) =>   \* C08: lock state as stored, and as the API reports it
             /\ { << r[1], r[2], r[3] >> : r \in SeqToSet(post.locks.rows) } = { << n, locks'[n][1], locks'[n][2] >> : n \in DOMAIN locks' }
             /\ (tip' # -1 => SeqToSet(post.locks.api) = { n \in DOMAIN locks' : locks'[n][2] >= tip' + 1 /\ ninfo'[n].acct = 1 })   \* of the queried account
       /\ (IOEnv.CHECK_TREES = "1") => TreesOK(post.trees, scanned', taint', covered', lostOK')

\* EXPLAIN=1 (debugging aid): a disagreeing projection is printed and the trace continues
PostOK(post) == \/ PostAgrees(post)
                \/ /\ IOEnv.EXPLAIN = "1"
                   /\ PrintT(<< "EXPLAIN", l, [tip |-> tip', scanned |-> scanned', rows |-> { RowOf(n) : n \in known' },
                                               b1 |-> << LedgerP(1, "S"), LedgerDustP(1, "S"), LedgerP(1, "O"), LedgerDustP(1, "O"), LedgerP(1, "I"), LedgerDustP(1, "I") >>,
                                               b2 |-> << LedgerP(2, "S"), LedgerDustP(2, "S"), LedgerP(2, "O"), LedgerDustP(2, "O"), LedgerP(2, "I"), LedgerDustP(2, "I") >>] >>)

TReset == /\ IsEvent("reset")
          /\ chain' = << >> /\ top' = 0 /\ scanned' = {} /\ txs' = << >> /\ known' = {}
          /\ ninfo' = << >> /\ links' = {} /\ maxFrom' = 0 /\ taint' = FALSE
          /\ tip' = Rec[l].post.tip /\ tip' \in {-1, 0}      \* 0: a wallet born into an existing chain knows the block before its birthday
          /\ grid' = Rec[l].grid /\ gbase' = Rec[l].gbase /\ cmAt' = << >> /\ covered' = {} /\ lostOK' = {}
          /\ mck' = EmptyCk /\ mret' = EmptyCk /\ locks' = << >> /\ sugg' = << >> /\ rootEnds' = {} /\ taintR' = FALSE
          /\ PostOK(Rec[l].post)

TBlock == /\ IsEvent("block")
          /\ Block(Rec[l].h, Rec[l].b, Rec[l].txs)
          /\ cmAt' = [x \in 1..Rec[l].h |-> IF x = Rec[l].h THEN Rec[l].cm ELSE cmAt[x]]
          /\ UNCHANGED << grid, gbase, covered, lostOK, mck, mret, rootEnds, taintR, locks, sugg >>
          /\ PostOK(Rec[l].post)

TTip == /\ IsEvent("tip")
        /\ Rec[l].res = "ok"
        /\ UpdateTip(Rec[l].h)
        /\ UNCHANGED cvars /\ UNCHANGED locks /\ UNCHANGED sugg
        /\ PostOK(Rec[l].post)

\* Known finding C06-retained-boundary-lost (found by TLC on CommitmentTree.tla, confirmed on the real
\* wallet): update_tree skips an ensured checkpoint that lies at or below the pool's oldest checkpoint, so
\* the retained boundary of a pool without a commitment in the boundary block is lost when more than the
\* checkpoint budget follows it in the batch, or when the batch lies below the pool's checkpoints.  A lost
\* boundary is excused exactly when the transcription of the pinned update_tree (TreeOps) loses it too.
\* C15, termination: a scan made by the documented sync client takes a chunk from the start of the first range
\* the wallet suggested, and every block of it is new - the number of unscanned blocks below the tip strictly
\* decreases with every client step (only the environment can increase it)
ClientStep(r) == r.client =>
                   /\ Len(sugg) >= 1 /\ r.from = sugg[1][1] /\ r.from + r.n <= sugg[1][2] /\ r.n >= 1
                   /\ r.res = "ok"
                   /\ \A h \in r.from..(r.from + r.n - 1) : h \notin scanned /\ h <= top
LoggedLinks(post) == UNION { { << post.notes[i].n, post.notes[i].sp[j][1] >> : j \in DOMAIN post.notes[i].sp } : i \in DOMAIN post.notes }
TScan == /\ IsEvent("scan") /\ UNCHANGED locks /\ UNCHANGED sugg /\ ClientStep(Rec[l])
         /\ \/ /\ Rec[l].res = "ok"
               \* the optional links of settled notes are read off the logged projection (bound to a LET name: TLC caches those)
               /\ LET O == ScanOpt(Rec[l].from, Rec[l].n) \cap LoggedLinks(Rec[l].post) IN Scan(Rec[l].from, Rec[l].n, O)
               /\ LET R == { h \in Rec[l].from..(Rec[l].from + Rec[l].n - 1) : h <= top }
                      own(i) == { h \in R : cmAt[h][i] > 0 }
                      gridIn == { h \in R : Retains(h) }
                      all == own(1) \cup own(2) \cup own(3) \cup gridIn
                      keep == { h \in ({Rec[l].from - 1} \cup all) : Retains(h) }
                      nck == [i \in 1..3 |-> BatchCk(mck[i], mret[i], Rec[l].from, own(i), all, keep, Budget, FALSE)]
                  IN  IF R = {} THEN UNCHANGED << covered, lostOK, mck, mret >>
                      ELSE /\ covered' = covered \cup gridIn
                           /\ mck' = nck
                           /\ mret' = [i \in 1..3 |-> BatchRet(mret[i], keep)]
                           /\ lostOK' = lostOK \cup { x \in gridIn \X (1..3) : x[1] \notin nck[x[2]] }
               /\ UNCHANGED << grid, gbase, cmAt, rootEnds, taintR >>
            \/ /\ Rec[l].res = "err" /\ ((taint /\ KnownStale("scan refused")) \/ (taintR /\ KnownStaleRoot("scan refused")))  \* only the C06 known finding may refuse a scan
               /\ UNCHANGED wvars /\ UNCHANGED cvars
         /\ PostOK(Rec[l].post)

\* truncate_to_height(req) = Ok(to) settles on the logged height.  truncate_to_chain_state(req) returns nothing: it
\* settles on req, or -- when no scanned block at or below req can be truncated to -- first falls back to the oldest
\* shared checkpoint (an unlogged height eff < req that TLC infers from the projection) and then plants the caller's
\* frontier at req
TruncTo(eff) ==
    /\ Truncate(Rec[l].req, eff, Rec[l].fork, Rec[l].to)
    /\ (IOEnv.CHECK_TREES = "1" /\ ~Rec[l].cs) => eff \in scanned                \* TruncateLaw: truncate_to_height settles on a scanned height
    /\ (IOEnv.CHECK_TREES = "1" /\ Rec[l].post.chk) =>                             \* ... and nothing survives above the requested height
          \A j \in DOMAIN Rec[l].post.trees.S.ck : Rec[l].post.trees.S.ck[j] <= Rec[l].to
    /\ covered' = { h \in covered : h <= eff }
    /\ lostOK' = { x \in lostOK : x[1] <= eff }
    /\ mck' = [i \in 1..3 |-> { c \in mck[i] : c <= eff } \cup
                    \* truncate_to_chain_state inserts the caller's frontier as a checkpoint when it rewinds scanned blocks
                    (IF Rec[l].cs /\ \E b \in scanned : b > Rec[l].to THEN { Rec[l].to } ELSE {})]
    /\ mret' = [i \in 1..3 |-> { c \in mret[i] : c <= eff }]
    /\ cmAt' = IF Rec[l].fork THEN [x \in 1..Min2(top, Rec[l].to) |-> cmAt[x]] ELSE cmAt
    /\ UNCHANGED << grid, gbase >>
    \* subtree roots completed above the height at which the chain is replaced describe an orphaned chain from now on
    /\ taintR' = (taintR \/ (Rec[l].fork /\ \E h \in rootEnds : h > Rec[l].to))
    /\ rootEnds' = IF Rec[l].fork THEN { h \in rootEnds : h <= Rec[l].to } ELSE rootEnds
TTrunc == /\ IsEvent("trunc") /\ UNCHANGED locks /\ UNCHANGED sugg
          /\ \/ /\ Rec[l].res = "ok" /\ ~Rec[l].cs /\ TruncTo(Rec[l].to)
             \/ /\ Rec[l].res = "ok" /\ Rec[l].cs /\ Rec[l].to = Rec[l].req
                /\ \E eff \in 0..Rec[l].req : TruncTo(eff)
             \/ Rec[l].res = "err" /\ UNCHANGED wvars /\ UNCHANGED cvars        \* refusals are legitimate (relational)
          /\ PostOK(Rec[l].post)

\* a second, fresh wallet scanned the whole current chain once in height order.  What it must hold follows from the
\* chain alone: every note the chain pays to an account, mined where the chain has it, spent by exactly the chain's
\* spenders.  Whenever the wallet under test has scanned everything up to the tip, its mined notes are the same, and
\* so are their mined spenders -- except for a note that a never-expiring pending transaction of the wallet spends
\* (the scanner no longer looks for its nullifier; the note counts as spent either way)
ChainOuts == UNION { { [n |-> o.n, h |-> e.h] : o \in { o \in SeqToSet(e.tx.outs) : o.n # 0 } } : e \in OnChain }
ChainSpenders(n) == { e.tx.t : e \in { e \in OnChain : n \in Spends(e.tx) } }
ChainRow(x) == [n |-> x.n, acct |-> ninfo[x.n].acct, mined |-> x.h, sp |-> ChainSpenders(x.n)]
FreshRow(r) == [n |-> r.n, acct |-> r.acct, mined |-> r.mined, sp |-> { s[1] : s \in SeqToSet(r.sp) }]
ChainBal(a, p, dust) == FoldSet(LAMBDA n, acc : acc + ninfo[n].v, 0,
                        { n \in { x.n : x \in ChainOuts } : /\ ninfo[n].pool = p /\ ninfo[n].acct = a
                                                            /\ (IF dust THEN ninfo[n].v <= Dust ELSE ninfo[n].v > Dust)
                                                            /\ ChainSpenders(n) = {} })
PendingForever(n) == \E k \in links : k[1] = n /\ txs[k[2]].mined = -1 /\ txs[k[2]].exp = Never
TFresh == /\ IsEvent("fresh")
          /\ scanned = 1..top /\ tip = top
          /\ { FreshRow(Rec[l].notes[i]) : i \in DOMAIN Rec[l].notes } = { ChainRow(x) : x \in ChainOuts }
          /\ Rec[l].balp => \A a \in 1..2 :
                               /\ Rec[l].bal[a].S = << ChainBal(a, "S", FALSE), ChainBal(a, "S", TRUE) >>
                               /\ Rec[l].bal[a].O = << ChainBal(a, "O", FALSE), ChainBal(a, "O", TRUE) >>
                               /\ Rec[l].bal[a].I = << ChainBal(a, "I", FALSE), ChainBal(a, "I", TRUE) >>
          \* the wallet under test (its projection was compared with the specification state at the previous event)
          /\ { n \in known : txs[ninfo[n].t].mined # -1 } = { x.n : x \in ChainOuts }
          /\ \A x \in ChainOuts :
                /\ txs[ninfo[x.n].t].mined = x.h
                /\ PendingForever(x.n) \/ { k[2] : k \in { k \in links : k[1] = x.n /\ txs[k[2]].mined # -1 } } = ChainSpenders(x.n)
          /\ UNCHANGED wvars /\ UNCHANGED cvars /\ UNCHANGED locks /\ UNCHANGED sugg

\* C15: suggest_scan_ranges returns exactly the queue entries of priority Historic or above, highest priority
\* first and, within a priority, the highest range first; the sync loop ends with nothing suggested, everything
\* up to the tip scanned, and never needed more steps than blocks it scanned
TSuggest == /\ IsEvent("suggest")
            /\ LET rs == Rec[l].ranges  q == Rec[l].post.queue
               IN  /\ { << rs[i][1], rs[i][2], rs[i][3] >> : i \in DOMAIN rs } = { << q[i][1], q[i][2], q[i][3] >> : i \in { i \in DOMAIN q : q[i][3] >= 2 } }
                   /\ \A i \in 1..(Len(rs) - 1) : rs[i][3] > rs[i + 1][3] \/ (rs[i][3] = rs[i + 1][3] /\ rs[i][2] > rs[i + 1][2])
                   /\ sugg' = rs
            /\ UNCHANGED wvars /\ UNCHANGED cvars /\ UNCHANGED locks
            /\ PostOK(Rec[l].post)
\* subtree roots of completed shards arrive (put_*_subtree_roots): no effect on the ledger, the scanned set or the tip
TRoots == /\ IsEvent("roots")
          /\ \/ Rec[l].res = "ok"
             \/ (Rec[l].res = "err" /\ taint /\ KnownStale("subtree root refused"))   \* the C06 findings also make root insertion conflict
             \/ (Rec[l].res = "err" /\ taintR /\ KnownStaleRoot("subtree root refused"))
          /\ rootEnds' = IF Rec[l].res = "ok" THEN rootEnds \cup { Rec[l].h } ELSE rootEnds
          /\ UNCHANGED wvars /\ UNCHANGED << grid, gbase, cmAt, covered, lostOK, mck, mret, taintR >> /\ UNCHANGED locks /\ UNCHANGED sugg
          /\ PostOK(Rec[l].post)
TSyncDone == /\ IsEvent("syncdone")
             /\ sugg = << >> /\ top >= 1 /\ scanned = 1..top /\ tip = top
             /\ Rec[l].steps <= Rec[l].blocks
             /\ UNCHANGED wvars /\ UNCHANGED cvars /\ UNCHANGED locks /\ UNCHANGED sugg
             /\ PostOK(Rec[l].post)

\* ---------------------------------------------------------------------------------------------
\* C08: proposals and output locks.  Propose is *relational*: which eligible notes the selector picks,
\* and whether it succeeds when funds are neither clearly sufficient nor clearly insufficient, is its
\* business; what it picks must be eligible, distinct, and balance exactly.
Locked(n, target)    == n \in DOMAIN locks /\ locks[n][2] >= target          \* data_api/locking.rs "Locked"
Acquirable(n, owner) == IF n \in DOMAIN locks THEN (locks[n][2] <= tip \/ locks[n][1] = owner) ELSE TRUE
SumSeq(sq) == FoldSet(LAMBDA i, acc : acc + sq[i], 0, DOMAIN sq)
Eligible(n, v, target, anchor, minconf, admitted) ==
    /\ n \in known /\ ninfo[n].v = v
    /\ ninfo[n].acct = 1                                                        \* belongs to the requested account
    /\ v > Dust
    /\ txs[ninfo[n].t].mined # -1 /\ txs[ninfo[n].t].mined <= anchor          \* mined, at or below the anchor
    /\ target - txs[ninfo[n].t].mined >= (IF ninfo[n].int THEN minconf[1] ELSE minconf[2])   \* confirmations: the trusted count for the
                                                                                \* wallet's own change (internal scope), else the untrusted one
    /\ Counted(n, target)                                                       \* unexpired and unspent
    /\ (IF Locked(n, target) THEN locks[n][1] \in admitted ELSE TRUE)          \* not locked by an owner the policy does not admit
ProposalOK(r) ==
    LET p == r.p
        target == tip + 1
        ins == UNION { { << p.steps[i].inputs[j][1], p.steps[i].inputs[j][2] >> : j \in DOMAIN p.steps[i].inputs } : i \in DOMAIN p.steps }
        nin == FoldSet(LAMBDA i, acc : acc + Len(p.steps[i].inputs), 0, DOMAIN p.steps)
        minconf == << r.trusted, r.untrusted >>
    IN  /\ locks' = IF r.lock[1] >= 0
                     THEN [n \in DOMAIN locks \cup { x[1] : x \in ins } |->
                              IF n \in { x[1] : x \in ins } THEN << r.lock[1], target + r.lock[2] >> ELSE locks[n]]
                     ELSE locks
        /\ p.target = target /\ Len(p.steps) >= 1
        /\ Cardinality({ x[1] : x \in ins }) = nin                               \* no note twice, within or across steps
        /\ \A i \in DOMAIN p.steps :
              LET st == p.steps[i]
              IN  /\ st.anchor <= tip /\ st.anchor >= 0
                  /\ \A j \in DOMAIN st.inputs : Eligible(st.inputs[j][1], st.inputs[j][2], target, st.anchor, minconf, SeqToSet(r.admitted))
                  /\ st.in_total = SumSeq([j \in DOMAIN st.inputs |-> st.inputs[j][2]])
                  /\ st.tin = 0 /\ st.prior = 0 => st.in_total = st.pay + SumSeq(st.change) + st.fee     \* balances exactly
        /\ (r.max = "no" => p.steps[1].pay = r.amount)
TPropose == /\ IsEvent("propose")
            /\ \/ Rec[l].res = "ok" /\ ProposalOK(Rec[l])
               \/ /\ Rec[l].res = "inputs-locked"       \* only a policy that spends through another owner's lock can lose the race
                  /\ Rec[l].lock[1] >= 0 /\ Rec[l].lock[1] \notin SeqToSet(Rec[l].admitted)
                  /\ \E n \in DOMAIN locks : locks[n][1] \in SeqToSet(Rec[l].admitted) /\ ~Acquirable(n, Rec[l].lock[1])
                  /\ UNCHANGED locks
               \/ Rec[l].res \in {"insufficient", "scan-required"} /\ UNCHANGED locks      \* refusals: no claim
               \/ Rec[l].res = "refused" /\ Rec[l].max # "no" /\ UNCHANGED locks           \* send-max refusals (e.g. unspendable funds): no claim
            /\ UNCHANGED wvars /\ UNCHANGED cvars /\ UNCHANGED sugg
            /\ PostOK(Rec[l].post)
TLock == /\ IsEvent("lock")
         /\ LET ns == SeqToSet(Rec[l].notes)
            IN  \/ /\ Rec[l].res = "ok" /\ \A n \in ns : Acquirable(n, Rec[l].owner)
                   /\ locks' = [n \in DOMAIN locks \cup ns |-> IF n \in ns THEN << Rec[l].owner, Rec[l].exp >> ELSE locks[n]]
                \/ /\ Rec[l].res = "lock-failure" /\ \E n \in ns : ~Acquirable(n, Rec[l].owner)
                   /\ UNCHANGED locks                                         \* all-or-nothing
         /\ UNCHANGED wvars /\ UNCHANGED cvars /\ UNCHANGED sugg
         /\ PostOK(Rec[l].post)
TUnlock == /\ IsEvent("unlock") /\ Rec[l].res = "ok"
           /\ LET gone == { n \in SeqToSet(Rec[l].notes) \cap DOMAIN locks : locks[n][1] = Rec[l].owner }
              IN  locks' = [n \in DOMAIN locks \ gone |-> locks[n]]
           /\ UNCHANGED wvars /\ UNCHANGED cvars /\ UNCHANGED sugg
           /\ PostOK(Rec[l].post)
TClear == /\ IsEvent("clearlocks") /\ Rec[l].res = "ok"
          /\ LET mine == { n \in DOMAIN locks : ninfo[n].acct = 1 }        \* clear_locked_outputs is per account
             IN  /\ Rec[l].count = Cardinality(mine)
                 /\ locks' = [n \in DOMAIN locks \ mine |-> locks[n]]
          /\ UNCHANGED wvars /\ UNCHANGED cvars /\ UNCHANGED sugg
          /\ PostOK(Rec[l].post)

\* create_proposed_transactions on a proposal made earlier (single step): the stored pending transaction spends exactly
\* the proposal's inputs, pays payments + change + the proposal's fee out of them, expires where asked (default: target +
\* ExpiryDelta); the locks on the notes it spends may be released (the spend records protect them from now on)
TCreate == /\ IsEvent("create") /\ UNCHANGED sugg /\ UNCHANGED cvars
           /\ \/ /\ Rec[l].res = "ok" /\ Len(Rec[l].txs) = 1
                 /\ LET x == Rec[l].txs[1]
                        S == { Rec[l].inputs[i][1] : i \in DOMAIN Rec[l].inputs }
                        K == CreateChange(x.outs) \cap { Rec[l].post.notes[i].n : i \in DOMAIN Rec[l].post.notes }
                    IN  /\ Create(x.t, Rec[l].target, x.exp, S, x.outs, K)
                        /\ S \subseteq known /\ \A i \in DOMAIN Rec[l].inputs : ninfo[Rec[l].inputs[i][1]].v = Rec[l].inputs[i][2]
                        /\ x.nf_missing = 0 /\ x.nf_extra = 0
                        /\ x.exp = (IF Rec[l].expreq = -1 THEN Rec[l].target + ExpiryDelta ELSE Rec[l].expreq)
                        /\ SumSeq([i \in DOMAIN Rec[l].inputs |-> Rec[l].inputs[i][2]])
                              = SumSeq([i \in DOMAIN x.outs |-> x.outs[i].v]) + Rec[l].fee
                        \* the pinned code releases the locks on the notes the transaction spends (the spend records protect
                        \* them now); keeping them would do no harm, so either is allowed
                        /\ \E LK \in { S \cap DOMAIN locks, {} } : locks' = [n \in DOMAIN locks \ LK |-> locks[n]]
              \/ Rec[l].res = "err" /\ UNCHANGED wvars /\ UNCHANGED locks     \* refusals (stale proposal, missing witness): no effect
           /\ PostOK(Rec[l].post)

TraceInit == Init /\ l = 1 /\ locks = << >> /\ sugg = << >> /\ grid = 0 /\ gbase = 0 /\ cmAt = << >> /\ covered = {} /\ lostOK = {} /\ mck = EmptyCk /\ mret = EmptyCk /\ rootEnds = {} /\ taintR = FALSE
TraceNext == TReset \/ TBlock \/ TTip \/ TScan \/ TTrunc \/ TFresh \/ TPropose \/ TCreate \/ TLock \/ TUnlock \/ TClear \/ TSuggest \/ TSyncDone \/ TRoots
TraceSpec == TraceInit /\ [][TraceNext]_tvars

Accepted == LET n == TLCGet("stats").diameter - 1
            IN  IF n = Len(Rec) THEN PrintT(<< "TRACE", "accepted", n >>)
                ELSE PrintT(<< "TRACE", "rejected", n + 1, ToJson(Rec[n + 1]) >>) /\ FALSE
=====================================================================================
