-------------------------------- MODULE Trace_Wallet --------------------------------
(* Trace validation for C01 (and the ledger side of C06/C15): every operation the driver ran     *)
(* against the real SQLite wallet must be a step of Wallet.tla, and the projection of the real   *)
(* database / balance API logged after the call must equal the specification's state.            *)
EXTENDS Wallet, Json, IOUtils

VARIABLE l
Rec == ndJsonDeserialize(IOEnv.TRACE)
tvars == << wvars, l >>

IsEvent(e) == l <= Len(Rec) /\ Rec[l].a = e /\ l' = l + 1

\* ---- the logged projection agrees with the (primed) specification state
RowOf(n) == [n |-> n, mined |-> txs'[ninfo'[n].t].mined, minobs |-> txs'[ninfo'[n].t].minobs,
             sp |-> { << k[2], txs'[k[2]].mined, txs'[k[2]].minobs >> : k \in { k \in links' : k[1] = n } }]
LoggedRow(r) == [n |-> r.n, mined |-> r.mined, minobs |-> r.minobs, sp |-> { << s[1], s[2], s[3] >> : s \in SeqToSet(r.sp) }]

LedgerP(p)     == FoldSet(LAMBDA n, acc : acc + ninfo'[n].v, 0,
                     { n \in known' : /\ ninfo'[n].pool = p /\ ninfo'[n].v > Dust
                                      /\ (\/ (txs'[ninfo'[n].t].mined # -1 /\ txs'[ninfo'[n].t].mined < tip' + 1)
                                          \/ txs'[ninfo'[n].t].minobs + ExpiryDelta >= tip' + 1)
                                      /\ \A k \in links' : k[1] = n =>
                                            ~(\/ (txs'[k[2]].mined # -1 /\ txs'[k[2]].mined < tip' + 1)
                                              \/ txs'[k[2]].minobs + ExpiryDelta >= tip' + 1) })
LedgerDustP(p) == FoldSet(LAMBDA n, acc : acc + ninfo'[n].v, 0,
                     { n \in known' : /\ ninfo'[n].pool = p /\ ninfo'[n].v <= Dust
                                      /\ (\/ (txs'[ninfo'[n].t].mined # -1 /\ txs'[ninfo'[n].t].mined < tip' + 1)
                                          \/ txs'[ninfo'[n].t].minobs + ExpiryDelta >= tip' + 1)
                                      /\ \A k \in links' : k[1] = n =>
                                            ~(\/ (txs'[k[2]].mined # -1 /\ txs'[k[2]].mined < tip' + 1)
                                              \/ txs'[k[2]].minobs + ExpiryDelta >= tip' + 1) })

\* the scan queue (C15, wallet level): sorted, gap-free, non-overlapping, adjacent priorities merged,
\* ends at the tip, and exactly the scanned heights carry priority Scanned (= 1)
QueueOK(q, sc, tp) ==
    /\ \A i \in DOMAIN q : q[i][1] < q[i][2]
    /\ \A i \in 1..(Len(q) - 1) : q[i][2] = q[i + 1][1] /\ q[i][3] # q[i + 1][3]
    /\ (q # << >> => q[Len(q)][2] - 1 = tp)
    /\ (q = << >> => tp = -1)
    /\ \A h \in sc : \E i \in DOMAIN q : q[i][1] <= h /\ h < q[i][2] /\ q[i][3] = 1
    /\ \A i \in DOMAIN q : q[i][3] = 1 => \A h \in q[i][1]..(q[i][2] - 1) : h \in sc

\* ---- note commitment trees (C06).  The harness compared, for every checkpoint the wallet retains,
\* the root the wallet computes with the true root of the chain it fabricated, and every Merkle path
\* the wallet produced for a mined note with the true root at that checkpoint; the verdicts are
\* logged.  RootLaw / WitnessLaw: never a different root ("none"/"err": not computable, legitimate).
\* In a *tainted* history (a rewind went below a frontier an earlier scan inserted) wrong roots are
\* the known finding of DESIGN C06 and are accepted here (the check reports them as KNOWN-FINDING).
Pools == << "S", "O", "I" >>
VerdictOK(v, tn) == v \in {"ok", "none", "err"} \/ (tn /\ v = "wrong")
TreesOK(tr, sc, tn) ==
    /\ LET cs == [i \in 1..3 |-> SeqToSet(tr[Pools[i]].ck)]                          \* AlignedCheckpoints:
           ne == { i \in 1..3 : cs[i] # {} }                                        \* above the newest of the pools' oldest
       IN  ne # {} => /\ ne = 1..3                                                  \* checkpoints (pruning of the oldest ones lags
                      /\ LET lo == Max({ Min(cs[i]) : i \in 1..3 })                  \* per pool) all pools hold the same heights
                         IN  \A i, j \in 1..3 : { h \in cs[i] : h >= lo } = { h \in cs[j] : h >= lo }
    /\ LET mx == IF sc = {} THEN -1 ELSE Max(sc)
       IN  \A i \in 1..3 :
             LET t == tr[Pools[i]]
                 cks == SeqToSet(t.ck)
             IN  /\ \A j \in DOMAIN t.roots : VerdictOK(t.roots[j][2], tn)                            \* RootLaw
                 /\ \A j \in DOMAIN t.wit : VerdictOK(t.wit[j][3], tn) /\ t.wit[j][4] = "pos-ok"      \* WitnessLaw
                 /\ \A h \in cks : h <= mx                           \* no checkpoint above everything scanned
                 /\ \A j \in DOMAIN t.ret : t.ret[j] \in cks \/ t.ret[j] > mx

PostAgrees(post) ==
    \/ ~post.chk
    \/ /\ (IOEnv.CHECK_LEDGER = "1") =>
            /\ post.tip = tip'
            /\ QueueOK(post.queue, scanned', tip')
            /\ SeqToSet(post.blocks) = scanned' /\ Len(post.blocks) = Cardinality(scanned')
            /\ { LoggedRow(post.notes[i]) : i \in DOMAIN post.notes } = { RowOf(n) : n \in known' }
            /\ Len(post.notes) = Cardinality(known')
            /\ post.balp =>                 \* no summary is reported while scan progress is not computable: no claim then
                  /\ post.bal.S = << LedgerP("S"), LedgerDustP("S") >>
                  /\ post.bal.O = << LedgerP("O"), LedgerDustP("O") >>
                  /\ post.bal.I = << LedgerP("I"), LedgerDustP("I") >>
       /\ (IOEnv.CHECK_TREES = "1") => TreesOK(post.trees, scanned', taint')

\* EXPLAIN=1 (debugging aid): a disagreeing projection is printed and the trace continues
PostOK(post) == \/ PostAgrees(post)
                \/ /\ IOEnv.EXPLAIN = "1"
                   /\ PrintT(<< "EXPLAIN", l, [tip |-> tip', scanned |-> scanned', rows |-> { RowOf(n) : n \in known' },
                                               S |-> << LedgerP("S"), LedgerDustP("S") >>,
                                               O |-> << LedgerP("O"), LedgerDustP("O") >>,
                                               I |-> << LedgerP("I"), LedgerDustP("I") >>] >>)

TReset == /\ IsEvent("reset")
          /\ chain' = << >> /\ top' = 0 /\ scanned' = {} /\ txs' = << >> /\ known' = {}
          /\ ninfo' = << >> /\ links' = {} /\ tip' = -1 /\ maxFrom' = 0 /\ taint' = FALSE
          /\ PostOK(Rec[l].post)

TBlock == /\ IsEvent("block")
          /\ Block(Rec[l].h, Rec[l].b, Rec[l].txs)
          /\ PostOK(Rec[l].post)

TTip == /\ IsEvent("tip")
        /\ Rec[l].res = "ok"
        /\ UpdateTip(Rec[l].h)
        /\ PostOK(Rec[l].post)

TScan == /\ IsEvent("scan")
         /\ \/ Rec[l].res = "ok" /\ Scan(Rec[l].from, Rec[l].n)
            \/ Rec[l].res = "err" /\ taint /\ UNCHANGED wvars     \* only the C06 known finding may refuse a scan
         /\ PostOK(Rec[l].post)

TTrunc == /\ IsEvent("trunc")
          /\ \/ /\ Rec[l].res = "ok" /\ Truncate(Rec[l].req, Rec[l].to, Rec[l].fork)
                /\ (IOEnv.CHECK_TREES = "1") => Rec[l].to \in scanned     \* TruncateLaw: the wallet settles on a scanned height
                /\ (IOEnv.CHECK_TREES = "1" /\ Rec[l].post.chk) =>        \* ... and nothing survives above it
                      \A j \in DOMAIN Rec[l].post.trees.S.ck : Rec[l].post.trees.S.ck[j] <= Rec[l].to
             \/ Rec[l].res = "err" /\ UNCHANGED wvars              \* refusals are legitimate (relational)
          /\ PostOK(Rec[l].post)

\* a second, fresh wallet scanned the whole current chain once in height order: whenever the wallet
\* under test has scanned everything up to the tip, its mined notes, their mined spenders and the
\* balance they imply are identical (orphans of a rewind are the stated exception)
MinedRow(n) == [n |-> n, mined |-> txs[ninfo[n].t].mined,
                sp |-> { k[2] : k \in { k \in links : k[1] = n /\ txs[k[2]].mined # -1 } }]
FreshRow(r) == [n |-> r.n, mined |-> r.mined, sp |-> { s[1] : s \in SeqToSet(r.sp) }]
MinedBal(p, dust) == FoldSet(LAMBDA n, acc : acc + ninfo[n].v, 0,
                        { n \in known : /\ ninfo[n].pool = p /\ txs[ninfo[n].t].mined # -1
                                         /\ (IF dust THEN ninfo[n].v <= Dust ELSE ninfo[n].v > Dust)
                                         /\ \A k \in links : k[1] = n => txs[k[2]].mined = -1 })
TFresh == /\ IsEvent("fresh")
          /\ scanned = 1..top /\ tip = top
          /\ { FreshRow(Rec[l].notes[i]) : i \in DOMAIN Rec[l].notes } = { MinedRow(n) : n \in { n \in known : txs[ninfo[n].t].mined # -1 } }
          /\ Rec[l].balp => /\ Rec[l].bal.S = << MinedBal("S", FALSE), MinedBal("S", TRUE) >>
                            /\ Rec[l].bal.O = << MinedBal("O", FALSE), MinedBal("O", TRUE) >>
                            /\ Rec[l].bal.I = << MinedBal("I", FALSE), MinedBal("I", TRUE) >>
          /\ UNCHANGED wvars

TraceInit == Init /\ l = 1
TraceNext == TReset \/ TBlock \/ TTip \/ TScan \/ TTrunc \/ TFresh
TraceSpec == TraceInit /\ [][TraceNext]_tvars

Accepted == LET n == TLCGet("stats").diameter - 1
            IN  IF n = Len(Rec) THEN PrintT(<< "TRACE", "accepted", n >>)
                ELSE PrintT(<< "TRACE", "rejected", n + 1, ToJson(Rec[n + 1]) >>) /\ FALSE
=====================================================================================
