SPECIFICATION MCSpec
CONSTANTS
  ExpiryDelta = 2
  Dust = 5
  MaxTop = 3
  MaxNotes = 2
  MaxOps = 4
INVARIANT Inv
PROPERTY ScanIdempotent
CHECK_DEADLOCK FALSE
