SPECIFICATION TraceSpec
CONSTANTS
  ExpiryDelta = 40
  Dust = 5000
INVARIANT TypeOK
POSTCONDITION Accepted
CHECK_DEADLOCK FALSE
