SPECIFICATION TraceSpec
CONSTANTS
  ExpiryDelta = 40
  Dust = 5000
  Budget = 100
INVARIANT TypeOK
POSTCONDITION Accepted
CHECK_DEADLOCK FALSE
