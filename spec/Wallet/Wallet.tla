----------------------------------- MODULE Wallet -----------------------------------
(* Layer A of the light-wallet backend (C01, and the state C06/C08/C15 project from): the chain  *)
(* the environment built, which of its blocks the wallet has scanned, the wallet's ledger of      *)
(* notes / transactions / spend links, and the chain tip it believes in.  One action per wallet   *)
(* operation (Scan = scan_cached_blocks, UpdateTip = update_chain_tip, Truncate =                 *)
(* truncate_to_height) and per environment step (a block arrives, the chain forks).               *)
(*                                                                                                *)
(* The *ledger law* (C01) is the definition Ledger: the balance of a pool is the sum of the       *)
(* notes addressed to the account in scanned blocks whose transaction is unexpired and that no    *)
(* unexpired linked spender spends.  A mined transaction is unexpired; a transaction orphaned by  *)
(* a rewind stays unexpired for ExpiryDelta blocks after it was first observed.                   *)
EXTENDS Integers, Sequences, FiniteSets, FiniteSetsExt, TLC

CONSTANTS ExpiryDelta,   \* DEFAULT_TX_EXPIRY_DELTA (40)
          Dust           \* MARGINAL_FEE (5000): notes of at most this value are "uneconomic"

VARIABLES chain,    \* [1..top -> [b : block uid, txs : Seq(Tx)]],  Tx = [t, outs : Seq([n, pool, v, acct]), spends : Seq(n)]
          top,      \* height of the last block of the current chain (0: none)
          scanned,  \* heights whose block the wallet has scanned (rows of `blocks`)
          txs,      \* known transactions: t -> [mined : height or -1, minobs : height, exp : expiry height, -1 unknown (learnt
                    \*                                 from a compact block), Never = the transaction does not expire]
          known,    \* ids of the notes the wallet has a row for
          ninfo,    \* note id -> [t, pool, v, int, acct]   (every note any block ever created for the wallet; int: internal scope)
          links,    \* set of <<n, t>>: the wallet recorded that transaction t spends note n
          tip,      \* the wallet's chain tip (-1: unknown)
          maxFrom,  \* largest `from` of a successful Scan so far (C06 taint bookkeeping)
          taint     \* a rewind went below a frontier inserted by an earlier scan (C06 known finding)

wvars == << chain, top, scanned, txs, known, ninfo, links, tip, maxFrom, taint >>

Never == -100
Max2(a, b) == IF a >= b THEN a ELSE b
Min2(a, b) == IF a <= b THEN a ELSE b
SeqToSet(s) == { s[i] : i \in DOMAIN s }

Init == /\ chain = << >> /\ top = 0 /\ scanned = {} /\ txs = << >> /\ known = {}
        /\ ninfo = << >> /\ links = {} /\ tip = -1 /\ maxFrom = 0 /\ taint = FALSE

----------------------------------------------------------------------------------------
\* the chain as the specification reads it

TxAt(h)     == SeqToSet(chain[h].txs)
OnChain     == UNION { { [tx |-> x, h |-> h] : x \in TxAt(h) } : h \in DOMAIN chain }
OutNotes(x) == { x.outs[i].n : i \in DOMAIN x.outs } \ {0}
Spends(x)   == SeqToSet(x.spends) \ {0}

\* notes whose receiving block the wallet has scanned on the current chain
Live(sc) == UNION { OutNotes(e.tx) : e \in { e \in OnChain : e.h \in sc } }

\* notes whose nullifier the scanner looks for (get_nullifiers, "Unspent"): not those a mined or a never-expiring
\* transaction already spends -- a conflicting spend of such a note in a scanned block goes unnoticed (the note is
\* not counted either way)
Settled(n) == \E k \in links : k[1] = n /\ (txs[k[2]].mined # -1 \/ txs[k[2]].exp = Never)

\* wallet-relevant transactions of scanned blocks: they pay the wallet, or spend a tracked note whose
\* receipt is scanned too (the nullifier of a note whose transaction a rewind un-mined is not
\* tracked until its block is scanned again; until then the note is an orphan, see Counted)
RelevantL(sc, trk) == { e \in OnChain : e.h \in sc /\ (OutNotes(e.tx) # {} \/ (Spends(e.tx) \cap trk) # {}) }

----------------------------------------------------------------------------------------
\* environment

Block(h, b, btxs) ==
    /\ h = top + 1
    /\ chain' = [x \in 1..h |-> IF x = h THEN [b |-> b, txs |-> btxs] ELSE chain[x]]
    /\ top' = h
    /\ ninfo' = [n \in DOMAIN ninfo \cup UNION { OutNotes(btxs[i]) : i \in DOMAIN btxs } |->
                    IF n \in DOMAIN ninfo THEN ninfo[n]
                    ELSE LET i == CHOOSE i \in DOMAIN btxs : n \in OutNotes(btxs[i])
                             j == CHOOSE j \in DOMAIN btxs[i].outs : btxs[i].outs[j].n = n
                         IN  [t |-> btxs[i].t, pool |-> btxs[i].outs[j].pool, v |-> btxs[i].outs[j].v, int |-> btxs[i].outs[j].int,
                              acct |-> btxs[i].outs[j].acct]]
    /\ UNCHANGED << scanned, txs, known, links, tip, maxFrom, taint >>

----------------------------------------------------------------------------------------
\* wallet operations

UpdateTip(h) ==
    /\ tip' = Max2(tip, h)
    /\ UNCHANGED << chain, top, scanned, txs, known, ninfo, links, maxFrom, taint >>

\* a successful scan_cached_blocks(from, n): the blocks from..from+n-1 that exist.
\* A spend found in a scanned block is linked to the note it spends when the note's receipt is scanned too and the
\* scanner tracks the note's nullifier.  For a settled note (one a mined or never-expiring transaction already spends)
\* the scanner need not look: the pinned code ignores a conflicting spend when it scans the spending block and links it
\* when the block *receiving* the note is scanned again (through its pruned map of nullifiers seen earlier).  The note
\* is not counted either way, so the specification leaves these links (the set O) to the implementation.
\* (O is passed in: TLC caches LET definitions only outside a quantifier, so the caller chooses it)
ScanOpt(from, n) ==
    LET R   == { h \in from..(from + n - 1) : h <= top }
        sc  == scanned \cup R
        live == Live(sc)
        stl == { m \in live : Settled(m) }
    IN  UNION { { << m, e.tx.t >> : m \in Spends(e.tx) \cap stl } : e \in { e \in OnChain : e.h \in sc } } \ links
RelevantO(sc, trk, O) == { e \in OnChain : e.h \in sc /\ (\/ OutNotes(e.tx) # {} \/ (Spends(e.tx) \cap trk) # {}
                                                          \/ \E k \in O : k[2] = e.tx.t) }
Scan(from, n, O) ==
    LET R   == { h \in from..(from + n - 1) : h <= top }
        sc  == scanned \cup R
        live == Live(sc)
        kn  == known \cup live
        trk == { m \in live : ~Settled(m) }
        rel == RelevantO(sc, trk, O)
        T   == { e.tx.t : e \in rel }
        hgt(t) == (CHOOSE e \in rel : e.tx.t = t).h
    IN  /\ scanned' = sc
        /\ known' = kn
        /\ txs' = [t \in DOMAIN txs \cup T |->
                      IF t \in T
                      THEN [mined |-> hgt(t),
                            minobs |-> IF t \in DOMAIN txs THEN Min2(txs[t].minobs, hgt(t)) ELSE hgt(t),
                            exp |-> IF t \in DOMAIN txs THEN txs[t].exp ELSE -1]
                      ELSE txs[t]]
        /\ links' = links \cup O \cup UNION { { << m, e.tx.t >> : m \in Spends(e.tx) \cap trk } : e \in rel }
        /\ maxFrom' = IF R = {} THEN maxFrom ELSE Max2(maxFrom, from)
        /\ UNCHANGED << chain, top, ninfo, tip, taint >>

\* truncate_to_height(req) = Ok(to) (and truncate_to_chain_state, which may settle below the height it was given);
\* `fork`: the environment replaces the chain above `at`
Truncate(req, to, fork, at) ==
    /\ to <= req
    /\ scanned' = { h \in scanned : h <= to }
    /\ txs' = [t \in DOMAIN txs |-> IF txs[t].mined > to THEN [txs[t] EXCEPT !.mined = -1] ELSE txs[t]]
    /\ tip' = IF tip = -1 \/ to = 0 THEN -1 ELSE Min2(tip, to)   \* the queue is cut above `to` (truncate_to_chain_state may name a height above the tip)
    /\ taint' = (taint \/ maxFrom - 1 > to)
    /\ IF fork THEN /\ chain' = [x \in 1..Min2(top, at) |-> chain[x]]
                    /\ top' = Min2(top, at)
               ELSE UNCHANGED << chain, top >>
    /\ UNCHANGED << known, ninfo, links, maxFrom >>

\* create_proposed_transactions stored transaction t (built for target height `target`, expiry e): it spends the
\* notes S and creates the outputs `outs`; the wallet records the spends and its own change at once, before the
\* transaction is mined (a *pending* transaction, C08)
\* K: the outputs to the sender's own internal address that the wallet records at once -- every value-bearing one
\* (its change); zero-valued ones (padding counterparts of Orchard spends from NU6.3 on) only turn up when scanned
CreateChange(outs) == { outs[i].n : i \in { i \in DOMAIN outs : outs[i].n # 0 /\ outs[i].int } }
CreateChangeMust(outs) == { outs[i].n : i \in { i \in DOMAIN outs : outs[i].n # 0 /\ outs[i].int /\ outs[i].v > 0 } }
Create(t, target, e, S, outs, K) ==
    LET own == { outs[i].n : i \in { i \in DOMAIN outs : outs[i].n # 0 } }
        chg == K
    IN  /\ CreateChangeMust(outs) \subseteq K /\ K \subseteq CreateChange(outs)
        /\ t \notin DOMAIN txs
        /\ txs' = [x \in DOMAIN txs \cup {t} |-> IF x = t THEN [mined |-> -1, minobs |-> target, exp |-> e] ELSE txs[x]]
        /\ links' = links \cup { << n, t >> : n \in S }
        /\ known' = known \cup chg
        /\ ninfo' = [n \in DOMAIN ninfo \cup own |->
                        IF n \in DOMAIN ninfo THEN ninfo[n]
                        ELSE LET j == CHOOSE j \in DOMAIN outs : outs[j].n = n
                             IN  [t |-> t, pool |-> outs[j].pool, v |-> outs[j].v, int |-> outs[j].int, acct |-> outs[j].acct]]
        /\ UNCHANGED << chain, top, scanned, tip, maxFrom, taint >>

----------------------------------------------------------------------------------------
\* the ledger (C01)

\* tx_unexpired_condition: mined below the target, or never expiring, or its known expiry not reached, or -- expiry
\* unknown -- first observed at most ExpiryDelta blocks ago
Unexpired(t, target) == \/ (txs[t].mined # -1 /\ txs[t].mined < target)
                        \/ txs[t].exp = Never
                        \/ (txs[t].exp >= 0 /\ txs[t].exp >= target)
                        \/ (txs[t].exp = -1 /\ txs[t].minobs + ExpiryDelta >= target)

Counted(n, target) == /\ Unexpired(ninfo[n].t, target)
                      /\ \A lk \in links : lk[1] = n => ~Unexpired(lk[2], target)

Sum(S) == FoldSet(LAMBDA n, acc : acc + ninfo[n].v, 0, S)

CountedNotes(p) == { n \in known : ninfo[n].pool = p /\ ninfo[n].acct = 1 /\ Counted(n, tip + 1) }   \* account 1
Ledger(p)       == Sum({ n \in CountedNotes(p) : ninfo[n].v > Dust })
LedgerDust(p)   == Sum({ n \in CountedNotes(p) : ninfo[n].v <= Dust })

\* structural invariants of the ledger itself
TypeOK == /\ known \subseteq DOMAIN ninfo
          /\ \A n \in known : ninfo[n].t \in DOMAIN txs
          /\ \A lk \in links : lk[1] \in known /\ lk[2] \in DOMAIN txs
          /\ \A t \in DOMAIN txs : txs[t].mined = -1 \/ txs[t].minobs <= txs[t].mined
=====================================================================================
