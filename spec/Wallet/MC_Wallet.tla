---------------------------------- MODULE MC_Wallet ----------------------------------
(* Exhaustive exploration of Wallet.tla under small constants: the environment builds every       *)
(* chain of at most MaxTop blocks from a menu of transactions (receipts, spends with and without  *)
(* change, dust), forks it after rewinds, and the wallet scans any ranges in any order, updates   *)
(* its tip and rewinds to any height.  Theorems checked in every reachable state:                 *)
(*   FreshEquivalence  once everything up to the tip is scanned, the mined notes and their mined  *)
(*                     spenders are exactly those of the chain, whatever the history was;         *)
(*   Conservation      the balance of mined, unspent notes is inflow minus outflow of the chain;  *)
(*   OrphansExpire     a note whose transaction is un-mined stops counting ExpiryDelta blocks     *)
(*                     after it was first observed;                                               *)
(*   ScanIdempotent    repeating a scan changes nothing (action property).                        *)
EXTENDS Wallet

CONSTANTS MaxTop, MaxNotes, MaxOps

VARIABLES nextN, nextT, nextB, ops
mvars == << wvars, nextN, nextT, nextB, ops >>

MCInit == Init /\ nextN = 1 /\ nextT = 1 /\ nextB = 1 /\ ops = 0

\* notes created on the current chain and not spent on it
ChainNotes   == UNION { OutNotes(e.tx) : e \in OnChain }
ChainSpent   == UNION { Spends(e.tx) : e \in OnChain }
Out(n, p, v) == [n |-> n, pool |-> p, v |-> v, acct |-> 1, int |-> FALSE]

Menu == { << >> }                                                                    \* empty block
        \cup (IF nextN <= MaxNotes
              THEN { << [t |-> nextT, outs |-> << Out(nextN, p, v) >>, spends |-> << >>] >> : p \in {"S", "O"}, v \in {3, 10} }
              ELSE {})
        \cup { << [t |-> nextT, outs |-> << >>, spends |-> << m >>] >> : m \in ChainNotes \ ChainSpent }
        \cup (IF nextN <= MaxNotes
              THEN { << [t |-> nextT, outs |-> << Out(nextN, "O", 7) >>, spends |-> << m >>] >> : m \in ChainNotes \ ChainSpent }
              ELSE {})

EnvBlock == /\ top < MaxTop
            /\ \E btxs \in Menu :
                  /\ Block(top + 1, nextB, btxs)
                  /\ nextT' = nextT + Len(btxs)
                  /\ nextN' = nextN + Cardinality(UNION { OutNotes(btxs[i]) : i \in DOMAIN btxs })
            /\ nextB' = nextB + 1 /\ UNCHANGED ops

Op(A) == ops < MaxOps /\ A /\ ops' = ops + 1 /\ UNCHANGED << nextN, nextT, nextB >>

WTip   == top > 0 /\ Op(UpdateTip(top))
\* documented client protocol: the wallet learns the tip before it scans above it
WScan  == \E from \in 1..top, n \in 1..top : from + n - 1 <= top /\ tip >= from + n - 1 /\ Op(Scan(from, n))
WTrunc == \E req \in 0..top, to \in 0..top, fork \in BOOLEAN : to <= req /\ tip # -1 /\ to <= tip /\ Op(Truncate(req, to, fork, to))

MCNext == EnvBlock \/ WTip \/ WScan \/ WTrunc
MCSpec == MCInit /\ [][MCNext]_mvars

--------------------------------------------------------------------------------------
Mined(t) == t \in DOMAIN txs /\ txs[t].mined # -1
FullyScanned == top > 0 /\ scanned = 1..top /\ tip = top

FreshEquivalence ==
    FullyScanned =>
        /\ { n \in known : Mined(ninfo[n].t) } = ChainNotes
        /\ \A e \in OnChain : OutNotes(e.tx) # {} => txs[e.tx.t].mined = e.h
        /\ { k \in links : Mined(k[2]) } = UNION { { << m, e.tx.t >> : m \in Spends(e.tx) } : e \in OnChain }

MinedUnspent(p) == { n \in known : ninfo[n].pool = p /\ Mined(ninfo[n].t) /\ \A k \in links : k[1] = n => ~Mined(k[2]) }
Conservation ==
    FullyScanned => \A p \in {"S", "O"} :
        Sum(MinedUnspent(p)) = Sum({ n \in ChainNotes : ninfo[n].pool = p }) - Sum({ n \in ChainNotes \cap ChainSpent : ninfo[n].pool = p })

\* with every transaction mined at or below the tip the ledger is exactly the unspent mined notes
LedgerIsUnspent ==
    (FullyScanned /\ \A t \in DOMAIN txs : Mined(t)) => \A p \in {"S", "O"} : Ledger(p) + LedgerDust(p) = Sum(MinedUnspent(p))

OrphansExpire ==
    \A n \in known : (~Mined(ninfo[n].t) /\ txs[ninfo[n].t].minobs + ExpiryDelta < tip + 1) => ~Counted(n, tip + 1)

\* a note is never known without its transaction, links only join known things
Inv == TypeOK /\ FreshEquivalence /\ Conservation /\ LedgerIsUnspent /\ OrphansExpire

\* re-scanning a range already scanned (on an unchanged chain) is a stutter on the ledger
ScanIdempotent ==
    [][\A from \in 1..MaxTop, n \in 1..MaxTop :
          ((from..(from + n - 1)) \subseteq scanned /\ from + n - 1 <= top /\ Scan(from, n))
             => UNCHANGED << scanned, txs, known, links >>]_mvars
=====================================================================================
