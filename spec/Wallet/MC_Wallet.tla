---------------------------------- MODULE MC_Wallet ----------------------------------
(* Exhaustive exploration of Wallet.tla under small constants: the environment builds every       *)
(* chain of at most MaxTop blocks from a menu of transactions (receipts, spends with and without  *)
(* change, dust), forks it after rewinds, and the wallet scans any ranges in any order, updates   *)
(* its tip and rewinds to any height.  Theorems checked in every reachable state:                 *)
(*   FreshEquivalence  once everything up to the tip is scanned, the mined notes and their mined  *)
(*                     spenders are exactly those of the chain, whatever the history was;         *)
(*   Conservation      the balance of mined, unspent notes is inflow minus outflow of the chain;  *)
(*   OrphansExpire     a note whose transaction is un-mined stops counting ExpiryDelta blocks     *)
(*                     after it was first observed;                                               *)
(*   ScanIdempotent    repeating a scan changes nothing (action property).                        *)
EXTENDS Wallet

CONSTANTS MaxTop, MaxNotes, MaxOps

VARIABLES nextN, nextT, nextB, ops,
          pend      \* transactions the wallet created itself (C08), as the records a block would carry
mvars == << wvars, nextN, nextT, nextB, ops, pend >>

MCInit == Init /\ nextN = 1 /\ nextT = 1 /\ nextB = 1 /\ ops = 0 /\ pend = {}

\* notes created on the current chain and not spent on it
ChainNotes   == UNION { OutNotes(e.tx) : e \in OnChain }
ChainSpent   == UNION { Spends(e.tx) : e \in OnChain }
Out(n, p, v) == [n |-> n, pool |-> p, v |-> v, acct |-> 1, int |-> FALSE]

Menu == { << >> }                                                                    \* empty block
        \cup (IF nextN <= MaxNotes
              THEN { << [t |-> nextT, outs |-> << Out(nextN, p, v) >>, spends |-> << >>] >> : p \in {"S", "O"}, v \in {3, 10} }
              ELSE {})
        \cup { << [t |-> nextT, outs |-> << >>, spends |-> << m >>] >> : m \in ChainNotes \ ChainSpent }
        \cup (IF nextN <= MaxNotes
              THEN { << [t |-> nextT, outs |-> << Out(nextN, "O", 7) >>, spends |-> << m >>] >> : m \in ChainNotes \ ChainSpent }
              ELSE {})
        \* a transaction the wallet created is mined: its inputs exist unspent on the chain, it is not on the chain yet
        \* and has not expired
        \cup { << x >> : x \in { x \in pend : /\ SeqToSet(x.spends) \subseteq ChainNotes \ ChainSpent
                                               /\ x.t \notin { e.tx.t : e \in OnChain }
                                               /\ (txs[x.t].exp = Never \/ top + 1 <= txs[x.t].exp) } }

EnvBlock == /\ top < MaxTop
            /\ \E btxs \in Menu :
                  /\ Block(top + 1, nextB, btxs)
                  /\ nextT' = IF btxs # << >> /\ btxs[1].t = nextT THEN nextT + 1 ELSE nextT
                  /\ nextN' = IF btxs # << >> /\ btxs[1].t = nextT THEN nextN + Cardinality(OutNotes(btxs[1])) ELSE nextN
            /\ nextB' = nextB + 1 /\ UNCHANGED << ops, pend >>

Op(A) == ops < MaxOps /\ A /\ ops' = ops + 1 /\ UNCHANGED << nextN, nextT, nextB, pend >>

WTip   == top > 0 /\ Op(UpdateTip(top))
\* documented client protocol: the wallet learns the tip before it scans above it
WScan  == \E from \in 1..top, n \in 1..top : from + n - 1 <= top /\ tip >= from + n - 1 /\ \E O \in SUBSET ScanOpt(from, n) : Op(Scan(from, n, O))
WTrunc == \E req \in 0..top, to \in 0..top, fork \in BOOLEAN : to <= req /\ tip # -1 /\ to <= tip /\ Op(Truncate(req, to, fork, to))

\* the wallet creates a transaction spending a note a proposal could select (its own, mined, counted), with or
\* without change, expiring at once or never
WCreate == /\ tip # -1 /\ ops < MaxOps /\ ops' = ops + 1
           /\ \E n \in known, e \in {tip + 1, Never}, chg \in BOOLEAN :
                 /\ txs[ninfo[n].t].mined # -1 /\ Counted(n, tip + 1)
                 /\ (chg => nextN <= MaxNotes)
                 /\ LET outs == IF chg THEN << [n |-> nextN, pool |-> "O", v |-> 2, acct |-> 1, int |-> TRUE] >> ELSE << >>
                    IN  /\ Create(nextT, tip + 1, e, {n}, outs, CreateChange(outs))
                        /\ pend' = pend \cup { [t |-> nextT, outs |-> outs, spends |-> << n >>] }
                 /\ nextT' = nextT + 1 /\ nextN' = nextN + (IF chg THEN 1 ELSE 0)
           /\ UNCHANGED nextB

MCNext == EnvBlock \/ WTip \/ WScan \/ WTrunc \/ WCreate
MCSpec == MCInit /\ [][MCNext]_mvars

--------------------------------------------------------------------------------------
Mined(t) == t \in DOMAIN txs /\ txs[t].mined # -1
PendingForever(n) == \E k \in links : k[1] = n /\ txs[k[2]].mined = -1 /\ txs[k[2]].exp = Never
FullyScanned == top > 0 /\ scanned = 1..top /\ tip = top

FreshEquivalence ==
    FullyScanned =>
        /\ { n \in known : Mined(ninfo[n].t) } = ChainNotes
        /\ \A e \in OnChain : OutNotes(e.tx) # {} => txs[e.tx.t].mined = e.h
        \* ... except for a note a never-expiring pending transaction spends (the scanner stops looking for it)
        /\ \A n \in ChainNotes : PendingForever(n) \/
               { k[2] : k \in { k \in links : k[1] = n /\ Mined(k[2]) } } = { e.tx.t : e \in { e \in OnChain : n \in Spends(e.tx) } }

MinedUnspent(p) == { n \in known : ninfo[n].pool = p /\ Mined(ninfo[n].t) /\ \A k \in links : k[1] = n => ~Mined(k[2]) }
\* (a note that a never-expiring pending transaction of the wallet spends is out of the ledger whatever the chain does)
Conservation ==
    FullyScanned => \A p \in {"S", "O"} :
        Sum({ n \in MinedUnspent(p) : ~PendingForever(n) })
          = Sum({ n \in ChainNotes : ninfo[n].pool = p /\ ~PendingForever(n) })
            - Sum({ n \in ChainNotes \cap ChainSpent : ninfo[n].pool = p /\ ~PendingForever(n) })

\* with every transaction mined at or below the tip the ledger is exactly the unspent mined notes
LedgerIsUnspent ==
    (FullyScanned /\ \A t \in DOMAIN txs : Mined(t)) => \A p \in {"S", "O"} : Ledger(p) + LedgerDust(p) = Sum(MinedUnspent(p))

OrphansExpire ==
    \A n \in known : (~Mined(ninfo[n].t) /\ txs[ninfo[n].t].exp = -1 /\ txs[ninfo[n].t].minobs + ExpiryDelta < tip + 1) => ~Counted(n, tip + 1)
\* a pending transaction of the wallet keeps its inputs out of the ledger exactly until it expires, and its change in
PendingHolds ==
    \A k \in links : (~Mined(k[2]) /\ txs[k[2]].exp # -1 /\ (txs[k[2]].exp = Never \/ txs[k[2]].exp >= tip + 1)) => ~Counted(k[1], tip + 1)
PendingExpires ==
    \A n \in known : (~Mined(ninfo[n].t) /\ txs[ninfo[n].t].exp >= 0 /\ txs[ninfo[n].t].exp < tip + 1) => ~Counted(n, tip + 1)

\* a note is never known without its transaction, links only join known things
Inv == TypeOK /\ FreshEquivalence /\ Conservation /\ LedgerIsUnspent /\ OrphansExpire /\ PendingHolds /\ PendingExpires

\* re-scanning a range already scanned (on an unchanged chain) is a stutter on the ledger
ScanIdempotent ==
    [][\A from \in 1..MaxTop, n \in 1..MaxTop :
          ((from..(from + n - 1)) \subseteq scanned /\ from + n - 1 <= top /\ Scan(from, n, {}))
             => UNCHANGED << scanned, txs, known, links >>]_mvars
=====================================================================================
