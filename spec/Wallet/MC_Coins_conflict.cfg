SPECIFICATION Spec
CONSTANTS
  ExpiryDelta = 1
  Dust = 5
  Maturity = 2
  MaxH = 3
  E = 2
  MaxOps = 5
INVARIANT KnownMinedSpenderWins
CHECK_DEADLOCK FALSE
