---------------------------- MODULE Trace_TxnAtomic ----------------------------
(* Trace validation for C02: the events c02_driver recorded while it injected faults into wallet *)
(* write operations on the real SQLite wallet (SQLite's own progress handler / commit hook /      *)
(* rollback hook / statement trace on a connection the harness owns; a second connection reading  *)
(* from inside the writer's progress callback; copies of the database files reopened fresh) must  *)
(* be a behaviour of TxnAtomic's database layer, and every invariant of TxnAtomic must hold after *)
(* every event.  The driver records observations only; the judgement is made here.               *)
(*                                                                                               *)
(* A content is [dig, sum, inv]: digest of the canonical dump of every table, digest of           *)
(* get_wallet_summary, and the cross-table facts the driver computed by SQL in the same snapshot  *)
(* as the dump (a record of booleans; [unknown |-> TRUE] where no dump was taken).  Every          *)
(* observation of a committed state -- pre-state, state after a call that returned Ok or Err,     *)
(* what a reader transaction saw, every crash image after recovery -- carries its own inv and     *)
(* must be Sound (TxnAtomic!Consistent).  Events (field a):                                       *)
(*   reset    a new (pre-state, operation) group; dig/sum/inv of the pre-state                    *)
(*   restore  the harness put a pristine copy of the pre-state file in place                      *)
(*   opstart  mode ref | plain | fault | retry                                                    *)
(*   wbegin wstmt wcommit wrollback wend winterrupt writer's connection (hooks, autocommit flag)  *)
(*   rbegin rread rend                              reader's connection                          *)
(*   crash    a copy of the database files taken at this moment, reopened: dig, inv               *)
(*   opend    res, auto (autocommit flag), dig/sum/inv (second connection), wdig (writer's conn.)  *)
EXTENDS Naturals, Sequences, FiniteSets, TLC, Json, IOUtils

VARIABLES db, w, r, op, exp, pc, l, base

\* the cross-table invariants of a content: every fact the driver computed for it holds
TraceSound(c) == \A k \in DOMAIN c.inv : c.inv[k]

T == INSTANCE TxnAtomic WITH MaxStmts <- 0, MaxReads <- 0, Wal <- TRUE, Mutant <- "none", Sound <- TraceSound

Rec == ndJsonDeserialize(IOEnv.TRACE)
tvars == << db, w, r, op, exp, pc, l, base >>

Unknown == [unknown |-> TRUE]
Nil == [dig |-> "", sum |-> "", inv |-> Unknown]
NoExp == [known |-> FALSE, res |-> "none", data |-> Nil]
IsEvent(e) == l <= Len(Rec) /\ Rec[l].a = e /\ l' = l + 1
Quiet == op.st # "run" /\ ~w.txn /\ ~r.txn

TraceInit ==
    /\ T!DbInit(Nil, NoExp)
    /\ pc = 0 /\ l = 1 /\ base = Nil

TReset ==
    /\ IsEvent("reset") /\ Quiet
    /\ LET d == [dig |-> Rec[l].dig, sum |-> Rec[l].sum, inv |-> Rec[l].inv]
       IN  /\ db' = [ver |-> 0, data |-> d]
           /\ w' = T!IdleW /\ r' = T!IdleR(d) /\ op' = T!IdleOp(d) /\ exp' = NoExp
           /\ base' = d
    /\ UNCHANGED pc

TRestore ==
    /\ IsEvent("restore") /\ Quiet
    /\ db' = [ver |-> 0, data |-> base]
    /\ op' = T!IdleOp(base)
    /\ r' = T!IdleR(base)
    /\ UNCHANGED << w, exp, pc, base >>

Same == UNCHANGED << pc, base >>

TOpStart   == IsEvent("opstart") /\ T!OpStart(Rec[l].mode) /\ Same
TWBegin    == IsEvent("wbegin") /\ T!WBegin /\ Same
\* statements outside a transaction are reads, or a write whose own commit is the next event
TWStmt     == IsEvent("wstmt") /\ (IF w.txn THEN T!WStmt(Rec[l].w) ELSE op.st = "run" /\ UNCHANGED << db, w, r, op, exp >>) /\ Same
TWInterrupt == IsEvent("winterrupt") /\ T!WInterrupt /\ Same
TWRollback == IsEvent("wrollback") /\ T!WRollback /\ Same
\* the autocommit flag is back although neither hook fired: a transaction that wrote nothing was closed
TWEnd      == IsEvent("wend") /\ T!WEnd /\ Same
\* the commit hook fires before the commit; a refused commit is followed at once by the rollback
TWCommit ==
    /\ IsEvent("wcommit")
    /\ LET c == [dig |-> Rec[l].dig, sum |-> Rec[l].sum, inv |-> Rec[l].inv]
       IN  IF l < Len(Rec) /\ Rec[l + 1].a = "wrollback" THEN T!WCommitBusy
           ELSE IF w.txn THEN T!WCommit(c) ELSE T!WAutoCommit(c)
    /\ Same

TRBegin == IsEvent("rbegin") /\ T!RBegin /\ Same
TREnd   == IsEvent("rend") /\ T!REnd /\ Same
\* the version a logged value belongs to: one that was durable during the read transaction (preferring the
\* one already seen), else a content nothing accounts for.  A dump carries the facts computed in its own
\* snapshot: they are judged as observed (a dump whose facts differ from those of the version with the same
\* digest belongs to no version).
Resolve(kind, val, inv) ==
    LET m == { c \in r.live : IF kind = "dump" THEN c.dig = val /\ c.inv = inv ELSE c.sum = val }
    IN  IF m \cap r.seen # {} THEN CHOOSE c \in m \cap r.seen : TRUE
        ELSE IF m # {} THEN CHOOSE c \in m : TRUE
        ELSE IF kind = "dump" THEN [dig |-> val, sum |-> "?", inv |-> inv] ELSE [dig |-> "?", sum |-> val, inv |-> Unknown]
TRRead ==
    /\ IsEvent("rread")
    /\ IF Rec[l].val = "busy" THEN T!RBusy ELSE T!RRead(Resolve(Rec[l].kind, Rec[l].val, Rec[l].inv))
    /\ Same

TCrash ==
    /\ IsEvent("crash")
    /\ LET known == {op.pre, db.data} \cup (IF exp.known THEN {exp.data} ELSE {})
           m == { c \in known : c.dig = Rec[l].dig /\ c.inv = Rec[l].inv }
       IN  T!CrashImage(IF m # {} THEN CHOOSE c \in m : TRUE ELSE [dig |-> Rec[l].dig, sum |-> "?", inv |-> Rec[l].inv])
    /\ Same

TOpEnd ==
    /\ IsEvent("opend")
    /\ LET post == [dig |-> Rec[l].dig, sum |-> Rec[l].sum, inv |-> Rec[l].inv]
           wpost == IF Rec[l].wdig = Rec[l].dig THEN post ELSE [dig |-> Rec[l].wdig, sum |-> "?", inv |-> Unknown]
       IN  T!OpEnd(Rec[l].res, post, wpost, Rec[l].auto)
    /\ Same

TraceNext == \/ TReset \/ TRestore \/ TOpStart \/ TWBegin \/ TWStmt \/ TWInterrupt \/ TWRollback \/ TWEnd \/ TWCommit
             \/ TRBegin \/ TRRead \/ TREnd \/ TCrash \/ TOpEnd

TraceSpec == TraceInit /\ [][TraceNext]_tvars

Durable == T!Durable
Atomic == T!Atomic
OneCommit == T!OneCommit
OkMeansComplete == T!OkMeansComplete
FaultMeansErrOrComplete == T!FaultMeansErrOrComplete
NoDanglingTx == T!NoDanglingTx
Snapshot == T!Snapshot
CrashAtomic == T!CrashAtomic
RetryConverges == T!RetryConverges
Consistent == T!Consistent

Accepted == LET n == TLCGet("stats").diameter - 1
            IN IF n = Len(Rec) THEN PrintT(<<"TRACE", "accepted", n>>)
               ELSE PrintT(<<"TRACE", "rejected", n + 1, ToJson(Rec[n + 1])>>) /\ FALSE
=============================================================================
