----------------------------------- MODULE TreeOps -----------------------------------
(* Pure operators over abstract checkpoint sets, shared by CommitmentTree.tla (model checking) and *)
(* Trace_Wallet.tla (trace validation): what one put_blocks batch and one rewind do to a pool's    *)
(* checkpoint ids and retained-anchor registrations (zcash_client_backend ll/wallet.rs update_tree,*)
(* shardtree's checkpoint budget).                                                                 *)
EXTENDS Integers, FiniteSets, FiniteSetsExt

\* shardtree: drop the oldest non-retained checkpoints while over budget
RECURSIVE Prune(_, _, _)
Prune(c, r, budget) == IF Cardinality(c) <= budget \/ c \subseteq r THEN c
                       ELSE Prune(c \ { Min(c \ r) }, r, budget)

\* One pool in one batch from..to.  own: heights of the batch whose block holds a commitment of this
\* pool; all: heights checkpointed in any pool by this batch plus the retention-grid heights in it;
\* keep: heights among {from-1} \cup all that the retention policy retains.
\* update_tree: insert_frontier (checkpoint at from-1, prunes), insert_tree of the pool's own
\* subtrees (prunes), then the ensured ("missing") checkpoints without pruning - on the pinned tree
\* only those above the pool's oldest checkpoint (fix = FALSE); fix = TRUE is the repaired design.
BatchRet(ret, keep) == ret \cup keep
BatchCk(ck, ret, from, own, all, keep, budget, fix) ==
    LET r == BatchRet(ret, keep)
        s1 == Prune(ck \cup {from - 1}, r, budget)
        s2 == IF own = {} THEN s1 ELSE Prune(s1 \cup own, r, budget)
    IN  s2 \cup { h \in all \ own : fix \/ h > Min(s2) }
=====================================================================================
