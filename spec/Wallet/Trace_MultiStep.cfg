SPECIFICATION MultiTraceSpec
CONSTANTS
  ExpiryDelta = 40
  Dust = 5000
  Budget = 100
  Maturity = 100
INVARIANT TypeOK
INVARIANT CoinTypeOK
POSTCONDITION Accepted
CHECK_DEADLOCK FALSE
