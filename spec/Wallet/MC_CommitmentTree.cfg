SPECIFICATION Spec
CONSTANTS
  MaxH = 4
  Budget = 2
  Interval = 2
  Floor = 2
  MaxOps = 3
  FixEnsure = TRUE
INVARIANT Inv
CHECK_DEADLOCK FALSE
