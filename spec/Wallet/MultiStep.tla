----------------------------------- MODULE MultiStep -----------------------------------
(* C08, "in EVERY STEP the selected input value equals payments plus change plus fee": the laws of  *)
(* a multi-step proposal (zcash_client_backend::proposal::{Proposal, Step, StepOutput}).  Each step  *)
(* is one transaction to be created; a later step may consume outputs of an earlier one ("prior-    *)
(* step inputs").  The one shape the wallet's own selector produces is the ZIP 320 pair: step 0     *)
(* spends wallet funds into an EPHEMERAL transparent output of the wallet, step 1 spends that output *)
(* and pays the TEX recipient(s).                                                                    *)
(*                                                                                                  *)
(* Written from the rustdoc of Proposal / Step / StepOutput / ProposalError and ZIP 320; purely      *)
(* functional - a proposal is a value:                                                               *)
(*   P      : Seq(Step)                          step 0 first (P[1])                                 *)
(*   Step   = [notes  : Seq(<< note id, value >>)          wallet notes the step selects             *)
(*             coins  : Seq(<< coin id, value >>)          wallet coins the step selects             *)
(*             prior  : Seq(<< s, kind, idx, value >>)     outputs of earlier steps it consumes:     *)
(*                          s = index of that step (0-based), kind = "p" (payment with index idx of  *)
(*                          that step's request) | "c" (change output at position idx, 0-based),     *)
(*                          value = what the consumer takes it to be worth                           *)
(*             pays   : Seq([i, k, ad, v, pool])           payments: request index, address kind     *)
(*                          ("tex" | "t" | "zs" | "ua"), recipient tag, amount, pool "T"|"S"|"O"|"I" *)
(*             change : Seq([v, pool, eph])                change outputs; eph: ephemeral transparent *)
(*             fee    : Nat ]                                                                        *)
(* Which wallet outputs are ELIGIBLE is not this module's business: the trace specification applies  *)
(* Eligible (Trace_Wallet.tla) / EligibleCoin (Coins.tla) to every selected note / coin of every     *)
(* step.  Here: structure and value.                                                                 *)
EXTENDS Integers, Sequences, FiniteSets, FiniteSetsExt, TLC

Sum2(s) == FoldSet(LAMBDA i, acc : acc + s[i][2], 0, DOMAIN s)       \* of << id, value >> pairs
Sum4(s) == FoldSet(LAMBDA i, acc : acc + s[i][4], 0, DOMAIN s)       \* of prior-step inputs
SumV(s) == FoldSet(LAMBDA i, acc : acc + s[i].v, 0, DOMAIN s)        \* of payments / change outputs

----------------------------------------------------------------------------------------
\* (c) every step balances exactly
StepIn(st)   == Sum2(st.notes) + Sum2(st.coins) + Sum4(st.prior)
StepOut(st)  == SumV(st.pays) + SumV(st.change) + st.fee
Balanced(st) == StepIn(st) = StepOut(st)
AllBalanced(P) == \A i \in DOMAIN P : Balanced(P[i])

----------------------------------------------------------------------------------------
\* (d) a prior-step input names an output of an EARLIER step that exists there, with that output's value; only a
\* transparent output can be spent by a later step ("at present, only transparent outputs of earlier steps may be
\* spent in later steps"), and a change output only if it is marked ephemeral (ProposalError::SpendsChange)
RefKey(x) == << x[1], x[2], x[3] >>
HasOutput(P, x) ==
    /\ x[1] >= 0 /\ (x[1] + 1) \in DOMAIN P
    /\ IF x[2] = "c" THEN x[3] >= 0 /\ (x[3] + 1) \in DOMAIN P[x[1] + 1].change
       ELSE x[2] = "p" /\ \E j \in DOMAIN P[x[1] + 1].pays : P[x[1] + 1].pays[j].i = x[3]
OutputOf(P, x) ==
    IF x[2] = "c" THEN P[x[1] + 1].change[x[3] + 1]
    ELSE P[x[1] + 1].pays[CHOOSE j \in DOMAIN P[x[1] + 1].pays : P[x[1] + 1].pays[j].i = x[3]]
RefOK(P, i, x) ==                      \* x: a prior-step input of step P[i]
    /\ x[1] + 1 < i                                                  \* an earlier step (no self / forward reference)
    /\ HasOutput(P, x)
    /\ OutputOf(P, x).v = x[4]                                       \* with the value of that output
    /\ OutputOf(P, x).pool = "T"
    /\ (x[2] = "c" => OutputOf(P, x).eph)
RefsOK(P) == \A i \in DOMAIN P : \A j \in DOMAIN P[i].prior : RefOK(P, i, P[i].prior[j])

----------------------------------------------------------------------------------------
\* (b) nothing twice: no wallet note / coin in two places (within a step or ACROSS steps: the set is shared by all
\* steps - ProposalError::ChainDoubleSpend), no prior-step output consumed twice (StepDoubleSpend)
SelOfStep(st) == { << "n", st.notes[j][1] >> : j \in DOMAIN st.notes } \cup { << "c", st.coins[j][1] >> : j \in DOMAIN st.coins }
NSelOfStep(st) == Len(st.notes) + Len(st.coins)
Selected(P)  == UNION { SelOfStep(P[i]) : i \in DOMAIN P }
NSelected(P) == FoldSet(LAMBDA i, acc : acc + NSelOfStep(P[i]), 0, DOMAIN P)
NoDoubleSelect(P) == Cardinality(Selected(P)) = NSelected(P)
SelNotes(P) == { x[2] : x \in { y \in Selected(P) : y[1] = "n" } }
SelCoins(P) == { x[2] : x \in { y \in Selected(P) : y[1] = "c" } }

Consumed(P) == UNION { { RefKey(P[i].prior[j]) : j \in DOMAIN P[i].prior } : i \in DOMAIN P }
NPrior(P)   == FoldSet(LAMBDA i, acc : acc + Len(P[i].prior), 0, DOMAIN P)
NoDoubleConsume(P) == Cardinality(Consumed(P)) = NPrior(P)

\* SPEC MUTANT (not a law; MC_MultiStep shows what it loses): the double-spend set kept per step instead of shared
NoDoubleSelectPerStep(P) == \A i \in DOMAIN P : Cardinality(SelOfStep(P[i])) = NSelOfStep(P[i])

----------------------------------------------------------------------------------------
\* (g) ZIP 320 / ProposalError::PaysTexFromShielded: a TEX recipient is never paid by a step that spends shielded notes
PaysTex(st) == \E j \in DOMAIN st.pays : st.pays[j].k = "tex"
TexRule(P) == \A i \in DOMAIN P : PaysTex(P[i]) => P[i].notes = << >>
\* ... and an ephemeral output exists to be spent: ProposalError::EphemeralOutputLeftUnspent
EphemeralsSpent(P) ==
    \A i \in DOMAIN P : \A j \in DOMAIN P[i].change :
       P[i].change[j].eph => \E i2 \in DOMAIN P : i2 > i /\ \E j2 \in DOMAIN P[i2].prior : RefKey(P[i2].prior[j2]) = << i - 1, "c", j - 1 >>
\* an ephemeral output is a transparent output
EphemeralsTransparent(P) == \A i \in DOMAIN P : \A j \in DOMAIN P[i].change : P[i].change[j].eph => P[i].change[j].pool = "T"

Valid(P) == /\ Len(P) >= 1
            /\ AllBalanced(P) /\ RefsOK(P) /\ NoDoubleSelect(P) /\ NoDoubleConsume(P)
            /\ TexRule(P) /\ EphemeralsSpent(P) /\ EphemeralsTransparent(P)
\* the spec mutant as a whole
ValidPerStep(P) == /\ Len(P) >= 1
                   /\ AllBalanced(P) /\ RefsOK(P) /\ NoDoubleSelectPerStep(P) /\ NoDoubleConsume(P)
                   /\ TexRule(P) /\ EphemeralsSpent(P) /\ EphemeralsTransparent(P)

----------------------------------------------------------------------------------------
\* (e) the proposal as a whole conserves value: what leaves the wallet's notes and coins = what is paid to recipients
\* (payments no later step consumes) + what comes back as change (change no later step consumes) + all fees
WalletIn(P)  == FoldSet(LAMBDA i, acc : acc + Sum2(P[i].notes) + Sum2(P[i].coins), 0, DOMAIN P)      \* as selected (a bag)
FinalPays(P, i)   == { j \in DOMAIN P[i].pays : << i - 1, "p", P[i].pays[j].i >> \notin Consumed(P) }
FinalChange(P, i) == { j \in DOMAIN P[i].change : << i - 1, "c", j - 1 >> \notin Consumed(P) }
Paid(P)     == FoldSet(LAMBDA i, acc : acc + FoldSet(LAMBDA j, a2 : a2 + P[i].pays[j].v, 0, FinalPays(P, i)), 0, DOMAIN P)
Returned(P) == FoldSet(LAMBDA i, acc : acc + FoldSet(LAMBDA j, a2 : a2 + P[i].change[j].v, 0, FinalChange(P, i)), 0, DOMAIN P)
Fees(P)     == FoldSet(LAMBDA i, acc : acc + P[i].fee, 0, DOMAIN P)
Conserves(P) == WalletIn(P) = Paid(P) + Returned(P) + Fees(P)

\* the value the wallet really parts with: every DISTINCT note / coin once (equal to WalletIn when nothing is selected twice)
SelectedV(P) == UNION { { << "n", P[i].notes[j][1], P[i].notes[j][2] >> : j \in DOMAIN P[i].notes }
                        \cup { << "c", P[i].coins[j][1], P[i].coins[j][2] >> : j \in DOMAIN P[i].coins } : i \in DOMAIN P }
DistinctIn(P) == FoldSet(LAMBDA x, acc : acc + x[3], 0, SelectedV(P))
NoValueFromNowhere(P) == DistinctIn(P) = Paid(P) + Returned(P) + Fees(P)

\* the payments the proposal makes to the outside, as << kind, recipient tag, amount >>
FinalPaySet(P) == UNION { { << P[i].pays[j].k, P[i].pays[j].ad, P[i].pays[j].v >> : j \in FinalPays(P, i) } : i \in DOMAIN P }
NFinalPays(P)  == FoldSet(LAMBDA i, acc : acc + Cardinality(FinalPays(P, i)), 0, DOMAIN P)
=====================================================================================
