\* C02: all interleavings of one writer operation of 4 statements (one injected fault, one retry),
\* one reader transaction of 3 reads and one crash; pre-states in which the operation refuses by itself; the
\* uninterrupted run given or learnt from a first run.  checks/c02.py also runs this with Wal = FALSE
\* and with each Mutant (every mutant must break an invariant).
SPECIFICATION Spec
CONSTANTS
  MaxStmts = 4
  MaxReads = 3
  Wal = TRUE
  Mutant = "none"
  Sound <- MCSound
INVARIANTS TypeOK Atomic OneCommit OkMeansComplete FaultMeansErrOrComplete NoDanglingTx Snapshot CrashAtomic RetryConverges Durable Consistent
CHECK_DEADLOCK FALSE
