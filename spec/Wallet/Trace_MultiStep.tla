------------------------------ MODULE Trace_MultiStep ------------------------------
(* Trace validation for MULTI-STEP proposals (C08, "in every step"): the wallet histories of        *)
(* Trace_Coins (every shielded and every coin operation stays validated, unchanged) interleaved     *)
(* with                                                                                              *)
(*   ptex    propose_transfer for account 1 with a request that may name ZIP 320 TEX recipients      *)
(*           (alone, several, next to shielded / plain transparent recipients), funded from the      *)
(*           shielded pools and / or the coins the spend policy permits; EVERY step of the proposal  *)
(*           the wallet returns is logged: selected notes and coins (harness ids), consumed outputs  *)
(*           of earlier steps, payments, change (incl. the ephemeral output), fee, anchor            *)
(*   ctex    create_proposed_transactions on such a proposal made earlier: every transaction the     *)
(*           wallet stored, read back (nullifiers, trial-decrypted outputs, transparent inputs and   *)
(*           outputs)                                                                                *)
(*   untex   unlock_proposal_inputs on such a proposal                                               *)
(* The laws of a multi-step proposal are MultiStep.tla's (structure, value); which notes and coins  *)
(* may be selected is decided by the SAME definitions as for single-step proposals: Eligible        *)
(* (Trace_Wallet.tla) and EligSetT / C!EligibleCoin (Trace_Coins.tla / Coins.tla).                   *)
(* Ephemeral outputs are not coins of the coin ledger: the wallet keeps them out of its balances and *)
(* out of input selection; the driver projects them separately and they are exempt from CoinsAgree. *)
EXTENDS Trace_Coins

M == INSTANCE MultiStep

IsTex(k) == k = "tex"
\* the request puts a TEX recipient behind a recipient of another kind.  OBSERVATION (not C08: an error, not a proposal):
\* the pinned selector numbers the payments of the second step from 0 but keeps their ORIGINAL indices in its pool map,
\* so Step::from_parts refuses such a request with PaymentPoolsMismatch (notes/c08v-report.md)
TexIndexGap(r) == \E i, j \in DOMAIN r.pays : j < i /\ IsTex(r.pays[i].k) /\ ~IsTex(r.pays[j].k)

\* the pool a recipient of kind k is paid in: a TEX / plain transparent address in the transparent pool, a Sapling
\* address in Sapling, an Orchard-only unified address in Orchard - in Ironwood once NU6.3 is active
PoolFits(k, pool) == \/ (k \in {"tex", "t"} /\ pool = "T")
                     \/ (k = "zs" /\ pool = "S")
                     \/ (k = "ua" /\ pool \in {"O", "I"})

\* TLC expands a bounded \A in an action into a conjunction and splits on every \/ in it (2^n branches when two disjuncts
\* hold for n elements - e.g. a lock that has expired AND belongs to the same owner): state predicates are handed to it as
\* opaque boolean VALUES
Holds(b) == b = TRUE

\* (f) a lock request locks exactly the wallet-owned inputs of ALL steps - all or nothing: each of them must be acquirable
LockableBy(r, SN, SC) ==
    r.lock[1] >= 0 => /\ \A n \in SN : Acquirable(n, r.lock[1])
                      /\ \A c \in SC : C!AcquirableC(clocks, c, r.lock[1], tip)
LocksAfter(r, SN, SC, target) ==
    /\ locks'  = IF r.lock[1] >= 0
                 THEN [n \in DOMAIN locks \cup SN |-> IF n \in SN THEN << r.lock[1], target + r.lock[2] >> ELSE locks[n]]
                 ELSE locks
    /\ clocks' = IF r.lock[1] >= 0
                 THEN [c \in DOMAIN clocks \cup SC |-> IF c \in SC THEN << r.lock[1], target + r.lock[2] >> ELSE clocks[c]]
                 ELSE clocks

ExplainTex(r) ==
    /\ IOEnv.EXPLAIN = "1" /\ UNCHANGED << locks, clocks >>
    /\ PrintT(<< "EXPLAINP", l, [target |-> tip + 1, valid |-> M!Valid(r.p.steps),
                                 balanced |-> [i \in DOMAIN r.p.steps |-> << M!StepIn(r.p.steps[i]), M!StepOut(r.p.steps[i]) >>],
                                 refs |-> M!RefsOK(r.p.steps), once |-> << M!NoDoubleSelect(r.p.steps), M!NoDoubleConsume(r.p.steps) >>,
                                 tex |-> M!TexRule(r.p.steps), eph |-> M!EphemeralsSpent(r.p.steps),
                                 eligible_coins |-> EligSetT(r), locks |-> locks, clocks |-> clocks] >>)

TexProposalOK(r) ==
    LET p == r.p
        P == p.steps
        target == tip + 1
        minconf == << r.trusted, r.untrusted >>
        adm == SeqToSet(r.admitted)
        SN == M!SelNotes(P)
        SC == M!SelCoins(P)
    IN  /\ Holds(
           /\ tip # -1 /\ p.target = target
           \* (b) (c) (d) (g): every step balances exactly, references are right, nothing selected or consumed twice - within a
           \* step or across steps -, no TEX recipient paid out of shielded notes, the ephemeral output spent; (e) follows
           /\ M!Valid(P) /\ M!Conserves(P)
           \* (a) every note / coin selected in ANY step is eligible, by the definitions single-step proposals are judged by
           /\ \A i \in DOMAIN P :
                 /\ P[i].notes # << >> => (P[i].anchor >= 0 /\ P[i].anchor <= tip)
                 /\ \A j \in DOMAIN P[i].notes : Eligible(P[i].notes[j][1], P[i].notes[j][2], target, P[i].anchor, minconf, adm)
                 /\ \A j \in DOMAIN P[i].coins : /\ P[i].coins[j][1] \in EligSetT(r)
                                                 /\ coinSt.coins[P[i].coins[j][1]].v = P[i].coins[j][2]
           \* the payments the proposal makes to the outside are exactly the requested ones, each once, in a pool its
           \* recipient can be paid in (in whichever step)
           /\ M!FinalPaySet(P) = { << r.pays[i].k, r.pays[i].ad, r.pays[i].v >> : i \in DOMAIN r.pays }
           /\ M!NFinalPays(P) = Len(r.pays)
           /\ \A i \in DOMAIN P : \A j \in DOMAIN P[i].pays : PoolFits(P[i].pays[j].k, P[i].pays[j].pool)
           /\ LockableBy(r, SN, SC))
        /\ LocksAfter(r, SN, SC, target)

TPTex == /\ IsEvent("ptex") /\ UNCHANGED << wvars, cvars, sugg >> /\ UNCHANGED coinSt /\ UNCHANGED caddr
         /\ LET r == Rec[l]
                funded_by_coins_only == r.pools = << >>
            IN  \/ r.res = "ok" /\ TexProposalOK(r)
                \* (h) refusals, relational exactly as for single-step proposals
                \/ /\ r.res = "inputs-locked" /\ r.lock[1] >= 0          \* only a selector drawing through a lock can lose the race
                   /\ Holds(\/ (r.lock[1] \notin SeqToSet(r.admitted)
                                /\ \E n \in DOMAIN locks : locks[n][1] \in SeqToSet(r.admitted) /\ ~Acquirable(n, r.lock[1]))
                             \/ (r.tp # 0 /\ \E c \in EligSetT(r) : ~C!AcquirableC(clocks, c, r.lock[1], tip)))
                   /\ UNCHANGED << locks, clocks >>
                \/ /\ r.res = "insufficient"          \* note-funded: no claim; coins only: not when they clearly cover payments and any fee
                   /\ Holds(funded_by_coins_only =>
                         LET E == EligSetT(r)  asked == FoldSet(LAMBDA i, acc : acc + r.pays[i].v, 0, DOMAIN r.pays)
                         IN  ~(r.tp # 0 /\ C!SumV(coinSt, E) >= asked + Dust * (Cardinality(E) + 4 * Len(r.pays) + 8)))
                   /\ UNCHANGED << locks, clocks >>
                \/ r.res = "scan-required" /\ UNCHANGED << locks, clocks >>
                \/ /\ r.res = "pools-mismatch" /\ Holds(TexIndexGap(r)) /\ UNCHANGED << locks, clocks >>
                   /\ PrintT(<< "OBSERVED", "tex-recipient-behind-another-refused", l >>)
                \/ ExplainTex(r)
         /\ PostOK(Rec[l].post) /\ CoinsOK(Rec[l].coins)

\* ---------------------------------------------------------------------------------------------
\* create_proposed_transactions on a proposal made earlier (possibly stale): one stored transaction per step.
\* For step i and its transaction x:
\*   (i)   x reveals exactly the nullifiers of the step's notes (as far as the harness knows them) and spends exactly the
\*         step's coins;
\*   (ii)  every output of an earlier step the step consumes is spent as an outpoint of THAT step's transaction, and what
\*         sits at that outpoint really is the output referred to: an ephemeral output (paying an ephemeral address of the
\*         wallet) worth the change value / the transparent payment; nothing else is spent; the transparent outputs of x
\*         are exactly the step's transparent payments - the TEX script the request named with the requested amount - and
\*         its ephemeral outputs; its shielded outputs to the other party are worth the step's shielded payments, those to
\*         the wallet its shielded change;
\*   (iii) inputs (notes, coins, consumed outputs at their REAL value) = outputs + the step's fee;
\*   (iv)  the first transaction is Create of Wallet.tla and CreateSpend of Coins.tla: its notes and coins are out of the
\*         ledger and ineligible from now on until it expires (PostOK / CoinsOK compare the rows and balances);
\* every transaction expires where asked (default: target + ExpiryDelta).
VinCoins(x)  == { x.vin[j].c : j \in { j \in DOMAIN x.vin : x.vin[j].c # -1 } }
VinPrior(x)  == { j \in DOMAIN x.vin : x.vin[j].c = -1 }
KindOfRef(P, ref) == IF ref[2] = "c" THEN "eph" ELSE M!OutputOf(P, ref).k
SumVout(x)   == FoldSet(LAMBDA j, acc : acc + x.vout[j].v, 0, DOMAIN x.vout)
SumOuts(x)   == FoldSet(LAMBDA j, acc : acc + x.outs[j].v, 0, DOMAIN x.outs)
SumOutsOf(x, S) == FoldSet(LAMBDA j, acc : acc + x.outs[j].v, 0, { j \in DOMAIN x.outs : x.outs[j].acct \in S })
TxMatchesStep(r, i) ==
    LET P == r.steps  X == r.txs  st == P[i]  x == X[i]
        tpays == { j \in DOMAIN st.pays : st.pays[j].pool = "T" }
        spays == DOMAIN st.pays \ tpays
        ephs  == { j \in DOMAIN st.change : st.change[j].eph }
        schg  == { j \in DOMAIN st.change : st.change[j].pool # "T" }
        tpaid == { j \in DOMAIN x.vout : x.vout[j].k \in {"tex", "t"} }
        tephs == { j \in DOMAIN x.vout : x.vout[j].k = "eph" }
    IN  \* (i)
        /\ x.nf_missing = 0 /\ x.nf_extra = 0
        /\ (st.notes = << >> => x.nsap = 0)
        /\ VinCoins(x) = { st.coins[j][1] : j \in DOMAIN st.coins }
        \* (ii) inputs
        /\ Len(x.vin) = Len(st.coins) + Len(st.prior)
        /\ Cardinality({ << x.vin[j].t, x.vin[j].n >> : j \in VinPrior(x) }) = Len(st.prior)       \* distinct outpoints
        /\ { << x.vin[j].t, x.vin[j].k, x.vin[j].v >> : j \in VinPrior(x) }
              = { << X[st.prior[j][1] + 1].t, KindOfRef(P, st.prior[j]), st.prior[j][4] >> : j \in DOMAIN st.prior }
        \* (ii) outputs
        /\ { << x.vout[j].k, x.vout[j].ad, x.vout[j].v >> : j \in tpaid } = { << st.pays[j].k, st.pays[j].ad, st.pays[j].v >> : j \in tpays }
        /\ Cardinality(tpaid) = Cardinality(tpays)
        /\ Cardinality(tephs) = Cardinality(ephs)
        /\ FoldSet(LAMBDA j, acc : acc + x.vout[j].v, 0, tephs) = FoldSet(LAMBDA j, acc : acc + st.change[j].v, 0, ephs)
        /\ (Cardinality(ephs) = 1 => \A j \in tephs : \A j2 \in ephs : x.vout[j].v = st.change[j2].v)
        /\ Len(x.vout) = Cardinality(tpays) + Cardinality({ j \in DOMAIN st.change : st.change[j].pool = "T" })
        /\ SumOutsOf(x, {0}) = FoldSet(LAMBDA j, acc : acc + st.pays[j].v, 0, spays)
        /\ SumOutsOf(x, {1, 2}) = FoldSet(LAMBDA j, acc : acc + st.change[j].v, 0, schg)
        \* (iii)
        /\ M!Sum2(st.notes) + M!Sum2(st.coins) + FoldSet(LAMBDA j, acc : acc + x.vin[j].v, 0, VinPrior(x))
              = SumOuts(x) + SumVout(x) + st.fee
        /\ x.exp = (IF r.expreq = -1 THEN r.target + ExpiryDelta ELSE r.expreq)

TCTex == /\ IsEvent("ctex") /\ UNCHANGED sugg /\ UNCHANGED cvars /\ UNCHANGED caddr
         /\ LET r == Rec[l]
            IN  \/ /\ r.res = "ok"
                   /\ LET P == r.steps  X == r.txs
                          x1 == X[1]
                          SN == { P[1].notes[j][1] : j \in DOMAIN P[1].notes }
                          SC == { P[1].coins[j][1] : j \in DOMAIN P[1].coins }
                      IN  /\ Holds(
                             /\ Len(X) = Len(P) /\ Len(P) >= 1
                             /\ M!Valid(P)                                  \* (the proposal was validated when it was made)
                             /\ \A i \in DOMAIN P : TxMatchesStep(r, i)
                             \* only the first transaction of the proposals the wallet makes touches notes and coins
                             /\ \A i \in DOMAIN P : i >= 2 => (P[i].notes = << >> /\ P[i].coins = << >> /\ X[i].outs = << >>)
                             /\ Cardinality({ X[i].t : i \in DOMAIN X }) = Len(X)
                             \* the inputs are the wallet's, at the values the proposal gave them
                             /\ SN \subseteq known /\ \A j \in DOMAIN P[1].notes : ninfo[P[1].notes[j][1]].v = P[1].notes[j][2]
                             /\ SC \subseteq DOMAIN coinSt.coins /\ \A j \in DOMAIN P[1].coins : coinSt.coins[P[1].coins[j][1]].v = P[1].coins[j][2]
                             /\ Cardinality(SN) = Len(P[1].notes) /\ Cardinality(SC) = Len(P[1].coins))
                          \* (iv)
                          /\ Create(x1.t, r.target, x1.exp, SN, x1.outs,
                                    CreateChange(x1.outs) \cap { r.post.notes[i].n : i \in DOMAIN r.post.notes })
                          /\ coinSt' = C!CreateSpend(coinSt, x1.t + SharedBase, SC, r.target, ExpC(x1.exp))
                          \* the locks on what the transaction spends are released (the spend records protect it now) or kept
                          /\ \E LK \in { SN \cap DOMAIN locks, {} } : locks' = [n \in DOMAIN locks \ LK |-> locks[n]]
                          /\ \E LK \in { SC \cap DOMAIN clocks, {} } : clocks' = [c \in DOMAIN clocks \ LK |-> clocks[c]]
                \/ /\ r.res = "err"                                      \* refusals (stale proposal, expiry below the target, ...): no effect
                   /\ UNCHANGED wvars /\ UNCHANGED << locks, clocks >> /\ UNCHANGED coinSt
         /\ PostOK(Rec[l].post) /\ CoinsOK(Rec[l].coins)

\* unlock_proposal_inputs on a (multi-step) transfer proposal: only the locks the owner holds, on notes and coins of all steps
TUnTex == /\ IsEvent("untex") /\ Rec[l].res = "ok" /\ UNCHANGED << wvars, cvars, sugg >> /\ UNCHANGED coinSt /\ UNCHANGED caddr
          /\ LET goneN == { n \in SeqToSet(Rec[l].notes) \cap DOMAIN locks : locks[n][1] = Rec[l].owner }
                 goneC == { c \in SeqToSet(Rec[l].cs) \cap DOMAIN clocks : clocks[c][1] = Rec[l].owner }
             IN  /\ locks' = [n \in DOMAIN locks \ goneN |-> locks[n]]
                 /\ clocks' = [c \in DOMAIN clocks \ goneC |-> clocks[c]]
          /\ PostOK(Rec[l].post) /\ CoinsOK(Rec[l].coins)

MultiTraceNext == CoinTraceNext \/ TPTex \/ TCTex \/ TUnTex
MultiTraceSpec == CoinTraceInit /\ [][MultiTraceNext]_ctvars
=====================================================================================
