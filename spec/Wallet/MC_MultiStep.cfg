SPECIFICATION Spec
CONSTANTS
  MaxSteps = 3
INVARIANT Inv
CHECK_DEADLOCK FALSE
