SPECIFICATION Spec
CONSTANTS
  M = 21
  Emit = FALSE
INVARIANTS InvAgree InvConservation InvTurnstile InvShielding InvFirst InvRange InvCatalogue
CHECK_DEADLOCK FALSE
