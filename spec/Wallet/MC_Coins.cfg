SPECIFICATION Spec
CONSTANTS
  ExpiryDelta = 1
  Dust = 5
  Maturity = 2
  MaxH = 3
  E = 2
  MaxOps = 3
INVARIANT Inv
CHECK_DEADLOCK FALSE
