SPECIFICATION Spec
CONSTANTS
  Notes = {1, 2, 3}
  Owners = {0, 1}
  MaxTip = 4
  MaxFor = 2
INVARIANT Inv
CHECK_DEADLOCK FALSE
