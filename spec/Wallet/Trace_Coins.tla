-------------------------------- MODULE Trace_Coins --------------------------------
(* Trace validation for the transparent half of C01 (the wallet crates built WITH                *)
(* `transparent-inputs`): the recorded history interleaves the shielded operations of            *)
(* Trace_Wallet (every one of them is still validated against Wallet.tla, unchanged) with the    *)
(* coin operations of Coins.tla:                                                                  *)
(*   utxo     put_received_transparent_utxo(coin c = output of tx t, value v, account, height h) *)
(*   fulltx   decrypt_and_store_transaction(tx t spending `ins`, paying the wallet `outs`,       *)
(*            mined at h / not known to be mined, expiry e)                                      *)
(*   txstatus set_transaction_status(tx t, Mined(h))                                             *)
(*   coinchk  no operation: the coin projection logged after a shielded operation                *)
(* After every event the rows of transparent_received_outputs |x| transactions |x|               *)
(* transparent_received_output_spends and the unshielded balances get_wallet_summary reports     *)
(* (ConfirmationsPolicy::MIN) must equal the state / the ledger Coins.tla computes.              *)
(* Switches (IOEnv, must be set): CHECK_COINS = "1"; COIN_KNOWN_SPENDERS = "off" | "excuse" |    *)
(* "strict" (see KnownSpendersLaw).  EXPLAIN = "1" prints the model's expectation                *)
(* for a disagreeing projection (line "EXPLAINC") and lets the trace continue.                    *)
EXTENDS Trace_Wallet

CONSTANT Maturity

VARIABLE cs      \* the coin state (a record, see Coins.tla)
C == INSTANCE Coins
ctvars == << tvars, cs >>

LoggedCoinRow(r) == [c |-> r.c, v |-> r.v, acct |-> r.acct, t |-> r.t, mined |-> r.mined, minobs |-> r.minobs, exp |-> r.exp,
                     sp |-> { << s[1], s[2], s[3], s[4] >> : s \in SeqToSet(r.sp) }]

\* KnownMinedSpenderWins (the property, not the transcription): a coin is not counted while a transaction the wallet
\* stored in full, and knows to be mined at or below the tip, spends it.  Spend links make this true by construction;
\* the remaining case is a spender that was remembered before its coin arrived and was never linked.  The pinned wallet
\* links only one of several conflicting remembered spenders: known finding C01-conflicting-spenders-one-linked,
\* excused (and printed) only in that case and only while the check passes COIN_KNOWN_SPENDERS = "excuse".
\* COIN_KNOWN_SPENDERS: "off" (law not evaluated) | "excuse" | "strict".
KnownSpendersLaw ==
    (IOEnv.COIN_KNOWN_SPENDERS # "off") =>
       \A k \in cs'.smap :
          (/\ k[2] \in DOMAIN cs'.coins /\ cs'.ttx[k[1]].mined # -1 /\ cs'.ttx[k[1]].mined < tip' + 1
           /\ C!Counted(cs', k[2], tip' + 1))
          => /\ IOEnv.COIN_KNOWN_SPENDERS = "excuse"
             /\ Cardinality(C!Cands(cs', k[2])) >= 2
             /\ PrintT(<< "KNOWN", "C01-conflicting-spenders-one-linked", k[2], k[1] >>)

\* CoinLedgerLaw (balances) and the row-level equality, against the primed state
CoinsAgree(cp) ==
    \/ ~cp.chk
    \/ IOEnv.CHECK_COINS # "1"
    \/ /\ { LoggedCoinRow(cp.rows[i]) : i \in DOMAIN cp.rows } = { C!RowOf(cs', c) : c \in DOMAIN cs'.coins }
       /\ Len(cp.rows) = Cardinality(DOMAIN cs'.coins)
       /\ KnownSpendersLaw
       /\ cp.balp =>                          \* no summary, no claim (as for the shielded pools)
             \A a \in 1..2 :
                /\ << cp.bal[a][1], cp.bal[a][2] >> \in { C!LedgerT(cs', a, tip' + 1), C!LedgerTGrouped(cs', a, tip' + 1) }
                /\ cp.bal[a][3] = 0 /\ cp.bal[a][4] = 0           \* nothing the driver delivers is a coinbase output

CoinsOK(cp) == IF CoinsAgree(cp) THEN TRUE
               ELSE /\ IOEnv.EXPLAIN = "1"
                    /\ PrintT(<< "EXPLAINC", l, [tip |-> tip', rows |-> { C!RowOf(cs', c) : c \in DOMAIN cs'.coins }, smap |-> cs'.smap,
                                                 b1 |-> << C!LedgerT(cs', 1, tip' + 1), C!LedgerTGrouped(cs', 1, tip' + 1) >>,
                                                 b2 |-> << C!LedgerT(cs', 2, tip' + 1), C!LedgerTGrouped(cs', 2, tip' + 1) >>] >>)

WalletSame == UNCHANGED << wvars, cvars, locks, sugg >>

TCoinChk == /\ IsEvent("coinchk") /\ WalletSame /\ UNCHANGED cs
            /\ CoinsOK(Rec[l].coins)

\* both coin operations need a known chain tip (ChainHeightUnknown otherwise) and change nothing when refused
TUtxo == /\ IsEvent("utxo") /\ WalletSame
         /\ LET r == Rec[l]
            IN  \/ /\ r.res = "ok" /\ tip # -1
                   /\ cs' \in C!ReportUtxo(cs, tip, r.c, r.t, r.v, r.acct, r.h)
                \/ /\ r.res = "err" /\ (tip = -1 \/ C!Remines(cs, r.t, r.h))
                   /\ cs' = cs
         /\ PostOK(Rec[l].post) /\ CoinsOK(Rec[l].coins)

TFullTx == /\ IsEvent("fulltx") /\ WalletSame
           /\ LET r == Rec[l]
                  outs == { [c |-> o[1], v |-> o[2], acct |-> o[3]] : o \in SeqToSet(r.outs) }
              IN  \/ /\ r.res = "ok" /\ tip # -1
                     /\ cs' \in C!StoreFullTx(cs, tip, r.t, SeqToSet(r.ins), outs, r.h, r.e)
                  \/ /\ r.res = "err" /\ (tip = -1 \/ C!Remines(cs, r.t, r.h))
                     /\ cs' = cs
           /\ PostOK(Rec[l].post) /\ CoinsOK(Rec[l].coins)

TTxStatus == /\ IsEvent("txstatus") /\ WalletSame
             /\ LET r == Rec[l]
                IN  \/ /\ r.res = "ok" /\ tip # -1
                       /\ cs' = C!SetMined(cs, r.t, r.h)
                    \/ /\ r.res = "err" /\ (tip = -1 \/ C!Remines(cs, r.t, r.h))
                       /\ cs' = cs
             /\ PostOK(Rec[l].post) /\ CoinsOK(Rec[l].coins)

\* every operation of Trace_Wallet, with what it does to the coins: nothing - except a rewind, which un-mines
\* every transaction above the height the wallet settled on (and a reset, which is a new wallet).
\* (cs' is fixed first: with every primed variable determined TLC evaluates the projections as plain predicates.)
CoinTraceNext ==
    \/ (cs' = C!Empty /\ TReset)
    \/ (UNCHANGED cs /\ (TBlock \/ TTip \/ TScan \/ TFresh \/ TPropose \/ TLock \/ TUnlock \/ TClear \/ TSuggest \/ TSyncDone \/ TRoots))
    \/ (l <= Len(Rec) /\ Rec[l].a = "trunc" /\ cs' = (IF Rec[l].res = "ok" THEN C!Truncate(cs, Rec[l].to) ELSE cs) /\ TTrunc)
    \/ TUtxo \/ TFullTx \/ TTxStatus \/ TCoinChk

CoinTraceInit == TraceInit /\ cs = C!Empty
CoinTraceSpec == CoinTraceInit /\ [][CoinTraceNext]_ctvars
CoinTypeOK == C!TypeOK(cs)
=====================================================================================
