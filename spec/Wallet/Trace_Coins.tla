-------------------------------- MODULE Trace_Coins --------------------------------
(* Trace validation for the transparent half of C01 (the wallet crates built WITH                *)
(* `transparent-inputs`): the recorded history interleaves the shielded operations of            *)
(* Trace_Wallet (every one of them is still validated against Wallet.tla, unchanged) with the    *)
(* coin operations of Coins.tla:                                                                  *)
(*   utxo     put_received_transparent_utxo(coin c = output of tx t, value v, account, height h) *)
(*   fulltx   decrypt_and_store_transaction(tx t spending `ins`, paying the wallet `outs`,       *)
(*            mined at h / not known to be mined, expiry e)                                      *)
(*   txstatus set_transaction_status(tx t, Mined(h))                                             *)
(*   coinchk  no operation: the coin projection logged after a shielded operation                *)
(* After every event the rows of transparent_received_outputs |x| transactions |x|               *)
(* transparent_received_output_spends and the unshielded balances get_wallet_summary reports     *)
(* (ConfirmationsPolicy::MIN) must equal the state / the ledger Coins.tla computes.              *)
(* Switches (IOEnv, must be set): CHECK_COINS = "1"; COIN_KNOWN_SPENDERS = "off" | "excuse" |    *)
(* "strict" (see KnownSpendersLaw).  EXPLAIN = "1" prints the model's expectation                *)
(* for a disagreeing projection (line "EXPLAINC") and lets the trace continue.                    *)
EXTENDS Trace_Wallet

CONSTANT Maturity

VARIABLE coinSt      \* the coin state (a record, see Coins.tla)
C == INSTANCE Coins
ctvars == << tvars, coinSt >>

LoggedCoinRow(r) == [c |-> r.c, v |-> r.v, acct |-> r.acct, t |-> r.t, mined |-> r.mined, minobs |-> r.minobs, exp |-> r.exp,
                     sp |-> { << s[1], s[2], s[3], s[4] >> : s \in SeqToSet(r.sp) }]

\* KnownMinedSpenderWins (the property, not the transcription): a coin is not counted while a transaction the wallet
\* stored in full, and knows to be mined at or below the tip, spends it.  Spend links make this true by construction;
\* the remaining case is a spender that was remembered before its coin arrived and was never linked.  The pinned wallet
\* links only one of several conflicting remembered spenders: known finding C01-conflicting-spenders-one-linked,
\* excused (and printed) only in that case and only while the check passes COIN_KNOWN_SPENDERS = "excuse".
\* COIN_KNOWN_SPENDERS: "off" (law not evaluated) | "excuse" | "strict".
KnownSpendersLaw ==
    (IOEnv.COIN_KNOWN_SPENDERS # "off") =>
       \A k \in coinSt'.smap :
          (/\ k[2] \in DOMAIN coinSt'.coins /\ coinSt'.ttx[k[1]].mined # -1 /\ coinSt'.ttx[k[1]].mined < tip' + 1
           /\ C!Counted(coinSt', k[2], tip' + 1))
          => /\ IOEnv.COIN_KNOWN_SPENDERS = "excuse"
             /\ Cardinality(C!Cands(coinSt', k[2])) >= 2
             /\ PrintT(<< "KNOWN", "C01-conflicting-spenders-one-linked", k[2], k[1] >>)

\* CoinLedgerLaw (balances) and the row-level equality, against the primed state
CoinsAgree(cp) ==
    \/ ~cp.chk
    \/ IOEnv.CHECK_COINS # "1"
    \/ /\ { LoggedCoinRow(cp.rows[i]) : i \in DOMAIN cp.rows } = { C!RowOf(coinSt', c) : c \in DOMAIN coinSt'.coins }
       /\ Len(cp.rows) = Cardinality(DOMAIN coinSt'.coins)
       /\ KnownSpendersLaw
       /\ cp.balp =>                          \* no summary, no claim (as for the shielded pools)
             \A a \in 1..2 :
                /\ << cp.bal[a][1], cp.bal[a][2] >> \in { C!LedgerT(coinSt', a, tip' + 1), C!LedgerTGrouped(coinSt', a, tip' + 1) }
                /\ cp.bal[a][3] = 0 /\ cp.bal[a][4] = 0           \* nothing the driver delivers is a coinbase output

CoinsOK(cp) == IF CoinsAgree(cp) THEN TRUE
               ELSE /\ IOEnv.EXPLAIN = "1"
                    /\ PrintT(<< "EXPLAINC", l, [tip |-> tip', rows |-> { C!RowOf(coinSt', c) : c \in DOMAIN coinSt'.coins }, smap |-> coinSt'.smap,
                                                 b1 |-> << C!LedgerT(coinSt', 1, tip' + 1), C!LedgerTGrouped(coinSt', 1, tip' + 1) >>,
                                                 b2 |-> << C!LedgerT(coinSt', 2, tip' + 1), C!LedgerTGrouped(coinSt', 2, tip' + 1) >>] >>)

WalletSame == UNCHANGED << wvars, cvars, locks, sugg >>

TCoinChk == /\ IsEvent("coinchk") /\ WalletSame /\ UNCHANGED coinSt
            /\ CoinsOK(Rec[l].coins)

\* both coin operations need a known chain tip (ChainHeightUnknown otherwise) and change nothing when refused
TUtxo == /\ IsEvent("utxo") /\ WalletSame
         /\ LET r == Rec[l]
            IN  \/ /\ r.res = "ok" /\ tip # -1
                   /\ coinSt' \in C!ReportUtxo(coinSt, tip, r.c, r.t, r.v, r.acct, r.h)
                \/ /\ r.res = "err" /\ (tip = -1 \/ C!Remines(coinSt, r.t, r.h))
                   /\ coinSt' = coinSt
         /\ PostOK(Rec[l].post) /\ CoinsOK(Rec[l].coins)

TFullTx == /\ IsEvent("fulltx") /\ WalletSame
           /\ LET r == Rec[l]
                  outs == { [c |-> o[1], v |-> o[2], acct |-> o[3]] : o \in SeqToSet(r.outs) }
              IN  \/ /\ r.res = "ok" /\ tip # -1
                     /\ coinSt' \in C!StoreFullTx(coinSt, tip, r.t, SeqToSet(r.ins), outs, r.h, r.e)
                  \/ /\ r.res = "err" /\ (tip = -1 \/ C!Remines(coinSt, r.t, r.h))
                     /\ coinSt' = coinSt
           /\ PostOK(Rec[l].post) /\ CoinsOK(Rec[l].coins)

TTxStatus == /\ IsEvent("txstatus") /\ WalletSame
             /\ LET r == Rec[l]
                IN  \/ /\ r.res = "ok" /\ tip # -1
                       /\ coinSt' = C!SetMined(coinSt, r.t, r.h)
                    \/ /\ r.res = "err" /\ (tip = -1 \/ C!Remines(coinSt, r.t, r.h))
                       /\ coinSt' = coinSt
             /\ PostOK(Rec[l].post) /\ CoinsOK(Rec[l].coins)

\* every operation of Trace_Wallet, with what it does to the coins: nothing - except a rewind, which un-mines
\* every transaction above the height the wallet settled on (and a reset, which is a new wallet).
\* (coinSt' is fixed first: with every primed variable determined TLC evaluates the projections as plain predicates.)
CoinTraceNext ==
    \/ (coinSt' = C!Empty /\ TReset)
    \/ (UNCHANGED coinSt /\ (TBlock \/ TTip \/ TScan \/ TFresh \/ TPropose \/ TLock \/ TUnlock \/ TClear \/ TSuggest \/ TSyncDone \/ TRoots))
    \/ (/\ l <= Len(Rec) /\ Rec[l].a = "trunc"
        /\ IF Rec[l].res # "ok" THEN coinSt' = coinSt
           ELSE IF ~Rec[l].cs THEN coinSt' = C!Truncate(coinSt, Rec[l].to)                 \* truncate_to_height settled on `to`
           ELSE \E eff \in 0..Rec[l].req : coinSt' = C!Truncate(coinSt, eff)               \* truncate_to_chain_state: an unlogged height
        /\ TTrunc)
    \/ TUtxo \/ TFullTx \/ TTxStatus \/ TCoinChk

CoinTraceInit == TraceInit /\ coinSt = C!Empty
CoinTraceSpec == CoinTraceInit /\ [][CoinTraceNext]_ctvars
CoinTypeOK == C!TypeOK(coinSt)
=====================================================================================
