-------------------------------- MODULE Trace_Coins --------------------------------
(* Trace validation for transparent coins (the wallet crates built WITH `transparent-inputs`):    *)
(* the coin half of the C01 ledger and coins as proposal inputs (C08).  The recorded history      *)
(* interleaves the shielded operations of Trace_Wallet (every one of them is still validated      *)
(* against Wallet.tla, unchanged) with the coin operations of Coins.tla:                          *)
(*   utxo     put_received_transparent_utxo(coin c = output of tx t, value v, account, address,   *)
(*            height h)                                                                            *)
(*   fulltx   decrypt_and_store_transaction(tx t spending `ins`, paying the wallet `outs`,        *)
(*            mined at h / not known to be mined, expiry e)                                       *)
(*   txstatus set_transaction_status(tx t, Mined(h))                                              *)
(*   coinchk  no operation: the coin projection logged after a shielded operation                 *)
(*   pshield  propose_shielding(from addresses, to account, threshold, confirmations policy,      *)
(*            selector's locked-input policy, lock request)                                       *)
(*   ptrans   propose_transfer funded from coins only (an account, any of its addresses or a list) *)
(*   cshield  create_proposed_transactions on a shielding proposal made earlier                   *)
(*   clock / cunlock / cclear   lock_outputs / unlock_proposal_inputs / clear_locked_outputs on    *)
(*            coins                                                                                *)
(* After every event the rows of transparent_received_outputs |x| transactions |x|                *)
(* transparent_received_output_spends, the lock columns, get_locked_outputs and the unshielded    *)
(* balances get_wallet_summary reports (ConfirmationsPolicy::MIN) must equal the state / the      *)
(* ledger Coins.tla computes.                                                                     *)
(* A transaction the wallet created itself that spends coins AND creates a shielded note (a       *)
(* shielding transaction) is one row of `transactions`: it is transaction t of Wallet.tla and     *)
(* transaction t + SharedBase of the coin state, and the two records are kept equal (Mirror).     *)
(* Switches (IOEnv, must be set): CHECK_COINS = "1"; COIN_KNOWN_SPENDERS = "off" | "excuse" |     *)
(* "strict" (see KnownSpendersLaw).  EXPLAIN = "1" prints the model's expectation                 *)
(* for a disagreeing projection (line "EXPLAINC") and lets the trace continue.                     *)
EXTENDS Trace_Wallet

CONSTANT Maturity

VARIABLES coinSt,     \* the coin state (a record, see Coins.tla)
          clocks,     \* coin -> << owner, lock expiry height >>: the lock columns of transparent_received_outputs
          caddr       \* coin -> id of the wallet address it pays (1, 2: the default address of account 1, 2; 3: a second address of account 1)
C == INSTANCE Coins
ctvars == << tvars, coinSt, clocks, caddr >>

SharedBase == 100000
ExpW(e) == IF e = 0 THEN Never ELSE e          \* expiry height: coin-state encoding (0 = never) -> Wallet.tla encoding
ExpC(e) == IF e = Never THEN 0 ELSE e

LoggedCoinRow(r) == [c |-> r.c, v |-> r.v, acct |-> r.acct, t |-> r.t, mined |-> r.mined, minobs |-> r.minobs, exp |-> r.exp,
                     sp |-> { << s[1], s[2], s[3], s[4] >> : s \in SeqToSet(r.sp) }]

\* KnownMinedSpenderWins (the property, not the transcription): a coin is not counted while a transaction the wallet
\* stored in full, and knows to be mined at or below the tip, spends it.  Spend links make this true by construction;
\* the remaining case is a spender that was remembered before its coin arrived and was never linked.  A wallet that
\* links only one of several conflicting remembered spenders breaks it: finding C01-conflicting-spenders-one-linked
\* (repaired in the repository), excused (and printed) only in that case and only under COIN_KNOWN_SPENDERS = "excuse".
\* COIN_KNOWN_SPENDERS: "off" (law not evaluated) | "excuse" | "strict".
KnownSpendersLaw ==
    (IOEnv.COIN_KNOWN_SPENDERS # "off") =>
       \A k \in coinSt'.smap :
          (/\ k[2] \in DOMAIN coinSt'.coins /\ coinSt'.ttx[k[1]].mined # -1 /\ coinSt'.ttx[k[1]].mined < tip' + 1
           /\ C!Counted(coinSt', k[2], tip' + 1))
          => /\ IOEnv.COIN_KNOWN_SPENDERS = "excuse"
             /\ Cardinality(C!Cands(coinSt', k[2])) >= 2
             /\ PrintT(<< "KNOWN", "C01-conflicting-spenders-one-linked", k[2], k[1] >>)

\* CoinLedgerLaw (balances), the row-level equality and the lock state, against the primed state
CoinsAgree(cp) ==
    \/ ~cp.chk
    \/ IOEnv.CHECK_COINS # "1"
    \/ /\ { LoggedCoinRow(cp.rows[i]) : i \in DOMAIN cp.rows } = { C!RowOf(coinSt', c) : c \in DOMAIN coinSt'.coins }
       /\ Len(cp.rows) = Cardinality(DOMAIN coinSt'.coins)
       /\ KnownSpendersLaw
       /\ { << r[1], r[2], r[3] >> : r \in SeqToSet(cp.locks.rows) } = { << c, clocks'[c][1], clocks'[c][2] >> : c \in DOMAIN clocks' }
       /\ (tip' # -1 => \A a \in 1..2 :      \* get_locked_outputs(account): the coins locked at the standard target height
              SeqToSet(cp.locks.api[a]) = { c \in DOMAIN clocks' : clocks'[c][2] >= tip' + 1 /\ coinSt'.coins[c].acct = a })
       /\ cp.balp =>                          \* no summary, no claim (as for the shielded pools)
             \A a \in 1..2 :
                /\ << cp.bal[a][1], cp.bal[a][2] >> \in { C!LedgerT(coinSt', a, tip' + 1), C!LedgerTGrouped(coinSt', a, tip' + 1, clocks') }
                /\ cp.bal[a][3] = 0 /\ cp.bal[a][4] = 0           \* nothing the driver delivers is a coinbase output

CoinsOK(cp) == IF CoinsAgree(cp) THEN TRUE
               ELSE /\ IOEnv.EXPLAIN = "1"
                    /\ PrintT(<< "EXPLAINC", l, [tip |-> tip', rows |-> { C!RowOf(coinSt', c) : c \in DOMAIN coinSt'.coins }, smap |-> coinSt'.smap,
                                                 locks |-> clocks',
                                                 b1 |-> << C!LedgerT(coinSt', 1, tip' + 1), C!LedgerTGrouped(coinSt', 1, tip' + 1, clocks') >>,
                                                 b2 |-> << C!LedgerT(coinSt', 2, tip' + 1), C!LedgerTGrouped(coinSt', 2, tip' + 1, clocks') >>] >>)

WalletSame == UNCHANGED << wvars, cvars, locks, sugg >>

\* ---- shared transactions: the record of Wallet.tla follows the coin state's (they are the same database row)
MirrorTxs(st2) == [t \in DOMAIN txs |->
                      IF (t + SharedBase) \in DOMAIN st2.ttx
                      THEN [mined |-> st2.ttx[t + SharedBase].mined, minobs |-> st2.ttx[t + SharedBase].minobs,
                            exp |-> ExpW(st2.ttx[t + SharedBase].expiry)]
                      ELSE txs[t]]
\* the Wallet.tla side of a coin operation: nothing but the records of shared transactions
WalletMirrors == /\ txs' = MirrorTxs(coinSt')
                 /\ UNCHANGED << chain, top, scanned, known, ninfo, links, tip, maxFrom, taint >>
                 /\ UNCHANGED << cvars, locks, sugg >>
\* ... and the coin side of a successful scan: a shared transaction found in a scanned block is mined there
ScanMirror(from, n) ==
    LET R == { h \in from..(from + n - 1) : h <= top }
        hit(ct) == { e \in OnChain : e.tx.t = ct - SharedBase /\ e.h \in R }
    IN  [coinSt EXCEPT !.ttx = [ct \in DOMAIN coinSt.ttx |->
            IF ct >= SharedBase /\ hit(ct) # {}
            THEN LET h == (CHOOSE e \in hit(ct) : TRUE).h IN [coinSt.ttx[ct] EXCEPT !.mined = h, !.minobs = C!MinN(@, h)]
            ELSE coinSt.ttx[ct]]]
SharedInSync == \A ct \in DOMAIN coinSt.ttx : ct >= SharedBase =>
                   /\ (ct - SharedBase) \in DOMAIN txs
                   /\ txs[ct - SharedBase] = [mined |-> coinSt.ttx[ct].mined, minobs |-> coinSt.ttx[ct].minobs, exp |-> ExpW(coinSt.ttx[ct].expiry)]

Same2 == UNCHANGED << clocks, caddr >>

TCoinChk == /\ IsEvent("coinchk") /\ WalletSame /\ UNCHANGED coinSt /\ Same2
            /\ CoinsOK(Rec[l].coins)

\* both coin operations need a known chain tip (ChainHeightUnknown otherwise) and change nothing when refused
TUtxo == /\ IsEvent("utxo") /\ UNCHANGED clocks
         /\ caddr' = C!Put(caddr, Rec[l].c, Rec[l].ad)
         /\ LET r == Rec[l]
            IN  \/ /\ r.res = "ok" /\ tip # -1
                   /\ coinSt' \in C!ReportUtxo(coinSt, tip, r.c, r.t, r.v, r.acct, r.h)
                \/ /\ r.res = "err" /\ (tip = -1 \/ C!Remines(coinSt, r.t, r.h))
                   /\ coinSt' = coinSt
         /\ WalletMirrors
         /\ PostOK(Rec[l].post) /\ CoinsOK(Rec[l].coins)

TFullTx == /\ IsEvent("fulltx") /\ UNCHANGED clocks
           /\ caddr' = [c \in DOMAIN caddr \cup { o[1] : o \in SeqToSet(Rec[l].outs) } |->
                           IF c \in DOMAIN caddr THEN caddr[c] ELSE (CHOOSE o \in SeqToSet(Rec[l].outs) : o[1] = c)[4]]
           /\ LET r == Rec[l]
                  outs == { [c |-> o[1], v |-> o[2], acct |-> o[3]] : o \in SeqToSet(r.outs) }
              IN  \/ /\ r.res = "ok" /\ tip # -1
                     /\ coinSt' \in C!StoreFullTx(coinSt, tip, r.t, SeqToSet(r.ins), outs, r.h, r.e)
                  \/ /\ r.res = "err" /\ (tip = -1 \/ C!Remines(coinSt, r.t, r.h))
                     /\ coinSt' = coinSt
           /\ WalletMirrors
           /\ PostOK(Rec[l].post) /\ CoinsOK(Rec[l].coins)

TTxStatus == /\ IsEvent("txstatus") /\ Same2
             /\ LET r == Rec[l]
                IN  \/ /\ r.res = "ok" /\ tip # -1
                       /\ coinSt' = C!SetMined(coinSt, r.t, r.h)
                    \/ /\ r.res = "err" /\ (tip = -1 \/ C!Remines(coinSt, r.t, r.h))
                       /\ coinSt' = coinSt
             /\ WalletMirrors
             /\ PostOK(Rec[l].post) /\ CoinsOK(Rec[l].coins)

\* ---------------------------------------------------------------------------------------------
\* C08: coins as proposal inputs.  propose_shielding "shields all of the funds belonging to the provided set of
\* addresses": the proposal's inputs are exactly the eligible coins of those addresses (the selector's cap on the number
\* of inputs, thousands, is never reached here), each once; their value is at least the shielding threshold and equals
\* shielded output(s) + fee; a lock request locks exactly them, all or nothing.  Refusals are relational: with funds
\* clearly sufficient (threshold reached, and well above any fee the ZIP 317 rule can ask for) the request may not be
\* refused for lack of funds.
MinConf(r) == IF r.zc THEN 0 ELSE r.untrusted
\* EXPLAIN=1 (debugging aid): the coins the specification deems eligible for the request are printed and the trace continues
ExplainProposal(r, E) ==
    /\ IOEnv.EXPLAIN = "1" /\ UNCHANGED clocks
    /\ PrintT(<< "EXPLAINP", l, [eligible |-> E, sum |-> C!SumV(coinSt, E), target |-> tip + 1, minconf |-> MinConf(r), locks |-> clocks,
                                 selected_not_eligible |-> { r.p.inputs[j][1] : j \in DOMAIN r.p.inputs } \ E,
                                 eligible_not_selected |-> E \ { r.p.inputs[j][1] : j \in DOMAIN r.p.inputs }] >>)
EligSet(r) == { c \in DOMAIN coinSt.coins : /\ caddr[c] \in SeqToSet(r.addrs)
                                            /\ C!EligibleCoin(coinSt, clocks, c, tip + 1, MinConf(r), SeqToSet(r.admitted)) }
ClearlySufficient(E, threshold) == /\ C!SumV(coinSt, E) >= threshold
                                   /\ C!SumV(coinSt, E) >= Dust * (Cardinality(E) + 4)
ShieldProposalOK(r) ==
    LET p == r.p
        target == tip + 1
        E == EligSet(r)
        S == { p.inputs[j][1] : j \in DOMAIN p.inputs }
    IN  /\ p.target = target /\ tip # -1
        /\ Cardinality(S) = Len(p.inputs)                                              \* no coin twice
        /\ \A j \in DOMAIN p.inputs : p.inputs[j][1] \in DOMAIN coinSt.coins /\ coinSt.coins[p.inputs[j][1]].v = p.inputs[j][2]
        /\ S = E                                                                       \* exactly the eligible coins of the addresses
        /\ p.notes = 0 /\ p.pay = 0                                                    \* nothing else is spent, nobody else is paid
        /\ C!SumV(coinSt, S) >= r.threshold
        /\ C!SumV(coinSt, S) = SumSeq(p.change) + p.fee                                \* balances exactly
        /\ IF r.lock[1] >= 0
           THEN /\ \A c \in S : C!AcquirableC(clocks, c, r.lock[1], tip)
                /\ clocks' = [c \in DOMAIN clocks \cup S |-> IF c \in S THEN << r.lock[1], target + r.lock[2] >> ELSE clocks[c]]
           ELSE clocks' = clocks
TPShield == /\ IsEvent("pshield") /\ WalletSame /\ UNCHANGED coinSt /\ UNCHANGED caddr
            /\ \/ Rec[l].res = "ok" /\ ShieldProposalOK(Rec[l])
               \/ /\ Rec[l].res = "inputs-locked"            \* only a selector that draws through another owner's lock can lose the race
                  /\ Rec[l].lock[1] >= 0
                  /\ \E c \in EligSet(Rec[l]) : ~C!AcquirableC(clocks, c, Rec[l].lock[1], tip)
                  /\ UNCHANGED clocks
               \/ /\ Rec[l].res \in {"insufficient", "other"}
                  /\ ~ClearlySufficient(EligSet(Rec[l]), Rec[l].threshold)
                  /\ UNCHANGED clocks
               \/ Rec[l].res = "scan-required" /\ UNCHANGED clocks          \* no anchor yet: no claim
               \/ ExplainProposal(Rec[l], EligSet(Rec[l]))
            /\ PostOK(Rec[l].post) /\ CoinsOK(Rec[l].coins)

\* propose_transfer funded from transparent coins only (SpendPolicy without shielded pools, with a TransparentSpendPolicy:
\* any address of the account, or an explicit list of addresses): here the selector takes only as many coins as it
\* needs, so the law is relational - every selected coin belongs to the requested ACCOUNT, pays one of the listed
\* addresses (if a list was given) and is eligible; none twice; inputs = payment + change + fee; lock requests as above
EligSetT(r) == { c \in DOMAIN coinSt.coins : /\ coinSt.coins[c].acct = r.acct
                                             /\ (r.listed => caddr[c] \in SeqToSet(r.addrs))
                                             /\ C!EligibleCoin(coinSt, clocks, c, tip + 1, MinConf(r), SeqToSet(r.admitted)) }
TransferProposalOK(r) ==
    LET p == r.p
        target == tip + 1
        S == { p.inputs[j][1] : j \in DOMAIN p.inputs }
    IN  /\ p.target = target /\ tip # -1
        /\ Cardinality(S) = Len(p.inputs) /\ S # {}
        /\ \A j \in DOMAIN p.inputs : p.inputs[j][1] \in DOMAIN coinSt.coins /\ coinSt.coins[p.inputs[j][1]].v = p.inputs[j][2]
        /\ S \subseteq EligSetT(r)
        /\ p.notes = 0 /\ p.pay = r.amount
        /\ C!SumV(coinSt, S) = p.pay + SumSeq(p.change) + p.fee
        /\ IF r.lock[1] >= 0
           THEN /\ \A c \in S : C!AcquirableC(clocks, c, r.lock[1], tip)
                /\ clocks' = [c \in DOMAIN clocks \cup S |-> IF c \in S THEN << r.lock[1], target + r.lock[2] >> ELSE clocks[c]]
           ELSE clocks' = clocks
TPTrans == /\ IsEvent("ptrans") /\ WalletSame /\ UNCHANGED coinSt /\ UNCHANGED caddr
           /\ \/ Rec[l].res = "ok" /\ TransferProposalOK(Rec[l])
              \/ /\ Rec[l].res = "inputs-locked" /\ Rec[l].lock[1] >= 0
                 /\ \E c \in EligSetT(Rec[l]) : ~C!AcquirableC(clocks, c, Rec[l].lock[1], tip)
                 /\ UNCHANGED clocks
              \/ /\ Rec[l].res \in {"insufficient", "other"}        \* may not be refused when the eligible coins clearly cover payment and any fee
                 /\ LET E == EligSetT(Rec[l]) IN ~(C!SumV(coinSt, E) >= Rec[l].amount + Dust * (Cardinality(E) + 6))
                 /\ UNCHANGED clocks
              \/ Rec[l].res = "scan-required" /\ UNCHANGED clocks
              \/ ExplainProposal(Rec[l], EligSetT(Rec[l]))
           /\ PostOK(Rec[l].post) /\ CoinsOK(Rec[l].coins)

\* create_proposed_transactions on a shielding proposal made earlier (possibly stale): the stored pending transaction
\* spends exactly the proposal's coins - all of them coins of the account whose key signs -, pays their value minus the
\* proposal's fee to that account's internal shielded address, expires where asked (default: target + ExpiryDelta).
\* From then on the coins are out of the ledger (CoinLedgerLaw) and ineligible (Spendable) until it expires.
TCShield == /\ IsEvent("cshield") /\ UNCHANGED sugg /\ UNCHANGED cvars /\ UNCHANGED locks /\ UNCHANGED caddr
            /\ \/ /\ Rec[l].res = "ok" /\ Len(Rec[l].txs) = 1
                  /\ LET x == Rec[l].txs[1]
                         S == { Rec[l].inputs[i][1] : i \in DOMAIN Rec[l].inputs }
                     IN  /\ coinSt' = C!CreateSpend(coinSt, x.t + SharedBase, S, Rec[l].target, ExpC(x.exp))
                         \* the pinned code releases the locks on the coins the transaction spends; keeping them would do no harm
                         /\ \E K \in { S \cap DOMAIN clocks, {} } : clocks' = [c \in DOMAIN clocks \ K |-> clocks[c]]
                         /\ Create(x.t, Rec[l].target, x.exp, {}, x.outs,
                                   CreateChange(x.outs) \cap { Rec[l].post.notes[i].n : i \in DOMAIN Rec[l].post.notes })
                         /\ S \subseteq DOMAIN coinSt.coins /\ Cardinality(S) = Len(Rec[l].inputs)
                         /\ \A i \in DOMAIN Rec[l].inputs : coinSt.coins[Rec[l].inputs[i][1]].v = Rec[l].inputs[i][2]
                         /\ \A c \in S : coinSt.coins[c].acct = Rec[l].to
                         /\ x.exp = (IF Rec[l].expreq = -1 THEN Rec[l].target + ExpiryDelta ELSE Rec[l].expreq)
                         /\ C!SumV(coinSt, S) = SumSeq([i \in DOMAIN x.outs |-> x.outs[i].v]) + Rec[l].fee
                         /\ \A i \in DOMAIN x.outs : x.outs[i].n # 0 /\ x.outs[i].acct = Rec[l].to /\ x.outs[i].int
               \/ /\ Rec[l].res = "err" /\ UNCHANGED wvars /\ UNCHANGED coinSt /\ UNCHANGED clocks     \* refusals: no effect
            /\ PostOK(Rec[l].post) /\ CoinsOK(Rec[l].coins)

\* lock_outputs on coins: all or nothing
TCLock == /\ IsEvent("clock") /\ WalletSame /\ UNCHANGED coinSt /\ UNCHANGED caddr
          /\ LET S == SeqToSet(Rec[l].cs)
             IN  \/ /\ Rec[l].res = "ok" /\ S \subseteq DOMAIN coinSt.coins /\ \A c \in S : C!AcquirableC(clocks, c, Rec[l].owner, tip)
                    /\ clocks' = [c \in DOMAIN clocks \cup S |-> IF c \in S THEN << Rec[l].owner, Rec[l].exp >> ELSE clocks[c]]
                 \/ /\ Rec[l].res = "lock-failure" /\ \E c \in S : c \notin DOMAIN coinSt.coins \/ ~C!AcquirableC(clocks, c, Rec[l].owner, tip)
                    /\ UNCHANGED clocks
          /\ PostOK(Rec[l].post) /\ CoinsOK(Rec[l].coins)
\* unlock_proposal_inputs: only the locks the owner holds are released
TCUnlock == /\ IsEvent("cunlock") /\ Rec[l].res = "ok" /\ WalletSame /\ UNCHANGED coinSt /\ UNCHANGED caddr
            /\ LET gone == { c \in SeqToSet(Rec[l].cs) \cap DOMAIN clocks : clocks[c][1] = Rec[l].owner }
               IN  clocks' = [c \in DOMAIN clocks \ gone |-> clocks[c]]
            /\ PostOK(Rec[l].post) /\ CoinsOK(Rec[l].coins)
\* clear_locked_outputs(account): every lock on an output of that account, notes and coins
TCClear == /\ IsEvent("cclear") /\ Rec[l].res = "ok" /\ UNCHANGED coinSt /\ UNCHANGED caddr
           /\ UNCHANGED wvars /\ UNCHANGED cvars /\ UNCHANGED sugg
           /\ LET mine  == { c \in DOMAIN clocks : coinSt.coins[c].acct = Rec[l].acct }
                  mineN == { n \in DOMAIN locks : ninfo[n].acct = Rec[l].acct }
              IN  /\ Rec[l].count = Cardinality(mine) + Cardinality(mineN)
                  /\ clocks' = [c \in DOMAIN clocks \ mine |-> clocks[c]]
                  /\ locks' = [n \in DOMAIN locks \ mineN |-> locks[n]]
           /\ PostOK(Rec[l].post) /\ CoinsOK(Rec[l].coins)

\* every operation of Trace_Wallet, with what it does to the coins: nothing - except a rewind, which un-mines every
\* transaction above the height the wallet settled on, a scan, which finds shared transactions mined, and a reset (a new
\* wallet).  (The coin variables are fixed first: with every primed variable determined TLC evaluates the projections
\* as plain predicates.)
CoinTraceNext ==
    \/ (coinSt' = C!Empty /\ clocks' = << >> /\ caddr' = << >> /\ TReset)
    \/ (UNCHANGED coinSt /\ Same2 /\ (TBlock \/ TTip \/ TFresh \/ TPropose \/ TCreate \/ TLock \/ TUnlock \/ TClear \/ TSuggest \/ TSyncDone \/ TRoots))
    \/ (/\ l <= Len(Rec) /\ Rec[l].a = "scan" /\ Same2
        /\ coinSt' = (IF Rec[l].res = "ok" THEN ScanMirror(Rec[l].from, Rec[l].n) ELSE coinSt)
        /\ TScan)
    \/ (/\ l <= Len(Rec) /\ Rec[l].a = "trunc" /\ Same2
        /\ IF Rec[l].res # "ok" THEN coinSt' = coinSt
           ELSE IF ~Rec[l].cs THEN coinSt' = C!Truncate(coinSt, Rec[l].to)                 \* truncate_to_height settled on `to`
           ELSE \E eff \in 0..Rec[l].req : coinSt' = C!Truncate(coinSt, eff)               \* truncate_to_chain_state: an unlogged height
        /\ TTrunc)
    \/ TUtxo \/ TFullTx \/ TTxStatus \/ TCoinChk
    \/ TPShield \/ TPTrans \/ TCShield \/ TCLock \/ TCUnlock \/ TCClear

CoinTraceInit == TraceInit /\ coinSt = C!Empty /\ clocks = << >> /\ caddr = << >>
CoinTraceSpec == CoinTraceInit /\ [][CoinTraceNext]_ctvars
CoinTypeOK == C!TypeOK(coinSt) /\ SharedInSync /\ DOMAIN clocks \subseteq DOMAIN coinSt.coins
=====================================================================================
