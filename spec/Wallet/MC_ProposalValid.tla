------------------------------- MODULE MC_ProposalValid -------------------------------
(* C08, validators part: the case lattice for ProposalValid.tla.                                 *)
(*  - TLC evaluates the rule on every case and checks the consequences (the Inv.. invariants) on the model alone; *)
(*  - spec -> code: with Emit = TRUE every case is printed with the verdict the rule gives;       *)
(*    c08_validators materialises it with real notes / addresses / balances and calls             *)
(*    Step::from_parts, Proposal::{multi_step, single_step} and the protobuf decode path.         *)
(*                                                                                                *)
(* A case is  [sl, iw, steps, pick]:  `steps` are built one after the other, each validated       *)
(* against the ones before it (Step::from_parts(&steps[..k], ..)); if all of them are accepted,   *)
(* the list  steps[pick[1]], steps[pick[2]], ..  is handed to Proposal::multi_step. A pick other  *)
(* than the identity presents multi_step with references that point forwards, at a step that is   *)
(* not there, or twice at the same output: its own checks must then object.                       *)
(*                                                                                                *)
(* Slices (each holds the other dimensions at a few values; every rule is violated alone, and     *)
(* together with others, in at least one of them):                                                *)
(*   pools     R1 R2     one or two payments, sparse payment indices, every pool for every kind   *)
(*   single    R5-R8     inputs x payments x change x anchor x is_shielding x Ironwood x fee +-1  *)
(*   overflow  R4        amounts at M - 1, M in every position                                    *)
(*   two       R3 R9 R10 two steps, every list of <= 2 references, shared chain inputs, 3 picks   *)
(*   three     R3 R9 R10 three steps, references to steps 0..2, 4 picks                           *)
EXTENDS ProposalValid, TLC, Json

CONSTANT Emit
VARIABLES c, exp, done
vars == << c, exp, done >>

Coin(tx, n, v)    == [tx |-> tx, n |-> n, v |-> v]
Note(tx, p, n, v) == [tx |-> tx, p |-> p, n |-> n, v |-> v]
Pay(i, k, a)      == [i |-> i, k |-> k, a |-> a]
PM(i, p)          == [i |-> i, p |-> p]
Ch(p, v, e)       == [p |-> p, v |-> v, e |-> e]
Ref(s, o, j)      == [s |-> s, o |-> o, j |-> j]
Step(req, pools, tin, sin, prior, anchor, change, fee, sh) ==
    [req |-> req, pools |-> pools, tin |-> tin, sin |-> sin, prior |-> prior, anchor |-> anchor,
     change |-> change, fee |-> fee, sh |-> sh]
Case(sl, iw, steps, pick) == [sl |-> sl, iw |-> iw, steps |-> steps, pick |-> pick]

\* the fee that would balance the step (0 where that is undefined)
BalFee(st, prev) == IF AmountsPresent(st) /\ RefsOk(st, prev)
                    THEN TIn(st) + SIn(st) + PIn(st, prev) - ReqTotal(st) - ChangeTotal(st) ELSE 0
FeeSet(b) == LET S == {f \in {b - 1, b, b + 1} : f >= 0 /\ f <= M} IN IF b < 0 \/ S = {} THEN {0} ELSE S
WithFees(st, prev, more) == {[st EXCEPT !.fee = f] : f \in FeeSet(BalFee(st, prev)) \cup more}

--------------------------------------------------------------------------------------------
(* slice "pools" *)
PoOneReq == {r \in {<< Pay(i, k, a) >> : i \in {0, 1}, k \in Kinds, a \in {NoAmt, 0, 2}} :
                ~(r[1].a = 0 /\ Receivers(r[1].k) = {"T"})}      \* ZIP 321 forbids a zero transparent payment
PoOneMaps(r) == LET i == r[1].i  k == r[1].k IN
       {<< >>} \cup {<< PM(i, p) >> : p \in Pools} \cup {<< PM(1 - i, p) >> : p \in Receivers(k)}
       \cup {<< PM(0, p), PM(1, p) >> : p \in Receivers(k)}
PoPairs == {<< "uSO", "t" >>, << "zs", "uO" >>, << "t", "tex" >>, << "uTS", "uSO" >>}
PoTwoReq == {<< Pay(0, kk[1], a1), Pay(j, kk[2], a2) >> : j \in {1, 2}, kk \in PoPairs, a1 \in {1, NoAmt}, a2 \in {2, NoAmt}}
PoTwoMaps(r) == LET j == r[2].i IN
       {<< PM(0, p1), PM(j, p2) >> : p1 \in Pools, p2 \in Pools}
       \cup {<< PM(0, p1) >> : p1 \in Receivers(r[1].k)}
       \cup {<< PM(0, p1), PM(3 - j, p2) >> : p1 \in Receivers(r[1].k), p2 \in Receivers(r[2].k)}
PoStep(r, pm) == LET need == SumSeq([x \in 1..Len(r) |-> IF r[x].a = NoAmt THEN 0 ELSE r[x].a]) + 1
                 IN Step(r, pm, << >>, << Note(1, "S", 0, need) >>, << >>, TRUE, << >>, 1, FALSE)
GenPools ==
    \/ \E r \in PoOneReq : \E pm \in PoOneMaps(r), iw \in BOOLEAN : c = Case("pools", iw, << PoStep(r, pm) >>, << 1 >>)
    \/ \E r \in PoTwoReq : \E pm \in PoTwoMaps(r), iw \in BOOLEAN : c = Case("pools", iw, << PoStep(r, pm) >>, << 1 >>)

(* slice "single" *)
SgTin == {<< >>, << Coin(1, 0, 2) >>, << Coin(1, 0, 0) >>, << Coin(1, 0, 2), Coin(2, 0, 1) >>}
SgSin == {<< >>, << Note(1, "S", 0, 3) >>, << Note(1, "O", 0, 3) >>, << Note(1, "I", 0, 3) >>,
          << Note(1, "O", 0, 2), Note(1, "I", 0, 1) >>, << Note(1, "S", 0, 1), Note(1, "O", 0, 2) >>,
          << Note(1, "O", 0, 1), Note(2, "O", 0, 2) >>}
SgPay == {[req |-> << >>, pools |-> << >>],
          [req |-> << Pay(0, "uSO", 1) >>, pools |-> << PM(0, "S") >>],
          [req |-> << Pay(0, "uSO", 1) >>, pools |-> << PM(0, "O") >>],
          [req |-> << Pay(0, "uSO", 1) >>, pools |-> << PM(0, "I") >>],
          [req |-> << Pay(0, "t", 1) >>, pools |-> << PM(0, "T") >>],
          [req |-> << Pay(0, "zs", 0) >>, pools |-> << PM(0, "S") >>]}
SgChange == {<< >>, << Ch("S", 1, FALSE) >>, << Ch("O", 1, FALSE) >>, << Ch("O", 2, FALSE) >>, << Ch("O", 3, FALSE) >>,
             << Ch("I", 1, FALSE) >>, << Ch("O", 1, FALSE), Ch("O", 1, FALSE) >>, << Ch("O", 1, FALSE), Ch("S", 1, FALSE) >>,
             << Ch("T", 1, FALSE) >>, << Ch("T", 1, TRUE) >>}
GenSingle ==
    \E iw \in BOOLEAN, tin \in SgTin, sin \in SgSin, py \in SgPay, chg \in SgChange, an \in BOOLEAN, sh \in BOOLEAN :
       \E st \in WithFees(Step(py.req, py.pools, tin, sin, << >>, an, chg, 0, sh), << >>, {}) :
          ~Ambiguous(st) /\ c = Case("single", iw, << st >>, << 1 >>)

(* slice "overflow" *)
OvTin == {<< >>, << Coin(1, 0, M) >>, << Coin(1, 0, M), Coin(2, 0, 1) >>, << Coin(1, 0, M - 1), Coin(2, 0, 1) >>}
OvSin == {<< >>, << Note(1, "S", 0, M) >>, << Note(1, "S", 0, M), Note(1, "O", 0, 1) >>,
          << Note(1, "S", 0, M - 1), Note(2, "S", 0, 1) >>, << Note(1, "S", 0, 1) >>}
OvPay == {[req |-> << >>, pools |-> << >>],
          [req |-> << Pay(0, "zs", M) >>, pools |-> << PM(0, "S") >>],
          [req |-> << Pay(0, "zs", M), Pay(1, "zs", 1) >>, pools |-> << PM(0, "S"), PM(1, "S") >>],
          [req |-> << Pay(0, "zs", M - 1) >>, pools |-> << PM(0, "S") >>],
          [req |-> << Pay(0, "zs", 1) >>, pools |-> << PM(0, "S") >>]}
OvChange == {<< >>, << Ch("S", M, FALSE) >>, << Ch("S", M - 1, FALSE) >>, << Ch("S", 1, FALSE) >>}
\* the range test on the sum that includes a prior-step input: step 1 pays M - 1 to a transparent address,
\* step 2 spends that payment together with 0, 1 or 2 units of its own
OvFirst == Step(<< Pay(0, "t", M - 1) >>, << PM(0, "T") >>, << >>, << Note(1, "S", 0, M) >>, << >>, TRUE, << >>, 1, FALSE)
OvSecond(tin, sin) ==
    LET st0 == Step(<< >>, << >>, tin, sin, << Ref(0, "P", 0) >>, TRUE, << >>, 0, FALSE)
        b   == BalFee(st0, << OvFirst >>)
    IN [st0 EXCEPT !.fee = IF b > M THEN M ELSE b]
GenOverflow ==
    \/ \E tin \in OvTin, sin \in OvSin, py \in OvPay, chg \in OvChange :
          \E st \in WithFees(Step(py.req, py.pools, tin, sin, << >>, TRUE, chg, 0, FALSE), << >>, {0, 1}) :
             c = Case("overflow", FALSE, << st >>, << 1 >>)
    \/ \E tin \in {<< >>, << Coin(2, 0, 1) >>, << Coin(2, 0, 2) >>},
          sin \in {<< >>, << Note(2, "S", 0, 1) >>, << Note(2, "S", 0, 2) >>} :
          c = Case("overflow", FALSE, << OvFirst, OvSecond(tin, sin) >>, << 1, 2 >>)

(* slices "two" and "three": a fixed catalogue of chain outputs, so that an output has one value *)
N1 == Note(1, "S", 0, 4)
N2 == Note(1, "O", 0, 2)     \* same transaction and index as N1, other pool: a different output
N3 == Note(2, "S", 0, 1)
N4 == Note(1, "I", 0, 2)
N5 == Note(3, "I", 0, 1)
C1 == Coin(1, 0, 2)
PT(i, a) == Pay(i, "t", a)
Refs(SS, JJ) == {Ref(s, o, j) : s \in SS, o \in {"P", "C"}, j \in JJ}
Seqs2(R) == {<< >>} \cup {<< r >> : r \in R} \cup {<< r1, r2 >> : r1 \in R, r2 \in R}
Balanced(st0, prev, d) == LET b == BalFee(st0, prev) IN [st0 EXCEPT !.fee = IF b + d >= 0 THEN b + d ELSE 0]
BuildOk(steps, iw) == StepsValid(steps, iw)

TwFirst == {Step(<< PT(0, 2) >>, << PM(0, "T") >>, << >>, << N1 >>, << >>, TRUE, << Ch("S", 1, FALSE) >>, 1, FALSE),
            Step(<< PT(0, 2), PT(1, 1) >>, << PM(0, "T"), PM(1, "T") >>, << >>, << N1, N2 >>, << >>, TRUE, << >>, 3, FALSE),
            Step(<< >>, << >>, << >>, << N1 >>, << >>, TRUE, << Ch("S", 1, FALSE), Ch("O", 1, FALSE) >>, 2, FALSE),
            Step(<< PT(0, 1) >>, << PM(0, "T") >>, << C1 >>, << >>, << >>, FALSE, << >>, 1, FALSE),
            Step(<< >>, << >>, << >>, << N1 >>, << >>, TRUE, << Ch("T", 3, TRUE) >>, 1, FALSE)}
TwOwn == {[tin |-> << >>, sin |-> << >>], [tin |-> << >>, sin |-> << N1 >>], [tin |-> << >>, sin |-> << N3 >>],
          [tin |-> << >>, sin |-> << N2 >>], [tin |-> << C1 >>, sin |-> << >>],
          [tin |-> << >>, sin |-> << N3, N3 >>], [tin |-> << C1, C1 >>, sin |-> << >>]}   \* the same output twice in one step
TwSecond(prior, own, s0, d) ==
    Balanced(Step(<< PT(0, 1) >>, << PM(0, "T") >>, own.tin, own.sin, prior, TRUE, << >>, 0, FALSE), << s0 >>, d)
TwPicks(steps) == IF BuildOk(steps, FALSE) THEN {<< 1, 2 >>, << 2 >>, << 2, 1 >>} ELSE {<< 1, 2 >>}
GenTwo ==
    \E s0 \in TwFirst, prior \in Seqs2(Refs({0, 1}, {0, 1, 2})), own \in TwOwn, d \in {0, 1} :
       \E steps \in {<< s0, TwSecond(prior, own, s0, d) >>} :
          \E pk \in TwPicks(steps) : c = Case("two", FALSE, steps, pk)

ThFirst == {Step(<< PT(0, 2) >>, << PM(0, "T") >>, << >>, << N1 >>, << >>, TRUE, << Ch("S", 1, FALSE) >>, 1, FALSE),
            Step(<< PT(0, 2), PT(1, 1) >>, << PM(0, "T"), PM(1, "T") >>, << >>, << N1, N4 >>, << >>, TRUE, << >>, 3, FALSE)}
ThSecond(prior, sin, s0) ==
    Balanced(Step(<< PT(0, 1) >>, << PM(0, "T") >>, << >>, sin, prior, TRUE, << >>, 0, FALSE), << s0 >>, 0)
ThThird(prior, sin, s0, s1) ==
    Balanced(Step(<< >>, << >>, << >>, sin, prior, TRUE, << >>, 0, FALSE), << s0, s1 >>, 0)
ThPicks(steps) == IF BuildOk(steps, TRUE) THEN {<< 1, 2, 3 >>, << 1, 3 >>, << 2, 1, 3 >>, << 1, 3, 2 >>} ELSE {<< 1, 2, 3 >>}
GenThree ==
    \E s0 \in ThFirst, p1 \in {<< >>, << Ref(0, "P", 0) >>, << Ref(0, "C", 0) >>}, sin1 \in {<< >>, << N3 >>},
       p2 \in Seqs2(Refs({0, 1, 2}, {0, 1})), sin2 \in {<< >>, << N1 >>, << N3 >>, << N5 >>} :
       \E s1 \in {ThSecond(p1, sin1, s0)} :
          \E steps \in {<< s0, s1, ThThird(p2, sin2, s0, s1) >>} :
             \E pk \in ThPicks(steps) : c = Case("three", TRUE, steps, pk)

--------------------------------------------------------------------------------------------
(* the verdict of the rule *)
Picked(cs) == [x \in 1..Len(cs.pick) |-> cs.steps[cs.pick[x]]]

\* stage "build": Step::from_parts must refuse step `at` (1-based; the ones before it are accepted);
\* stage "multi": every step is accepted, Proposal::multi_step must refuse the picked list;
\* stage "ok":    everything is accepted;
\* stage "unjudged": the picked list gives multi_step nothing to object to, but a step in it was
\*                validated against other predecessors than the ones it now has (its balance was
\*                computed from a different output): multi_step's documented precondition is not met.
\* (TLC re-evaluates LET definitions and operator arguments at every use outside actions; values
\* that are used more than once are therefore bound by a quantifier over a singleton set.)
Sole(S) == CHOOSE x \in S : TRUE
JudgeList(ps, lv, iw) ==
    IF lv # {} THEN [stage |-> "multi", at |-> 0, classes |-> lv, first |-> ListFirst(ps)]
    ELSE IF StepsValid(ps, iw) THEN [stage |-> "ok", at |-> 0, classes |-> {}, first |-> ""]
    ELSE [stage |-> "unjudged", at |-> 0, classes |-> {}, first |-> ""]
ExpectOf(cs, bv) ==
    LET bad == {k \in 1..Len(cs.steps) : bv[k] # {}}
    IN IF bad # {}
       THEN [stage |-> "build", at |-> MinOf(bad), classes |-> bv[MinOf(bad)], first |-> FirstOf(cs.steps[MinOf(bad)], bv[MinOf(bad)])]
       ELSE Sole({Sole({JudgeList(ps, lv, cs.iw) : lv \in {ListViol(ps)}}) : ps \in {Picked(cs)}})
Expect(cs) ==
    Sole({ExpectOf(cs, bv) : bv \in {[k \in 1..Len(cs.steps) |-> StepViol(cs.steps[k], SubSeq(cs.steps, 1, k - 1), cs.iw)]}})

NotYet == [stage |-> "", at |-> 0, classes |-> {}, first |-> ""]
Init == (GenPools \/ GenSingle \/ GenOverflow \/ GenTwo \/ GenThree) /\ exp = NotYet /\ done = FALSE
Eval == /\ ~done /\ done' = TRUE /\ UNCHANGED c
        /\ exp' = Expect(c)
        /\ Emit => PrintT(<< "CASE", ToJson([c |-> c, exp |-> exp']) >>)
Next == Eval
Spec == Init /\ [][Next]_vars

--------------------------------------------------------------------------------------------
(* consequences, over every case *)
Ok == done /\ exp.stage = "ok"
InvAgree == /\ Ok => ProposalValid(Picked(c), c.iw)
            /\ (done /\ exp.stage \in {"build", "multi"} /\ c.pick = [x \in 1..Len(c.steps) |-> x])
                  => ~ProposalValid(c.steps, c.iw)
InvConservation == Ok => Conservation(Picked(c))
InvTurnstile == (Ok /\ c.iw) => OrchardOnlyDrains(Picked(c))
InvShielding == Ok => ShieldingShape(Picked(c))
InvFirst == (done /\ exp.stage \in {"build", "multi"}) => exp.first \in exp.classes
InvRange == \A k \in 1..Len(c.steps) :
               /\ c.steps[k].fee \in 0..M
               /\ \A x \in 1..Len(c.steps[k].change) : c.steps[k].change[x].v \in 0..M
               /\ \A x \in 1..Len(c.steps[k].req) : c.steps[k].req[x].a \in (0..M) \cup {NoAmt}
               /\ \A x \in 1..Len(c.steps[k].sin) : c.steps[k].sin[x].v \in 0..M
               /\ \A x \in 1..Len(c.steps[k].tin) : c.steps[k].tin[x].v \in 0..M
\* an output has one value within a case (the harness's note source looks outputs up by identity)
InvCatalogue ==
    LET occ == UNION {{<< k, x >> : x \in 1..Len(c.steps[k].sin)} : k \in 1..Len(c.steps)}
        id(o) == << c.steps[o[1]].sin[o[2]].tx, c.steps[o[1]].sin[o[2]].p, c.steps[o[1]].sin[o[2]].n >>
    IN \A o1, o2 \in occ : id(o1) = id(o2) => c.steps[o1[1]].sin[o1[2]].v = c.steps[o2[1]].sin[o2[2]].v
==========================================================================================
