---------------------------------- MODULE MC_Coins ----------------------------------
(* Exhaustive exploration of Coins.tla under small constants.  A fixed menu of transactions:      *)
(*   T1 (tx 1)  pays the wallet coin 1 (account 1, economic)              - foreign inputs        *)
(*   S1 (tx 2)  spends coin 1, pays the wallet coin 2 (account 2, dust)   - "spend with change"   *)
(*   S2 (tx 3)  spends s2ins (any non-empty subset of {coin 1, coin 2}), pays nobody in the wallet *)
(*              (with coin 1 among its inputs it conflicts with S1: a double spend)               *)
(* delivered in every order and any number of times: coins reported as UTXOs at any height or     *)
(* unmined, transactions stored as mined at any height or unmined with expiry 0 or E, the tip     *)
(* advancing (across E), status updates (a known transaction was mined at h) and the wallet       *)
(* rewinding to any height.                                                                        *)
EXTENDS Integers, Sequences, FiniteSets, FiniteSetsExt, TLC

CONSTANTS ExpiryDelta, Dust, Maturity, MaxH, E, MaxOps

VARIABLES cs, tip, s2ins, ops
vars == << cs, tip, s2ins, ops >>

C == INSTANCE Coins
NULL == -1

CoinInfo == [c \in {1, 2} |-> IF c = 1 THEN [tx |-> 1, v |-> Dust + 2, acct |-> 1] ELSE [tx |-> 2, v |-> Dust - 2, acct |-> 2]]
Ins(t)  == CASE t = 1 -> {} [] t = 2 -> {1} [] t = 3 -> s2ins
Outs(t) == CASE t = 1 -> { [c |-> 1, v |-> CoinInfo[1].v, acct |-> CoinInfo[1].acct] }
             [] t = 2 -> { [c |-> 2, v |-> CoinInfo[2].v, acct |-> CoinInfo[2].acct] }
             [] t = 3 -> {}

Heights == {NULL} \cup 1..MaxH

Init == cs = C!Empty /\ tip \in {NULL, 1} /\ s2ins \in { {1}, {2}, {1, 2} } /\ ops = 0

Op(A) == ops < MaxOps /\ A /\ ops' = ops + 1 /\ UNCHANGED s2ins

\* the environment is a chain: a transaction the wallet has on record as mined is not reported at another
\* height without a rewind in between, and is mined at or below its expiry height
Report == \E c \in {1, 2}, h \in Heights :
             /\ tip # NULL /\ ~C!Remines(cs, CoinInfo[c].tx, h)
             /\ Op(cs' \in C!ReportUtxo(cs, tip, c, CoinInfo[c].tx, CoinInfo[c].v, CoinInfo[c].acct, h) /\ UNCHANGED tip)
Store  == \E t \in 1..3, h \in Heights, e \in {0, E} :
             /\ tip # NULL /\ ~C!Remines(cs, t, h) /\ (e = 0 \/ h = NULL \/ h <= e)
             /\ (t \in DOMAIN cs.ttx /\ cs.ttx[t].mined # NULL => e = 0 \/ cs.ttx[t].mined <= e)
             /\ Op(cs' \in C!StoreFullTx(cs, tip, t, Ins(t), Outs(t), h, e) /\ UNCHANGED tip)
Status == \E t \in 1..3, h \in 1..MaxH :
             /\ tip # NULL /\ ~C!Remines(cs, t, h)
             /\ (t \in DOMAIN cs.ttx => cs.ttx[t].expiry \in {NULL, 0} \/ h <= cs.ttx[t].expiry)
             /\ Op(cs' = C!SetMined(cs, t, h) /\ UNCHANGED tip)
Tip    == \E h \in 1..MaxH : h >= 1 /\ Op(tip' = (IF h > tip THEN h ELSE tip) /\ UNCHANGED cs)
Trunc  == \E to \in 0..MaxH : tip # NULL /\ to <= tip /\ Op(tip' = to /\ cs' = C!Truncate(cs, to))

Next == Report \/ Store \/ Status \/ Tip \/ Trunc
Spec == Init /\ [][Next]_vars

--------------------------------------------------------------------------------------
target == tip + 1
Known == DOMAIN cs.coins
Stored(t) == t \in DOMAIN cs.ttx /\ cs.ttx[t].expiry # NULL       \* full transaction data is on record
MinedBelowTarget(t) == cs.ttx[t].mined # NULL /\ cs.ttx[t].mined < target

\* value is neither created nor counted twice: both readings of the balance sum to the value of the counted
\* coins, each known coin contributing at most once
NoDoubleCount ==
    \A a \in 1..2 :
       LET S == C!CountedOf(cs, a, target)
           p == C!LedgerT(cs, a, target)
           g == C!LedgerTGrouped(cs, a, target, << >>)
       IN  /\ p[1] + p[2] = C!SumV(cs, S) /\ g[1] + g[2] = C!SumV(cs, S)
           /\ C!SumV(cs, S) <= C!SumV(cs, { c \in Known : cs.coins[c].acct = a })
           /\ g[2] <= p[2]                              \* the grouped reading never invents dust

\* a coin spent by a transaction mined at or below the tip is never counted, and a coin of a transaction that
\* is neither mined at or below the tip nor known to be unexpired is never counted
MinedSpenderWins == \A k \in cs.links : MinedBelowTarget(k[2]) => ~C!Counted(cs, k[1], target)
ExpiredNotCounted ==
    \A c \in Known : LET r == cs.ttx[cs.coins[c].tx]
                     IN  (~MinedBelowTarget(cs.coins[c].tx) /\ (r.expiry = NULL \/ (r.expiry # 0 /\ r.expiry < target)))
                            => ~C!Counted(cs, c, target)

\* arrival order does not matter: once a coin and a stored transaction spending it are both on record the spend
\* link exists - unless the coin arrived last and another, conflicting spender remembered for it was linked instead
LinkComplete ==
    \A t \in 1..3 : Stored(t) =>
        \A c \in Ins(t) \cap Known :
            \/ << c, t >> \in cs.links
            \/ (<< t, c >> \in cs.smap /\ \E t2 \in 1..3 : t2 # t /\ << c, t2 >> \in cs.links)
\* ... and with a single spender the two arrival orders end in the same ledger (confluence), from every reachable state
Proj(S) == { [ttx |-> x.ttx, coins |-> x.coins, links |-> x.links] : x \in S }
Confluent ==
    tip # NULL =>
      \A c \in {1, 2}, t \in 2..3, h \in Heights, h2 \in Heights, e \in {0, E} :
         (/\ c \in Ins(t) /\ C!Cands(cs, c) \subseteq {t}
          /\ C!Relevant(cs, Ins(t) \ {c}, Outs(t))              \* the transaction concerns the wallet even without this coin
          /\ ~C!Remines(cs, CoinInfo[c].tx, h) /\ ~C!Remines(cs, t, h2))
         => LET rep(x) == C!ReportUtxo(x, tip, c, CoinInfo[c].tx, CoinInfo[c].v, CoinInfo[c].acct, h)
                sto(x) == C!StoreFullTx(x, tip, t, Ins(t), Outs(t), h2, e)
            IN  Proj(UNION { sto(x) : x \in rep(cs) }) = Proj(UNION { rep(x) : x \in sto(cs) })

\* NOT a theorem of this (relational) transcription - it is what C01 demands on top of it, and what Trace_Coins enforces
\* on the real wallet (KnownSpendersLaw): a coin is not counted while a stored transaction the wallet knows to be mined
\* spends it.  A wallet that links only one of several conflicting spenders remembered for a coin that arrives later (as
\* the pinned code does) breaks it; TLC shows how (cfg MC_Coins_conflict.cfg): the counterexample is the history of the
\* known finding C01-conflicting-spenders-one-linked (notes/c01-coins-report.md).
KnownMinedSpenderWins ==
    \A k \in cs.smap : (k[2] \in Known /\ MinedBelowTarget(k[1])) => ~C!Counted(cs, k[2], target)

\* repeating a delivery changes nothing (idempotence)
Idempotent ==
    tip # NULL =>
      /\ \A c \in {1, 2}, h \in Heights :
            ~C!Remines(cs, CoinInfo[c].tx, h) =>
               \A x \in C!ReportUtxo(cs, tip, c, CoinInfo[c].tx, CoinInfo[c].v, CoinInfo[c].acct, h) :
                  x \in C!ReportUtxo(x, tip, c, CoinInfo[c].tx, CoinInfo[c].v, CoinInfo[c].acct, h)
      /\ \A t \in 1..3, h \in Heights, e \in {0, E} :
            ~C!Remines(cs, t, h) =>
               \A x \in C!StoreFullTx(cs, tip, t, Ins(t), Outs(t), h, e) :
                  x \in C!StoreFullTx(x, tip, t, Ins(t), Outs(t), h, e)

\* (the two look-ahead theorems quantify over further deliveries themselves: they are evaluated in every state that
\* still has an operation left)
Inv == /\ C!TypeOK(cs) /\ NoDoubleCount /\ MinedSpenderWins /\ ExpiredNotCounted /\ LinkComplete
       /\ (ops < MaxOps => Confluent /\ Idempotent)
=====================================================================================
