---------------------------------- MODULE MC_Shield ----------------------------------
(* MC_Coins plus the wallet spending its own coins (C08): Shield = a shielding proposal immediately   *)
(* turned into a stored pending transaction (ids 4, 5).  It takes every coin of an account that is     *)
(* eligible under the policy (required confirmations 0 - zero-conf shielding - or 1) at target =      *)
(* tip + 1 and expires never, or ExpiryDelta blocks after the target.  The environment may later      *)
(* report it mined (status update) or not; the tip moves across its expiry; the wallet rewinds.       *)
(* Theorems (besides those of MC_Coins, which must survive the new action):                            *)
(*   NoSharedLiveShield   two live (unmined, unexpired) shielding transactions never share a coin -   *)
(*                        unless the wallet was rewound below the height the younger one was built    *)
(*                        for (an expired pending transaction comes back to life then);               *)
(*   ShieldTakesCounted   a shielding transaction only ever spends value the ledger counted, and      *)
(*                        while it is live its coins are out of the ledger and ineligible again.      *)
EXTENDS MC_Coins

VARIABLE born      \* shielding transaction -> the target height it was built for
svars == << vars, born >>

ShieldIds == {4, 5}
NoLocks == << >>
Elig(a, minconf) == { c \in Known : cs.coins[c].acct = a /\ C!EligibleCoin(cs, NoLocks, c, target, minconf, {}) }

SInit == Init /\ born = << >>

Shield == \E t \in ShieldIds, a \in 1..2, minconf \in {0, 1}, never \in BOOLEAN :
             /\ tip # NULL /\ t \notin DOMAIN cs.ttx /\ Elig(a, minconf) # {}
             /\ Op(/\ cs' = C!CreateSpend(cs, t, Elig(a, minconf), target, IF never THEN 0 ELSE target + ExpiryDelta)
                   /\ UNCHANGED tip)
             /\ born' = C!Put(born, t, target)
\* the environment reports a shielding transaction mined (at or below its expiry height)
ShieldMined == \E t \in ShieldIds \cap DOMAIN cs.ttx, h \in 1..MaxH :
                  /\ tip # NULL /\ ~C!Remines(cs, t, h) /\ (cs.ttx[t].expiry = 0 \/ h <= cs.ttx[t].expiry)
                  /\ Op(cs' = C!SetMined(cs, t, h) /\ UNCHANGED tip)
                  /\ UNCHANGED born

SNext == (Next /\ UNCHANGED born) \/ Shield \/ ShieldMined
SSpec == SInit /\ [][SNext]_svars
\* the same without full transactions and status updates of the fabricated transactions (coins arrive as UTXO reports
\* only): a smaller branching factor, explored deeper
LeanNext == ((Report \/ Tip \/ Trunc) /\ UNCHANGED born) \/ Shield \/ ShieldMined
LeanSpec == SInit /\ [][LeanNext]_svars

--------------------------------------------------------------------------------------
Live(t) == t \in DOMAIN cs.ttx /\ cs.ttx[t].mined = NULL /\ (cs.ttx[t].expiry = 0 \/ cs.ttx[t].expiry >= target)
SpentBy(t) == { k[1] : k \in { k \in cs.links : k[2] = t } }
Max2(a, b) == IF a >= b THEN a ELSE b

NoSharedLiveShield ==
    \A t1, t2 \in ShieldIds :
       (t1 # t2 /\ Live(t1) /\ Live(t2) /\ SpentBy(t1) \cap SpentBy(t2) # {}) => target < Max2(born[t1], born[t2])

ShieldTakesCounted ==
    \A t \in ShieldIds \cap DOMAIN cs.ttx :
       /\ SpentBy(t) # {}
       /\ (Live(t) \/ (cs.ttx[t].mined # NULL /\ cs.ttx[t].mined < target)) =>
             \A c \in SpentBy(t) : ~C!Counted(cs, c, target) /\ \A m \in {0, 1} : ~C!Spendable(cs, c, target, m)

\* eligibility is never wider than the ledger: an eligible coin is a counted coin (what a proposal spends, the balance shows)
EligibleIsCounted == \A c \in Known, m \in {0, 1} : C!Spendable(cs, c, target, m) => C!Counted(cs, c, target)

SInv == Inv /\ NoSharedLiveShield /\ ShieldTakesCounted /\ EligibleIsCounted
\* for the deeper lean exploration (the look-ahead theorems of MC_Coins concern full transactions, absent there)
SInvLean == /\ C!TypeOK(cs) /\ NoDoubleCount /\ MinedSpenderWins /\ ExpiredNotCounted
            /\ NoSharedLiveShield /\ ShieldTakesCounted /\ EligibleIsCounted
\* NOT a theorem (the rewind caveat of NoSharedLiveShield is needed): TLC refutes it in six operations
NoSharedLiveShieldEver ==
    \A t1, t2 \in ShieldIds : (t1 # t2 /\ Live(t1) /\ Live(t2)) => SpentBy(t1) \cap SpentBy(t2) = {}
=====================================================================================
