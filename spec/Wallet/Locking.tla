----------------------------------- MODULE Locking -----------------------------------
(* C08, output locks (zcash_client_backend/src/data_api/locking.rs "Semantics"): every received   *)
(* output carries at most one lock << owner, expiry height >>.                                    *)
(*   Locked      while expiry >= target height (chain tip + 1)                                    *)
(*   Eligible    for selection: not locked, or locked by an owner the policy admits               *)
(*   Acquisition allowed on an unlocked output, on a lock expired as of the tip, or by the same   *)
(*               owner (idempotent re-acquire / extend); all-or-nothing over the requested set    *)
(*   Release     owner-scoped unlock, owner-agnostic clear, expiry by the tip passing             *)
(* A proposal made with a lock request selects eligible notes and then acquires their locks.      *)
(* TLC explores all interleavings of two owners proposing, unlocking, clearing and the tip        *)
(* advancing over a few notes, and checks that live proposals never share an input.               *)
EXTENDS Integers, FiniteSets, TLC

CONSTANTS Notes, Owners, MaxTip, MaxFor

VARIABLES locks,    \* [Notes -> << owner, expiry >> or << >>]
          tip,
          props     \* proposals made with a lock request and not abandoned: [owner, ins, exp]
vars == << locks, tip, props >>

None == << >>
Locked(n, target)    == IF locks[n] = None THEN FALSE ELSE locks[n][2] >= target
Acquirable(n, owner) == IF locks[n] = None THEN TRUE ELSE (locks[n][2] <= tip \/ locks[n][1] = owner)
EligibleL(n, admitted) == IF Locked(n, tip + 1) THEN locks[n][1] \in admitted ELSE TRUE

Init == locks = [n \in Notes |-> None] /\ tip = 1 /\ props = {}

LiveIn(p, lk, tp) == p.exp >= tp + 1 /\ \A n \in p.ins : lk[n] = << p.owner, p.exp >>
\* proposals that are no longer live are forgotten at once (keeps the state space small)
Keep(ps) == props' = { p \in ps : LiveIn(p, locks', tip') }

\* a proposal by `o` selecting `S` under a policy admitting `admitted`, locking for `k` blocks
Propose(o, S, admitted, k) ==
    /\ S # {} /\ \A n \in S : EligibleL(n, admitted)
    /\ UNCHANGED tip
    /\ IF \A n \in S : Acquirable(n, o)
       THEN /\ locks' = [n \in Notes |-> IF n \in S THEN << o, tip + 1 + k >> ELSE locks[n]]
            /\ Keep(props \cup { [owner |-> o, ins |-> S, exp |-> tip + 1 + k] })
       ELSE UNCHANGED locks /\ Keep(props)            \* InputsLocked: nothing acquired

Unlock(o, S) == /\ locks' = [n \in Notes |-> IF n \in S /\ locks[n] # None THEN (IF locks[n][1] = o THEN None ELSE locks[n]) ELSE locks[n]]
                /\ UNCHANGED tip /\ Keep(props)
Clear   == locks' = [n \in Notes |-> None] /\ UNCHANGED tip /\ Keep(props)
Advance == tip < MaxTip /\ tip' = tip + 1 /\ UNCHANGED locks /\ Keep(props)

Next == \/ \E o \in Owners, S \in SUBSET Notes, A \in SUBSET Owners, k \in 0..MaxFor : Propose(o, S, A, k)
        \/ \E o \in Owners, S \in SUBSET Notes : Unlock(o, S)
        \/ Clear \/ Advance
Spec == Init /\ [][Next]_vars

\* a proposal is live while every one of its inputs still carries exactly the lock it took and that lock is unexpired
Live(p) == LiveIn(p, locks, tip)

\* proposals of *different owners* that are both live never share an input (an owner may knowingly re-lock its own)
NoSharedInput == \A p, q \in props : (Live(p) /\ Live(q) /\ p.owner # q.owner) => p.ins \cap q.ins = {}
\* under the default policy (no admitted owners) a live proposal's inputs are never selectable by anybody
LiveExcluded == \A p \in props : Live(p) => \A n \in p.ins : ~EligibleL(n, {})
\* a foreign lock is replaceable exactly when the output has become selectable again ("no stealing")
NoStealing == \A n \in Notes, o \in Owners :
                 IF locks[n] = None THEN TRUE ELSE (locks[n][1] # o => (Acquirable(n, o) <=> ~Locked(n, tip + 1)))
Inv == NoSharedInput /\ LiveExcluded /\ NoStealing
=====================================================================================
