------------------------------- MODULE CommitmentTree -------------------------------
(* C06, implementation-shaped layer over abstract checkpoint sets: what put_blocks /               *)
(* batch_ensure_heights / ensure_checkpoints / update_tree (zcash_client_backend ll/wallet.rs) and *)
(* select_truncation_height / plan_tree_truncation (zcash_client_sqlite wallet.rs) do to the three *)
(* pools' checkpoint sets, with shardtree's bounded checkpoint budget.  Tree *contents* are        *)
(* abstracted away (the root at a checkpoint is the chain's prefix by construction here); the      *)
(* question TLC answers is which heights are checkpointed, in which pools, and what a rewind may   *)
(* settle on:                                                                                     *)
(*   RetainedBoundaries  every retention-grid height inside a scanned batch is checkpointed in     *)
(*                       every pool and survives any amount of later scanning, until a rewind      *)
(*                       below it                                                                  *)
(*   TruncateLaw         a rewind settles on a scanned height <= the request and leaves no         *)
(*                       checkpoint above it                                                       *)
(*   Bounded             no checkpoint above the highest scanned block                             *)
EXTENDS Integers, FiniteSets, FiniteSetsExt, TLC, TreeOps

CONSTANTS MaxH,        \* chain heights 1..MaxH (0 = the block before the birthday)
          Budget,      \* shardtree max_checkpoints (PRUNING_DEPTH in the wallet)
          Interval,    \* anchor-retention interval (0: retention disabled)
          Floor,       \* first height the retention policy applies to (NU6.3 activation)
          MaxOps,
          FixEnsure    \* FALSE: update_tree as it is on the pinned tree (an ensured checkpoint at or below the pool's
                       \* oldest checkpoint is skipped); TRUE: the repaired design (ensured checkpoints are always added)

Pools == 1..3
VARIABLES has,      \* [Pools -> SUBSET 1..MaxH]: blocks holding commitments of the pool (the chain, fixed at Init)
          ck,       \* [Pools -> SUBSET 0..MaxH]: checkpoint ids
          ret,      \* [Pools -> SUBSET 0..MaxH]: checkpoints registered as retained anchors
          blocks,   \* scanned heights
          covered,  \* retention-grid heights that lay inside a scanned batch and were not rewound since
          lastTrunc,\* <<requested, settled>> of the last successful rewind, or << >>
          ops
vars == << has, ck, ret, blocks, covered, lastTrunc, ops >>

Retains(h) == Interval > 0 /\ h >= Floor /\ h % Interval = 0
Grid(lo, hi) == { h \in lo..hi : Retains(h) }

Init == /\ has \in [Pools -> SUBSET (1..MaxH)]
        /\ ck = [p \in Pools |-> {}] /\ ret = [p \in Pools |-> {}]
        /\ blocks = {} /\ covered = {} /\ lastTrunc = << >> /\ ops = 0

\* put_blocks on the batch from..to
Scan(from, to) ==
    LET batchC(p) == { h \in from..to : h \in has[p] }
        grid == Grid(from, to)
        all == UNION { batchC(p) : p \in Pools } \cup grid
        keep == { h \in ({from - 1} \cup all) : Retains(h) }
    IN  /\ ck' = [p \in Pools |-> BatchCk(ck[p], ret[p], from, batchC(p), all, keep, Budget, FixEnsure)]
        /\ ret' = [p \in Pools |-> BatchRet(ret[p], keep)]
        /\ blocks' = blocks \cup (from..to)
        /\ covered' = covered \cup grid
        /\ lastTrunc' = << >>
        /\ UNCHANGED has

\* plan_tree_truncation's classification of one pool at height h (notes abstracted: a pool with
\* only checkpoints above h may always be reset to its subtree roots)
Tolerates(p, h) == \/ h \in ck[p]
                   \/ ~ \E c \in ck[p] : c > h
                   \/ ~ \E c \in ck[p] : c < h

Truncate(req) ==
    LET cand == { b \in blocks : b <= req /\ \A p \in Pools : Tolerates(p, b) }
    IN  /\ cand # {}
        /\ LET to == Max(cand)
           IN  /\ ck' = [p \in Pools |-> { c \in ck[p] : c <= to }]
               /\ ret' = [p \in Pools |-> { c \in ret[p] : c <= to }]
               /\ blocks' = { b \in blocks : b <= to }
               /\ covered' = { h \in covered : h <= to }
               /\ lastTrunc' = << req, to >>
        /\ UNCHANGED has

Next == /\ ops < MaxOps /\ ops' = ops + 1
        /\ \/ \E from \in 1..MaxH, to \in 1..MaxH : from <= to /\ Scan(from, to)
           \/ \E req \in 0..MaxH : Truncate(req)
Spec == Init /\ [][Next]_vars

--------------------------------------------------------------------------------------
RetainedBoundaries == \A h \in covered, p \in Pools : h \in ck[p] /\ h \in ret[p]
TruncateLaw == lastTrunc # << >> =>
                  /\ lastTrunc[2] <= lastTrunc[1] /\ lastTrunc[2] \in blocks
                  /\ \A p \in Pools : \A c \in ck[p] : c <= lastTrunc[2]
Bounded == \A p \in Pools : \A c \in ck[p] : blocks # {} /\ c <= Max(blocks)
\* what holds even on the pinned tree: a boundary whose block holds a commitment of the pool keeps its
\* checkpoint in that pool (its retention is registered before insertion)
RetainedOwn == \A h \in covered, p \in Pools : h \in has[p] => h \in ck[p]
Inv == RetainedBoundaries /\ RetainedOwn /\ TruncateLaw /\ Bounded     \* repaired design (FixEnsure = TRUE)
InvPinned == RetainedOwn /\ TruncateLaw /\ Bounded                     \* pinned tree (FixEnsure = FALSE)
\* the finding: on the pinned tree RetainedBoundaries is violated (TLC finds the counterexample)
=====================================================================================
