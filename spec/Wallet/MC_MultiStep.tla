--------------------------------- MODULE MC_MultiStep ---------------------------------
(* MultiStep.tla on the model alone: TLC builds every proposal of up to MaxSteps steps over a tiny    *)
(* wallet (note 1 worth 4, note 2 worth 2, coin 1 worth 3) step by step - every step it appends is     *)
(* balanced (law c) but is otherwise free: it may select a note an earlier step selected, refer       *)
(* forwards / to itself / to an output that is not there / with a wrong value / to ordinary change,    *)
(* consume an output twice, pay a TEX recipient out of notes, leave an ephemeral output unspent.       *)
(* Theorems (invariants over every proposal built):                                                    *)
(*   ThmConserves     (c) + (d) + no output consumed twice  =>  (e) the proposal conserves value       *)
(*   ThmNoValueFromNowhere   Valid(P) => the DISTINCT notes and coins the wallet parts with are worth   *)
(*                    payments + final change + fees                                                   *)
(*   ThmZip320        Valid(P) and a TEX recipient is paid out of notes => at least two steps, and the *)
(*                    TEX payment sits in a step funded by coins / earlier transparent outputs only    *)
(*   ThmEphemeral     Valid(P) => every consumed change output is ephemeral, every ephemeral one is    *)
(*                    consumed exactly once                                                            *)
(* NOT theorems - TLC must refute them (checks/c08_multistep.py runs both and expects the violation):  *)
(*   MutConservesWithoutB2   ThmConserves without "no output consumed twice"                           *)
(*   MutPerStepDoubleSpend   ThmNoValueFromNowhere under ValidPerStep (the double-spend set of (b) kept *)
(*                    per step instead of shared by all steps): one note funds two steps               *)
EXTENDS MultiStep

CONSTANT MaxSteps
VARIABLE P
vars == << P >>

Pay(i, k, ad, v, pool) == [i |-> i, k |-> k, ad |-> ad, v |-> v, pool |-> pool]
Ch(v, pool, eph)       == [v |-> v, pool |-> pool, eph |-> eph]
Step(ns, cs, pr, py, ch, fee) == [notes |-> ns, coins |-> cs, prior |-> pr, pays |-> py, change |-> ch, fee |-> fee]

NoteChoices == { << >>, << << 1, 4 >> >>, << << 1, 4 >>, << 2, 2 >> >> }
CoinChoices == { << >>, << << 1, 3 >> >> }
PayChoices  == { << >>, << Pay(0, "tex", 1, 1, "T") >>, << Pay(0, "zs", 0, 1, "S") >> }
ChangeChoices == { << >>, << Ch(1, "S", FALSE) >>, << Ch(2, "T", TRUE) >>, << Ch(1, "S", FALSE), Ch(2, "T", TRUE) >>, << Ch(2, "T", FALSE) >> }
\* references: to step 0 or 1 (from step 0 / 1 these point at the step itself or forwards), change output 0 / 1, worth 2
\* (right for the ephemeral output, wrong for the shielded change) or 1; the same output twice
Refs == { << s, "c", j, v >> : s \in {0, 1}, j \in {0, 1}, v \in {1, 2} } \ { << s, "c", 1, 1 >> : s \in {0, 1} }
PriorChoices == { << >> } \cup { << r >> : r \in Refs } \cup { << r, r >> : r \in { x \in Refs : x[1] = 0 /\ x[4] = 2 } }

Steps == { Step(ns, cs, pr, py, ch, 0) : ns \in NoteChoices, cs \in CoinChoices, pr \in PriorChoices, py \in PayChoices, ch \in ChangeChoices }
\* the fee that balances the step (law c), if there is one in 0..2
WithFee(st) == LET f == StepIn(st) - SumV(st.pays) - SumV(st.change) IN IF f \in 0..2 THEN { [st EXCEPT !.fee = f] } ELSE {}
BalancedSteps == UNION { WithFee(st) : st \in Steps }

\* a proposal is extended by a further step only while it is clean apart from what a later step can still repair or
\* break: its references are right, nothing is consumed twice, no step selects a note twice (ACROSS steps it may: the
\* spec mutant below must be reachable); a proposal with any other defect is a leaf
Extensible == /\ RefsOK(P) /\ NoDoubleConsume(P) /\ NoDoubleSelectPerStep(P) /\ TexRule(P) /\ EphemeralsTransparent(P)
Init == P = << >>
Next == Len(P) < MaxSteps /\ Extensible /\ \E st \in BalancedSteps : P' = Append(P, st)
Spec == Init /\ [][Next]_vars

--------------------------------------------------------------------------------------
NonEmpty == Len(P) >= 1
ThmConserves == (NonEmpty /\ AllBalanced(P) /\ RefsOK(P) /\ NoDoubleConsume(P)) => Conserves(P)
ThmNoValueFromNowhere == Valid(P) => (NoValueFromNowhere(P) /\ Conserves(P))
ThmZip320 == Valid(P) => \A i \in DOMAIN P :
                 PaysTex(P[i]) => /\ P[i].notes = << >>
                                  /\ (SelNotes(P) # {} /\ P[i].coins = << >> => (Len(P) >= 2 /\ P[i].prior # << >>))
ThmEphemeral == Valid(P) => /\ \A x \in Consumed(P) : x[2] = "c" => P[x[1] + 1].change[x[3] + 1].eph
                            /\ \A i \in DOMAIN P : \A j \in DOMAIN P[i].change :
                                  P[i].change[j].eph => << i - 1, "c", j - 1 >> \in Consumed(P)
\* every step appended is balanced by construction: the enumeration is not vacuous for (c)
AllBuiltBalanced == AllBalanced(P)
Inv == ThmConserves /\ ThmNoValueFromNowhere /\ ThmZip320 /\ ThmEphemeral /\ AllBuiltBalanced

\* ---- probes: NOT theorems; TLC must find a counterexample to each (the check runs them and expects the violation)
\* the enumeration contains a valid ZIP 320 pair (notes -> ephemeral output -> TEX recipient) and a valid three-step proposal
ProbeNoZip320Pair == ~(Valid(P) /\ Len(P) = 2 /\ PaysTex(P[2]) /\ P[1].notes # << >> /\ P[2].prior # << >>)
ProbeNoThreeSteps == ~(Valid(P) /\ Len(P) = 3 /\ P[3].prior # << >> /\ P[2].prior # << >>)
\* spec mutants
MutConservesWithoutB2 == (NonEmpty /\ AllBalanced(P) /\ RefsOK(P)) => Conserves(P)
MutPerStepDoubleSpend == ValidPerStep(P) => NoValueFromNowhere(P)
=====================================================================================
