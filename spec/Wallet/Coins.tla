----------------------------------- MODULE Coins -----------------------------------
(* The transparent half of the C01 ledger ("notes AND COINS"): the wallet's table of transparent  *)
(* coins, the transactions that created / spend them, and the balance they imply.  It exists only *)
(* in the `transparent-inputs` build of the wallet crates.                                        *)
(*                                                                                                *)
(* Coins do not arrive through compact-block scanning.  They arrive through                       *)
(*   ReportUtxo   put_received_transparent_utxo: a light-wallet server reports an unspent output  *)
(*                of one of the wallet's addresses, mined at height h (or seen unmined);          *)
(*   StoreFullTx  decrypt_and_store_transaction of a full transaction: every output paying a      *)
(*                wallet address becomes a coin, every input that is a known coin becomes a spend  *)
(*                link; an input whose coin is not known yet is remembered and linked when the    *)
(*                coin arrives (either arrival order).  A transaction that neither spends a known *)
(*                coin nor pays the wallet is none of the wallet's business and is not stored.    *)
(*   SetMined     set_transaction_status(txid, Mined(h)): a known transaction is (now) mined at h. *)
(* A rewind (truncate_to_height) un-mines every transaction above the height it settles on and    *)
(* keeps coins and links.                                                                         *)
(*                                                                                                *)
(* The ledger law (balance under ConfirmationsPolicy::MIN, i.e. zero-conf for transparent coins,  *)
(* at target = tip + 1), transcribed from the rustdoc/SQL of add_transparent_account_balances,    *)
(* tx_unexpired_condition_minconf_0, spent_utxos_clause and common.rs tx_unexpired_condition:     *)
(*   a coin counts iff its transaction is mined below the target, or is known not to have expired *)
(*   (expiry 0 or expiry >= target; an unknown expiry is NOT "definitely unexpired"), and no      *)
(*   linked spender is unexpired (mined below the target, or expiry 0, or expiry >= target, or -  *)
(*   expiry unknown - first observed at most ExpiryDelta blocks before the target).               *)
(*                                                                                                *)
(* The module is purely functional: the coin state is one record, every operation maps a state to *)
(* the SET of states the wallet may end in (a singleton except where the code's choice is an      *)
(* undocumented detail: which of several conflicting spenders remembered for a coin are linked).  *)
EXTENDS Integers, Sequences, FiniteSets, FiniteSetsExt, TLC

CONSTANTS ExpiryDelta,   \* DEFAULT_TX_EXPIRY_DELTA (40)
          Dust,          \* MARGINAL_FEE (5000): value of at most this much is "uneconomic"
          Maturity       \* COINBASE_MATURITY_BLOCKS (100); only a grouping key of the balance query here

NULL == -1               \* SQL NULL of a height column (heights in the model are >= 0)

\* st = [ttx   : tx -> [mined, minobs, expiry]       rows of `transactions` created by coin operations
\*       coins : coin -> [v, tx, acct]               rows of `transparent_received_outputs`
\*       links : SUBSET (coin \X tx)                 rows of `transparent_received_output_spends`
\*       smap  : SUBSET (tx \X coin)]                rows of `transparent_spend_map` (spender seen before its coin)
Empty == [ttx |-> << >>, coins |-> << >>, links |-> {}, smap |-> {}]

MinN(a, b) == IF a <= b THEN a ELSE b
Put(f, k, v) == [x \in DOMAIN f \cup {k} |-> IF x = k THEN v ELSE f[x]]

----------------------------------------------------------------------------------------
\* put_transparent_output, last step: a spender remembered for this outpoint is linked now.
\* (ORDER BY mined_height NULLS LAST LIMIT 1: the earliest mined one; among several unmined ones, any.)
Cands(st, c) == { s \in DOMAIN st.ttx : << s, c >> \in st.smap }
Best(st, c) == LET mined == { s \in Cands(st, c) : st.ttx[s].mined # NULL }
               IN  IF mined # {} THEN { s \in mined : \A s2 \in mined : st.ttx[s].mined <= st.ttx[s2].mined }
                   ELSE Cands(st, c)
\* the sets of links the wallet may add when the coins `cset` are (re-)written.  Relational: of the spenders remembered
\* for a coin it links at least one of the best (the pinned code links exactly one, which breaks the law
\* KnownMinedSpenderWins when the spenders conflict - see notes/c01-coins-report.md; linking them all is as acceptable
\* to this module).  Which ones it linked is read off the logged rows.
Opts(st, c) == { L \in SUBSET Cands(st, c) : L \cap Best(st, c) # {} }
LinkChoices(st, cset) ==
    LET hit == { c \in cset : Cands(st, c) # {} }
        U   == UNION { Opts(st, c) : c \in hit }
    IN  { UNION { { << c, s >> : s \in f[c] } : c \in hit } : f \in { g \in [hit -> U] : \A c \in hit : g[c] \in Opts(st, c) } }

\* ReportUtxo: coin c = output of transaction t, value v, of account a, mined at h (NULL: height unknown
\* to the reporter); tp: the wallet's chain tip (known).  The transaction row keeps its expiry; a reported
\* height replaces the recorded one; the first-observed height only decreases.
ReportUtxo(st, tp, c, t, v, a, h) ==
    LET seen == IF h # NULL THEN MinN(h, tp) ELSE tp
        row  == IF t \in DOMAIN st.ttx
                THEN [mined  |-> IF h # NULL THEN h ELSE st.ttx[t].mined,
                      minobs |-> MinN(st.ttx[t].minobs, seen),
                      expiry |-> st.ttx[t].expiry]
                ELSE [mined |-> h, minobs |-> seen, expiry |-> NULL]
        st1  == [st EXCEPT !.ttx = Put(st.ttx, t, row), !.coins = Put(st.coins, c, [v |-> v, tx |-> t, acct |-> a])]
    IN  { [st1 EXCEPT !.links = @ \cup L] : L \in LinkChoices(st1, {c}) }

\* the height decrypt_and_store_transaction works with: the caller's, else the one the wallet has on record
\* (get_tx_height: only if it is not above the tip)
EffHeight(st, tp, t, h) ==
    IF h # NULL THEN h
    ELSE IF t \in DOMAIN st.ttx /\ st.ttx[t].mined # NULL /\ st.ttx[t].mined <= tp THEN st.ttx[t].mined ELSE NULL

\* does the wallet have any business with this transaction (at this moment)?
Relevant(st, ins, outs) == (ins \cap DOMAIN st.coins) # {} \/ outs # {}

\* StoreFullTx: transaction t spends the coins `ins` (ids of outputs that are, or may later turn out to be,
\* wallet coins) and pays the wallet the coins outs = { [c, v, acct] }; mined at h (NULL: not known to be mined),
\* expiry height e (0: never expires).
StoreFullTx(st, tp, t, ins, outs, h, e) ==
    IF ~Relevant(st, ins, outs) THEN { st }
    ELSE
    LET heff  == EffHeight(st, tp, t, h)
        obs   == IF heff # NULL THEN heff ELSE tp + 1
        r0    == IF t \in DOMAIN st.ttx
                 THEN [st.ttx[t] EXCEPT !.expiry = e, !.minobs = MinN(@, obs)]
                 ELSE [mined |-> NULL, minobs |-> obs, expiry |-> e]
        r1    == IF heff # NULL THEN [r0 EXCEPT !.mined = heff] ELSE r0
        known == ins \cap DOMAIN st.coins
        newc  == { o.c : o \in outs }
        info(c) == LET o == CHOOSE o \in outs : o.c = c IN [v |-> o.v, tx |-> t, acct |-> o.acct]
        st1   == [ttx   |-> Put(st.ttx, t, r1),
                  coins |-> [c \in DOMAIN st.coins \cup newc |-> IF c \in newc THEN info(c) ELSE st.coins[c]],
                  links |-> st.links \cup { << c, t >> : c \in known },
                  smap  |-> st.smap \cup { << t, c >> : c \in ins \ known }]
    IN  { [st1 EXCEPT !.links = @ \cup L] : L \in LinkChoices(st1, newc) }

\* set_transaction_status(t, Mined(h)): how a client tells the wallet that a transaction it asked about was mined.
\* Only the transaction row changes (no row: nothing happens); links are neither created nor removed.
SetMined(st, t, h) ==
    IF t \notin DOMAIN st.ttx THEN st
    ELSE [st EXCEPT !.ttx = Put(st.ttx, t, [st.ttx[t] EXCEPT !.mined = h, !.minobs = MinN(@, h)])]

\* truncate_to_height settled on `to`: every transaction mined above it is un-mined; nothing else changes
Truncate(st, to) ==
    [st EXCEPT !.ttx = [t \in DOMAIN st.ttx |-> IF st.ttx[t].mined > to THEN [st.ttx[t] EXCEPT !.mined = NULL] ELSE st.ttx[t]]]

\* the wallet's schema refuses (CHECK height_consistency) to move a transaction it has linked to a scanned
\* block to another height without a rewind in between; nothing is promised about such a call
Remines(st, t, h) == h # NULL /\ t \in DOMAIN st.ttx /\ st.ttx[t].mined # NULL /\ st.ttx[t].mined # h

----------------------------------------------------------------------------------------
\* the ledger

\* the coin exists as far as the balance is concerned (zero confirmations required)
Created(r, target) == \/ (r.mined # NULL /\ r.mined < target)
                      \/ (r.expiry # NULL /\ (r.expiry = 0 \/ r.expiry >= target))
\* a spender that still claims the coin
Claims(r, target) == \/ (r.mined # NULL /\ r.mined < target)
                     \/ r.expiry = 0
                     \/ (r.expiry # NULL /\ r.expiry >= target)
                     \/ (r.expiry = NULL /\ r.minobs + ExpiryDelta >= target)

Counted(st, c, target) == /\ Created(st.ttx[st.coins[c].tx], target)
                          /\ \A lk \in st.links : lk[1] = c => ~Claims(st.ttx[lk[2]], target)

SumV(st, S) == FoldSet(LAMBDA c, acc : acc + st.coins[c].v, 0, S)
CountedOf(st, a, target) == { c \in DOMAIN st.coins : st.coins[c].acct = a /\ Counted(st, c, target) }

\* << total, uneconomic >> of the account's regular unshielded balance.  What C01 promises is the sum; the
\* split is the documented one (a coin of at most Dust is uneconomic) ...
LedgerT(st, a, target) ==
    LET S == CountedOf(st, a, target)
    IN  << SumV(st, { c \in S : st.coins[c].v > Dust }), SumV(st, { c \in S : st.coins[c].v <= Dust }) >>
\* ... or the one the account-level query actually computes: it compares the SUM of each group of coins - grouped by
\* whether the coin has Maturity confirmations and by its lock expiry height (lk: coin -> << owner, lock expiry >>,
\* see Locking below) - with Dust.  Both are accepted (relational); they coincide whenever a group holds a single
\* coin, no dust, or dust of at most Dust in total.
Mature(st, c, target) == st.ttx[st.coins[c].tx].mined # NULL /\ target - st.ttx[st.coins[c].tx].mined >= Maturity
LedgerTGrouped(st, a, target, lk) ==
    LET S == CountedOf(st, a, target)
        key(c) == << Mature(st, c, target), IF c \in DOMAIN lk THEN lk[c][2] ELSE NULL >>
        keys == { key(c) : c \in S }
        g(k) == SumV(st, { c \in S : key(c) = k })
    IN  << FoldSet(LAMBDA k, acc : acc + (IF g(k) > Dust THEN g(k) ELSE 0), 0, keys),
           FoldSet(LAMBDA k, acc : acc + (IF g(k) <= Dust THEN g(k) ELSE 0), 0, keys) >>

----------------------------------------------------------------------------------------
\* coins as proposal inputs (C08).  Transcribed from the rustdoc / SQL of get_spendable_transparent_outputs(_for_addresses),
\* select_spendable_transparent_outputs (spendable_transparent_outputs_query), tx_unexpired_condition_minconf_0,
\* spent_utxos_clause and locking.rs output_eligible_condition.  minconf: the confirmations the policy requires of a coin
\* (the *untrusted* count - every coin is treated as untrusted - or 0 when the policy allows zero-conf shielding).

\* the coin can be spent by a transaction built for height `target`: worth more than the marginal fee; its transaction mined
\* with at least minconf confirmations - or, when none are required, also unmined but known not to have expired -; and no
\* linked spender (a mined one, or a pending / observed one that has not expired) claims it
Spendable(st, c, target, minconf) ==
    LET r == st.ttx[st.coins[c].tx]
    IN  /\ st.coins[c].v > Dust
        /\ \/ (r.mined # NULL /\ r.mined < target /\ target - r.mined >= minconf)
           \/ (minconf = 0 /\ r.expiry # NULL /\ (r.expiry = 0 \/ r.expiry >= target))
        /\ \A lk \in st.links : lk[1] = c => ~Claims(st.ttx[lk[2]], target)

\* lk: coin -> << owner, lock expiry height >>.  data_api/locking.rs: locked while expiry >= target; a locked output is
\* selectable only through the lock of an owner the policy admits
LockedC(lk, c, target) == c \in DOMAIN lk /\ lk[c][2] >= target
AcquirableC(lk, c, owner, tp) == IF c \in DOMAIN lk THEN (lk[c][2] <= tp \/ lk[c][1] = owner) ELSE TRUE
EligibleCoin(st, lk, c, target, minconf, admitted) ==
    /\ c \in DOMAIN st.coins
    /\ Spendable(st, c, target, minconf)
    /\ (LockedC(lk, c, target) => lk[c][1] \in admitted)

\* create_proposed_transactions stored transaction t (built for height `target`, expiry e, 0 = never) spending the coins S:
\* a pending transaction; the spends are recorded at once
CreateSpend(st, t, S, target, e) ==
    [st EXCEPT !.ttx = Put(st.ttx, t, [mined |-> NULL, minobs |-> target, expiry |-> e]),
               !.links = @ \cup { << c, t >> : c \in S }]

RowOf(st, c) == [c |-> c, v |-> st.coins[c].v, acct |-> st.coins[c].acct, t |-> st.coins[c].tx,
                 mined |-> st.ttx[st.coins[c].tx].mined, minobs |-> st.ttx[st.coins[c].tx].minobs,
                 exp |-> st.ttx[st.coins[c].tx].expiry,
                 sp |-> { << k[2], st.ttx[k[2]].mined, st.ttx[k[2]].minobs, st.ttx[k[2]].expiry >> : k \in { k \in st.links : k[1] = c } }]

TypeOK(st) == /\ \A c \in DOMAIN st.coins : st.coins[c].tx \in DOMAIN st.ttx
              /\ \A k \in st.links : k[1] \in DOMAIN st.coins /\ k[2] \in DOMAIN st.ttx
              /\ \A k \in st.smap : k[1] \in DOMAIN st.ttx
              /\ \A t \in DOMAIN st.ttx : st.ttx[t].mined = NULL \/ st.ttx[t].minobs <= st.ttx[t].mined   \* CHECK min_observed_consistency
=====================================================================================
