--------------------------------- MODULE ProposalValid ---------------------------------
(* C08, validators part: when is a list of proposal steps a VALID proposal?                        *)
(*                                                                                                *)
(* This module is the rule, written from the rustdoc of                                           *)
(*   zcash_client_backend::proposal::{Step::from_parts, Proposal::multi_step, ProposalError}      *)
(* and the property text ("selects none of them twice, and in every step the selected input       *)
(* value equals payments plus change plus fee"), not from the bodies of the validators:           *)
(*                                                                                                *)
(*  R1  the payment-pool map has exactly the payment indices of the step's request, and the pool  *)
(*      chosen for an index is one the recipient address can receive in (an Ironwood payment is   *)
(*      delivered to the Orchard receiver)                      -> PaymentPoolsMismatch           *)
(*  R2  every payment states its amount                         -> PaymentAmountMissing           *)
(*  R3  every prior-step input names an output (payment or change) that exists in an EARLIER      *)
(*      step                                                    -> ReferenceError                 *)
(*  R4  no sum leaves the range 0..MAX_MONEY                    -> Overflow / RequestTotalInvalid *)
(*      (change + fee out of range: the balance cannot even be constructed -> BalanceInvalid)     *)
(*  R5  is_shielding only if the transparent input total is nonzero, there is no shielded input   *)
(*      and the request asks for no value                       -> ShieldingInvalid               *)
(*  R6  with Ironwood (NU6.3) active: no payment into the Orchard pool                            *)
(*                                                              -> OrchardPoolPayment             *)
(*      and Orchard change is zero or strictly less than the Orchard notes the step spends        *)
(*                                                              -> OrchardPoolValueCreation       *)
(*  R7  a step that spends shielded notes, pays to a shielded pool or returns shielded change     *)
(*      names an anchor                                         -> MissingShieldedAnchor          *)
(*  R8  transparent inputs + shielded inputs + prior-step inputs = payments + change + fee,       *)
(*      exactly                                                 -> BalanceError                   *)
(*  R9  across the whole list: a prior-step output is consumed at most once                       *)
(*                                                              -> StepDoubleSpend                *)
(*  R10 across the whole list: a chain output (txid, pool, index) is consumed at most once        *)
(*                                                              -> ChainDoubleSpend               *)
(*                                                                                                *)
(* The ephemeral-output rules (SpendsChange, EphemeralOutputLeftUnspent, PaysTexFromShielded) are *)
(* enforced when the transactions are created (data_api/wallet.rs), not by these validators, and  *)
(* are outside this module.                                                                       *)
(*                                                                                                *)
(* Where several rules are violated at once the documentation does not say which error is         *)
(* reported; the rule therefore yields the SET of violated rules' error classes (the reported     *)
(* class must be a member; for a single violated rule that is exact).  `CodeOrder` records the    *)
(* order in which the implementation currently evaluates its checks; agreement with it is         *)
(* counted by the harness for information and never judged.                                       *)
(*                                                                                                *)
(* Amounts are in lattice units: the harness multiplies by MAX_MONEY / M zatoshis, a linear map,  *)
(* so every sum, equality and range test below carries over exactly.                              *)
EXTENDS Integers, Sequences, FiniteSets

CONSTANT M            \* MAX_MONEY in lattice units

NoAmt == -1           \* a payment that states no amount

Pools == {"T", "S", "O", "I"}            \* transparent, Sapling, Orchard, Ironwood
Shielded == {"S", "O", "I"}

\* Address kinds and the pools they have a receiver for (ZIP 316 / zcash_address):
\*   t    transparent P2PKH            tex   ZIP 320 TEX address         zs   bare Sapling
\*   uSO  unified {Sapling, Orchard}   uO    unified {Orchard}           uTS  unified {P2PKH, Sapling}
Kinds == {"t", "tex", "zs", "uSO", "uO", "uTS"}
Receivers(k) == CASE k = "t"   -> {"T"}
                  [] k = "tex" -> {"T"}
                  [] k = "zs"  -> {"S"}
                  [] k = "uSO" -> {"S", "O"}
                  [] k = "uO"  -> {"O"}
                  [] k = "uTS" -> {"T", "S"}
\* an Ironwood note is Orchard-shaped and goes to the recipient's Orchard receiver
Deliverable(k, p) == p \in Receivers(k) \/ (p = "I" /\ "O" \in Receivers(k))

--------------------------------------------------------------------------------------------
(* A step:                                                                                       *)
(*   req    sequence of payments  [i: payment index, k: address kind, a: amount or NoAmt]        *)
(*   pools  the payment-pool map as a sequence of [i: payment index, p: pool], indices distinct  *)
(*   tin    transparent inputs    [tx, n, v]             (outpoint tx:n of value v)              *)
(*   sin    shielded inputs       [tx, p, n, v]          (output n of pool p of tx, value v)     *)
(*   prior  prior-step inputs     [s: step index from 0, o: "P" | "C", j: payment / change index]*)
(*   anchor BOOLEAN (an anchor height is given)                                                  *)
(*   change sequence of [p: pool, v: value, e: ephemeral]     fee: Nat      sh: is_shielding     *)

RECURSIVE SumSeq(_)
SumSeq(s) == IF s = << >> THEN 0 ELSE Head(s) + SumSeq(Tail(s))
Vals(s) == [x \in 1..Len(s) |-> s[x].v]
MinOf(S) == CHOOSE x \in S : \A y \in S : x <= y

ReqIdx(st)  == {st.req[x].i : x \in 1..Len(st.req)}
PoolIdx(st) == {st.pools[x].i : x \in 1..Len(st.pools)}
HasPay(st, i) == \E x \in 1..Len(st.req) : st.req[x].i = i
PayAt(st, i)  == st.req[CHOOSE x \in 1..Len(st.req) : st.req[x].i = i]

TIn(st) == SumSeq(Vals(st.tin))
SIn(st) == SumSeq(Vals(st.sin))
OIn(st) == SumSeq([x \in 1..Len(st.sin) |-> IF st.sin[x].p = "O" THEN st.sin[x].v ELSE 0])
ChangeTotal(st) == SumSeq(Vals(st.change))
OChange(st) == SumSeq([x \in 1..Len(st.change) |-> IF st.change[x].p = "O" THEN st.change[x].v ELSE 0])
BalTotal(st) == ChangeTotal(st) + st.fee
AmountsPresent(st) == \A x \in 1..Len(st.req) : st.req[x].a # NoAmt
ReqTotal(st) == SumSeq([x \in 1..Len(st.req) |-> st.req[x].a])          \* meaningful if AmountsPresent

\* R3 for one reference, against the steps `prev` that precede the step
RefOk(prev, r) ==
    /\ r.s >= 0 /\ r.s + 1 <= Len(prev)
    /\ IF r.o = "P" THEN HasPay(prev[r.s + 1], r.j)
                    ELSE r.j >= 0 /\ r.j + 1 <= Len(prev[r.s + 1].change)
RefVal(prev, r) == IF r.o = "P" THEN PayAt(prev[r.s + 1], r.j).a ELSE prev[r.s + 1].change[r.j + 1].v
RefsOk(st, prev) == \A x \in 1..Len(st.prior) : RefOk(prev, st.prior[x])
PIn(st, prev) == SumSeq([x \in 1..Len(st.prior) |-> RefVal(prev, st.prior[x])])   \* meaningful if RefsOk

PoolsMatch(st) ==
    /\ PoolIdx(st) = ReqIdx(st)
    /\ \A x \in 1..Len(st.pools) : Deliverable(PayAt(st, st.pools[x].i).k, st.pools[x].p)

ProducesShielded(st) ==
    \/ st.sin # << >>
    \/ \E x \in 1..Len(st.pools) : st.pools[x].p \in Shielded
    \/ \E x \in 1..Len(st.change) : st.change[x].p \in Shielded

\* The error classes of the rules a step violates, given the (valid) steps before it.
StepViol(st, prev, iw) ==
    IF BalTotal(st) > M THEN {"BalanceInvalid"}      \* TransactionBalance cannot be constructed
    ELSE
    LET amt  == AmountsPresent(st)
        refs == RefsOk(st, prev)
        tin  == TIn(st)
        sin  == SIn(st)
        pin  == IF refs THEN PIn(st, prev) ELSE 0
        rt   == IF amt THEN ReqTotal(st) ELSE 0
        ovIn  == tin > M \/ sin > M \/ pin > M \/ tin + sin + pin > M
        ovOut == rt <= M /\ rt + BalTotal(st) > M
    IN    (IF ~PoolsMatch(st) THEN {"PaymentPoolsMismatch"} ELSE {})
    \cup  (IF ~amt THEN {"PaymentAmountMissing"} ELSE {})
    \cup  (IF ~refs THEN {"ReferenceError"} ELSE {})
    \cup  (IF ovIn \/ (amt /\ ovOut) THEN {"Overflow"} ELSE {})
    \cup  (IF amt /\ rt > M THEN {"RequestTotalInvalid"} ELSE {})
    \cup  (IF st.sh /\ (tin = 0 \/ st.sin # << >> \/ (amt /\ rt > 0)) THEN {"ShieldingInvalid"} ELSE {})
    \cup  (IF iw /\ (\E x \in 1..Len(st.pools) : st.pools[x].p = "O") THEN {"OrchardPoolPayment"} ELSE {})
    \cup  (IF iw /\ OChange(st) > 0 /\ OChange(st) >= OIn(st) THEN {"OrchardPoolValueCreation"} ELSE {})
    \cup  (IF ~st.anchor /\ ProducesShielded(st) THEN {"MissingShieldedAnchor"} ELSE {})
    \cup  (IF amt /\ refs /\ ~ovIn /\ rt <= M /\ ~ovOut /\ tin + sin + pin # rt + BalTotal(st)
              THEN {"BalanceError"} ELSE {})

StepValid(st, prev, iw) == StepViol(st, prev, iw) = {}

\* A zero-valued payment in a step flagged is_shielding: the rustdoc says "the request is empty", its
\* own gloss says "the only output VALUES are change and fee"; likewise "there exist no Sapling inputs"
\* against a zero-valued shielded note. The readings differ only on zero values; such steps are left
\* unjudged (never enumerated).
Ambiguous(st) == st.sh /\ (\/ (st.req # << >> /\ AmountsPresent(st) /\ ReqTotal(st) = 0)
                           \/ (st.sin # << >> /\ SIn(st) = 0))

\* Order in which Step::from_parts currently evaluates its checks (information only). The payment map is
\* walked in index order, and for each index deliverability is tested before the amount.
CodeOrder == << "BalanceInvalid", "PaymentPoolsMismatch", "PaymentAmountMissing", "Overflow", "ReferenceError",
               "RequestTotalInvalid", "ShieldingInvalid", "OrchardPoolPayment", "OrchardPoolValueCreation",
               "MissingShieldedAnchor", "BalanceError" >>
MapFirst(st) ==      \* which of the two payment-map errors comes first
    IF Len(st.pools) # Len(st.req) THEN "PaymentPoolsMismatch"
    ELSE LET badIdx == {i \in PoolIdx(st) :
                          \/ ~HasPay(st, i)
                          \/ \E x \in 1..Len(st.pools) : st.pools[x].i = i /\ ~Deliverable(PayAt(st, i).k, st.pools[x].p)
                          \/ PayAt(st, i).a = NoAmt}
         IN IF badIdx = {} THEN "PaymentPoolsMismatch"
            ELSE LET i == MinOf(badIdx)
                 IN IF HasPay(st, i) /\ (\A x \in 1..Len(st.pools) : st.pools[x].i = i => Deliverable(PayAt(st, i).k, st.pools[x].p))
                    THEN "PaymentAmountMissing" ELSE "PaymentPoolsMismatch"
FirstOf(st, V) ==
    IF V = {} THEN ""
    ELSE IF {"PaymentPoolsMismatch", "PaymentAmountMissing"} \subseteq V THEN MapFirst(st)
    ELSE IF {"Overflow", "ReferenceError"} \subseteq V /\ TIn(st) <= M /\ SIn(st) <= M THEN "ReferenceError"
    ELSE CodeOrder[MinOf({x \in 1..Len(CodeOrder) : CodeOrder[x] \in V})]

--------------------------------------------------------------------------------------------
(* The list as a whole (Proposal::multi_step): R3 again for the list as given, R9, R10.          *)

RefOcc(ps)   == UNION {{<< i, x >> : x \in 1..Len(ps[i].prior)} : i \in 1..Len(ps)}
ChainOcc(ps) == UNION {{<< i, 0, x >> : x \in 1..Len(ps[i].tin)} \cup {<< i, 1, x >> : x \in 1..Len(ps[i].sin)}
                       : i \in 1..Len(ps)}
\* a chain output is (txid, pool, index): the same txid and index in different pools are different outputs
ChainId(ps, o) == IF o[2] = 0 THEN << ps[o[1]].tin[o[3]].tx, "T", ps[o[1]].tin[o[3]].n >>
                              ELSE << ps[o[1]].sin[o[3]].tx, ps[o[1]].sin[o[3]].p, ps[o[1]].sin[o[3]].n >>

ListViol(ps) ==
          (IF \E o \in RefOcc(ps) : ~RefOk(SubSeq(ps, 1, o[1] - 1), ps[o[1]].prior[o[2]])
              THEN {"ReferenceError"} ELSE {})
    \cup  (IF \E o1, o2 \in RefOcc(ps) : o1 # o2 /\ ps[o1[1]].prior[o1[2]] = ps[o2[1]].prior[o2[2]]
              THEN {"StepDoubleSpend"} ELSE {})
    \cup  (IF \E o1, o2 \in ChainOcc(ps) : o1 # o2 /\ ChainId(ps, o1) = ChainId(ps, o2)
              THEN {"ChainDoubleSpend"} ELSE {})

\* Order in which Proposal::multi_step currently walks the list (information only): step by step; within a
\* step its references in order (dangling before already-consumed), then its transparent, then its shielded
\* inputs. An occurrence is << step, 0 | 1 | 2, position >>.
OccLt(a, b) == a[1] < b[1] \/ (a[1] = b[1] /\ (a[2] < b[2] \/ (a[2] = b[2] /\ a[3] < b[3])))
ListFirst(ps) ==
    LET refOcc == {<< o[1], 0, o[2] >> : o \in RefOcc(ps)}
        chOcc  == {<< o[1], o[2] + 1, o[3] >> : o \in ChainOcc(ps)}
        ref(o) == ps[o[1]].prior[o[3]]
        cid(o) == ChainId(ps, << o[1], o[2] - 1, o[3] >>)
        dangling(o) == ~RefOk(SubSeq(ps, 1, o[1] - 1), ref(o))
        failing == {o \in refOcc : dangling(o) \/ \E q \in refOcc : OccLt(q, o) /\ ref(q) = ref(o)}
                   \cup {o \in chOcc : \E q \in chOcc : OccLt(q, o) /\ cid(q) = cid(o)}
    IN IF failing = {} THEN ""
       ELSE LET o == CHOOSE f \in failing : \A g \in failing : f = g \/ OccLt(f, g)
            IN IF o[2] = 0 THEN (IF dangling(o) THEN "ReferenceError" ELSE "StepDoubleSpend") ELSE "ChainDoubleSpend"

\* every step valid given its predecessors in THIS list
StepsValid(ps, iw) == \A x \in 1..Len(ps) : StepValid(ps[x], SubSeq(ps, 1, x - 1), iw)

ProposalValid(ps, iw) == ps # << >> /\ StepsValid(ps, iw) /\ ListViol(ps) = {}

--------------------------------------------------------------------------------------------
(* Consequences of the rule (checked by TLC over every enumerated case in MC_ProposalValid).     *)

\* outputs of step i (1-based) that a later step consumes
Consumed(ps, i) == {<< ps[o[1]].prior[o[2]].o, ps[o[1]].prior[o[2]].j >> :
                        o \in {q \in RefOcc(ps) : ps[q[1]].prior[q[2]].s = i - 1}}
PayOut(ps, i) == SumSeq([x \in 1..Len(ps[i].req) |->
                          IF << "P", ps[i].req[x].i >> \in Consumed(ps, i) THEN 0 ELSE ps[i].req[x].a])
ChgOut(ps, i) == SumSeq([x \in 1..Len(ps[i].change) |->
                          IF << "C", x - 1 >> \in Consumed(ps, i) THEN 0 ELSE ps[i].change[x].v])
\* value conservation of the whole proposal: what leaves the chain inputs is exactly what reaches
\* recipients, the wallet's change, and the miners
Conservation(ps) ==
    SumSeq([i \in 1..Len(ps) |-> TIn(ps[i]) + SIn(ps[i])])
      = SumSeq([i \in 1..Len(ps) |-> PayOut(ps, i) + ChgOut(ps, i) + ps[i].fee])
\* with Ironwood active no step adds value to the Orchard pool
OrchardOnlyDrains(ps) ==
    \A i \in 1..Len(ps) : /\ \A x \in 1..Len(ps[i].pools) : ps[i].pools[x].p # "O"
                          /\ (OChange(ps[i]) = 0 \/ OChange(ps[i]) < OIn(ps[i]))
ShieldingShape(ps) ==
    \A i \in 1..Len(ps) : ps[i].sh => (ps[i].sin = << >> /\ TIn(ps[i]) > 0 /\ ReqTotal(ps[i]) = 0)
==========================================================================================
