SPECIFICATION Spec
CONSTANTS
  MaxTxs = 3
  MaxOuts = 2
  MaxThreshold = 3
  MaxWorkers = 2
  Runners = 1
  FinalFlush = TRUE
  KeyWithBlock = TRUE
INVARIANTS CollectExact SentOnce SendersOk
CHECK_DEADLOCK TRUE
