----------------------------- MODULE Emit_ScanBlock -----------------------------
(* MC_ScanBlock under another module name: the emission runs (Emit = TRUE, one worker, no         *)
(* invariants) of the check run next to the theorem runs and need their own TLC metadata dir.      *)
EXTENDS MC_ScanBlock
================================================================================
