----------------------------- MODULE MC_ScanBlock -----------------------------
(* Finite domains of abstract compact blocks for ScanBlock.tla.  One state = one (environment,      *)
(* block); blocks grow one transaction per step, so TLC visits every block of the family, checks   *)
(* the theorems on it (invariants) and - with Emit - prints it with the predicted result for the   *)
(* spec -> code replay.                                                                             *)
(*                                                                                                  *)
(* Family "P": one pool (OnePool), every transaction any sequence of <= MaxSp spends over SpendsDom *)
(*             and <= MaxOut outputs over OwnersDom (ActionShaped: equally many, as an action list) *)
(* Family "Q": as "P", under a single environment (prior known, no metadata, all keys)              *)
(* Family "X": every pool takes its per-transaction content from a menu (cross-pool interplay)      *)
(* Family "D": the continuity/metadata lattice: every prior kind x height link x hash link x       *)
(*             activation era x metadata kind, over a few fixed transactions                        *)
EXTENDS ScanBlock, TLC, Json

CONSTANTS Family, OnePool, OwnersDom, SpendsDom, ActionShaped, MaxTx, MaxOut, MaxSp, Emit

VARIABLES env, txs, started
vars == << env, txs, started >>

PoolIdx(p) == IF p = "S" THEN 1 ELSE IF p = "O" THEN 2 ELSE 3
Sibling(p) == IF p = "O" THEN "I" ELSE IF p = "I" THEN "O" ELSE "S"
SetupId(p, a) == 10 * PoolIdx(p) + a
\* the notes every case may spend: one per pool and account, all tracked
SetupTracked == { [n |-> SetupId(p, a), p |-> p, a |-> a] : p \in Pools, a \in { 1, 2 } }

KeySets == [K12 |-> << "a1e", "a1i", "a2e", "a2i" >>, K1 |-> << "a1e", "a1i" >>, K2i |-> << "a1i", "a2e" >>]
KeysOf(e) == SeqToSet(KeySets[e.ks])

Base == [p \in Pools |-> 2 + PoolIdx(p)]      \* sizes the prior knows
Hid  == [p \in Pools |-> 5 + PoolIdx(p)]      \* true sizes where the prior does not know them

UnknownIn(pk, p) == pk = "unk" \/ (pk = "noS" /\ p = "S") \/ (pk = "noO" /\ p = "O") \/ (pk = "noI" /\ p = "I")

PriorOf(e) ==
    IF e.pk = "none" THEN [k |-> "none"]
    ELSE [k |-> "some", h |-> 10, hash |-> 1,
          sz |-> [p \in Pools |-> IF UnknownIn(e.pk, p) THEN Unknown ELSE Base[p]]]

TrueStart(e, p) == IF e.pk = "none" \/ UnknownIn(e.pk, p) THEN Hid[p] ELSE Base[p]

\* labels -> spends / outputs with values and note ids fixed by their place in the block
SpendOf(l, p) ==
    IF l = "t1" THEN [k |-> "t", n |-> SetupId(p, 1)]
    ELSE IF l = "t2" THEN [k |-> "t", n |-> SetupId(p, 2)]
    ELSE IF l = "x" THEN [k |-> "t", n |-> IF p = "S" THEN 99 ELSE SetupId(Sibling(p), 1)]
    ELSE [k |-> l, n |-> 0]

OutOf(l, t, p, i) ==
    [o |-> l, v |-> 1000 * t + 100 * PoolIdx(p) + 10 * i + 1,
     n |-> IF l \in { "f", "m" } THEN 0 ELSE 100 * t + 10 * PoolIdx(p) + i]

Decorate(ls) ==
    [t \in 1..Len(ls) |->
        [p \in Pools |->
            [sp  |-> [i \in 1..Len(ls[t][p].sp)  |-> SpendOf(ls[t][p].sp[i], p)],
             out |-> [i \in 1..Len(ls[t][p].out) |-> OutOf(ls[t][p].out[i], t, p, i)]]]]

CountL(ls, p) == OutsUpTo(ls, p, Len(ls))

MetaOf(e, ls) ==
    LET tru == [p \in Pools |-> TrueStart(e, p) + CountL(ls, p)] IN
    IF e.mk = "absent" THEN [k |-> "absent"]
    ELSE IF e.mk = "ok" THEN [k |-> "given", sz |-> tru]
    ELSE IF e.mk = "short" THEN [k |-> "given", sz |-> [tru EXCEPT ![e.mp] = @ - 1]]
    ELSE IF e.mk = "long" THEN [k |-> "given", sz |-> [tru EXCEPT ![e.mp] = @ + 1]]
    ELSE IF e.mk = "lt" THEN [k |-> "given", sz |-> [tru EXCEPT ![e.mp] = IF CountL(ls, e.mp) > 0 THEN CountL(ls, e.mp) - 1 ELSE 0]]
    ELSE [k |-> "given", sz |-> [p \in Pools |-> 0]]      \* "zero": protobuf defaults

BlockOf(e, ls) ==
    [h    |-> IF e.pk = "none" THEN 11 ELSE 10 + e.dh,
     hash |-> 2,
     prev |-> IF e.pm THEN 1 ELSE 3,
     bad  |-> "none",
     act  |-> [p \in Pools |-> PoolIdx(p) <= e.act],
     meta |-> MetaOf(e, ls),
     txs  |-> Decorate(ls)]

---------------------------------------------------------------------------------
\* domains

SeqsUpTo(S, n) == UNION { [1..k -> S] : k \in 0..n }
EmptyPool == [sp |-> << >>, out |-> << >>]

PoolContentP ==
    IF ActionShaped
    THEN { [sp |-> [i \in 1..Len(a) |-> a[i][1]], out |-> [i \in 1..Len(a) |-> a[i][2]]] :
              a \in SeqsUpTo(SpendsDom \X OwnersDom, MaxOut) }
    ELSE { [sp |-> s, out |-> o] : s \in SeqsUpTo(SpendsDom, MaxSp), o \in SeqsUpTo(OwnersDom, MaxOut) }

SapMenu == { EmptyPool,
             [sp |-> << >>, out |-> << "f" >>],
             [sp |-> << >>, out |-> << "a1e" >>],
             [sp |-> << "t1" >>, out |-> << >>],
             [sp |-> << "t2", "u" >>, out |-> << "f", "a2e" >>] }
ActMenu == { EmptyPool,
             [sp |-> << "u" >>, out |-> << "f" >>],
             [sp |-> << "u" >>, out |-> << "a1i" >>],
             [sp |-> << "t1" >>, out |-> << "f" >>],
             [sp |-> << "x", "t2" >>, out |-> << "a2e", "f" >>] }

TxD1 == [S |-> [sp |-> << "t1" >>, out |-> << "f", "a1e" >>],
         O |-> [sp |-> << "u", "t2" >>, out |-> << "a2e", "f" >>],
         I |-> [sp |-> << "u" >>, out |-> << "a1i" >>]]
TxD2 == [S |-> EmptyPool, O |-> [sp |-> << "u" >>, out |-> << "f" >>], I |-> EmptyPool]
TxD3 == [S |-> [sp |-> << "m" >>, out |-> << "a1e" >>], O |-> EmptyPool, I |-> EmptyPool]
TxD4 == [S |-> EmptyPool, O |-> EmptyPool, I |-> [sp |-> << "u" >>, out |-> << "m" >>]]

TxDom ==
    IF Family \in { "P", "Q" } THEN { [p \in Pools |-> IF p = OnePool THEN c ELSE EmptyPool] : c \in PoolContentP }
    ELSE IF Family = "X" THEN { [S |-> s, O |-> o, I |-> i] : s \in SapMenu, o \in ActMenu, i \in ActMenu }
    ELSE { TxD1, TxD2, TxD3, TxD4 }

EnvRec(pk, dh, pm, act, mk, mp, ks) == [pk |-> pk, dh |-> dh, pm |-> pm, act |-> act, mk |-> mk, mp |-> mp, ks |-> ks]

EnvDomShapes == { EnvRec("none", 1, TRUE, 3, "ok", "S", "K12"),
                  EnvRec("all", 1, TRUE, 3, "absent", "S", "K12"),
                  EnvRec("all", 1, TRUE, 3, "ok", "S", "K1"),
                  EnvRec("unk", 1, TRUE, 3, "long", OnePool, "K2i") }

MetaKinds == { << "absent", "S" >>, << "ok", "S" >>, << "zero", "S" >> }
             \cup ({ "short", "long", "lt" } \X Pools)

EnvDomD ==
    { EnvRec("none", 1, TRUE, act, m[1], m[2], "K12") : act \in 0..3, m \in MetaKinds }
    \cup { EnvRec(pk, l[1], l[2], act, m[1], m[2], "K12") :
              pk \in { "all", "noS", "noO", "noI", "unk" },
              l \in { << 1, TRUE >>, << 1, FALSE >>, << 3, TRUE >>, << 3, FALSE >>, << 0, TRUE >> },
              act \in 0..3, m \in MetaKinds }

EnvDom == IF Family = "D" THEN EnvDomD
          ELSE IF Family = "Q" THEN { EnvRec("all", 1, TRUE, 3, "absent", "S", "K12") }
          ELSE EnvDomShapes

---------------------------------------------------------------------------------

CaseOf(e, ls) ==
    LET prior == PriorOf(e)  b == BlockOf(e, ls) IN
    [env |-> e, keys |-> KeySets[e.ks], prior |-> prior, block |-> b,
     exp |-> ScanBlock(prior, b, KeysOf(e), SetupTracked)]

Init == env \in EnvDom /\ txs = << >> /\ started = FALSE

\* the empty block of every environment
Begin == /\ ~started /\ started' = TRUE /\ UNCHANGED << env, txs >>
         /\ Emit => PrintT(<< "CASE", ToJson(CaseOf(env, txs)) >>)

AddTx == /\ started /\ Len(txs) < MaxTx
         /\ \E tx \in TxDom :
               /\ txs' = Append(txs, tx)
               /\ Emit => PrintT(<< "CASE", ToJson(CaseOf(env, txs')) >>)
         /\ UNCHANGED << env, started >>

Next == Begin \/ AddTx
Spec == Init /\ [][Next]_vars

---------------------------------------------------------------------------------
\* theorems, evaluated on every (environment, block)

P == PriorOf(env)
B == BlockOf(env, txs)
R == ScanBlock(P, B, KeysOf(env), SetupTracked)
Positions  == ThmPositionsR(R, P, B)
Partition  == ThmPartitionR(R, B, KeysOf(env), SetupTracked)
Errors     == ThmErrorsR(R, P, B)
HashTag    == ThmHashTagR(R, P, B, KeysOf(env), SetupTracked, { 4, 5 })
RangeOfOne == ThmRangeOfOneR(R, P, B, KeysOf(env), SetupTracked)
\* all of the above with the result evaluated once
AllTheorems == Theorems(P, B, KeysOf(env), SetupTracked, { 4, 5 })
\* the three that need a single evaluation of the definition (used for the largest bound)
CoreTheorems == ThmPositionsR(R, P, B) /\ ThmPartitionR(R, B, KeysOf(env), SetupTracked) /\ ThmErrorsR(R, P, B)
================================================================================
