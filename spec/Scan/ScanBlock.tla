------------------------------- MODULE ScanBlock -------------------------------
(* C05 — what scanning one compact block must report, as a DEFINITION over an abstract block.     *)
(*                                                                                                *)
(* Written from the property statement, the rustdoc of `scanning::scan_block`, `ScanError`,       *)
(* `ScannedBlock`, `ScannedBundles`, `WalletOutput`, `WalletSpend`, `Nullifiers::update_with` and  *)
(* the compact-block format (a Sapling transaction carries a list of spends and a list of        *)
(* outputs; an Orchard/Ironwood transaction a list of actions, each one spend + one output).      *)
(*                                                                                                *)
(*   pools     "S" Sapling, "O" Orchard, "I" Ironwood, always considered in this order            *)
(*   prior     [k |-> "none"]  or  [k |-> "some", h, hash, sz : [pool -> Nat or Unknown]]         *)
(*   block     [h, hash, prev, bad (a header-level field that cannot be parsed: "none", or         *)
(*              "txid_len" "hash_len" "prev_len" "height_big" "txindex_big"),                      *)
(*              act : [pool -> BOOLEAN]  (pool activated at height h),                            *)
(*              meta : [k |-> "absent"] or [k |-> "given", sz : [pool -> Nat]],                   *)
(*              txs : Seq([pool -> [sp : Seq(Spend), out : Seq(Out)]])]                           *)
(*   Out       [o |-> owner, v |-> value, n |-> note id (0: none)],                               *)
(*             owner in "a1e" "a1i" "a2e" "a2i" (account.scope), "f" foreign, "m" malformed       *)
(*   Spend     [k |-> "t" (reveals the nullifier of note n) | "u" (some other nullifier)          *)
(*                    | "m" (malformed), n]                                                       *)
(*   keys      the owners whose incoming viewing key the scanner holds                            *)
(*   tracked   set of [n, p, a]: nullifier of note n of pool p, belonging to account a            *)
(*                                                                                                *)
(* hash / prev are opaque tags: the block connects iff prev = prior.hash.                         *)
EXTENDS Integers, Sequences, FiniteSets

PoolSeq == << "S", "O", "I" >>
Pools   == { "S", "O", "I" }
Unknown == -1

AcctOf(o)  == IF o \in { "a1e", "a1i" } THEN 1 ELSE IF o \in { "a2e", "a2i" } THEN 2 ELSE 0
ScopeOf(o) == IF o \in { "a1i", "a2i" } THEN "int" ELSE "ext"

--------------------------------------------------------------------------------
\* counting commitments

RECURSIVE OutsUpTo(_, _, _)
\* number of outputs of pool p in transactions 1..k
OutsUpTo(txs, p, k) == IF k = 0 THEN 0 ELSE OutsUpTo(txs, p, k - 1) + Len(txs[k][p].out)

Count(b, p) == OutsUpTo(b.txs, p, Len(b.txs))

--------------------------------------------------------------------------------
\* continuity and metadata

HeightErr(prior, b) == prior.k = "some" /\ b.h # prior.h + 1
HashErr(prior, b)   == prior.k = "some" /\ b.prev # prior.hash
PriorSize(prior, p) == IF prior.k = "some" THEN prior.sz[p] ELSE Unknown

\* Size of pool p's note commitment tree before the block: the size the caller knows for the
\* previous block; failing that, what the block's own metadata implies; failing that, zero below
\* the pool's activation and undeterminable at or above it.
StartOf(prior, b, p) ==
    IF PriorSize(prior, p) # Unknown THEN [ok |-> TRUE, n |-> PriorSize(prior, p)]
    ELSE IF b.meta.k = "absent"
         THEN IF b.act[p] THEN [ok |-> FALSE, err |-> "TreeSizeUnknown"] ELSE [ok |-> TRUE, n |-> 0]
    ELSE IF b.meta.sz[p] < Count(b, p) THEN [ok |-> FALSE, err |-> "TreeSizeInvalid"]
    ELSE [ok |-> TRUE, n |-> b.meta.sz[p] - Count(b, p)]

\* the metadata of the block, when given, must state start + count for every pool
Mismatch(prior, b, p) ==
    /\ b.meta.k = "given"
    /\ StartOf(prior, b, p).ok
    /\ b.meta.sz[p] # StartOf(prior, b, p).n + Count(b, p)

Malformed(b) ==
    \E t \in 1..Len(b.txs), p \in Pools :
        \/ \E i \in 1..Len(b.txs[t][p].sp)  : b.txs[t][p].sp[i].k = "m"
        \/ \E i \in 1..Len(b.txs[t][p].out) : b.txs[t][p].out[i].o = "m"

Opt(c, x) == IF c THEN << x >> ELSE << >>

\* A header-level field of the block or of one of its transactions has the wrong length or does not
\* fit its type (txid, block hash, previous hash - looked at only when there is a prior block -,
\* height >= 2^32, transaction index >= 2^16).  The block must be rejected; the error class is not
\* specified (ScanError has no variant that names these fields), so the comparison accepts any.
HeaderMalformed(prior, b) == b.bad # "none" /\ (b.bad = "prev_len" => prior.k = "some")

\* every defect class the block exhibits, in the order the scanner is documented to look:
\* continuity of height, then of hash; the start sizes pool by pool; the encodings while walking the
\* transactions; the end-of-block consistency pool by pool.
Defects(prior, b) ==
    Opt(HeaderMalformed(prior, b), "MalformedHeader")
    \o Opt(HeightErr(prior, b), "BlockHeightDiscontinuity")
    \o Opt(HashErr(prior, b), "PrevHashMismatch")
    \o Opt(~StartOf(prior, b, "S").ok, StartOf(prior, b, "S").err)
    \o Opt(~StartOf(prior, b, "O").ok, StartOf(prior, b, "O").err)
    \o Opt(~StartOf(prior, b, "I").ok, StartOf(prior, b, "I").err)
    \o Opt(Malformed(b), "EncodingInvalid")
    \o Opt(Mismatch(prior, b, "S"), "TreeSizeMismatch")
    \o Opt(Mismatch(prior, b, "O"), "TreeSizeMismatch")
    \o Opt(Mismatch(prior, b, "I"), "TreeSizeMismatch")

--------------------------------------------------------------------------------
\* the scanned block

Start(prior, b) == [p \in Pools |-> StartOf(prior, b, p).n]
Final(prior, b) == [p \in Pools |-> StartOf(prior, b, p).n + Count(b, p)]

\* a spend of pool p is the wallet's iff it reveals a tracked nullifier *of that pool*
TrackedBy(sp, p, tracked) == { tr \in tracked : sp.k = "t" /\ tr.n = sp.n /\ tr.p = p }
IsSpent(sp, p, tracked)   == TrackedBy(sp, p, tracked) # { }

RECURSIVE SeqOfSet(_)
SeqOfSet(S) == IF S = { } THEN << >> ELSE LET x == CHOOSE y \in S : TRUE IN << x >> \o SeqOfSet(S \ { x })

\* flatten [i \in 1..n |-> a sequence] in order
RECURSIVE Flat(_, _)
Flat(f, n) == IF n = 0 THEN << >> ELSE Flat(f, n - 1) \o f[n]

SpentOfTxPool(tx, t, p, tracked) ==
    Flat([i \in 1..Len(tx[p].sp) |->
            IF IsSpent(tx[p].sp[i], p, tracked)
            THEN << [t |-> t, p |-> p, i |-> i - 1, n |-> tx[p].sp[i].n,
                     a |-> (CHOOSE tr \in TrackedBy(tx[p].sp[i], p, tracked) : TRUE).a] >>
            ELSE << >>], Len(tx[p].sp))

SpentOfTx(tx, t, tracked) ==
    SpentOfTxPool(tx, t, "S", tracked) \o SpentOfTxPool(tx, t, "O", tracked) \o SpentOfTxPool(tx, t, "I", tracked)

SpentAccts(tx, tracked) == LET s == SpentOfTx(tx, 0, tracked) IN { s[i].a : i \in 1..Len(s) }

\* indices (0-based) of the spends of pool p in tx that are not the wallet's, in order
UnlinkedOfTxPool(tx, p, tracked) ==
    Flat([i \in 1..Len(tx[p].sp) |-> IF IsSpent(tx[p].sp[i], p, tracked) THEN << >> ELSE << i - 1 >>],
         Len(tx[p].sp))

RecvOfTxPool(prior, b, t, p, keys, tracked) ==
    LET tx == b.txs[t]
        before == StartOf(prior, b, p).n + OutsUpTo(b.txs, p, t - 1)
    IN  Flat([i \in 1..Len(tx[p].out) |->
                LET o == tx[p].out[i] IN
                IF o.o \in keys
                THEN << [t |-> t, p |-> p, i |-> i - 1, a |-> AcctOf(o.o), sc |-> ScopeOf(o.o), v |-> o.v,
                         pos |-> before + i - 1,
                         chg |-> AcctOf(o.o) \in SpentAccts(tx, tracked),
                         n |-> o.n] >>
                ELSE << >>], Len(tx[p].out))

RecvOfTx(prior, b, t, keys, tracked) ==
    RecvOfTxPool(prior, b, t, "S", keys, tracked) \o RecvOfTxPool(prior, b, t, "O", keys, tracked)
    \o RecvOfTxPool(prior, b, t, "I", keys, tracked)

\* every commitment of pool p in block order; retention: C = checkpoint at the block's height,
\* M = marked, CM = both, E = neither
CmsOfPool(b, p, keys) ==
    Flat([t \in 1..Len(b.txs) |->
            [i \in 1..Len(b.txs[t][p].out) |->
                LET last == OutsUpTo(b.txs, p, t - 1) + i = Count(b, p)
                    mine == b.txs[t][p].out[i].o \in keys
                IN  [t |-> t, i |-> i - 1,
                     ret |-> IF last THEN (IF mine THEN "CM" ELSE "C") ELSE IF mine THEN "M" ELSE "E"]]],
         Len(b.txs))

Scanned(prior, b, keys, tracked) ==
    LET n == Len(b.txs)
        recv  == Flat([t \in 1..n |-> RecvOfTx(prior, b, t, keys, tracked)], n)
        spent == Flat([t \in 1..n |-> SpentOfTx(b.txs[t], t, tracked)], n)
    IN  [ok    |-> TRUE,
         start |-> Start(prior, b),
         final |-> Final(prior, b),
         recv  |-> recv,
         spent |-> spent,
         \* the transactions reported: those with a wallet output or a wallet spend, in block order
         wtx   |-> Flat([t \in 1..n |->
                          IF RecvOfTx(prior, b, t, keys, tracked) # << >> \/ SpentOfTx(b.txs[t], t, tracked) # << >>
                          THEN << t >> ELSE << >>], n),
         cms   |-> [p \in Pools |-> CmsOfPool(b, p, keys)],
         \* per pool, per transaction (all of them), the spends that are not the wallet's
         unl   |-> [p \in Pools |-> [t \in 1..n |-> UnlinkedOfTxPool(b.txs[t], p, tracked)]]]

ScanBlock(prior, b, keys, tracked) ==
    LET d == Defects(prior, b)
    IN  IF d # << >> THEN [ok |-> FALSE, err |-> d[1], all |-> d]
        ELSE Scanned(prior, b, keys, tracked)

--------------------------------------------------------------------------------
\* a range of blocks scanned in order (what `scan_cached_blocks` does before it writes anything):
\* each block against the metadata of the one before and against the tracked set updated with the
\* previous blocks' spends and receipts; the first defective block rejects the whole range.

MetaAfter(b, r) == [k |-> "some", h |-> b.h, hash |-> b.hash, sz |-> r.final]

TrackedAfter(tracked, r) ==
    { tr \in tracked : \A i \in 1..Len(r.spent) : r.spent[i].n # tr.n \/ r.spent[i].p # tr.p }
    \cup { [n |-> r.recv[i].n, p |-> r.recv[i].p, a |-> r.recv[i].a] : i \in { j \in 1..Len(r.recv) : r.recv[j].n > 0 } }

RECURSIVE RangeRec(_, _, _, _, _, _)
RangeRec(prior, blocks, keys, tracked, k, acc) ==
    IF k > Len(blocks) THEN [ok |-> TRUE, at |-> 0, res |-> acc]
    ELSE LET r == ScanBlock(prior, blocks[k], keys, tracked)
         IN  IF ~r.ok THEN [ok |-> FALSE, at |-> k, res |-> Append(acc, r)]
             ELSE RangeRec(MetaAfter(blocks[k], r), blocks, keys, TrackedAfter(tracked, r), k + 1, Append(acc, r))

ScanRange(prior, blocks, keys, tracked) == RangeRec(prior, blocks, keys, tracked, 1, << >>)

--------------------------------------------------------------------------------
\* Theorems about the definition (checked by TLC over finite domains in MC_ScanBlock)

AllOuts(b) == UNION { { << t, p, i - 1 >> : i \in 1..Len(b.txs[t][p].out) } : t \in 1..Len(b.txs), p \in Pools }
AllSpends(b) == UNION { { << t, p, i - 1 >> : i \in 1..Len(b.txs[t][p].sp) } : t \in 1..Len(b.txs), p \in Pools }
SeqToSet(s) == { s[i] : i \in 1..Len(s) }

\* position of every commitment (wallet's or not) as the k-th leaf appended for its pool
PosOfOut(prior, b, t, p, i) == StartOf(prior, b, p).n + OutsUpTo(b.txs, p, t - 1) + i

\* r is ScanBlock(prior, b, keys, tracked); passed in so that TLC evaluates it once per theorem
ThmPositionsR(r, prior, b) ==
    r.ok =>
      /\ \A p \in Pools :
           LET outs == { o \in AllOuts(b) : o[2] = p }
               posns == { PosOfOut(prior, b, o[1], p, o[3]) : o \in outs }
           IN  \* the commitments of the pool, in the order returned, occupy start .. final-1 exactly once
               /\ Len(r.cms[p]) = r.final[p] - r.start[p]
               /\ \A k \in 1..Len(r.cms[p]) :
                     PosOfOut(prior, b, r.cms[p][k].t, p, r.cms[p][k].i) = r.start[p] + k - 1
               /\ Cardinality(posns) = Cardinality(outs)                 \* injective
               /\ posns = r.start[p] .. (r.final[p] - 1)                 \* onto
      /\ \A k \in 1..Len(r.recv) :
            r.recv[k].pos = PosOfOut(prior, b, r.recv[k].t, r.recv[k].p, r.recv[k].i)

ThmPartitionR(r, b, keys, tracked) ==
    LET got == { << r.recv[k].t, r.recv[k].p, r.recv[k].i >> : k \in 1..Len(r.recv) }
        mine == { o \in AllOuts(b) : b.txs[o[1]][o[2]].out[o[3] + 1].o \in keys }
        sp == { << r.spent[k].t, r.spent[k].p, r.spent[k].i >> : k \in 1..Len(r.spent) }
        unl == UNION { { << t, p, r.unl[p][t][k] >> : k \in 1..Len(r.unl[p][t]) } : t \in 1..Len(b.txs), p \in Pools }
    IN  r.ok =>
          /\ got = mine /\ Len(r.recv) = Cardinality(got)             \* exactly the wallet's, each once
          /\ sp \cap unl = { } /\ sp \cup unl = AllSpends(b)          \* spends: wallet's + unlinked = all
          /\ Len(r.spent) = Cardinality(sp)
          /\ \A k \in 1..Len(r.spent) :
                \E tr \in tracked : tr.n = r.spent[k].n /\ tr.p = r.spent[k].p /\ tr.a = r.spent[k].a
          \* marked exactly on the wallet's outputs; one checkpoint per pool with commitments, on the last
          /\ \A p \in Pools :
                /\ \A k \in 1..Len(r.cms[p]) :
                      /\ (r.cms[p][k].ret \in { "M", "CM" }) <=> (<< r.cms[p][k].t, p, r.cms[p][k].i >> \in mine)
                      /\ (r.cms[p][k].ret \in { "C", "CM" }) <=> (k = Len(r.cms[p]))
          \* change: the receiving account also spent in the same transaction (any pool)
          /\ \A k \in 1..Len(r.recv) :
                r.recv[k].chg <=> \E j \in 1..Len(r.spent) : r.spent[j].t = r.recv[k].t /\ r.spent[j].a = r.recv[k].a
          /\ SeqToSet(r.wtx) = { x[1] : x \in got \cup sp }

\* rejected iff some defect; continuity precedes everything and height precedes hash
ThmErrorsR(r, prior, b) ==
    /\ r.ok <=> Defects(prior, b) = << >>
    /\ HeaderMalformed(prior, b) => ~r.ok /\ r.err = "MalformedHeader"
    /\ (~HeaderMalformed(prior, b) /\ HeightErr(prior, b)) => ~r.ok /\ r.err = "BlockHeightDiscontinuity"
    /\ (~HeaderMalformed(prior, b) /\ ~HeightErr(prior, b) /\ HashErr(prior, b)) => ~r.ok /\ r.err = "PrevHashMismatch"
    /\ (prior.k = "none") => (r.ok \/ r.err \notin { "BlockHeightDiscontinuity", "PrevHashMismatch" })
    /\ (~r.ok /\ r.err = "TreeSizeMismatch") => b.meta.k = "given"
    /\ (~r.ok /\ r.err \in { "TreeSizeUnknown", "TreeSizeInvalid" }) => \E p \in Pools : PriorSize(prior, p) = Unknown

\* only whether the tags match matters, not the tags
ThmHashTagR(r, prior, b, keys, tracked, Tags) ==
    (prior.k = "some" /\ b.prev = prior.hash) =>
       \A x \in Tags : ScanBlock([prior EXCEPT !.hash = x], [b EXCEPT !.prev = x], keys, tracked) = r

\* a range of one block is that block
ThmRangeOfOneR(r, prior, b, keys, tracked) ==
    LET g == ScanRange(prior, << b >>, keys, tracked)
    IN  g.ok = r.ok /\ g.res = << r >> /\ (g.ok <=> g.at = 0)

Theorems(prior, b, keys, tracked, Tags) ==
    LET r == ScanBlock(prior, b, keys, tracked) IN
    /\ ThmPositionsR(r, prior, b)
    /\ ThmPartitionR(r, b, keys, tracked)
    /\ ThmErrorsR(r, prior, b)
    /\ ThmHashTagR(r, prior, b, keys, tracked, Tags)
    /\ ThmRangeOfOneR(r, prior, b, keys, tracked)
================================================================================
