----------------------------- MODULE Eval_ScanBlock -----------------------------
(* Evaluates the definition on abstract cases supplied from outside (seeded random big shapes,     *)
(* padded blocks around the batching threshold, ranges for the wallet) and prints the prediction   *)
(* for each: the spec -> code replay compares the real scanner with these.                         *)
(*   line  = [kind |-> "block", prior, block, keys, tracked]   ->  ScanBlock                        *)
(*           [kind |-> "range", prior, blocks, keys, tracked]  ->  ScanRange                        *)
EXTENDS ScanBlock, TLC, Json, IOUtils

Cases == ndJsonDeserialize(IOEnv.CASES)

VARIABLE l

Pred(c) ==
    IF c.kind = "block"
    THEN ScanBlock(c.prior, c.block, SeqToSet(c.keys), SeqToSet(c.tracked))
    ELSE ScanRange(c.prior, c.blocks, SeqToSet(c.keys), SeqToSet(c.tracked))

Init == l = 1
Next == /\ l <= Len(Cases)
        /\ PrintT(<< "PRED", ToJson([i |-> l, exp |-> Pred(Cases[l])]) >>)
        /\ l' = l + 1
Spec == Init /\ [][Next]_l
================================================================================
