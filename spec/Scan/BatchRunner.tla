------------------------------ MODULE BatchRunner ------------------------------
(* C05, the concurrent part: the batched trial-decryption runner of zcash_client_backend::scan,   *)
(* one action per critical section.                                                                *)
(*                                                                                                  *)
(* The scanning thread ("main") first adds every transaction of every block of the range          *)
(* (add_outputs: one unbounded channel per transaction and pool, its receiver registered under    *)
(* (block, txid), one sender clone per output placed in the accumulating batch; the batch is       *)
(* flushed to the worker pool when it holds >= Threshold outputs), flushes once more, and then    *)
(* collects the transactions in the same order (collect_results: blocks until every sender of that *)
(* transaction's channel has been dropped, then returns what was sent).  Pool workers take        *)
(* flushed batches in FIFO order and, output by output, send the decryptable ones; the senders of  *)
(* a batch are gone when the batch has finished.                                                   *)
(*                                                                                                  *)
(* Workload: a sequence of add_outputs calls [r |-> runner, b |-> block, id |-> txid,               *)
(* outs |-> Seq(BOOLEAN)] (TRUE: the output decrypts under one of the keys).  There is one runner  *)
(* per shielded pool (BatchRunners: Sapling, Orchard, Ironwood), each with its own accumulating    *)
(* batch and its own receiver map; all of them hand their batches to the same pool.  A transaction *)
(* (b, id) makes one call per runner, in runner order, so its outputs can sit in several batches - *)
(* one per pool -, while the outputs a transaction has in ONE pool are always added to one batch   *)
(* (the threshold is tested after the whole call).  Keys (r, b, id) are distinct; txids may repeat *)
(* across blocks.  With Runners = 1 a call is simply a transaction.                                *)
EXTENDS Integers, Sequences, FiniteSets, TLC

CONSTANTS MaxTxs,        \* workloads have at most this many transactions
          MaxOuts,       \* each with at most this many outputs
          MaxThreshold,  \* thresholds 1..MaxThreshold
          MaxWorkers,    \* pools of 1..MaxWorkers workers
          Runners,       \* batch runners (one per shielded pool): 1..Runners
          FinalFlush,    \* safeguard: the explicit flush after the last add          (scan_cached_blocks)
          KeyWithBlock   \* safeguard: receivers are keyed by (block, txid), not txid (ResultKey)

VARIABLES wl,        \* the workload (chosen initially, then constant)
          thr, nw,   \* threshold and pool size (chosen initially)
          pc,        \* main thread: << "add", k >>, << "flush", r >>, << "collect", k >>, << "done" >>
          acc,       \* [runner -> accumulating batch: sequence of << k, i >> (output i of call k)]
          queue,     \* flushed batches not yet taken by a worker (FIFO), each a sequence of << k, i >>
          running,   \* [worker -> [items, next]] or NoBatch
          chan,      \* [k -> sequence of output indices sent so far]
          senders,   \* [k -> number of live sender clones of transaction k's channel]
          pending,   \* registered receivers (of all runners): function from key to k
          result     \* [k -> set collected] once collected, else NotYet

vars == << wl, thr, nw, pc, acc, queue, running, chan, senders, pending, result >>

NoBatch == [items |-> << >>, next |-> 0]
NotYet  == { -1 }

SeqsUpTo(S, n) == UNION { [1..k -> S] : k \in 0..n }
TxShapes == SeqsUpTo(BOOLEAN, MaxOuts)
\* block by block, transaction by transaction, runner by runner (add_block)
Before(x, y) == \/ x.b < y.b
                \/ x.b = y.b /\ x.id < y.id
                \/ x.b = y.b /\ x.id = y.id /\ x.r < y.r
\* a well-formed workload: calls in the order add_block makes them (hence with distinct keys), ...
WellFormed(w) ==
    /\ \A i, j \in 1..Len(w) : i < j => Before(w[i], w[j])
    \* ... symmetry reduction: ids are used in order within a block
    /\ \A i \in 1..Len(w) : w[i].id = 2 => \E j \in 1..(i - 1) : w[j].b = w[i].b /\ w[j].id = 1
\* transactions of up to two blocks; the same txid (1) may occur in both
Workloads ==
    { w \in SeqsUpTo([r : 1..Runners, b : 1..2, id : 1..2, outs : TxShapes], MaxTxs) : WellFormed(w) }

Key(k) == IF KeyWithBlock THEN << wl[k].r, wl[k].b, wl[k].id >> ELSE << wl[k].r, wl[k].id >>

Init ==
    /\ wl \in Workloads /\ thr \in 1..MaxThreshold /\ nw \in 1..MaxWorkers
    /\ pc = << "add", 1 >>
    /\ acc = [r \in 1..Runners |-> << >>] /\ queue = << >>
    /\ running = [w \in 1..MaxWorkers |-> NoBatch]
    /\ chan = [k \in 1..Len(wl) |-> << >>]
    /\ senders = [k \in 1..Len(wl) |-> 0]
    /\ pending = << >>
    /\ result = [k \in 1..Len(wl) |-> NotYet]

\* main: add_outputs(block, txid, outputs) - and the flush at the threshold
Add ==
    /\ pc[1] = "add" /\ pc[2] <= Len(wl)
    /\ LET k == pc[2]
           r == wl[k].r
           items == [i \in 1..Len(wl[k].outs) |-> << k, i >>]
           acc2 == acc[r] \o items
       IN  /\ senders' = [senders EXCEPT ![k] = Len(wl[k].outs)]
           /\ pending' = [x \in (DOMAIN pending) \cup { Key(k) } |-> IF x = Key(k) THEN k ELSE pending[x]]
           /\ IF Len(acc2) >= thr
              THEN acc' = [acc EXCEPT ![r] = << >>] /\ queue' = Append(queue, acc2)
              ELSE acc' = [acc EXCEPT ![r] = acc2] /\ queue' = queue
           /\ pc' = IF k = Len(wl) THEN << "flush", 1 >> ELSE << "add", k + 1 >>
    /\ UNCHANGED << wl, thr, nw, running, chan, result >>

AddNone == \* empty workload
    /\ pc[1] = "add" /\ pc[2] > Len(wl) /\ pc' = << "flush", 1 >>
    /\ UNCHANGED << wl, thr, nw, acc, queue, running, chan, senders, pending, result >>

\* main: the explicit flush at the end of the range, runner by runner
Flush ==
    /\ pc[1] = "flush"
    /\ LET r == pc[2] IN
       /\ IF FinalFlush /\ acc[r] # << >>
          THEN acc' = [acc EXCEPT ![r] = << >>] /\ queue' = Append(queue, acc[r])
          ELSE UNCHANGED << acc, queue >>
       /\ pc' = IF r < Runners THEN << "flush", r + 1 >>
                ELSE IF Len(wl) = 0 THEN << "done" >> ELSE << "collect", 1 >>
    /\ UNCHANGED << wl, thr, nw, running, chan, senders, pending, result >>

\* an idle worker takes the oldest flushed batch
Start(w) ==
    /\ w <= nw /\ running[w] = NoBatch /\ queue # << >>
    /\ running' = [running EXCEPT ![w] = [items |-> Head(queue), next |-> 1]]
    /\ queue' = Tail(queue)
    /\ UNCHANGED << wl, thr, nw, pc, acc, chan, senders, pending, result >>

\* worker w handles the next output of its batch: sends it iff it decrypts
RunOutput(w) ==
    /\ running[w] # NoBatch /\ running[w].next <= Len(running[w].items)
    /\ LET it == running[w].items[running[w].next]
           k == it[1]  i == it[2]
       IN  chan' = IF wl[k].outs[i] THEN [chan EXCEPT ![k] = Append(@, i)] ELSE chan
    /\ running' = [running EXCEPT ![w].next = @ + 1]
    /\ UNCHANGED << wl, thr, nw, pc, acc, queue, senders, pending, result >>

\* the batch has run: its senders are dropped
Finish(w) ==
    /\ running[w] # NoBatch /\ running[w].next > Len(running[w].items)
    /\ senders' = [k \in 1..Len(wl) |->
                     senders[k] - Cardinality({ j \in 1..Len(running[w].items) : running[w].items[j][1] = k })]
    /\ running' = [running EXCEPT ![w] = NoBatch]
    /\ UNCHANGED << wl, thr, nw, pc, acc, queue, chan, pending, result >>

\* main: collect_results(block, txid) - blocks until the channel is disconnected
Collect ==
    /\ pc[1] = "collect"
    /\ LET k == pc[2] IN
       /\ IF Key(k) \in DOMAIN pending
          THEN LET r == pending[Key(k)] IN
               /\ senders[r] = 0
               /\ result' = [result EXCEPT ![k] = { chan[r][j] : j \in 1..Len(chan[r]) }]
               /\ pending' = [x \in (DOMAIN pending) \ { Key(k) } |-> pending[x]]
          ELSE result' = [result EXCEPT ![k] = { }] /\ pending' = pending
       /\ pc' = IF k = Len(wl) THEN << "done" >> ELSE << "collect", k + 1 >>
    /\ UNCHANGED << wl, thr, nw, acc, queue, running, chan, senders >>

Done == pc[1] = "done" /\ UNCHANGED vars     \* termination is not a deadlock

Next == Add \/ AddNone \/ Flush \/ Collect \/ Done \/ \E w \in 1..MaxWorkers : Start(w) \/ RunOutput(w) \/ Finish(w)

Spec == Init /\ [][Next]_vars
FairSpec == Spec /\ WF_vars(Next)

--------------------------------------------------------------------------------
Decryptable(k) == { i \in 1..Len(wl[k].outs) : wl[k].outs[i] }

\* what has been collected is exactly the decryptable outputs of that transaction ...
CollectExact == \A k \in 1..Len(wl) : result[k] # NotYet => result[k] = Decryptable(k)
\* ... each once (nothing is ever sent twice, nor to another transaction's channel)
SentOnce == \A k \in 1..Len(wl) :
               /\ \A i, j \in 1..Len(chan[k]) : i # j => chan[k][i] # chan[k][j]
               /\ \A j \in 1..Len(chan[k]) : chan[k][j] \in Decryptable(k)
SendersOk == \A k \in 1..Len(wl) : senders[k] >= 0
\* every run ends with everything collected
Terminates == <>(pc[1] = "done")
================================================================================
