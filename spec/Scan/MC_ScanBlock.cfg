\* the continuity / metadata lattice over a few fixed transactions (the check generates the other
\* families' cfgs: see checks/c05.py)
SPECIFICATION Spec
CONSTANTS
  Family = "D"
  OnePool = "S"
  OwnersDom = {"a1e", "f"}
  SpendsDom = {"t1", "u"}
  ActionShaped = FALSE
  MaxTx = 1
  MaxOut = 1
  MaxSp = 1
  Emit = FALSE
INVARIANTS AllTheorems
CHECK_DEADLOCK FALSE
