---------------------------- MODULE Emit_BatchRunner ----------------------------
(* C05, "the result is the same whether trial decryption runs inline or batched across any number *)
(* of threads": emission of SCHEDULES for the spec -> code replay.                                  *)
(*                                                                                                  *)
(* The code under test can (verification hook zcash_client_backend::scan::verif) queue the batch   *)
(* tasks a range produces and run them in a chosen order before the first result is collected, so  *)
(* the ORDER IN WHICH THE TASKS COMPLETE is an input the harness controls.  This module            *)
(*                                                                                                  *)
(*  1. (FamilySpec) enumerates a finite family of configurations (workload x threshold) of the     *)
(*     batched decryptor of BatchRunner.tla with two runners (pools) in which 2..MaxTasks tasks    *)
(*     arise, and prints each with the partition of its outputs into tasks - TasksOf, a function   *)
(*     of workload and threshold alone - and its classification (a transaction whose outputs sit   *)
(*     in two tasks; a task holding outputs of two transactions / of two blocks; a call larger     *)
(*     than the threshold):                <<"CONF", json>>                                         *)
(*  2. (SchedSpec) for configurations chosen from that family (IOEnv.CONFS, ndjson) explores EVERY *)
(*     interleaving of BatchRunner's critical sections with as many workers as there are tasks,    *)
(*     records the order in which the tasks finish (history variables), and prints at the end of   *)
(*     every run the completion order together with what Collect returned:                         *)
(*                                         <<"SCHED", json>>                                        *)
(*     TLC checks on all of them: ScheduleIndependent (what is collected is a function of the      *)
(*     workload alone - neither the completion order nor the threshold nor the pool size occur in  *)
(*     it), PartitionIsTasksOf (the batches the actions flush are TasksOf), OrderIsPermutation,    *)
(*     and BatchRunner's own CollectExact / SentOnce / SendersOk and deadlock freedom.             *)
EXTENDS BatchRunner, Json, IOUtils

CONSTANTS MaxTasks,      \* configurations of the family have 2..MaxTasks tasks (at least MinTasks)
          MinTasks,
          FamThresholds, \* thresholds of the family
          ShapeSet       \* "small" | "full": output shapes of a call in the family

VARIABLES cid,       \* index of the configuration (SchedSpec)
          flushed,   \* history: every batch handed to the pool, in flush order (task j = flushed[j])
          rtask,     \* history: [worker -> index of the task it is running, 0 if idle]
          fin        \* history: task indices in the order the tasks finished

hist == << cid, flushed, rtask, fin >>
evars == << vars, hist >>

--------------------------------------------------------------------------------
\* The partition of a workload's outputs into tasks: a definition (no actions).
RECURSIVE FinalPart(_, _, _)
FinalPart(a, q, r) ==
    IF r > Runners THEN q
    ELSE FinalPart(a, IF a[r] # << >> THEN Append(q, a[r]) ELSE q, r + 1)

RECURSIVE Part(_, _, _, _, _)
Part(w, t, k, a, q) ==
    IF k > Len(w) THEN FinalPart(a, q, 1)
    ELSE LET r == w[k].r
             a2 == a[r] \o [i \in 1..Len(w[k].outs) |-> << k, i >>]
         IN  IF Len(a2) >= t
             THEN Part(w, t, k + 1, [a EXCEPT ![r] = << >>], Append(q, a2))
             ELSE Part(w, t, k + 1, [a EXCEPT ![r] = a2], q)

TasksOf(w, t) == Part(w, t, 1, [r \in 1..Runners |-> << >>], << >>)

\* classification of a configuration
CallsOf(task) == { task[j][1] : j \in 1..Len(task) }
TxOfCall(w, k) == << w[k].b, w[k].id >>
SplitTx(w, ts) ==       \* one transaction's outputs sit in two tasks
    \E i, j \in 1..Len(ts) : i # j /\ \E k \in CallsOf(ts[i]), m \in CallsOf(ts[j]) : TxOfCall(w, k) = TxOfCall(w, m)
MultiTx(w, ts) ==       \* a task holds outputs of two transactions
    \E i \in 1..Len(ts) : \E k, m \in CallsOf(ts[i]) : TxOfCall(w, k) # TxOfCall(w, m)
MultiBlock(w, ts) ==    \* a task holds outputs of two blocks
    \E i \in 1..Len(ts) : \E k, m \in CallsOf(ts[i]) : w[k].b # w[m].b
BigCall(w, t) == \E k \in 1..Len(w) : Len(w[k].outs) > t
EveryTaskFinds(w, ts) == \* every task holds an output that decrypts
    \A i \in 1..Len(ts) : \E j \in 1..Len(ts[i]) : w[ts[i][j][1]].outs[ts[i][j][2]]

--------------------------------------------------------------------------------
\* 1. the family
Shapes == IF ShapeSet = "small"
          THEN { << TRUE >>, << FALSE, TRUE >>, << TRUE, FALSE, TRUE >> }
          ELSE { << TRUE >>, << FALSE >>, << FALSE, TRUE >>, << TRUE, FALSE, TRUE >> }

CallKeys == [r : 1..Runners, b : 1..2, id : 1..2]
\* the calls of a workload, sorted as add_block makes them
RECURSIVE SortedKeys(_)
SortedKeys(S) ==
    IF S = { } THEN << >>
    ELSE LET m == CHOOSE x \in S : \A y \in S \ { x } : Before(x, y)
         IN  << m >> \o SortedKeys(S \ { m })

FamilyWorkloads ==
    UNION { LET ks == SortedKeys(K) IN
            { [i \in 1..Len(ks) |-> [r |-> ks[i].r, b |-> ks[i].b, id |-> ks[i].id, outs |-> sh[i]]] :
                sh \in [1..Len(ks) -> Shapes] } :
            K \in { K \in SUBSET CallKeys : Cardinality(K) \in 2..MaxTxs } }

ConfRec(w, t) ==
    LET ts == TasksOf(w, t) IN
    [thr |-> t, wl |-> w, tasks |-> ts, n |-> Len(ts),
     split |-> SplitTx(w, ts), multitx |-> MultiTx(w, ts), multiblock |-> MultiBlock(w, ts), big |-> BigCall(w, t),
     finds |-> EveryTaskFinds(w, ts)]

InFamily(w, t) ==
    /\ WellFormed(w)
    /\ LET ts == TasksOf(w, t) IN
       /\ Len(ts) \in MinTasks..MaxTasks
       /\ EveryTaskFinds(w, ts)
       /\ SplitTx(w, ts) \/ MultiTx(w, ts) \/ BigCall(w, t)

Idle ==
    /\ wl = << >> /\ thr = 1 /\ nw = 1 /\ pc = << "done" >>
    /\ acc = [r \in 1..Runners |-> << >>] /\ queue = << >>
    /\ running = [w \in 1..MaxWorkers |-> NoBatch]
    /\ chan = << >> /\ senders = << >> /\ pending = << >> /\ result = << >>
    /\ cid = 0 /\ flushed = << >> /\ rtask = [w \in 1..MaxWorkers |-> 0] /\ fin = << >>

FamilyInit ==
    /\ \A w \in FamilyWorkloads : \A t \in FamThresholds :
          InFamily(w, t) => PrintT(<< "CONF", ToJson(ConfRec(w, t)) >>)
    /\ Idle
FamilySpec == FamilyInit /\ [][UNCHANGED evars]_evars

--------------------------------------------------------------------------------
\* 2. schedules of chosen configurations
Confs == ndJsonDeserialize(IOEnv.CONFS)     \* lines [thr, wl]

SchedInit ==
    /\ cid \in 1..Len(Confs)
    /\ wl = Confs[cid].wl /\ thr = Confs[cid].thr
    \* as many workers as tasks (at most MaxWorkers): every completion order the pool could produce
    /\ LET n == Len(TasksOf(wl, thr)) IN nw = IF n = 0 THEN 1 ELSE IF n > MaxWorkers THEN MaxWorkers ELSE n
    /\ pc = << "add", 1 >>
    /\ acc = [r \in 1..Runners |-> << >>] /\ queue = << >>
    /\ running = [w \in 1..MaxWorkers |-> NoBatch]
    /\ chan = [k \in 1..Len(wl) |-> << >>]
    /\ senders = [k \in 1..Len(wl) |-> 0]
    /\ pending = << >>
    /\ result = [k \in 1..Len(wl) |-> NotYet]
    /\ flushed = << >> /\ rtask = [w \in 1..MaxWorkers |-> 0] /\ fin = << >>

\* BatchRunner's actions, with the history variables
Grown == IF Len(queue') > Len(queue) THEN Append(flushed, queue'[Len(queue')]) ELSE flushed
EAdd     == Add /\ flushed' = Grown /\ UNCHANGED << cid, rtask, fin >>
EAddNone == AddNone /\ UNCHANGED hist
EFlush   == Flush /\ flushed' = Grown /\ UNCHANGED << cid, rtask, fin >>
\* (symmetry reduction: the idle worker with the lowest number takes the batch)
EStart(w) == /\ \A v \in 1..(w - 1) : running[v] # NoBatch
             /\ Start(w)
             /\ rtask' = [rtask EXCEPT ![w] = Len(flushed) - Len(queue) + 1]
             /\ UNCHANGED << cid, flushed, fin >>
ERun(w)    == RunOutput(w) /\ UNCHANGED hist
EFinish(w) == Finish(w) /\ fin' = Append(fin, rtask[w]) /\ rtask' = [rtask EXCEPT ![w] = 0]
              /\ UNCHANGED << cid, flushed >>
ECollect   == Collect /\ UNCHANGED hist

Mask(k) == [i \in 1..Len(wl[k].outs) |-> i \in result[k]]
EDone ==
    /\ Done /\ UNCHANGED hist
    /\ PrintT(<< "SCHED", ToJson([c |-> cid, thr |-> thr, nw |-> nw, tasks |-> flushed, order |-> fin,
                                  got |-> [k \in 1..Len(wl) |-> Mask(k)]]) >>)

SchedNext == EAdd \/ EAddNone \/ EFlush \/ ECollect \/ EDone
             \/ \E w \in 1..MaxWorkers : EStart(w) \/ ERun(w) \/ EFinish(w)
SchedSpec == SchedInit /\ [][SchedNext]_evars

--------------------------------------------------------------------------------
Finished == pc[1] = "done"
\* THE THEOREM: what the collection returns is a function of the workload alone - the right-hand
\* side mentions neither the completion order (fin) nor the threshold, the partition or the pool size
ScheduleIndependent == Finished => result = [k \in 1..Len(wl) |-> { i \in 1..Len(wl[k].outs) : wl[k].outs[i] }]
\* the batches the actions hand to the pool are the partition the definition computes
PartitionIsTasksOf == pc[1] \in { "collect", "done" } => flushed = TasksOf(wl, thr)
\* every task finished exactly once
OrderIsPermutation == Finished => /\ Len(fin) = Len(flushed)
                                  /\ { fin[j] : j \in 1..Len(fin) } = 1..Len(flushed)
================================================================================
