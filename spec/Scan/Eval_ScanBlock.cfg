SPECIFICATION Spec
CHECK_DEADLOCK FALSE
