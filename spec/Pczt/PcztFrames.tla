------------------------------------ MODULE PcztFrames -----------------------------------
(* C13 -- definitions shared by PcztRoles (the role state machine) and Trace_PcztRoles (validation *)
(* of logged role applications of the real code): for every role the FRAME -- the set of slot      *)
(* classes it may write, with the direction of the write -- none of which is an effect of the      *)
(* transaction; the Signer's / IO Finaliser's `tx_modifiable` discipline; the encoding rule.       *)
(* Written from the role descriptions in pczt/src/roles/*/mod.rs (module docs), the field docs of  *)
(* pczt/src/{common,transparent,sapling,orchard}.rs ("This is set by the ..."), BIP 174/370 and    *)
(* ZIP 374; not from the role implementations.                                                     *)
EXTENDS Naturals, FiniteSets, Sequences, TLC

\* ------------------------------------------------------------------------------------ bit fiddling
Bit(b, i)      == (b \div (2 ^ i)) % 2
ClearBit(b, i) == b - Bit(b, i) * (2 ^ i)
SetBit(b, i)   == b + (1 - Bit(b, i)) * (2 ^ i)

\* sighash type bytes (ZIP 244 / Bitcoin)
SIGHASH_ALL == 1
SIGHASH_NONE == 2
SIGHASH_SINGLE == 3
HasACP(ht)   == Bit(ht, 7) = 1                 \* SIGHASH_ANYONECANPAY = 0x80
BaseType(ht) == ClearBit(ht, 7)

\* common.rs, rustdoc of `tx_modifiable`:
\*  bit 0 "set to false by a Signer that adds a signature that does not use SIGHASH_ANYONECANPAY"
\*  bit 1 "set to false by a Signer that adds a signature that does not use SIGHASH_NONE"
\*  bit 2 "set to true by a Signer that adds a signature that uses SIGHASH_SINGLE"
\*  bit 7 "set to false by every Signer"
SignTransparentFlags(f, ht) ==
    LET f1 == IF HasACP(ht) THEN f ELSE ClearBit(f, 0)
        f2 == IF BaseType(ht) = SIGHASH_NONE THEN f1 ELSE ClearBit(f1, 1)
        f3 == IF BaseType(ht) = SIGHASH_SINGLE THEN SetBit(f2, 2) ELSE f2
    IN  ClearBit(f3, 7)
\* "... (which includes all shielded signatures)"
SignShieldedFlags(f) == ClearBit(ClearBit(ClearBit(f, 0), 1), 7)
\* bits 0, 1, 7: "set to false by the IO Finalizer if there are shielded spends or outputs"
IoFinalizeFlags(f, shielded) == IF shielded THEN SignShieldedFlags(f) ELSE f

\* ------------------------------------------------------------------------------------ slot classes
\* A class is the path of a field with list indices and map keys erased ("[]", "{}").
Pools == {"orchard", "ironwood"}

GlobalEffects == {"global.tx_version", "global.version_group_id", "global.consensus_branch_id",
                  "global.fallback_lock_time", "global.expiry_height", "global.coin_type"}
TransparentEffects ==
    {"transparent.inputs.#len", "transparent.outputs.#len"} \cup
    {"transparent.inputs[]." \o f : f \in {"prevout_txid", "prevout_index", "sequence", "required_time_lock_time",
                                          "required_height_lock_time", "value", "script_pubkey", "sighash_type"}} \cup
    {"transparent.outputs[]." \o f : f \in {"value", "script_pubkey"}}
SaplingEffects ==
    {"sapling.spends.#len", "sapling.outputs.#len", "sapling.value_sum"} \cup
    {"sapling.spends[]." \o f : f \in {"cv", "nullifier", "rk"}} \cup
    {"sapling.outputs[]." \o f : f \in {"cv", "cmu", "ephemeral_key", "enc_ciphertext", "out_ciphertext"}}
OrchardEffects(p) ==
    {p \o ".actions.#len", p \o ".flags", p \o ".value_sum.magnitude", p \o ".value_sum.negative", p \o ".note_version"} \cup
    {p \o ".actions[]." \o f : f \in {"spend.nullifier", "spend.rk", "output.ephemeral_key", "output.out_ciphertext"}}
\* effect fields a v2 PCZT may carry in compact form (recomputable from the note fields, ZIP 374)
Resolvable(p) == {p \o ".actions[].cv_net", p \o ".actions[].output.cmx", p \o ".actions[].output.enc_ciphertext"}
\* anchors are effecting data of a v5 transaction and authorising data of a v6 one
Anchors == {"sapling.anchor", "orchard.anchor", "ironwood.anchor"}

Protected == GlobalEffects \cup TransparentEffects \cup SaplingEffects \cup OrchardEffects("orchard") \cup OrchardEffects("ironwood")
AllResolvable == Resolvable("orchard") \cup Resolvable("ironwood")

\* what an Updater is documented to write
UpdatableMaps == {"global.proprietary{}"} \cup
    {"transparent.inputs[]." \o f : f \in {"bip32_derivation{}", "ripemd160_preimages{}", "sha256_preimages{}",
                                          "hash160_preimages{}", "hash256_preimages{}", "proprietary{}"}} \cup
    {"transparent.outputs[]." \o f : f \in {"bip32_derivation{}", "proprietary{}"}} \cup
    {"sapling.spends[].proprietary{}", "sapling.outputs[].proprietary{}"} \cup
    UNION {{p \o ".actions[].spend.proprietary{}", p \o ".actions[].output.proprietary{}"} : p \in Pools}
UpdatableOpts ==
    {"transparent.inputs[].redeem_script", "transparent.outputs[].redeem_script", "transparent.outputs[].user_address",
     "sapling.spends[].proof_generation_key", "sapling.spends[].witness", "sapling.spends[].zip32_derivation",
     "sapling.outputs[].zip32_derivation", "sapling.outputs[].user_address"} \cup
    UNION {{p \o ".actions[].spend.fvk", p \o ".actions[].spend.witness", p \o ".actions[].spend.zip32_derivation",
            p \o ".actions[].output.zip32_derivation", p \o ".actions[].output.user_address"} : p \in Pools}
Updatable == UpdatableMaps \cup UpdatableOpts

\* what the Spend Finaliser clears once script_sig is assembled (BIP 174: everything of the input but
\* the UTXO and proprietary data -- and not what the extractor still needs to compute the lock time)
FinalizeClears == {"transparent.inputs[]." \o f : f \in {"redeem_script", "partial_signatures{}", "bip32_derivation{}",
                     "ripemd160_preimages{}", "sha256_preimages{}", "hash160_preimages{}", "hash256_preimages{}"}}

Dirs == {"add", "del", "mod"}
ResolveWrites == {<<c, "add">> : c \in AllResolvable} \cup {<<c, "mod">> : c \in AllResolvable}
CompactWrites(p) == {<<c, "del">> : c \in Resolvable(p)} \cup {<<p \o ".actions[].output.enc_ciphertext", "mod">>}

\* Frame(role, arg): the writes <<class, direction>> the role may perform.  `arg` is the class (update,
\* redact) or pool (sign_s, prove, compact, set_anchor, set_witness) the application names.
Frame(role, arg, v6) ==
    CASE role = "update"     -> IF arg \in Updatable THEN {<<arg, "add">>, <<arg, "mod">>} \cup ResolveWrites ELSE {}
      [] role = "sign_t"     -> {<<"transparent.inputs[].partial_signatures{}", "add">>, <<"global.tx_modifiable", "mod">>}
                                \cup ResolveWrites
      [] role = "sign_s"     -> (IF arg = "sapling"
                                 THEN {<<"sapling.spends[].spend_auth_sig", "add">>, <<"sapling.spends[].spend_auth_sig", "mod">>}
                                 ELSE {<<arg \o ".actions[].spend.spend_auth_sig", "add">>, <<arg \o ".actions[].spend.spend_auth_sig", "mod">>})
                                \cup {<<"global.tx_modifiable", "mod">>} \cup ResolveWrites
      \* (proofs are randomised: proving again replaces the proof)
      [] role = "prove"      -> (IF arg = "sapling"
                                 THEN {<<"sapling.spends[].zkproof", d>> : d \in {"add", "mod"}} \cup
                                      {<<"sapling.outputs[].zkproof", d>> : d \in {"add", "mod"}}
                                 ELSE {<<arg \o ".zkproof", "add">>, <<arg \o ".zkproof", "mod">>}) \cup ResolveWrites
      [] role = "redact"     -> IF arg \in Protected \/ (arg \in Anchors /\ ~v6) THEN {} ELSE {<<arg, "del">>}
      [] role = "compact"    -> CompactWrites(arg)
      [] role = "resolve"    -> ResolveWrites
      [] role = "verify"     -> ResolveWrites
      [] role = "finalize"   -> {<<"transparent.inputs[].script_sig", "add">>} \cup {<<c, "del">> : c \in FinalizeClears}
      [] role = "set_anchor" -> IF v6 THEN {<<arg \o ".anchor", "add">>} ELSE {}
      [] role = "set_witness" -> {<<arg \o ".actions[].spend.witness", "add">>, <<arg \o ".actions[].spend.witness", "mod">>,
                                  <<"sapling.spends[].witness", "add">>, <<"sapling.spends[].witness", "mod">>}
      [] role = "reparse"    -> {}
      [] role = "io_finalize" -> {<<"global.tx_modifiable", "mod">>, <<"sapling.bsk", "add">>, <<"orchard.bsk", "add">>,
                                  <<"ironwood.bsk", "add">>, <<"sapling.spends[].spend_auth_sig", "add">>,
                                  <<"sapling.spends[].dummy_ask", "del">>} \cup
                                 UNION {{<<p \o ".actions[].spend.spend_auth_sig", "add">>, <<p \o ".actions[].spend.dummy_sk", "del">>} : p \in Pools}
                                 \cup ResolveWrites
      [] OTHER               -> {}

\* Combine may add whatever the other copy carried, never remove or alter, never touch an effect.
CombineWriteOK(c, d) ==
    \/ c = "global.tx_modifiable" /\ d = "mod"
    \/ d = "add" /\ c \notin Protected

FrameIsEffectFree ==
    \A role \in {"update", "sign_t", "sign_s", "prove", "redact", "compact", "resolve", "verify", "finalize",
                 "set_anchor", "set_witness", "reparse", "io_finalize"} :
      \A arg \in Updatable \cup Pools \cup {"sapling"} \cup Protected \cup Anchors : \A v6 \in BOOLEAN :
        \A w \in Frame(role, arg, v6) : w[1] \notin Protected /\ (w[1] \in Anchors => v6)

\* ------------------------------------------------------------------------------------ encoding rule
\* p: [txv6, iron, nv2, oanchor, sanchor, cvcmx, memo : BOOLEAN]
\*   txv6    tx version 6             iron    the Ironwood bundle is not canonically empty
\*   nv2     Orchard note version 2   oanchor/sanchor  anchor present, or nothing in the bundle needs one
\*   cvcmx   every action carries cv_net and cmx       memo  every enc_ciphertext is in encrypted form
\* The v2 encoding may carry an output's memo PLAINTEXT (trailing zero bytes stripped) in place of the
\* ciphertext: any stripped length from 0 (the all-zero memo) up to and including the full memo size
\* is representable and must survive serialise / parse.
MemoSize == 512
StrippedMemoLenOK(n) == n \in 0 .. MemoSize

V1Rep(p) == ~p.txv6 /\ ~p.iron /\ p.nv2 /\ p.oanchor /\ p.sanchor /\ p.cvcmx /\ p.memo
Encoding(p) == IF V1Rep(p) THEN 1 ELSE 2

=============================================================================================
