SPECIFICATION Spec
CONSTANTS
  HTCase = 3
  HT <- HTOf
  Inputs = {1, 2}
  Spends = {}
  HasShielded = FALSE
  V6 = FALSE
  Keys = {"k"}
  Vals = {1, 2}
  Flags0 = 131
  MaxSig = 0
INVARIANTS TypeOK EffectsUnchanged SignerDiscipline ConflictOnlyIfDoubleWrite MinimalEncoding RoundTrip
CHECK_DEADLOCK FALSE
