\* A representative configuration (three parties, two optional slots, one agreed-on slot, the lock
\* time).  checks/c13.py generates the full family (pairs with all 256 x 256 flag bytes, lists x
\* modifiable bits x bsk with the least-upper-bound theorem, triples, four copies) into its work dir.
SPECIFICATION Spec
CONSTANTS
  OptSlots = {"o1", "o2"}
  EqSlots = {"e1"}
  Vals = {1, 2}
  N = 3
  FlagSet = {0, 131}
  LockV = {0, 1}
  TinL = {2}
  ToutL = {2}
  ActL = {2}
  BskV = {1}
  CheckLub = FALSE
INVARIANTS Idempotent Commutative Monotone Groupings FailsIffPairwise KeepsEverything
CHECK_DEADLOCK FALSE
