SPECIFICATION Spec
CONSTANTS
  HTCase = 1
  HT <- HTOf
  Inputs = {1}
  Spends = {"s"}
  HasShielded = TRUE
  V6 = FALSE
  Keys = {}
  Vals = {1}
  Flags0 = 131
  MaxSig = 2
INVARIANTS TypeOK EffectsUnchanged SignerDiscipline ConflictOnlyIfDoubleWrite MinimalEncoding RoundTrip
CHECK_DEADLOCK FALSE
