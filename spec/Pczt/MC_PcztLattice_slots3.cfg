SPECIFICATION Spec
CONSTANTS
  OptSlots = {"o1", "o2"}
  EqSlots = {"e1"}
  Vals = {1, 2}
  N = 3
  FlagSet = {131}
  LockV = {0, 1, 2}
  TinL = {1}
  ToutL = {1}
  ActL = {1}
  BskV = {0}
  CheckLub = FALSE
INVARIANTS Groupings FailsIffPairwise KeepsEverything
CHECK_DEADLOCK FALSE
