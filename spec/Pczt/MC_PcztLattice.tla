--------------------------------- MODULE MC_PcztLattice ---------------------------------
(* TLC checks the theorems of PcztLattice over every choice of N parties from a finite universe. *)
EXTENDS Naturals, FiniteSets, Sequences, TLC

CONSTANTS OptSlots, EqSlots, Vals,
          N,                          \* number of parties: 2, 3 or 4
          FlagSet, LockV, TinL, ToutL, ActL, BskV,
          CheckLub                    \* TRUE: also decide ThmLub (quadratic in the universe)

L == INSTANCE PcztLattice

VARIABLE ps

U == { p \in L!Party(FlagSet, TinL, ToutL, ActL, BskV) : p.lock \in LockV }

\* one state per choice of the parties; the theorems are state predicates
Init == ps \in [1 .. N -> U]
Spec == Init /\ [][FALSE]_ps

Range == { ps[i] : i \in 1 .. N }

Idempotent  == \A i \in 1 .. N : L!ThmIdempotent(ps[i])
Commutative == \A i, j \in 1 .. N : L!ThmCommutative(ps[i], ps[j])
Monotone    == \A i, j \in 1 .. N : L!ThmMonotone(ps[i], ps[j])
Lub         == CheckLub => L!ThmLub(ps[1], ps[2], U)
Groupings   == L!SameStage(Range) => L!ThmGroupings(ps)
\* fails iff some pair of the copies has no upper bound (within one stage)
FailsIffPairwise ==
    L!SameStage(Range) => (L!Combine(ps).ok <=> \A i, j \in 1 .. N : L!Merge(ps[i], ps[j]).ok)
\* the result keeps every slot any input carried
KeepsEverything ==
    L!Combine(ps).ok => \A i \in 1 .. N : L!Leq(ps[i], L!Combine(ps).v)

\* The documented limit of the code's merge (kept as a checked fact, so that the restriction
\* SameStage above is not an unexamined assumption): a one-item copy A that is still modifiable, a
\* two-item copy B, and B's IO-finalised successor C.  (A + B) + C succeeds, A + (B + C) does not.
WitnessA == [L!Dummy EXCEPT !.flags = 128, !.act = 1, !.eq = [s \in EqSlots |-> 1]]
WitnessB == [WitnessA EXCEPT !.act = 2]
WitnessC == [WitnessB EXCEPT !.flags = 0, !.bsk = 1]
NonAssocWitness ==
    /\ L!MergeR(L!Merge(WitnessA, WitnessB), L!Ok(WitnessC)).ok
    /\ ~L!MergeR(L!Ok(WitnessA), L!Merge(WitnessB, WitnessC)).ok
    /\ ~L!SameStage({WitnessA, WitnessB, WitnessC})
ASSUME NonAssocWitness
ASSUME Cardinality(L!Trees2) = 2 /\ Cardinality(L!Trees3) = 12 /\ Cardinality(L!Trees4) = 120
=============================================================================================
