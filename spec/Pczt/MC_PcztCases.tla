---------------------------------- MODULE MC_PcztCases ----------------------------------
(* Spec -> code: TLC enumerates every choice of N parties from a finite universe and prints, per  *)
(* choice, the outcome PcztLattice predicts for Combiner::combine (conflict, or the slot-wise     *)
(* join), and once the list of all groupings/orders of N copies (postfix form).  The harness      *)
(* binds the abstract slots to concrete fields of a real PCZT and executes every grouping.        *)
EXTENDS Naturals, FiniteSets, Sequences, TLC, Json

CONSTANTS OptSlots, EqSlots, Vals, N, FlagSet, LockV, TinL, ToutL, ActL, BskV,
          Kind,          \* a label copied into every case
          Stage          \* TRUE: only party sets within one stage (PcztLattice!SameStage)

L == INSTANCE PcztLattice

VARIABLES ps, done

U == { p \in L!Party(FlagSet, TinL, ToutL, ActL, BskV) : p.lock \in LockV }
Range == { ps[i] : i \in 1 .. N }

Init == /\ ps \in [1 .. N -> U]
        /\ Stage => L!SameStage(Range)
        /\ done = FALSE
Emit == /\ ~done
        /\ done' = TRUE
        /\ UNCHANGED ps
        /\ PrintT(<<"CASE", ToJson([k |-> Kind, ps |-> ps, out |-> L!Combine(ps)])>>)
Spec == Init /\ [][Emit]_<<ps, done>>

\* every grouping agrees with the fold (the emitted prediction is the prediction for all of them)
Groupings == L!ThmGroupings(ps)

ASSUME PrintT(<<"TREES", ToJson([n |-> N, trees |-> L!Trees(N)])>>)
=============================================================================================
