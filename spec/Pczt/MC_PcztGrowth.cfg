\* Sample configuration (checks/c13.py generates the ones it runs: growth_runs()).
\* All pairs of copies of a Sapling bundle: flags x spends x outputs x bsk = 54 copies.
SPECIFICATION Spec
CONSTANTS
  N = 2
  FlagSet = {0, 128}
  NsL = {0, 1, 2}
  NoL = {0, 1, 2}
  BskV = {0, 1, 2}
  CheckLub = TRUE
INVARIANTS Idempotent Commutative KnownLub AllGroupings
CHECK_DEADLOCK FALSE
