--------------------------------- MODULE Trace_PcztRoles ---------------------------------
(* Code -> spec: validates a log of real role applications (harness c13_replay roles) against the *)
(* frames, the `tx_modifiable` discipline and the encoding rule of PcztFrames and the merge of    *)
(* PcztLattice.  One record per role application on one of the forked copies:                     *)
(*   a     role           cp   copy (1-based; 0 = the base, before the fork)      arg  class / pool *)
(*   oc    "ok" | "err" (the role refused) | "conflict" (Combiner) | "panic"                        *)
(*   pre, post   projections of the copy: flags, txid (pczt_txid), enc (version of the chosen       *)
(*               encoding), the v1-representability facts read through the public getters, and the  *)
(*               byte equalities TLA+ cannot compute, decided by independent code in the harness:   *)
(*               rt (parse(serialise(p)) re-serialises identically), own (the serialisation equals  *)
(*               the harness's own encoder on the decoded value), get (getters agree with the       *)
(*               decoded value), z244 (own ZIP 244 txid of the decoded effects = pczt_txid), sigok   *)
(*               (every partial signature verifies under the own ZIP 244 signature digest);         *)
(*               nin / nss: transparent inputs / inputs that carry a script_sig; mlens: stripped     *)
(*               lengths of the memos carried in plaintext form                                     *)
(*   ch    the slot classes that differ between pre and post, with direction add / del / mod        *)
EXTENDS Naturals, Sequences, FiniteSets, TLC, Json, IOUtils, PcztFrames

VARIABLES st,    \* projection of every copy after the last accepted event
          l

L == INSTANCE PcztLattice WITH OptSlots <- {}, EqSlots <- {}, Vals <- {1}

Rec == ndJsonDeserialize(IOEnv.TRACE)

ToSet(s) == { s[i] : i \in 1 .. Len(s) }
Writes(r) == { <<x.c, x.d>> : x \in ToSet(r.ch) }

\* what every projection must satisfy, whatever produced it
ProjOK(p) ==
    /\ p.txid # "err" /\ p.txid # "panic"          \* the identifier implied by the PCZT exists ...
    /\ p.z244                                       \* ... and is the ZIP 244 identifier of its effects
    /\ p.enc = Encoding(p)                          \* the older encoding whenever it can represent the content
    /\ p.rt /\ p.own /\ p.get                       \* serialise / parse are inverse, canonical, and what the getters show
    /\ p.sigok                                      \* signatures are over the sighash of Effects
    /\ \A i \in 1 .. Len(p.mlens) : StrippedMemoLenOK(p.mlens[i])   \* memo plaintexts of every legal length
    /\ L!FlagsValid(p.flags)

\* a successful role application on copy r.cp
Preserves(r) ==
    /\ r.pre = st[r.cp]
    /\ ProjOK(r.post)
    /\ r.post.txid = r.pre.txid                     \* Effects unchanged, hence the identifier
    /\ r.post.txv6 = r.pre.txv6
    /\ \A w \in Writes(r) : w[1] \notin Protected

InFrame(r) == Writes(r) \subseteq Frame(r.a, r.arg, r.pre.txv6)
FlagsKept(r) == r.post.flags = r.pre.flags
HasWrite(r, c) == <<c, "add">> \in Writes(r) \/ <<c, "mod">> \in Writes(r)

RoleOK(r) ==
    CASE r.a = "update"     -> InFrame(r) /\ FlagsKept(r) /\ r.arg \in Updatable /\ (HasWrite(r, r.arg) \/ r.noop)
      [] r.a = "sign_t"     -> /\ InFrame(r)
                               /\ r.post.flags = SignTransparentFlags(r.pre.flags, r.ht)
                               /\ r.i \in ToSet(r.post.sigs)
      [] r.a = "sign_s"     -> /\ InFrame(r)
                               /\ r.post.flags = SignShieldedFlags(r.pre.flags)
                               /\ HasWrite(r, IF r.arg = "sapling" THEN "sapling.spends[].spend_auth_sig"
                                                                   ELSE r.arg \o ".actions[].spend.spend_auth_sig")
      [] r.a = "redact"     -> InFrame(r) /\ FlagsKept(r)
      [] r.a = "finalize"   -> InFrame(r) /\ FlagsKept(r) /\ r.post.nss = r.post.nin
      [] r.a = "prove"      -> InFrame(r) /\ FlagsKept(r)
      [] r.a = "combine"    -> /\ \A w \in Writes(r) : CombineWriteOK(w[1], w[2])
                               /\ r.ncf = 0 /\ L!FlagsValid(r.oflags)
                               /\ r.post.flags = L!JoinFlags(r.pre.flags, r.oflags)
      [] r.a \in {"compact", "resolve", "verify", "reparse", "set_anchor", "set_witness"} -> InFrame(r) /\ FlagsKept(r)
      [] OTHER -> FALSE

IsEvent == l <= Len(Rec) /\ l' = l + 1

\* the base: Creator output -> IO Finaliser -> forked into r.ht copies
TBase ==
    /\ IsEvent /\ Rec[l].a = "io_finalize" /\ Rec[l].oc = "ok"
    /\ LET r == Rec[l] IN
       /\ ProjOK(r.pre) /\ ProjOK(r.post)
       /\ r.post.txid = r.pre.txid /\ r.post.txv6 = r.pre.txv6
       /\ \A w \in Writes(r) : w[1] \notin Protected
       /\ InFrame(r)
       /\ r.post.flags = IoFinalizeFlags(r.pre.flags, r.i = 1)
       /\ st' = [c \in 1 .. r.ht |-> r.post]

TRole ==
    /\ IsEvent /\ Rec[l].oc = "ok" /\ Rec[l].a \notin {"io_finalize", "extract"}
    /\ LET r == Rec[l] IN
       /\ r.cp \in DOMAIN st
       /\ Preserves(r) /\ RoleOK(r)
       /\ st' = [st EXCEPT ![r.cp] = r.post]

\* a refusal leaves the copy as it was; the Combiner refuses exactly when the copies have no upper bound
TRefused ==
    /\ IsEvent /\ Rec[l].oc \in {"err", "conflict"} /\ Rec[l].a # "extract"
    /\ LET r == Rec[l] IN
       /\ r.cp \in DOMAIN st /\ r.pre = st[r.cp] /\ r.post = r.pre
       /\ r.oc = "conflict" <=> r.a = "combine"
       /\ r.a = "combine" => (r.ncf > 0 \/ ~L!FlagsValid(r.oflags) \/ ~L!FlagsValid(r.pre.flags))
    /\ UNCHANGED st

\* the extracted transaction has exactly the PCZT's effects and identifier
TExtract ==
    /\ IsEvent /\ Rec[l].a = "extract"
    /\ LET r == Rec[l] IN
       /\ r.cp \in DOMAIN st /\ r.pre = st[r.cp]
       /\ r.oc # "panic"
       /\ r.oc = "ok" => r.txid_tx = r.pre.txid /\ r.fields
    /\ UNCHANGED st

TraceInit == st = <<>> /\ l = 1
TraceNext == TBase \/ TRole \/ TRefused \/ TExtract
TraceSpec == TraceInit /\ [][TraceNext]_<<st, l>>

Accepted == LET n == TLCGet("stats").diameter - 1
            IN IF n = Len(Rec) THEN PrintT(<<"TRACE", "accepted", n>>)
               ELSE PrintT(<<"TRACE", "rejected", n + 1, ToJson(Rec[n + 1])>>) /\ FALSE
=============================================================================================
