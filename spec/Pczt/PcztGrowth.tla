----------------------------------- MODULE PcztGrowth -----------------------------------
(* C13 -- combining copies of a shielded bundle whose item lists are still growing.              *)
(*                                                                                                *)
(* PcztLattice models a shielded bundle by ONE list length.  A Sapling bundle has TWO lists       *)
(* (spends, outputs) that the Constructor extends independently, and one `value_sum` ("the net    *)
(* value of Sapling spends minus outputs ... updated by the Constructor as spends or outputs are  *)
(* added", pczt/src/sapling.rs) -- a function of exactly the items the copy holds.  The Combiner  *)
(* sees serialised bundles and cannot recompute a value balance, so the only value balances it    *)
(* can ever put into a result are the ones its inputs carry.  Written from the property           *)
(* statement ("keeps every field any input carried", "never alter the transaction's effects") and *)
(* the field documentation (`value_sum`, `bsk`: "None until it is set by the IO Finalizer";       *)
(* `tx_modifiable` bit 7: "whether shielded spends or outputs can be added"), not from the        *)
(* control flow of `Bundle::merge`.                                                               *)
(*                                                                                                *)
(*   ns, no   lengths of the spend and output lists.  All copies hold prefixes of the same two    *)
(*            lists, so a copy is described by the pair of lengths (product order).               *)
(*   vs       the copy's `value_sum`.  In every well-formed copy it is VS(ns, no), an INJECTIVE   *)
(*            function of the lengths (here: the pair itself; the harness binds it to             *)
(*            sum of the first ns spend values - sum of the first no output values).              *)
(*   bsk      flat optional slot; present once the IO Finaliser ran.                              *)
(*   flags    the `tx_modifiable` byte; bit 7 = this copy may still receive shielded items.       *)
(*                                                                                                *)
(* An Orchard / Ironwood bundle is the one-axis case (actions): NoL = {0}.                        *)
(*                                                                                                *)
(* Merge(a, b) is defined exactly when the pointwise-longest lists TOGETHER WITH THEIR VALUE      *)
(* BALANCE are already held by one of the two copies (one copy dominates the other), the shorter  *)
(* copy still allows growth, and -- once `bsk` exists on either side -- nothing grows at all.     *)
(* Two copies that each grew on a different axis have a common later stage, but its value balance *)
(* is in neither copy: the Combiner must refuse (it may not invent effects).                      *)
EXTENDS Naturals, FiniteSets, Sequences, TLC

L == INSTANCE PcztLattice WITH OptSlots <- {}, EqSlots <- {}, Vals <- {1, 2}

Bot == 0

VS(s, o) == <<s, o>>                     \* the value balance that belongs to s spends and o outputs

Copies(FlagSet, NsL, NoL, BskV) ==
    { [flags |-> f, ns |-> s, no |-> o, vs |-> VS(s, o), bsk |-> k] :
          f \in FlagSet, s \in NsL, o \in NoL, k \in BskV }

Max(x, y) == IF x >= y THEN x ELSE y

Mod(p)          == L!Bit(p.flags, 7) = 1
Dominates(a, b) == b.ns <= a.ns /\ b.no <= a.no       \* a holds every item b holds
Shorter(a, b)   == a.ns < b.ns \/ a.no < b.no         \* combining would add items of b to a
SameLengths(a, b) == a.ns = b.ns /\ a.no = b.no
Finalised(a, b) == a.bsk # Bot \/ b.bsk # Bot

\* ----------------------------------------------------------------------------- Merge
Compatible(a, b) ==
    /\ L!FlagsValid(a.flags) /\ L!FlagsValid(b.flags)
    /\ L!FlatUB(a.bsk, b.bsk)
    /\ IF Finalised(a, b)
       THEN SameLengths(a, b) /\ a.vs = b.vs
       ELSE /\ Dominates(a, b) \/ Dominates(b, a)
            /\ Shorter(a, b) => Mod(a)
            /\ Shorter(b, a) => Mod(b)

\* the result carries the longer lists and the value balance OF THE COPY THAT HOLDS THEM
Join(a, b) ==
    [flags |-> L!JoinFlags(a.flags, b.flags),
     ns    |-> Max(a.ns, b.ns),
     no    |-> Max(a.no, b.no),
     vs    |-> IF Dominates(a, b) THEN a.vs ELSE b.vs,
     bsk   |-> L!FlatJoin(a.bsk, b.bsk)]

Dummy == [flags |-> 0, ns |-> 0, no |-> 0, vs |-> VS(0, 0), bsk |-> Bot]
Fail  == [ok |-> FALSE, v |-> Dummy]
Ok(p) == [ok |-> TRUE, v |-> p]

Merge(a, b)  == IF Compatible(a, b) THEN Ok(Join(a, b)) ELSE Fail
MergeR(x, y) == IF x.ok /\ y.ok THEN Merge(x.v, y.v) ELSE Fail

RECURSIVE Fold(_, _, _)
Fold(ps, i, acc) == IF i > Len(ps) THEN acc ELSE Fold(ps, i + 1, MergeR(acc, Ok(ps[i])))
Combine(ps) == Fold(ps, 2, Ok(ps[1]))

\* groupings in postfix form, as in PcztLattice
RECURSIVE Run(_, _, _, _)
Run(t, ps, i, st) ==
    IF i > Len(t) THEN st[1]
    ELSE IF t[i] = 0
         THEN Run(t, ps, i + 1, Append(SubSeq(st, 1, Len(st) - 2), MergeR(st[Len(st) - 1], st[Len(st)])))
         ELSE Run(t, ps, i + 1, Append(st, Ok(ps[t[i]])))
Eval(t, ps) == Run(t, ps, 1, <<>>)
Trees(n) == L!Trees(n)

\* ----------------------------------------------------------------------------- orders
Leq(a, b) ==
    /\ a.ns <= b.ns /\ a.no <= b.no
    /\ L!FlatLeq(a.bsk, b.bsk)
    /\ L!Bit(a.flags, 7) >= L!Bit(b.flags, 7)

\* "b may be the same bundle at a later stage than a", as far as a Combiner can relate the two
StageLeq(a, b) ==
    /\ Leq(a, b)
    /\ L!FlagsValid(a.flags) /\ L!FlagsValid(b.flags)
    /\ Shorter(a, b) => Mod(a) /\ b.bsk = Bot

\* ----------------------------------------------------------------------------- theorems
\* (over a sequence ps of copies from a universe U; MC_PcztGrowth lets TLC check them)
Idx(ps)  == 1 .. Len(ps)
Outs(ps) == { Eval(t, ps) : t \in Trees(Len(ps)) }
Pairwise(ps) == \A i, j \in Idx(ps) : Merge(ps[i], ps[j]).ok
\* the copies form a chain: each pair is ordered (no two copies grew on different axes)
Chain(ps) == \A i, j \in Idx(ps) : Dominates(ps[i], ps[j]) \/ Dominates(ps[j], ps[i])
\* one construction stage (as PcztLattice!SameStage)
SameStage(ps) == (\A i \in Idx(ps) : ps[i].bsk = Bot) \/ (\A i, j \in Idx(ps) : SameLengths(ps[i], ps[j]))

MaxNs(ps) == CHOOSE m \in { ps[i].ns : i \in Idx(ps) } : \A i \in Idx(ps) : ps[i].ns <= m
MaxNo(ps) == CHOOSE m \in { ps[i].no : i \in Idx(ps) } : \A i \in Idx(ps) : ps[i].no <= m

ThmIdempotent(a)     == Merge(a, a) = Ok(a)
ThmCommutative(a, b) == Merge(a, b) = Merge(b, a)                  \* same verdict AND same result

\* The theorems about groupings, over outs = the outcomes of all groupings and orders of ps.
\* whatever grouping and order succeeds, succeeds with one and the same result ...
DefinedAgree(outs)  == Cardinality({ o \in outs : o.ok }) <= 1
\* ... which holds every item any copy held (pointwise-longest lists, any bsk, bit 7 only if all) ...
Keeps(ps, outs) ==
    \A o \in outs : o.ok =>
        /\ o.v.ns = MaxNs(ps) /\ o.v.no = MaxNo(ps)
        /\ \A i \in Idx(ps) : Leq(ps[i], o.v)
        /\ Mod(o.v) <=> \A i \in Idx(ps) : Mod(ps[i])
\* ... and whose value balance is the one that belongs to exactly those items
ValueSumOk(outs) == \A o \in outs : o.ok => o.v.vs = VS(o.v.ns, o.v.no)
\* every grouping and order succeeds iff every two copies combine
AllOkIffPairwise(ps, outs) == (\A o \in outs : o.ok) <=> Pairwise(ps)
\* within one stage and on a chain, combining is a function of the SET of copies: every grouping and
\* order gives what the fold gives, and it fails iff some two copies do not combine
Groupings(ps, outs)        == Chain(ps) /\ SameStage(ps) => outs = {Combine(ps)}
FailsIffPairwise(ps)       == Chain(ps) /\ SameStage(ps) => (Combine(ps).ok <=> Pairwise(ps))
\* off a chain some grouping refuses (the pair that grew on different axes cannot be combined first)
OffChainRefused(ps, outs)  == ~Chain(ps) /\ (\A i \in Idx(ps) : ps[i].bsk = Bot) => \E o \in outs : ~o.ok

ThmDefinedAgree(ps) == DefinedAgree(Outs(ps))
ThmAll(ps) ==
    LET outs == Outs(ps)
    IN  /\ DefinedAgree(outs)
        /\ Keeps(ps, outs)
        /\ ValueSumOk(outs)
        /\ AllOkIffPairwise(ps, outs)
        /\ Groupings(ps, outs)
        /\ FailsIffPairwise(ps)
        /\ OffChainRefused(ps, outs)

\* Merge succeeds exactly when a common later stage exists in U whose value balance one of the two
\* copies already carries, and is then the least such stage.
ThmKnownLub(a, b, U) ==
    LET ubs == { u \in U : StageLeq(a, u) /\ StageLeq(b, u) /\ u.vs \in {a.vs, b.vs} }
    IN  /\ Merge(a, b).ok <=> ubs # {}
        /\ Merge(a, b).ok => /\ Merge(a, b).v \in ubs
                             /\ \A u \in ubs : Leq(Merge(a, b).v, u)
=============================================================================================
