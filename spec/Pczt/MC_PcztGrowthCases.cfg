\* Sample configuration (checks/c13.py generates the ones it runs: growth_case_runs()). Run with -workers 1.
SPECIFICATION Spec
CONSTANTS
  N = 3
  FlagSet = {0, 128}
  NsL = {0, 1, 2}
  NoL = {0, 1, 2}
  BskV = {0}
  Kind = "growS"
  Stage = FALSE
CHECK_DEADLOCK FALSE
