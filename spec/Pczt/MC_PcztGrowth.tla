--------------------------------- MODULE MC_PcztGrowth ----------------------------------
(* TLC checks the theorems of PcztGrowth over every choice of N copies from a finite universe.   *)
EXTENDS Naturals, FiniteSets, Sequences, TLC

CONSTANTS N,                          \* number of copies: 2, 3 or 4
          FlagSet, NsL, NoL, BskV,    \* the universe: flag bytes x spend counts x output counts x bsk
          CheckLub                    \* TRUE: also decide ThmKnownLub on (ps[1], ps[2])

G == INSTANCE PcztGrowth

VARIABLES ps, ready

U == G!Copies(FlagSet, NsL, NoL, BskV)

\* One state per choice of the copies; the theorems are state predicates.  The first copy is chosen
\* by Init and the others by one step, so that TLC's workers share the choices (initial states are
\* evaluated by a single thread).
Init == /\ \E first \in U : ps = [i \in 1 .. N |-> first]
        /\ ready = FALSE
Pick == /\ ~ready
        /\ ready' = TRUE
        /\ \E rest \in [2 .. N -> U] : ps' = [i \in 1 .. N |-> IF i = 1 THEN ps[1] ELSE rest[i]]
Spec == Init /\ [][Pick]_<<ps, ready>>

Idempotent       == ready => \A i \in 1 .. N : G!ThmIdempotent(ps[i])
Commutative      == ready => \A i, j \in 1 .. N : G!ThmCommutative(ps[i], ps[j])
KnownLub         == ready /\ CheckLub => G!ThmKnownLub(ps[1], ps[2], U)
\* everything that speaks about all groupings, in one predicate (the groupings are evaluated once)
AllGroupings     == ready => G!ThmAll(ps)

\* The documented limits of the pinned merge, kept as checked facts so that the restrictions Chain
\* and SameStage above are not unexamined assumptions.
\* (1) Side growth: A got a spend, B got an output, C has both.  C combined with either of them is C,
\*     so (A + C) + B = C; but A + B needs a value balance nobody carries and is refused, so
\*     (A + B) + C is refused.  pczt/src/sapling.rs documents the refusal ("These cases require us to
\*     recalculate the value sum, which we can't do without a parsed bundle").
SideA == [flags |-> 128, ns |-> 1, no |-> 0, vs |-> G!VS(1, 0), bsk |-> 0]
SideB == [flags |-> 128, ns |-> 0, no |-> 1, vs |-> G!VS(0, 1), bsk |-> 0]
SideC == [flags |-> 128, ns |-> 1, no |-> 1, vs |-> G!VS(1, 1), bsk |-> 0]
SideGrowthWitness ==
    /\ G!MergeR(G!Merge(SideA, SideC), G!Ok(SideB)) = G!Ok(SideC)
    /\ ~G!MergeR(G!Merge(SideA, SideB), G!Ok(SideC)).ok
    /\ ~G!Chain(<<SideA, SideB, SideC>>) /\ G!SameStage(<<SideA, SideB, SideC>>)
\* (2) Across IO finalisation (PcztLattice's NonAssocWitness, here on the output axis).
StageA == [flags |-> 128, ns |-> 1, no |-> 1, vs |-> G!VS(1, 1), bsk |-> 0]
StageB == [StageA EXCEPT !.no = 2, !.vs = G!VS(1, 2)]
StageC == [StageB EXCEPT !.flags = 0, !.bsk = 1]
StageWitness ==
    /\ G!MergeR(G!Merge(StageA, StageB), G!Ok(StageC)) = G!Ok(StageC)
    /\ ~G!MergeR(G!Ok(StageA), G!Merge(StageB, StageC)).ok
    /\ G!Chain(<<StageA, StageB, StageC>>) /\ ~G!SameStage(<<StageA, StageB, StageC>>)
ASSUME SideGrowthWitness
ASSUME StageWitness
\* VS is injective on the universe (two different pairs of lengths never share a value balance)
ASSUME \A a, b \in U : a.vs = b.vs => G!SameLengths(a, b)
=============================================================================================
