----------------------------------- MODULE PcztLattice -----------------------------------
(* C13 -- combining partially created transactions.                                              *)
(*                                                                                                *)
(* A PCZT is a record of SLOTS.  Combining two copies of one transaction is the join of a        *)
(* PRODUCT of small semilattices, one per slot; it fails exactly when some component has no      *)
(* upper bound.  Written from the property statement, the field documentation of                 *)
(* pczt/src/{common,transparent,sapling,orchard}.rs (the `tx_modifiable` rustdoc gives the merge  *)
(* direction of every bit) and BIP 174 -- not from the control flow of `merge`.                   *)
(*                                                                                                *)
(*   opt  [s]   an optional field or one map entry (partial signature of one key, proprietary     *)
(*              entry, derivation, proof, witness, randomness ...): the FLAT lattice              *)
(*              Bot below every value, two different values have no upper bound.                  *)
(*   eq   [s]   a field every copy must agree on (the transaction's effects: version, branch,     *)
(*              expiry, prevouts, values, scripts, commitments, nullifiers, bundle flags ...):    *)
(*              the DISCRETE order.  `lock` (fallback lock time) is discrete over Bot + values:   *)
(*              an absent fallback means 0, so None against Some(v) is a conflict, not a fill-in. *)
(*   flags      the `tx_modifiable` byte: bits 0, 1, 7 ("may still be modified") merge towards    *)
(*              false, bit 2 ("has a SIGHASH_SINGLE signature") towards true, bits 3..6 are       *)
(*              reserved: a copy with one of them set is invalid and combines with nothing.       *)
(*   tin, tout, act   lengths of the transparent input / output lists and of a shielded bundle's  *)
(*              item list.  Copies hold prefixes of one list; a shorter copy is below a longer    *)
(*              one only while the shorter copy still says "modifiable" (bit 0 / 1 / 7), and --   *)
(*              for a shielded bundle -- only before IO finalisation (`bsk` absent on both):      *)
(*              afterwards the lengths must agree.  `bsk` itself is a flat optional slot.         *)
(*              (A Sapling bundle has TWO lists and a value balance that depends on both: that    *)
(*              refinement, with the value balance as a slot, is PcztGrowth.tla, which            *)
(*              instantiates this module; `act` here is the one-list projection.)                 *)
EXTENDS Naturals, FiniteSets, Sequences, TLC

CONSTANTS OptSlots,      \* names of flat optional slots
          EqSlots,       \* names of must-be-equal slots
          Vals           \* slot values, e.g. {1, 2}

Bot == 0
OptV == {Bot} \cup Vals

Bit(b, i) == (b \div (2 ^ i)) % 2
MeetBits == {0, 1, 7}
JoinBits == {2}
ZeroBits == 3 .. 6
FlagsValid(b) == \A i \in ZeroBits : Bit(b, i) = 0

RECURSIVE SumBits(_, _)
SumBits(f, i) == IF i > 7 THEN 0 ELSE f[i] * (2 ^ i) + SumBits(f, i + 1)
\* only meaningful when both bytes are valid
JoinFlags(a, b) ==
    SumBits([i \in 0 .. 7 |->
                IF i \in MeetBits THEN (IF Bit(a, i) = 1 /\ Bit(b, i) = 1 THEN 1 ELSE 0)
                ELSE IF i \in JoinBits THEN (IF Bit(a, i) = 1 \/ Bit(b, i) = 1 THEN 1 ELSE 0)
                ELSE 0], 0)

\* ----------------------------------------------------------------------------- the value space
Party(FlagSet, TinL, ToutL, ActL, BskV) ==
    [opt : [OptSlots -> OptV], eq : [EqSlots -> Vals], lock : OptV, flags : FlagSet,
     tin : TinL, tout : ToutL, act : ActL, bsk : BskV]

\* ----------------------------------------------------------------------------- component orders
FlatLeq(x, y)  == x = Bot \/ x = y
FlatUB(x, y)   == x = Bot \/ y = Bot \/ x = y
FlatJoin(x, y) == IF x = Bot THEN y ELSE x

Max(x, y) == IF x >= y THEN x ELSE y

\* list of one pool; `bit` is the pool's modifiable bit, `fin` says the pool's bundle is IO-finalised
\* on either side (never for the transparent lists)
ListUB(la, lb, fa, fb, bit, fin) ==
    \/ la = lb
    \/ ~fin /\ la < lb /\ Bit(fa, bit) = 1
    \/ ~fin /\ lb < la /\ Bit(fb, bit) = 1

\* ----------------------------------------------------------------------------- Merge
Compatible(a, b) ==
    /\ FlagsValid(a.flags) /\ FlagsValid(b.flags)
    /\ \A s \in EqSlots : a.eq[s] = b.eq[s]
    /\ a.lock = b.lock
    /\ \A s \in OptSlots : FlatUB(a.opt[s], b.opt[s])
    /\ FlatUB(a.bsk, b.bsk)
    /\ ListUB(a.tin, b.tin, a.flags, b.flags, 0, FALSE)
    /\ ListUB(a.tout, b.tout, a.flags, b.flags, 1, FALSE)
    /\ ListUB(a.act, b.act, a.flags, b.flags, 7, a.bsk # Bot \/ b.bsk # Bot)

Join(a, b) ==
    [opt   |-> [s \in OptSlots |-> FlatJoin(a.opt[s], b.opt[s])],
     eq    |-> a.eq,
     lock  |-> a.lock,
     flags |-> JoinFlags(a.flags, b.flags),
     tin   |-> Max(a.tin, b.tin),
     tout  |-> Max(a.tout, b.tout),
     act   |-> Max(a.act, b.act),
     bsk   |-> FlatJoin(a.bsk, b.bsk)]

\* results: [ok |-> TRUE, v |-> pczt]  or the single failure value
Dummy == [opt |-> [s \in OptSlots |-> Bot], eq |-> [s \in EqSlots |-> Bot], lock |-> Bot, flags |-> 0,
          tin |-> 0, tout |-> 0, act |-> 0, bsk |-> Bot]
Fail  == [ok |-> FALSE, v |-> Dummy]
Ok(p) == [ok |-> TRUE, v |-> p]

Merge(a, b)  == IF Compatible(a, b) THEN Ok(Join(a, b)) ELSE Fail
MergeR(x, y) == IF x.ok /\ y.ok THEN Merge(x.v, y.v) ELSE Fail      \* Combine of intermediate results

\* Combiner::combine(<<p1, ..., pn>>) is the left fold
RECURSIVE Fold(_, _, _)
Fold(ps, i, acc) == IF i > Len(ps) THEN acc ELSE Fold(ps, i + 1, MergeR(acc, Ok(ps[i])))
Combine(ps) == Fold(ps, 2, Ok(ps[1]))

\* A grouping of the copies, in postfix form: a party index pushes that copy, 0 combines the two
\* topmost results.  <<1, 2, 0, 3, 0>> is (1 + 2) + 3;  <<1, 2, 3, 0, 0>> is 1 + (2 + 3).
RECURSIVE Run(_, _, _, _)
Run(t, ps, i, st) ==
    IF i > Len(t) THEN st[1]
    ELSE IF t[i] = 0
         THEN Run(t, ps, i + 1, Append(SubSeq(st, 1, Len(st) - 2), MergeR(st[Len(st) - 1], st[Len(st)])))
         ELSE Run(t, ps, i + 1, Append(st, Ok(ps[t[i]])))
Eval(t, ps) == Run(t, ps, 1, <<>>)

\* ----------------------------------------------------------------------------- product order
Leq(a, b) ==
    /\ \A s \in OptSlots : FlatLeq(a.opt[s], b.opt[s])
    /\ a.eq = b.eq /\ a.lock = b.lock
    /\ FlatLeq(a.bsk, b.bsk)
    /\ \A i \in MeetBits : Bit(a.flags, i) >= Bit(b.flags, i)
    /\ \A i \in JoinBits : Bit(a.flags, i) <= Bit(b.flags, i)
    /\ a.tin <= b.tin /\ a.tout <= b.tout /\ a.act <= b.act

\* "b may be the same transaction at a later stage than a" -- the relation whose upper bounds Merge
\* decides.  It adds to Leq the conditions under which a shorter list is a stage of a longer one.
StageLeq(a, b) ==
    /\ Leq(a, b)
    /\ FlagsValid(a.flags) /\ FlagsValid(b.flags)
    /\ a.tin < b.tin => Bit(a.flags, 0) = 1
    /\ a.tout < b.tout => Bit(a.flags, 1) = 1
    /\ a.act < b.act => Bit(a.flags, 7) = 1 /\ b.bsk = Bot

\* ----------------------------------------------------------------------------- theorems
\* (stated over a set U of parties; MC_PcztLattice instantiates U and lets TLC check them)
Perms(n) == { p \in [1 .. n -> 1 .. n] : { p[i] : i \in 1 .. n } = 1 .. n }
Trees2 == { <<p[1], p[2], 0>> : p \in Perms(2) }
Trees3 == UNION { { <<p[1], p[2], 0, p[3], 0>>, <<p[1], p[2], p[3], 0, 0>> } : p \in Perms(3) }
Trees4 == UNION { { <<p[1], p[2], 0, p[3], 0, p[4], 0>>,          \* ((1 2) 3) 4
                    <<p[1], p[2], p[3], 0, 0, p[4], 0>>,          \* (1 (2 3)) 4
                    <<p[1], p[2], 0, p[3], p[4], 0, 0>>,          \* (1 2) (3 4)
                    <<p[1], p[2], p[3], 0, p[4], 0, 0>>,          \* 1 ((2 3) 4)
                    <<p[1], p[2], p[3], p[4], 0, 0, 0>> }         \* 1 (2 (3 4))
                  : p \in Perms(4) }
Trees(n) == CASE n = 2 -> Trees2 [] n = 3 -> Trees3 [] n = 4 -> Trees4

Valid(a) == FlagsValid(a.flags)

ThmIdempotent(a)    == Merge(a, a) = IF Valid(a) THEN Ok(a) ELSE Fail
ThmCommutative(a, b) == Merge(a, b) = Merge(b, a)
ThmMonotone(a, b)   == Merge(a, b).ok => Leq(a, Merge(a, b).v) /\ Leq(b, Merge(a, b).v)
ThmGroupings(ps)    == \A t \in Trees(Len(ps)) : Eval(t, ps) = Combine(ps)
\* fails iff some component has no upper bound: Merge succeeds exactly when a common later stage exists
\* in U, and then it is the least one
ThmLub(a, b, U) ==
    LET ubs == { u \in U : StageLeq(a, u) /\ StageLeq(b, u) }
    IN  /\ Merge(a, b).ok <=> ubs # {}
        /\ Merge(a, b).ok => /\ Merge(a, b).v \in ubs
                             /\ \A u \in ubs : Leq(Merge(a, b).v, u)

\* Copies of one transaction taken at stages the Combiner can relate: either no copy of the shielded
\* bundle is IO-finalised yet, or all copies have the final item list.  (Outside, the code's merge is
\* not a join: a pre-finalisation prefix combines with a longer modifiable copy but not with that
\* copy's finalised successor -- see NonAssocWitness in MC_PcztLattice.)
SameStage(S) == (\A p \in S : p.bsk = Bot) \/ (\A p, q \in S : p.act = q.act)
=============================================================================================
