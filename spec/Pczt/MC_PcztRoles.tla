---------------------------------- MODULE MC_PcztRoles ----------------------------------
EXTENDS PcztRoles
CONSTANT HTCase
\* sighash types of the two inputs: ALL, NONE, SINGLE, with and without ANYONECANPAY (0x80)
HTOf == CASE HTCase = 1 -> (1 :> 1) @@ (2 :> 131)      \* ALL, SINGLE|ANYONECANPAY
          [] HTCase = 2 -> (1 :> 2) @@ (2 :> 129)      \* NONE, ALL|ANYONECANPAY
          [] HTCase = 3 -> (1 :> 3) @@ (2 :> 130)      \* SINGLE, NONE|ANYONECANPAY
ASSUME FrameIsEffectFree
=============================================================================================
