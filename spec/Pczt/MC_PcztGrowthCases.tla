------------------------------- MODULE MC_PcztGrowthCases -------------------------------
(* Spec -> code: TLC enumerates every choice of N copies of a growing shielded bundle and prints, *)
(* per choice, what PcztGrowth predicts for EVERY grouping and order: the set `bad` of groupings   *)
(* (postfix form) that must be refused, and the one result `v` every other grouping must give     *)
(* (PcztGrowth!ThmDefinedAgree: all groupings that succeed agree).  `out` is the n-ary fold in      *)
(* index order.  The harness materialises each copy from a real PCZT (lists truncated to ns / no   *)
(* items, value_sum = the concrete value balance of VS(ns, no)) and executes every grouping.        *)
EXTENDS Naturals, FiniteSets, Sequences, TLC, Json

CONSTANTS N, FlagSet, NsL, NoL, BskV,
          Kind,          \* a label copied into every case
          Stage          \* TRUE: only copies taken before IO finalisation or all of one length

G == INSTANCE PcztGrowth

VARIABLES ps, done

U == G!Copies(FlagSet, NsL, NoL, BskV)

Init == /\ ps \in [1 .. N -> U]
        /\ Stage => G!SameStage(ps)
        /\ done = FALSE

\* the outcome of every grouping, evaluated once per case
Emit == /\ ~done
        /\ done' = TRUE
        /\ UNCHANGED ps
        /\ LET evs  == { <<t, G!Eval(t, ps)>> : t \in G!Trees(N) }
               good == { e[2] : e \in { x \in evs : x[2].ok } }
           IN  /\ Cardinality(good) <= 1                 \* PcztGrowth!ThmDefinedAgree: `v` is THE result
               /\ PrintT(<<"CASE", ToJson([k   |-> Kind,
                                           ps  |-> ps,
                                           out |-> G!Combine(ps),
                                           any |-> good # {},
                                           v   |-> IF good = {} THEN G!Dummy ELSE (CHOOSE o \in good : TRUE).v,
                                           bad |-> { e[1] : e \in { x \in evs : ~x[2].ok } }])>>)
Spec == Init /\ [][Emit]_<<ps, done>>

\* (checks/c13.py requires |U|^N emitted cases: Emit is never disabled by its Cardinality conjunct)

ASSUME PrintT(<<"TREES", ToJson([n |-> N, trees |-> G!Trees(N)])>>)
=============================================================================================
