------------------------------- MODULE MC_PcztGrowthCases -------------------------------
(* Spec -> code: TLC enumerates every choice of N copies of a growing shielded bundle and prints, *)
(* per choice, what PcztGrowth predicts for EVERY grouping and order: the set `bad` of groupings   *)
(* (postfix form) that must be refused, and the one result `v` every other grouping must give     *)
(* (PcztGrowth!ThmDefinedAgree: all groupings that succeed agree).  `out` is the n-ary fold in      *)
(* index order.  The harness materialises each copy from a real PCZT (lists truncated to ns / no   *)
(* items, value_sum = the concrete value balance of VS(ns, no)) and executes every grouping.        *)
EXTENDS Naturals, FiniteSets, Sequences, TLC, Json

CONSTANTS N, FlagSet, NsL, NoL, BskV,
          Kind,          \* a label copied into every case
          Stage          \* TRUE: only copies taken before IO finalisation or all of one length

G == INSTANCE PcztGrowth

VARIABLES ps, done

U == G!Copies(FlagSet, NsL, NoL, BskV)

Init == /\ ps \in [1 .. N -> U]
        /\ Stage => G!SameStage(ps)
        /\ done = FALSE

Good == { o \in G!Outs(ps) : o.ok }
Emit == /\ ~done
        /\ done' = TRUE
        /\ UNCHANGED ps
        /\ PrintT(<<"CASE", ToJson([k   |-> Kind,
                                    ps  |-> ps,
                                    out |-> G!Combine(ps),
                                    any |-> Good # {},
                                    v   |-> IF Good = {} THEN G!Dummy ELSE (CHOOSE o \in Good : TRUE).v,
                                    bad |-> { t \in G!Trees(N) : ~G!Eval(t, ps).ok }])>>)
Spec == Init /\ [][Emit]_<<ps, done>>

\* the emitted `v` is the result of every grouping that succeeds
DefinedAgree == G!ThmDefinedAgree(ps)

ASSUME PrintT(<<"TREES", ToJson([n |-> N, trees |-> G!Trees(N)])>>)
=============================================================================================
