\* A representative emission configuration (kind "opt2"); checks/c13.py generates one per kind.
SPECIFICATION Spec
CONSTANTS
  OptSlots = {"o1", "o2"}
  EqSlots = {}
  Vals = {1, 2}
  N = 3
  FlagSet = {0}
  LockV = {1}
  TinL = {2}
  ToutL = {2}
  ActL = {2}
  BskV = {1}
  Kind = "opt2"
  Stage = TRUE
INVARIANTS Groupings
CHECK_DEADLOCK FALSE
