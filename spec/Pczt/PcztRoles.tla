------------------------------------ MODULE PcztRoles ------------------------------------
(* C13 -- the PCZT roles preserve the transaction.                                                *)
(*                                                                                                *)
(* PcztFrames holds the definitions: each role's FRAME (the slot classes it may write, none an    *)
(* effect of the transaction), the `tx_modifiable` discipline of Signer and IO Finaliser, and the *)
(* encoding rule.  Trace_PcztRoles validates logged applications of the real roles against them.  *)
(*                                                                                                *)
(* This module is a small state machine, checked by TLC over all role orders: two copies forked after *)
(* IO finalisation go through Update / Sign / Prove / Redact / Compact / Resolve / SpendFinalize  *)
(* / Serialize+Parse in any order and are combined at any time.  Invariants: Effects unchanged    *)
(* (hence the txid, a function of Effects); every signature's restriction on `tx_modifiable`      *)
(* survives every later role and every Combine; Combine of the two copies conflicts only if both  *)
(* wrote the same slot differently since the fork; Encoding = v1 iff the value is                 *)
(* v1-representable; Parse(Serialize(p)) = p.                                                     *)
EXTENDS PcztFrames

CONSTANTS Inputs,        \* transparent inputs, e.g. {1, 2}
          HT,            \* [Inputs -> sighash type byte]
          Spends,        \* shielded spends needing a signature, e.g. {"s"} (randomised signatures)
          HasShielded,   \* the transaction has shielded spends or outputs
          V6,            \* transaction version 6
          Keys, Vals,    \* keys / values an Updater may write
          Flags0,        \* tx_modifiable before IO finalisation
          MaxSig         \* bound on the number of shielded signing events

L == INSTANCE PcztLattice WITH OptSlots <- {}, EqSlots <- {}, Vals <- Vals

VARIABLES cp,      \* [1..2 -> copy]
          wr,      \* [1..2 -> set of slots written since the fork (with the value written)]
          nsig     \* shielded signing events so far

Copy == [eff : {"E"}, flags : 0 .. 255, sig : SUBSET Inputs, ever : SUBSET Inputs, ssig : [Spends -> 0 .. MaxSig],
         sever : BOOLEAN, proof : BOOLEAN, fin : BOOLEAN, prop : [Keys -> {0} \cup Vals],
         priv : BOOLEAN, compact : BOOLEAN]

Base == [eff |-> "E", flags |-> IoFinalizeFlags(Flags0, HasShielded), sig |-> {}, ever |-> {}, ssig |-> [s \in Spends |-> 0],
         sever |-> FALSE, proof |-> FALSE, fin |-> FALSE, prop |-> [k \in Keys |-> 0], priv |-> TRUE, compact |-> FALSE]

Init == cp = [c \in 1 .. 2 |-> Base] /\ wr = [c \in 1 .. 2 |-> {}] /\ nsig = 0

Upd(c, f) == cp' = [cp EXCEPT ![c] = f] /\ UNCHANGED nsig
Wrote(c, s) == wr' = [wr EXCEPT ![c] = @ \cup {s}]

Update(c, k, v) == /\ Upd(c, [cp[c] EXCEPT !.prop[k] = v]) /\ Wrote(c, <<"prop", k, v>>)
SignT(c, i)     == /\ ~cp[c].fin
                   /\ Upd(c, [cp[c] EXCEPT !.sig = @ \cup {i}, !.ever = @ \cup {i}, !.flags = SignTransparentFlags(@, HT[i])])
                   /\ Wrote(c, <<"sig", i, 1>>)        \* ECDSA (RFC 6979): the same signature whoever signs
SignS(c, s)     == /\ nsig < MaxSig
                   /\ nsig' = nsig + 1
                   /\ cp' = [cp EXCEPT ![c] = [@ EXCEPT !.ssig[s] = nsig + 1, !.sever = TRUE, !.flags = SignShieldedFlags(@)]]
                   /\ Wrote(c, <<"ssig", s, nsig + 1>>)  \* RedJubjub / RedPallas: fresh randomness every time
Prove(c)        == /\ HasShielded /\ ~cp[c].proof /\ cp[c].priv
                   /\ Upd(c, [cp[c] EXCEPT !.proof = TRUE, !.compact = FALSE]) /\ Wrote(c, <<"proof", 0, 1>>)
Redact(c)       == /\ Upd(c, [cp[c] EXCEPT !.priv = FALSE]) /\ UNCHANGED wr
RedactSig(c, i) == /\ Upd(c, [cp[c] EXCEPT !.sig = @ \ {i}]) /\ UNCHANGED wr
Compact(c)      == /\ HasShielded /\ cp[c].priv /\ Upd(c, [cp[c] EXCEPT !.compact = TRUE]) /\ UNCHANGED wr
Resolve(c)      == /\ cp[c].compact /\ cp[c].priv /\ Upd(c, [cp[c] EXCEPT !.compact = FALSE]) /\ UNCHANGED wr
Finalize(c)     == /\ cp[c].sig = Inputs /\ ~cp[c].fin
                   /\ Upd(c, [cp[c] EXCEPT !.fin = TRUE, !.sig = {}]) /\ Wrote(c, <<"fin", 0, 1>>)

\* --- Combine: the product of the component lattices (PcztLattice for flags)
FlatUB(x, y)   == x = 0 \/ y = 0 \/ x = y
FlatJoin(x, y) == IF x = 0 THEN y ELSE x
CanCombine(a, b) ==
    /\ L!FlagsValid(a.flags) /\ L!FlagsValid(b.flags)
    /\ a.eff = b.eff
    /\ \A k \in Keys : FlatUB(a.prop[k], b.prop[k])
    /\ \A s \in Spends : FlatUB(a.ssig[s], b.ssig[s])
Joined(a, b) ==
    [eff |-> a.eff, flags |-> L!JoinFlags(a.flags, b.flags), sig |-> a.sig \cup b.sig, ever |-> a.ever \cup b.ever,
     ssig |-> [s \in Spends |-> FlatJoin(a.ssig[s], b.ssig[s])], sever |-> a.sever \/ b.sever,
     proof |-> a.proof \/ b.proof, fin |-> a.fin \/ b.fin, prop |-> [k \in Keys |-> FlatJoin(a.prop[k], b.prop[k])],
     priv |-> a.priv \/ b.priv,
     \* a compact field combines with its expanded form only if both sides agree on the form
     compact |-> a.compact]
Combine(c, d)   == /\ c # d /\ CanCombine(cp[c], cp[d]) /\ cp[c].compact = cp[d].compact
                   /\ Upd(c, Joined(cp[c], cp[d])) /\ wr' = [wr EXCEPT ![c] = @ \cup wr[d]]

\* --- Serialize / Parse
Proj(p) == [txv6 |-> V6, iron |-> FALSE, nv2 |-> TRUE, oanchor |-> TRUE, sanchor |-> TRUE,
            cvcmx |-> ~p.compact, memo |-> ~p.compact]
Serialize(p) == [ver |-> Encoding(Proj(p)),
                 \* the v1 encoding has no room for compact fields: they are in the body only under v2
                 body |-> IF Encoding(Proj(p)) = 1 THEN [p EXCEPT !.compact = FALSE] ELSE p]
Parse(w) == w.body
Reparse(c) == Upd(c, Parse(Serialize(cp[c]))) /\ UNCHANGED wr

Next == \E c \in 1 .. 2 :
          \/ \E k \in Keys, v \in Vals : Update(c, k, v)
          \/ \E i \in Inputs : SignT(c, i) \/ RedactSig(c, i)
          \/ \E s \in Spends : SignS(c, s)
          \/ Prove(c) \/ Redact(c) \/ Compact(c) \/ Resolve(c) \/ Finalize(c) \/ Reparse(c)
          \/ \E d \in 1 .. 2 : Combine(c, d)
Spec == Init /\ [][Next]_<<cp, wr, nsig>>

\* ------------------------------------------------------------------------------------ invariants
TypeOK == cp \in [1 .. 2 -> Copy]
EffectsUnchanged == \A c \in 1 .. 2 : cp[c].eff = Base.eff            \* hence TxIdOf(cp[c]) = TxIdOf(Base)
\* every signature ever made keeps its hold on tx_modifiable through every later role and Combine
SignerDiscipline ==
    \A c \in 1 .. 2 :
      LET f == cp[c].flags IN
      /\ (cp[c].ever # {} \/ cp[c].sever) => Bit(f, 7) = 0
      /\ (cp[c].sever \/ \E i \in cp[c].ever : ~HasACP(HT[i])) => Bit(f, 0) = 0
      /\ (cp[c].sever \/ \E i \in cp[c].ever : BaseType(HT[i]) # SIGHASH_NONE) => Bit(f, 1) = 0
      /\ (\E i \in cp[c].ever : BaseType(HT[i]) = SIGHASH_SINGLE) => Bit(f, 2) = 1
      /\ L!FlagsValid(f)
\* the two copies can be combined unless both wrote one slot differently since the fork
ConflictOnlyIfDoubleWrite ==
    (cp[1].compact = cp[2].compact /\ ~CanCombine(cp[1], cp[2]))
      => \E x \in wr[1], y \in wr[2] : x[1] = y[1] /\ x[2] = y[2] /\ x[3] # y[3]
MinimalEncoding == \A c \in 1 .. 2 : Serialize(cp[c]).ver = (IF V6 \/ cp[c].compact THEN 2 ELSE 1)
RoundTrip == \A c \in 1 .. 2 : Parse(Serialize(cp[c])) = cp[c]
=============================================================================================
