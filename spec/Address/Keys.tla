--------------------------------- MODULE Keys ---------------------------------
(* C11 - key encodings round-trip and derived addresses belong to their keys.                       *)
(*                                                                                                  *)
(* Abstract key = the set of components it holds (a subset of {t, s, o} = transparent P2PKH,        *)
(* Sapling, Orchard) at one of three levels USK -> UFVK -> UIVK, in one of the representations       *)
(* value / bytes (USK, era-tagged) / string (UFVK and UIVK, network-tagged).  Every derive, encode   *)
(* and decode step preserves the component set and the key material; a decode under another          *)
(* network (or another era) is rejected.  Addresses are derived from the *external* scope only.      *)
(*                                                                                                  *)
(* AddressSpec is the rule of ZIP 316 / the rustdoc of `ReceiverRequirement`:                        *)
(*    Omit    => the receiver is absent                                                             *)
(*    Allow   => the receiver is present iff the key holds the component and the diversifier index  *)
(*               is valid for it (Sapling: the index maps to a valid diversifier; P2PKH: the index   *)
(*               is a non-hardened BIP 32 child index, i.e. < 2^31; Orchard: always)                 *)
(*    Require => the receiver is present, or the derivation fails                                    *)
(*    a unified address has at least one shielded receiver, otherwise the derivation fails.          *)
(* AllAvailableKeys = Require for every component the key holds, Omit for the others.                *)
(* Error *variants* are not part of the property; only the class (ok / error) is specified.          *)
(*                                                                                                  *)
(* An index is abstracted to its class [sv, tv] (valid for Sapling / valid for P2PKH).  FindAddress  *)
(* looks at a *line* of consecutive indices: every index of a line but the last is Sapling-invalid,   *)
(* the last is Sapling-valid or (end = TRUE) is the last index of the 88-bit diversifier space.       *)
EXTENDS Naturals, Sequences, FiniteSets, TLC

T == "t"
S == "s"
O == "o"
Components == {T, S, O}
Shielded == {S, O}
Subsets == SUBSET Components

ReqLevels == {"Require", "Allow", "Omit"}
\* the 27 custom requests and AllAvailableKeys (o, s, t are ignored for kind = "all")
Requests == [kind : {"custom"}, o : ReqLevels, s : ReqLevels, t : ReqLevels]
            \cup {[kind |-> "all", o |-> "Allow", s |-> "Allow", t |-> "Allow"]}

\* `ReceiverRequirements::new` / `UnifiedAddressRequest::custom` refuse a request that omits both
\* shielded receivers (such a request can never produce a unified address).
Constructible(r) == r.kind = "all" \/ ~(r.o = "Omit" /\ r.s = "Omit")

\* -------------------------------------------------------------------------------------------
\* index classes and lines

IndexClasses == [sv : BOOLEAN, tv : BOOLEAN]

WellFormedLine(l) ==
    /\ Len(l.idx) >= 1
    /\ \A i \in 1..(Len(l.idx) - 1) : ~l.idx[i].sv                        \* only the last may be valid
    /\ \A i \in 1..(Len(l.idx) - 1) : l.idx[i + 1].tv => l.idx[i].tv      \* P2PKH validity is a prefix (j < 2^31)
    /\ (l.idx[Len(l.idx)].sv <=> ~l.end)                                  \* ends at the first valid index or at the top
    /\ (l.end => \A i \in 1..Len(l.idx) : ~l.idx[i].tv)                   \* the top of the space is far above 2^31

LinesOfLen(n) == { l \in [idx : [1..n -> IndexClasses], end : BOOLEAN] : WellFormedLine(l) }
Lines(maxLen) == UNION { LinesOfLen(n) : n \in 1..maxLen }

\* -------------------------------------------------------------------------------------------
\* the address rule

Eff(C, r) == IF r.kind = "all"
             THEN [c \in Components |-> IF c \in C THEN "Require" ELSE "Omit"]
             ELSE [c \in Components |-> IF c = O THEN r.o ELSE IF c = S THEN r.s ELSE r.t]

IdxValid(c, ix) == IF c = S THEN ix.sv ELSE IF c = T THEN ix.tv ELSE TRUE

Outcome(c, C, lvl, ix) ==
    IF lvl = "Omit" THEN "absent"
    ELSE IF c \in C /\ IdxValid(c, ix) THEN "present"
    ELSE IF lvl = "Require" THEN (IF c \in C THEN "badindex" ELSE "nokey")
    ELSE "absent"

Err(retry, soft) == [k |-> "err", recv |-> {}, retry |-> retry, soft |-> soft]

(* retry: the only obstacle is a required Sapling receiver at a Sapling-invalid index - the one      *)
(*        failure a search over later indices can cure (P2PKH validity never comes back).            *)
(* soft : no receiver was refused, but the only shielded receiver that could have been included is   *)
(*        an *allowed* Sapling receiver at an invalid index.  Whether a search continues here is     *)
(*        not fixed by the property (FindSpec is relational at this point).                          *)
AddressSpec(C, r, ix) ==
    IF ~Constructible(r) THEN [k |-> "badreq", recv |-> {}, retry |-> FALSE, soft |-> FALSE]
    ELSE LET e    == Eff(C, r)
             out  == [c \in Components |-> Outcome(c, C, e[c], ix)]
             recv == {c \in Components : out[c] = "present"}
             errs == {c \in Components : out[c] \in {"badindex", "nokey"}}
         IN  IF errs # {} THEN Err(errs = {S} /\ out[S] = "badindex", FALSE)
             ELSE IF recv \cap Shielded = {} THEN Err(FALSE, S \in C /\ e[S] = "Allow" /\ ~ix.sv)
             ELSE [k |-> "ok", recv |-> recv, retry |-> FALSE, soft |-> FALSE]

\* the set of allowed results of FindAddress started at position k of the line
FindErr == [k |-> "err", at |-> 0, recv |-> {}]
RECURSIVE FindFrom(_, _, _, _)
FindFrom(C, r, l, k) ==
    LET a    == AddressSpec(C, r, l.idx[k])
        more == IF k < Len(l.idx) THEN FindFrom(C, r, l, k + 1) ELSE {FindErr}  \* k = Len: space exhausted
    IN  IF a.k = "ok" THEN {[k |-> "ok", at |-> k, recv |-> a.recv]}
        ELSE IF a.k = "badreq" THEN {[k |-> "badreq", at |-> 0, recv |-> {}]}
        ELSE IF a.retry THEN more
        ELSE IF a.soft THEN {FindErr} \cup more
        ELSE {FindErr}
FindSpec(C, r, l) == FindFrom(C, r, l, 1)

\* DecryptDiversifiers(ua) under a key holding components K, for an address with receivers R derived
\* at index j from the same account: j is recovered iff a shielded receiver of ua belongs to K.
\* Under a key of another account / seed nothing is recovered.
DecryptSpec(K, R, sameAccount) == sameAccount /\ (K \cap R \cap Shielded) # {}

\* -------------------------------------------------------------------------------------------
\* combining requests (`ReceiverRequirement::intersect`, `ReceiverRequirements::intersect`): the
\* stronger requirement wins; Require and Omit are incompatible; the result must still allow a
\* shielded receiver.

MeetLevel(a, b) == IF {a, b} = {"Require", "Omit"} THEN "Conflict"
                   ELSE IF "Require" \in {a, b} THEN "Require"
                   ELSE IF "Omit" \in {a, b} THEN "Omit"
                   ELSE "Allow"
IntersectSpec(r1, r2) ==
    LET o == MeetLevel(r1.o, r2.o)  s == MeetLevel(r1.s, r2.s)  t == MeetLevel(r1.t, r2.t)
    IN  IF "Conflict" \in {o, s, t} THEN [k |-> "conflict", o |-> "-", s |-> "-", t |-> "-"]
        ELSE IF o = "Omit" /\ s = "Omit" THEN [k |-> "noshielded", o |-> "-", s |-> "-", t |-> "-"]
        ELSE [k |-> "ok", o |-> o, s |-> s, t |-> t]
CustomRequests == {r \in Requests : r.kind = "custom" /\ Constructible(r)}

\* -------------------------------------------------------------------------------------------
\* string codecs: which (encoding network, decoding network) pairs read back

RealNets == {"main", "test", "regtest"}
CodecKinds == {"ufvk", "uivk", "ua", "extsk", "extfvk", "sapling_addr", "taddr"}
\* The network tag an encoding carries.  The Bech32(m) human-readable parts of all key and address
\* encodings are distinct on the three networks; the Base58Check version bytes of transparent
\* addresses are shared by testnet and regtest.
Tag(kind, n) == IF kind = "taddr" /\ n = "regtest" THEN "test" ELSE n
\* TRUE: decode(decNet, encode(encNet, x)) = x;  FALSE: the string is rejected
CodecSpec(kind, encNet, decNet) == Tag(kind, encNet) = Tag(kind, decNet)

\* -------------------------------------------------------------------------------------------
\* BIP 44 scopes of transparent addresses and the gap-limit address list
\*   m / 44' / coin_type' / account' / change / address_index,  change = 0 external, 1 internal,
\*   2 ephemeral (ZIP 320); any other change level is not managed.

Scopes == {"external", "internal", "ephemeral", "custom"}
ChangeLevel(sc) == CASE sc = "external" -> 0 [] sc = "internal" -> 1 [] sc = "ephemeral" -> 2 [] OTHER -> 7

(* One entry of `generate_address_list(uivk, ufvk, scope, request, range, require_key)` for an index   *)
(* of the range (always a valid P2PKH index).  F = components of the UFVK argument ({} if absent),      *)
(* I = components of the UIVK argument.  Result classes:                                                *)
(*   "empty"  no addresses (the account has no transparent key)                                         *)
(*   "err"    the call fails                                                                            *)
(*   "taddr"  the bare transparent address of that scope and index                                      *)
(*   "ua"     (external scope) the unified address Address(index, request) of the UIVK                  *)
(* The result is a set of allowed classes: for a request that requires a receiver the UIVK has no key   *)
(* for, the property fixes neither failure nor the transparent fallback.                                *)
GapSpec(F, I, sc, requireKey, r, sv) ==
    IF T \notin F THEN (IF sc \in {"internal", "ephemeral"} /\ requireKey THEN {"err"} ELSE {"empty"})
    ELSE IF sc = "custom" THEN {"err"}
    ELSE IF sc \in {"internal", "ephemeral"} THEN {"taddr"}
    ELSE IF T \notin I THEN {"err"}
    ELSE LET a == AddressSpec(I, r, [sv |-> sv, tv |-> TRUE])
             e == Eff(I, r)
         IN  IF a.k = "ok" THEN {"ua"}
             ELSE IF a.k = "badreq" THEN {"badreq"}
             ELSE IF a.retry THEN {"err"}                                  \* a required Sapling receiver cannot be derived
             ELSE IF \E c \in Components : e[c] = "Require" /\ c \notin I THEN {"err", "taddr"}
             ELSE {"taddr"}                                                \* no shielded receiver: transparent-only fallback

\* -------------------------------------------------------------------------------------------
\* the derive / encode / decode graph

CONSTANT MaxPath        \* number of steps explored before the terminal Address(j, req)

VARIABLES key,          \* [lvl, repr, comps, net]
          hist,         \* the steps taken
          res           \* result of the terminal evaluation ([k |-> "none"] before)

vars == << key, hist, res >>
Nets == {"home", "other"}      \* network the key was derived for / some other network
NoRes == [k |-> "none"]

USK0 == [lvl |-> "USK", repr |-> "value", comps |-> Components, net |-> "-"]

StepRec(a, n, c) == [a |-> a, n |-> n, c |-> c]
Step(s, k2) == /\ Len(hist) < MaxPath
               /\ res = NoRes
               /\ key' = k2
               /\ hist' = Append(hist, s)
               /\ UNCHANGED res

IsValue(lv) == key.repr = "value" /\ key.lvl \in lv

\* UnifiedSpendingKey::to_bytes(Era::Orchard) / from_bytes
ToBytes   == IsValue({"USK"}) /\ Step(StepRec("ToBytes", "-", {}), [key EXCEPT !.repr = "bytes"])
FromBytes == key.lvl = "USK" /\ key.repr = "bytes"
             /\ Step(StepRec("FromBytes", "-", {}), [key EXCEPT !.repr = "value"])
\* the same bytes with another era identifier are refused
FromBytesOtherEra == key.lvl = "USK" /\ key.repr = "bytes"
             /\ Step(StepRec("FromBytesOtherEra", "-", {}), [key EXCEPT !.repr = "rejected"])
\* to_unified_full_viewing_key / to_unified_incoming_viewing_key
DeriveFvk == IsValue({"USK"}) /\ Step(StepRec("DeriveFvk", "-", {}), [key EXCEPT !.lvl = "UFVK"])
DeriveIvk == IsValue({"UFVK"}) /\ Step(StepRec("DeriveIvk", "-", {}), [key EXCEPT !.lvl = "UIVK"])
\* a viewing key rebuilt from a proper subset of the parts of the full key
Project(C) == /\ IsValue({"UFVK", "UIVK"}) /\ key.comps = Components /\ C # Components
              /\ Step(StepRec("Project", "-", C), [key EXCEPT !.comps = C])
\* ZIP 316 string encodings exist only for keys with a shielded item
Encode(n) == /\ IsValue({"UFVK", "UIVK"}) /\ key.comps \cap Shielded # {}
             /\ Step(StepRec("Encode", n, {}), [key EXCEPT !.repr = "string", !.net = n])
Decode(n) == /\ key.repr = "string"
             /\ Step(StepRec("Decode", n, {}),
                     IF n = key.net THEN [key EXCEPT !.repr = "value", !.net = "-"]
                                    ELSE [key EXCEPT !.repr = "rejected"])
\* zcash_address container decode (reports the network of the string) followed by UFVK::parse
Parse == /\ key.lvl = "UFVK" /\ key.repr = "string"
         /\ Step(StepRec("Parse", key.net, {}), [key EXCEPT !.repr = "value", !.net = "-"])

PathStep == \/ ToBytes \/ FromBytes \/ FromBytesOtherEra \/ DeriveFvk \/ DeriveIvk \/ Parse
            \/ \E C \in Subsets : Project(C)
            \/ \E n \in Nets : Encode(n) \/ Decode(n)

AtEvalPoint == IsValue({"UFVK", "UIVK"})

Init == key = USK0 /\ hist = << >> /\ res = NoRes
===============================================================================
