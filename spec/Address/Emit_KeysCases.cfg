SPECIFICATION MCSpec
CONSTANTS
  MaxPath = 0
  MaxLine = 3
  Mode = "cases"
  EmitTables = FALSE
CHECK_DEADLOCK FALSE
