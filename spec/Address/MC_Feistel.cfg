SPECIFICATION Spec
CONSTANTS
  LBits = 1
  RBits = 2
  SameRounds = FALSE
INVARIANTS InverseLaw Bijection
CHECK_DEADLOCK FALSE
