SPECIFICATION Spec
CONSTANTS
  Emit = FALSE
INVARIANT PerString
CHECK_DEADLOCK FALSE
