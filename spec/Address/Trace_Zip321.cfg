SPECIFICATION TraceSpec
CONSTANTS
  MemoLen = 512
POSTCONDITION Accepted
CHECK_DEADLOCK FALSE
