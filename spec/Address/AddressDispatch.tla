---------------------------- MODULE AddressDispatch ----------------------------
(* C10 - which strings are Zcash addresses, of which kind and network, and what the canonical       *)
(* string of an address value is.                                                                   *)
(*                                                                                                  *)
(* Written from the protocol specification (5.6: Sprout / transparent addresses are Base58Check     *)
(* with two lead bytes, Sapling addresses are Bech32), ZIP 316 (unified addresses are Bech32m over  *)
(* the jumbled raw encoding, the padding names the HRP), ZIP 320 (TEX addresses are Bech32m of the  *)
(* 20-byte hash) and the rustdoc of zcash_address ("testnet and regtest share the transparent and   *)
(* Sprout prefixes"; "leading and trailing whitespace is removed").                                 *)
(*                                                                                                  *)
(* An ABSTRACT STRING says how the characters were produced, not what they are:                     *)
(*   [form = "bech", variant, hrp, case, payload, ws]   hrp  = [fam, net]                           *)
(*   [form = "b58",  ck, prefix, plen, ws]              prefix = [kind, net] | other | short        *)
(*   [form = "junk", ws]                                                                            *)
(* The harness materialises each class with real bytes (its own constants) and abstracts what the   *)
(* real parser answers.                                                                             *)
EXTENDS Naturals, Sequences, FiniteSets, TLC

Nets == {"main", "test", "regtest"}
AKinds == {"sprout", "sapling", "p2pkh", "p2sh", "tex", "unified"}
B58Kinds == {"sprout", "p2pkh", "p2sh"}
Values == [kind : AKinds, net : Nets]

\* payload length in bytes of the fixed-size kinds
DataLen(k) == CASE k = "sprout" -> 64 [] k = "sapling" -> 43 [] k \in {"p2pkh", "p2sh", "tex"} -> 20

\* ------------------------------------------------------------------ abstract strings
WS == {"none", "lead", "trail", "both", "inner"}
\* "uaLonger": the unified-address HRP of that network followed by further characters (a near miss)
Families == {"ua", "sapling", "tex", "ufvk", "uivk", "uaLonger"}
OtherHrp == [fam |-> "other", net |-> "main"]
Hrps == {[fam |-> f, net |-> n] : f \in Families, n \in Nets} \cup {OtherHrp}
Variants == {"bech32", "bech32m", "bad"}
LetterCases == {"lower", "upper", "mixed"}
\* ua_wf        jumbled raw encoding of a well-formed (Zip316) address container padded with THIS string's HRP
\* ua_othernet  the same, padded with the unified-address HRP of another network ("prefix swapped")
\* ua_ill       padded with this string's HRP, but the items are not well-formed per Zip316
\* rawN         N arbitrary bytes, not jumbled; rawOther: a length that no fixed-size kind has
BechPayloads == {"ua_wf", "ua_othernet", "ua_ill", "raw20", "raw43", "raw64", "rawOther"}
BechStrings == [form : {"bech"}, variant : Variants, hrp : Hrps, case : LetterCases, payload : BechPayloads, ws : WS]

\* Base58Check lead bytes exist for main and test only; regtest uses test's.
B58Nets == {"main", "test"}
OtherPrefix == [kind |-> "other", net |-> "main"]      \* two lead bytes that are no Zcash address prefix
ShortPrefix == [kind |-> "short", net |-> "main"]      \* fewer than two bytes under the checksum
Prefixes == {[kind |-> k, net |-> n] : k \in B58Kinds, n \in B58Nets} \cup {OtherPrefix, ShortPrefix}
PLens == {"20", "64", "other"}
B58Strings == [form : {"b58"}, ck : {"ok", "bad"}, prefix : Prefixes, plen : PLens, ws : WS]

JunkStrings == [form : {"junk"}, ws : WS]
Strings == BechStrings \cup B58Strings \cup JunkStrings

PLenOf(k) == IF DataLen(k) = 20 THEN "20" ELSE "64"
RawOf(k) == CASE DataLen(k) = 20 -> "raw20" [] DataLen(k) = 43 -> "raw43" [] DataLen(k) = 64 -> "raw64"

\* ------------------------------------------------------------------ the decision
Reject == [acc |-> FALSE]
Ok(k, n) == [acc |-> TRUE, kind |-> k, net |-> n]

ParseBech(s) ==
    IF s.case # "lower" THEN Reject          \* the canonical form is lower case; accepting another case
                                             \* would contradict "re-encodes to its own trimmed form"
    ELSE IF s.variant = "bech32m" /\ s.hrp.fam = "ua"
         THEN (IF s.payload = "ua_wf" THEN Ok("unified", s.hrp.net) ELSE Reject)
    ELSE IF s.variant = "bech32" /\ s.hrp.fam = "sapling"
         THEN (IF s.payload = "raw43" THEN Ok("sapling", s.hrp.net) ELSE Reject)
    ELSE IF s.variant = "bech32m" /\ s.hrp.fam = "tex"
         THEN (IF s.payload = "raw20" THEN Ok("tex", s.hrp.net) ELSE Reject)
    ELSE Reject

ParseB58(s) ==
    IF s.ck = "ok" /\ s.prefix.kind \in B58Kinds /\ s.plen = PLenOf(s.prefix.kind)
    THEN Ok(s.prefix.kind, s.prefix.net)
    ELSE Reject

Parse(s) ==
    IF s.ws = "inner" THEN Reject            \* only SURROUNDING whitespace is removed
    ELSE CASE s.form = "bech" -> ParseBech(s)
           [] s.form = "b58"  -> ParseB58(s)
           [] s.form = "junk" -> Reject

Trim(s) == IF s.ws = "inner" THEN s ELSE [s EXCEPT !.ws = "none"]

\* ------------------------------------------------------------------ the canonical string of a value
B58Net(n) == IF n = "regtest" THEN "test" ELSE n
Encode(v) ==
    CASE v.kind = "unified" -> [form |-> "bech", variant |-> "bech32m", hrp |-> [fam |-> "ua", net |-> v.net],
                                case |-> "lower", payload |-> "ua_wf", ws |-> "none"]
      [] v.kind = "sapling" -> [form |-> "bech", variant |-> "bech32", hrp |-> [fam |-> "sapling", net |-> v.net],
                                case |-> "lower", payload |-> "raw43", ws |-> "none"]
      [] v.kind = "tex"     -> [form |-> "bech", variant |-> "bech32m", hrp |-> [fam |-> "tex", net |-> v.net],
                                case |-> "lower", payload |-> "raw20", ws |-> "none"]
      [] v.kind \in B58Kinds -> [form |-> "b58", ck |-> "ok", prefix |-> [kind |-> v.kind, net |-> B58Net(v.net)],
                                 plen |-> PLenOf(v.kind), ws |-> "none"]

\* the documented sharing: a regtest Sprout / transparent address reads back as a testnet one
Canon(v) == IF v.kind \in B58Kinds THEN [v EXCEPT !.net = B58Net(v.net)] ELSE v
ValueOf(r) == [kind |-> r.kind, net |-> r.net]

\* `convert_if_network(want)` on a PARSED address v (the value of some accepted string): allowed iff the
\* string could be the encoding of an address of network `want`
ParsedValues == {Canon(w) : w \in Values}
ConvOK(v, want) == \E w \in Values : w.net = want /\ Parse(Encode(w)).acc /\ ValueOf(Parse(Encode(w))) = v

\* ------------------------------------------------------------------ theorems (TLC, exhaustively)
ThRoundTrip == \A v \in Values :
    /\ Encode(v) \in Strings
    /\ Parse(Encode(v)) = Ok(Canon(v).kind, Canon(v).net)
    /\ (Canon(v) # v) = (v.net = "regtest" /\ v.kind \in B58Kinds)        \* the ONLY exception
ThCanonical(s) == Parse(s).acc => Encode(ValueOf(Parse(s))) = Trim(s)
ThInjective == \A v, w \in Values : Encode(v) = Encode(w) => Canon(v) = Canon(w)
ThWhitespace(s) == s.ws # "inner" => Parse(s) = Parse(Trim(s))
ThParsed == ParsedValues = {ValueOf(Parse(s)) : s \in {t \in Strings : Parse(t).acc}}
ThConv == \A v \in ParsedValues, want \in Nets :
    ConvOK(v, want) = (v.net = want \/ (v.net = "test" /\ want = "regtest" /\ v.kind \in B58Kinds))
================================================================================
