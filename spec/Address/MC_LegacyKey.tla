---------------------------- MODULE MC_LegacyKey ----------------------------
(* C11: enumeration and theorems of LegacyKey.tla.  Every case = (key bytes, prefix byte, payload     *)
(* shape, checksum state, decoding network) is printed with the verdict the specification predicts;   *)
(* the round-trip theorems are invariants / assumptions over the abstract codec.                      *)
EXTENDS LegacyKey, TLC, Json

VARIABLES c, done

KeyNames == {"rand", "one", "nm1", "zero", "order", "np1", "max"}
WithLast(k, b) == [k EXCEPT ![32] = b]
KeyBytes(n) == CASE n = "rand"  -> [i \in 1..32 |-> IF i = 1 THEN 17 ELSE 66]   \* replaced by random valid scalars in the replay
                 [] n = "one"   -> WithLast(Const(0), 1)
                 [] n = "nm1"   -> WithLast(OrderN, 64)
                 [] n = "zero"  -> Const(0)
                 [] n = "order" -> OrderN
                 [] n = "np1"   -> WithLast(OrderN, 66)
                 [] n = "max"   -> Const(255)
ValidNames == {n \in KeyNames : ValidScalar(KeyBytes(n))}

PrefixBytes == {128, 239, 0, 129, 238}            \* both real prefixes and three bytes that are nobody's
Shapes == {"s0", "s1", "s32", "s33", "s34_0", "s34_1", "s34_2", "s35"}
Cks == {"ok", "bad", "badchar"}                   \* checksum verifies / one checksum bit flipped / a non-alphabet character

Payload(k, p, shape) ==
    CASE shape = "s0"    -> << >>
      [] shape = "s1"    -> << p >>
      [] shape = "s32"   -> << p >> \o SubSeq(k, 1, 31)
      [] shape = "s33"   -> << p >> \o k
      [] shape = "s34_0" -> << p >> \o k \o << 0 >>
      [] shape = "s34_1" -> << p >> \o k \o << 1 >>
      [] shape = "s34_2" -> << p >> \o k \o << 2 >>
      [] shape = "s35"   -> << p >> \o k \o << 1, 1 >>

Cases == [key : KeyNames, pfx : PrefixBytes, shape : Shapes, ck : Cks, net : Nets]
Str(x) == [payload |-> Payload(KeyBytes(x.key), x.pfx, x.shape), ck |-> x.ck]

CaseRec(x) == LET r == DecodeWif(Str(x), x.net)
              IN [key |-> x.key, pfx |-> x.pfx, shape |-> x.shape, ck |-> x.ck, net |-> x.net,
                  payload |-> Str(x).payload, ok |-> r.ok,
                  compressed |-> IF r.ok THEN r.compressed ELSE FALSE]

Init == c \in Cases /\ done = FALSE
Eval == /\ ~done /\ done' = TRUE /\ UNCHANGED c
        /\ PrintT(<< "CASE", ToJson(CaseRec(c)) >>)
MCSpec == Init /\ [][Eval]_<< c, done >>

\* accepted strings re-encode to themselves
ThDecodeEncode == LET r == DecodeWif(Str(c), c.net)
                  IN r.ok => EncodeWif(r.key, r.compressed, c.net) = Str(c)
\* the accepted strings of a network are exactly the encodings of its valid keys
ThAcceptIffEncoding == LET s == Str(c)
                           k == IF Len(s.payload) >= 33 THEN SubSeq(s.payload, 2, 33) ELSE << >>
                       IN DecodeWif(s, c.net).ok <=> (ValidScalar(k) /\ \E b \in BOOLEAN : s = EncodeWif(k, b, c.net))
Theorems == ThDecodeEncode /\ ThAcceptIffEncoding

\* Decode(Encode(k, b, n1), n2) = (k, b) iff the two networks share the prefix byte, else refused
EncRec(n, b, n1) == [key |-> n, compressed |-> b, net |-> n1, payload |-> EncodeWif(KeyBytes(n), b, n1).payload,
                     der_len |-> DerLen(b), pub_len |-> PubLen(b),
                     dec |-> [n2 \in Nets |-> DecodeWif(EncodeWif(KeyBytes(n), b, n1), n2).ok]]
ASSUME ThEncodeDecode ==
    \A n \in ValidNames, b \in BOOLEAN, n1 \in Nets, n2 \in Nets :
        LET r == DecodeWif(EncodeWif(KeyBytes(n), b, n1), n2)
        IN /\ r.ok <=> Prefix[n1] = Prefix[n2]
           /\ r.ok => r.key = KeyBytes(n) /\ r.compressed = b
ASSUME ValidNames = {"rand", "one", "nm1"}
ASSUME Prefix["test"] = Prefix["regtest"] /\ Prefix["main"] # Prefix["test"]
ASSUME \A n \in ValidNames, b \in BOOLEAN, n1 \in Nets : PrintT(<< "ENC", ToJson(EncRec(n, b, n1)) >>)
ASSUME PrintT(<< "CONST", ToJson([order |-> OrderN, prefix |-> Prefix]) >>)
=============================================================================
