------------------------------ MODULE LegacyKey ------------------------------
(* C11, legacy transparent secret key encoding ("WIF" as used by zcashd, key_io.cpp EncodeSecret /   *)
(* DecodeSecret; rustdoc of zcash_keys::keys::transparent::Key).  Written as data:                    *)
(*                                                                                                    *)
(*   payload = << secret-key prefix byte of the network >> \o key (32 bytes, big endian)              *)
(*             \o (IF compressed THEN << 1 >> ELSE << >>)                                             *)
(*   string  = Base58Check(payload)      (an injective text form with a 4-byte checksum; here a       *)
(*                                        record [payload, ck], ck = "ok" iff the checksum verifies)  *)
(*                                                                                                    *)
(* A string is accepted for a network iff its checksum verifies, the payload has 33 or 34 bytes, the  *)
(* first byte is the network's secret-key prefix, a 34th byte is exactly 1 and the 32 key bytes are a *)
(* valid secp256k1 secret key (non-zero, below the group order).                                      *)
EXTENDS Naturals, Sequences

Nets == {"main", "test", "regtest"}

\* zcash_protocol::constants::{mainnet, testnet, regtest}::B58_SECRET_KEY_PREFIX (= zcashd base58Prefixes[SECRET_KEY])
Prefix == [n \in Nets |-> IF n = "main" THEN 128 ELSE 239]      \* 0x80; 0xEF shared by testnet and regtest

\* order of the secp256k1 group, big endian
OrderN == << 255, 255, 255, 255, 255, 255, 255, 255, 255, 255, 255, 255, 255, 255, 255, 254,
             186, 174, 220, 230, 175, 72, 160, 59, 191, 210, 94, 140, 208, 54, 65, 65 >>

Const(b) == [i \in 1..32 |-> b]
LexLess(a, b) == \E i \in 1..Len(a) : a[i] < b[i] /\ \A j \in 1..(i - 1) : a[j] = b[j]
ValidScalar(k) == Len(k) = 32 /\ k # Const(0) /\ LexLess(k, OrderN)

\* sizes of zcashd's DER private key form (CKey::COMPRESSED_PRIVATE_KEY_SIZE / PRIVATE_KEY_SIZE) and of the
\* public key serialisation it ends with
DerLen(compressed) == IF compressed THEN 214 ELSE 279
PubLen(compressed) == IF compressed THEN 33 ELSE 65

Base58Check(p) == [payload |-> p, ck |-> "ok"]

EncodeWif(k, compressed, net) == Base58Check(<< Prefix[net] >> \o k \o (IF compressed THEN << 1 >> ELSE << >>))

Reject == [ok |-> FALSE]
DecodeWif(s, net) ==
    LET p == s.payload
    IN IF s.ck # "ok" THEN Reject
       ELSE IF Len(p) \notin {33, 34} THEN Reject
       ELSE IF p[1] # Prefix[net] THEN Reject
       ELSE IF Len(p) = 34 /\ p[34] # 1 THEN Reject
       ELSE IF ~ValidScalar(SubSeq(p, 2, 33)) THEN Reject
       ELSE [ok |-> TRUE, key |-> SubSeq(p, 2, 33), compressed |-> Len(p) = 34]
=============================================================================
