------------------------------- MODULE MC_Zip316 -------------------------------
(* C10: every unified container of at most MaxLen items over the 7 typecode classes x {right, wrong *)
(* length} x both paddings x the three container kinds (permutations and duplicates included).      *)
(* One state per container: TLC checks the theorems of Zip316 on it and (Emit) prints the case with *)
(* the verdict the specification gives, for the replay on the real decoders.                        *)
EXTENDS Zip316, Json

CONSTANTS MaxLen,     \* longest item sequence
          Emit        \* print the cases

VARIABLES c, done
vars == << c, done >>

SeqsUpTo(S, n) == UNION {[1..k -> S] : k \in 0..n}

\* The replay harness chooses the bytes; it can always reach a size inside the jumble domain except
\* when every item is a known one of the exact length and they are too few -- then the size is forced.
Forced(k, s) == \A i \in 1..Len(s) : IsKnown(Cls(s[i])) /\ s[i].lenOK /\ KnownLen(k, Cls(s[i])) > 0
NominalSize == 100
SizeOf(k, s) == LET raw == RawLenKnown([kind |-> k, items |-> s])
                IN  IF Forced(k, s) /\ ~SizeOK(raw) THEN raw ELSE NominalSize

\* items over one representative typecode per class
RepItem == {[n |-> Rep(tc), lenOK |-> b] : tc \in TC, b \in BOOLEAN}
Domain == {[kind |-> k, items |-> s, padding |-> p, size |-> SizeOf(k, s), struct |-> "ok"] :
              k \in Kinds, s \in SeqsUpTo(RepItem, MaxLen), p \in {"hrp", "wrong"}}

\* an item travels as  2 * (index of its class) + lenOK ; the harness picks the number inside the class
Code(it) == 2 * (Ord(Cls(it)) - 1) + (IF it.lenOK THEN 1 ELSE 0)
ASSUME \A tc \in TC : TcClass(Rep(tc)) = tc
ASSUME \A a, b \in TC : (Ord(a) < Ord(b)) = (Rep(a) < Rep(b))
Constructible(cc) == \A i \in 1..Len(cc.items) : ItemOK(cc.kind, cc.items[i])

Case(cc) == [k   |-> cc.kind,
             it  |-> [i \in 1..Len(cc.items) |-> Code(cc.items[i])],
             p   |-> cc.padding,
             z   |-> cc.size,
             acc |-> WellFormed(cc),
             by  |-> {k \in Kinds : Accepts(k, cc)},
             rs  |-> Reasons(cc),
             tfi |-> IF ~Constructible(cc) THEN "na"
                     ELSE IF SetValid(cc.kind, cc.items) THEN "accept" ELSE "reject"]

Init == c \in Domain /\ done = FALSE
Eval == /\ ~done
        /\ done' = TRUE
        /\ c' = c
        /\ Emit => PrintT(<< "UC", ToJson(Case(c)) >>)
Next == Eval
Spec == Init /\ [][Next]_vars

TheoremsHold == Theorems(c)
\* the only decoder that may accept is the one of the container's own kind
OwnKindOnly == \A k \in Kinds : Accepts(k, c) => k = c.kind

\* tables for the harness' self-check (its own constants must be the ones of this specification)
ASSUME PrintT(<< "TABLE", ToJson([tcs |-> TCs,
                                  lens |-> [k \in Kinds |-> [i \in 1..4 |-> KnownLen(k, TCs[i])]],
                                  jumbleMin |-> JumbleMin, jumbleMax |-> JumbleMax,
                                  cases |-> Cardinality(Domain),
                                  accepted |-> Cardinality({cc \in Domain : WellFormed(cc)})]) >>)
================================================================================
