SPECIFICATION MCSpec
CONSTANTS
  MaxPath = 5
  MaxLine = 3
  Mode = "mc"
  EmitTables = FALSE
INVARIANT Theorems
CHECK_DEADLOCK FALSE
