--------------------------------- MODULE Feistel ---------------------------------
(* C10 - F4Jumble (ZIP 316, "Jumbling") as what it structurally is: an unkeyed 4-round UNBALANCED    *)
(* Feistel network                                                                                  *)
(*        x = b (+) G0(a)     y = a (+) H0(x)     d = x (+) G1(y)     c = y (+) H1(d)               *)
(*        F4Jumble(a || b) = c || d                                                                 *)
(* over ARBITRARY round functions G_i : left -> right, H_i : right -> left.  TLC checks, for EVERY   *)
(* choice of the four round functions over tiny halves (LBits, RBits bits), that the network is a   *)
(* length-preserving bijection whose inverse is the network run backwards -- i.e. the property      *)
(* "inverse . jumble = id" owes nothing to BLAKE2b.  What the real G/H are (BLAKE2b with the        *)
(* "UA_F4Jumble_G/H" personalisations) is outside TLA+: the harness compares the crate's bytes with *)
(* its own reference construction.  The second half states the length rules of ZIP 316.             *)
EXTENDS Naturals, FiniteSets, TLC

CONSTANTS LBits, RBits,     \* widths of the two halves (LBits <= RBits, as in F4Jumble)
          SameRounds        \* TRUE: restrict to G1 = G0, H1 = H0 (to afford wider halves)

LV == 0..(2^LBits - 1)
RV == 0..(2^RBits - 1)

Xor(x, y, n) == LET f[i \in 0..n] == IF i = 0 THEN 0
                                     ELSE f[i - 1] + (((x \div 2^(i - 1)) + (y \div 2^(i - 1))) % 2) * 2^(i - 1)
                IN  f[n]
XLT == [x \in LV, y \in LV |-> Xor(x, y, LBits)]      \* tables: constant-level, evaluated once
XRT == [x \in RV, y \in RV |-> Xor(x, y, RBits)]
XL(x, y) == XLT[x, y]
XR(x, y) == XRT[x, y]

Jumble(G0, H0, G1, H1, a, b) ==
    LET x == XR(b, G0[a])
        y == XL(a, H0[x])
        d == XR(x, G1[y])
        c == XL(y, H1[d])
    IN  << c, d >>

JumbleInv(G0, H0, G1, H1, c, d) ==
    LET y == XL(c, H1[d])
        x == XR(d, G1[y])
        a == XL(y, H0[x])
        b == XR(x, G0[a])
    IN  << a, b >>

VARIABLES g0, h0, g1, h1
vars == << g0, h0, g1, h1 >>

Init == /\ g0 \in [LV -> RV] /\ h0 \in [RV -> LV]
        /\ g1 \in (IF SameRounds THEN {g0} ELSE [LV -> RV])
        /\ h1 \in (IF SameRounds THEN {h0} ELSE [RV -> LV])
Next == UNCHANGED vars
Spec == Init /\ [][Next]_vars

\* inverse . jumble = id, jumble . inverse = id, halves keep their widths, and hence a bijection
InverseLaw == \A a \in LV, b \in RV :
    LET j == Jumble(g0, h0, g1, h1, a, b)
        i == JumbleInv(g0, h0, g1, h1, a, b)
    IN  /\ j[1] \in LV /\ j[2] \in RV
        /\ i[1] \in LV /\ i[2] \in RV
        /\ JumbleInv(g0, h0, g1, h1, j[1], j[2]) = << a, b >>
        /\ Jumble(g0, h0, g1, h1, i[1], i[2]) = << a, b >>
Bijection == Cardinality({Jumble(g0, h0, g1, h1, a, b) : a \in LV, b \in RV}) = Cardinality(LV) * Cardinality(RV)

\* ------------------------------------------------------------------ lengths (ZIP 316)
HashLen == 64                                  \* l_H: BLAKE2b output bytes
JumbleMin == 48
JumbleMax == 4194368                           \* (2^16 + 1) * l_H
ValidLength(n) == JumbleMin <= n /\ n <= JumbleMax
Min2(a, b) == IF a <= b THEN a ELSE b
LeftLen(n) == Min2(HashLen, n \div 2)
RightLen(n) == n - LeftLen(n)
GBlocks(n) == (RightLen(n) + HashLen - 1) \div HashLen      \* BLAKE2b-512 calls of one G round

ThSplit(n) ==
    ValidLength(n) =>
        /\ LeftLen(n) + RightLen(n) = n                     \* length preserved by construction
        /\ LeftLen(n) >= 24 /\ LeftLen(n) <= HashLen        \* H is one BLAKE2b call of 24..64 bytes
        /\ LeftLen(n) <= RightLen(n)                        \* unbalanced to the right
        /\ GBlocks(n) >= 1 /\ GBlocks(n) <= 65536           \* the block index j fits I2LEOSP_16
\* the upper bound is tight: one more byte needs a 65537th block
ThTight == GBlocks(JumbleMax) = 65536 /\ GBlocks(JumbleMax + 1) = 65537 /\ JumbleMax = (65536 + 1) * HashLen

LengthsChecked == (JumbleMin - 8 .. 2100) \cup (JumbleMax - 300 .. JumbleMax + 8)
                  \cup {64 * k + e : k \in 1..40, e \in {0, 1, 63}} \cup {16384 + 64, 16384 + 65, 1048576, 2621476}
ASSUME \A n \in LengthsChecked : ThSplit(n)
ASSUME ThTight
================================================================================
