SPECIFICATION Spec
CONSTANTS
  MaxLen = 3
  Emit = FALSE
INVARIANTS TheoremsHold OwnKindOnly
CHECK_DEADLOCK FALSE
