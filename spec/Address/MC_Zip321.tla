----------------------------------- MODULE MC_Zip321 -----------------------------------
(* C12: the specification alone, and the case generator of the spec -> code direction.             *)
(*                                                                                                  *)
(* One state per case.  Families "T_*" are theorems about the text forms (checked for every case   *)
(* of a bounded domain); the other families are URIs at layer 1, for which TLC checks the URI       *)
(* theorems (lead-address equivalence, order-insensitivity, valid => the denoted payments satisfy  *)
(* the rules and re-render to a valid URI with the same meaning) and, when Emit, prints the case    *)
(* with the verdict and the denoted payments for replay on TransactionRequest::from_uri.            *)
EXTENDS Zip321, TLC, Json

CONSTANTS Fams,        \* families to run
          MaxLen,      \* "shape": longest item list
          IdxN,        \* "shape": number of index texts used (none, "1", "2")
          PctLen,      \* "pct": longest token sequence
          Emit         \* print the URI cases

VARIABLES fam, c, done
vars == <<fam, c, done>>

Small == INSTANCE Zip321 WITH MemoLen <- 5           \* the padding theorems on a 5-byte memo field

SeqsUpTo(S, n) == UNION {[1..k -> S] : k \in 0..n}
SeqsFromTo(S, m, n) == UNION {[1..k -> S] : k \in m..n}

\* ------------------------------------------------------------------ fixed texts
O_foo    == <<102, 111, 111>>                  \* foo
O_xb1    == <<120, 45, 98, 43, 49>>            \* x-b+1
R_reqx   == <<114, 101, 113, 45, 120>>         \* req-x
V_a20b   == <<97, 37, 50, 48, 98>>             \* a%20b
V_eacute == <<37, 67, 51, 37, 65, 57>>         \* %C3%A9
V_one    == <<49>>
V_zero   == <<48>>
V_1p5    == <<49, 46, 53>>
M_hi     == <<104, 105>>
ZcashColon == <<122, 99, 97, 115, 104, 58>>

AmountTexts == <<
    <<48>>,   \* '0'
    <<48, 48>>,   \* '00'
    <<48, 46, 48>>,   \* '0.0'
    <<48, 46, 48, 48, 48, 48, 48, 48, 48, 48>>,   \* '0.00000000'
    <<48, 46, 48, 48, 48, 48, 48, 48, 48, 49>>,   \* '0.00000001'
    <<48, 46, 48, 48, 48, 48, 48, 48, 49>>,   \* '0.0000001'
    <<48, 46, 48, 48, 48, 48, 48, 48, 49, 48>>,   \* '0.00000010'
    <<48, 46, 48, 48, 48, 48, 48, 48, 48, 48, 49>>,   \* '0.000000001'
    <<48, 46, 48, 48, 48, 48, 48, 48, 48, 48, 48>>,   \* '0.000000000'
    <<49>>,   \* '1'
    <<48, 49>>,   \* '01'
    <<49, 46, 48>>,   \* '1.0'
    <<49, 46>>,   \* '1.'
    <<49, 46, 53>>,   \* '1.5'
    <<49, 46, 53, 48>>,   \* '1.50'
    <<49, 46, 48, 53>>,   \* '1.05'
    <<46, 53>>,   \* '.5'
    <<46>>,   \* '.'
    << >>,   \* ''
    <<48, 46, 49>>,   \* '0.1'
    <<48, 46, 49, 50, 51, 52, 53, 54, 55, 56>>,   \* '0.12345678'
    <<48, 46, 49, 50, 51, 52, 53, 54, 55, 56, 57>>,   \* '0.123456789'
    <<49, 48>>,   \* '10'
    <<49, 48, 48, 48, 48, 48, 48, 48, 48>>,   \* '100000000'
    <<50, 49, 48, 48, 48, 48, 48, 48>>,   \* '21000000'
    <<48, 50, 49, 48, 48, 48, 48, 48, 48>>,   \* '021000000'
    <<48, 48, 48, 48, 48, 48, 48, 48, 48, 48, 48, 48, 48, 48, 48, 48, 48, 48, 48, 48, 48, 48, 48, 50, 49, 48, 48, 48, 48, 48, 48>>,   \* '0000000000000000000000021000000'
    <<50, 49, 48, 48, 48, 48, 48, 48, 46, 48>>,   \* '21000000.0'
    <<50, 49, 48, 48, 48, 48, 48, 48, 46, 48, 48, 48, 48, 48, 48, 48, 48>>,   \* '21000000.00000000'
    <<50, 48, 57, 57, 57, 57, 57, 57, 46, 57, 57, 57, 57, 57, 57, 57, 57>>,   \* '20999999.99999999'
    <<50, 49, 48, 48, 48, 48, 48, 48, 46, 48, 48, 48, 48, 48, 48, 48, 49>>,   \* '21000000.00000001'
    <<50, 49, 48, 48, 48, 48, 48, 49>>,   \* '21000001'
    <<50, 48, 57, 57, 57, 57, 57, 57, 46, 57, 57, 57, 57, 57, 57, 57, 57, 57>>,   \* '20999999.999999999'
    <<50, 49, 48, 48, 48, 48, 48, 48, 46, 48, 48, 48, 48, 48, 48, 48, 48, 48>>,   \* '21000000.000000000'
    <<50, 49, 48, 48, 48, 48, 48, 48, 48, 48, 48, 48, 48, 48, 48, 48>>,   \* '2100000000000000'
    <<57, 57, 57, 57, 57, 57, 57, 57, 46, 57, 57, 57, 57, 57, 57, 57, 57>>,   \* '99999999.99999999'
    <<49, 56, 52, 52, 54, 55, 52, 52, 48, 55, 51, 55, 46, 48, 57, 53, 53, 49, 54, 49, 53>>,   \* '184467440737.09551615'
    <<49, 56, 52, 52, 54, 55, 52, 52, 48, 55, 51, 55, 46, 48, 57, 53, 53, 49, 54, 49, 54>>,   \* '184467440737.09551616'
    <<49, 56, 52, 52, 54, 55, 52, 52, 48, 55, 51, 55, 48, 57, 53, 53, 49, 54, 49, 53>>,   \* '18446744073709551615'
    <<49, 56, 52, 52, 54, 55, 52, 52, 48, 55, 51, 55, 48, 57, 53, 53, 49, 54, 49, 54>>,   \* '18446744073709551616'
    <<57, 50, 50, 51, 51, 55, 50, 48, 51, 54, 56, 46, 53, 52, 55, 55, 53, 56, 48, 55>>,   \* '92233720368.54775807'
    <<57, 50, 50, 51, 51, 55, 50, 48, 51, 54, 56, 53, 52, 55, 55, 53, 56, 48, 56>>,   \* '9223372036854775808'
    <<49, 56, 52, 52, 54, 55, 52, 52, 48, 55, 51, 55, 48, 57, 53, 53, 49, 54, 50, 52>>,   \* '18446744073709551624'
    <<49, 101, 56>>,   \* '1e8'
    <<49, 69, 56>>,   \* '1E8'
    <<49, 44, 53>>,   \* '1,5'
    <<45, 49>>,   \* '-1'
    <<43, 49>>,   \* '+1'
    <<49, 46, 53, 46, 48>>,   \* '1.5.0'
    <<49, 46, 46, 53>>,   \* '1..5'
    <<48, 120, 49, 48>>,   \* '0x10'
    <<49, 32>>,   \* '1 '
    <<37, 51, 49>>,   \* '%31'
    <<49, 37, 51, 48>>,   \* '1%30'
    <<49, 95, 48>>,   \* '1_0'
    <<217, 161>>   \* '١'
>>

PctTokens == <<
    <<97>>,   \* raw qchar a
    <<90>>,   \* raw qchar Z
    <<53>>,   \* raw qchar 5
    <<45>>,   \* raw qchar -
    <<46>>,   \* raw qchar .
    <<95>>,   \* raw qchar _
    <<126>>,   \* raw qchar ~
    <<33>>,   \* raw qchar !
    <<36>>,   \* raw qchar $
    <<39>>,   \* raw qchar '
    <<40>>,   \* raw qchar (
    <<41>>,   \* raw qchar )
    <<42>>,   \* raw qchar *
    <<43>>,   \* raw qchar +
    <<44>>,   \* raw qchar ,
    <<59>>,   \* raw qchar ;
    <<58>>,   \* raw qchar :
    <<64>>,   \* raw qchar @
    <<32>>,   \* raw, not a qchar: ' '
    <<34>>,   \* raw, not a qchar: '"'
    <<35>>,   \* raw, not a qchar: '#'
    <<47>>,   \* raw, not a qchar: '/'
    <<60>>,   \* raw, not a qchar: '<'
    <<62>>,   \* raw, not a qchar: '>'
    <<63>>,   \* raw, not a qchar: '?'
    <<91>>,   \* raw, not a qchar: '['
    <<92>>,   \* raw, not a qchar: '\\'
    <<93>>,   \* raw, not a qchar: ']'
    <<94>>,   \* raw, not a qchar: '^'
    <<96>>,   \* raw, not a qchar: '`'
    <<123>>,   \* raw, not a qchar: '{'
    <<124>>,   \* raw, not a qchar: '|'
    <<125>>,   \* raw, not a qchar: '}'
    <<61>>,   \* raw, not a qchar: '='
    <<1>>,   \* raw control 0x01
    <<127>>,   \* raw DEL
    <<195, 169>>,   \* raw non-ASCII (e acute)
    <<37, 50, 48>>,   \* escape %20
    <<37, 50, 53>>,   \* escape %25
    <<37, 50, 54>>,   \* escape %26
    <<37, 51, 68>>,   \* escape %3D
    <<37, 50, 51>>,   \* escape %23
    <<37, 51, 70>>,   \* escape %3F
    <<37, 50, 66>>,   \* escape %2B
    <<37, 52, 49>>,   \* escape %41
    <<37, 55, 69>>,   \* escape %7E
    <<37, 48, 48>>,   \* escape %00
    <<37, 48, 65>>,   \* escape %0A
    <<37, 55, 70>>,   \* escape %7F
    <<37, 50, 102>>,   \* escape %2f
    <<37, 99, 51, 37, 97, 57>>,   \* escape %c3%a9
    <<37, 67, 51, 37, 65, 57>>,   \* escape %C3%A9
    <<37, 69, 50, 37, 56, 50, 37, 65, 67>>,   \* escape %E2%82%AC
    <<37, 70, 48, 37, 57, 70, 37, 57, 56, 37, 56, 48>>,   \* escape %F0%9F%98%80
    <<37>>,   \* unspecified: %
    <<37, 52>>,   \* unspecified: %4
    <<37, 90, 90>>,   \* unspecified: %ZZ
    <<37, 52, 71>>,   \* unspecified: %4G
    <<37, 70, 70>>,   \* unspecified: %FF
    <<37, 67, 51>>,   \* unspecified: %C3
    <<37, 69, 68, 37, 65, 48, 37, 56, 48>>,   \* unspecified: %ED%A0%80
    <<37, 67, 48, 37, 56, 48>>   \* unspecified: %C0%80
>>

IndexTexts == <<
    << >>,   \* '' (dot, nothing)
    <<48>>,   \* '0' 
    <<48, 48>>,   \* '00' 
    <<48, 49>>,   \* '01' 
    <<49>>,   \* '1' 
    <<50>>,   \* '2' 
    <<57>>,   \* '9' 
    <<49, 48>>,   \* '10' 
    <<57, 57>>,   \* '99' 
    <<49, 48, 48>>,   \* '100' 
    <<57, 57, 57>>,   \* '999' 
    <<49, 48, 48, 48>>,   \* '1000' 
    <<57, 57, 57, 57>>,   \* '9999' 
    <<48, 57, 57, 57, 57>>,   \* '09999' 
    <<49, 48, 48, 48, 48>>,   \* '10000' 
    <<57, 57, 57, 57, 57>>,   \* '99999' 
    <<49, 97>>,   \* '1a' 
    <<97>>,   \* 'a' 
    <<45, 49>>,   \* '-1' 
    <<49, 46, 49>>,   \* '1.1' 
    <<43, 49>>,   \* '+1' 
    <<37, 51, 49>>,   \* '%31' 
    <<217, 163>>   \* '٣' arabic-indic digit
>>

MemoSyntax == <<
    <<57, 103, 61, 61>>,   \* '9g=='
    <<97, 71, 107, 61>>,   \* 'aGk='
    <<97, 71, 43, 107>>,   \* 'aG+k'
    <<97, 47, 71, 107>>,   \* 'a/Gk'
    <<65>>,   \* 'A'
    <<97, 71, 107, 97, 71>>,   \* 'aGkaG'
    <<57, 104>>,   \* '9h'
    <<97, 71, 108>>,   \* 'aGl'
    <<37, 54, 49, 71, 107>>,   \* '%61Gk'
    <<97, 71, 32, 107>>,   \* 'aG k'
    <<97, 71, 107, 46>>,   \* 'aGk.'
    <<97, 71, 107, 45>>,   \* 'aGk-'
    <<97, 71, 107, 95>>   \* 'aGk_'
>>

\* ------------------------------------------------------------------ layer-1 constructors
P(nm, dot, ix, eq, raw, a, kd) == [nm |-> nm, dot |-> dot, ix |-> ix, eq |-> eq, raw |-> raw, a |-> a, kd |-> kd]
PI(nm, ixb, raw) == P(nm, ixb # << >>, ixb, TRUE, raw, "", "")                 \* name[.index]=raw
PA(ixb, slot, kd) == P(N_address, ixb # << >>, ixb, TRUE, << >>, slot, kd)     \* address[.index]=<address of kind kd>
EmptyItem == P(<< >>, FALSE, << >>, FALSE, << >>, "", "")
NoEq(nm, ixb) == P(nm, ixb # << >>, ixb, FALSE, << >>, "", "")
LeadA(slot, kd) == [t |-> "addr", a |-> slot, kd |-> kd]
U(lead, ps) == [sch |-> "ok", st |-> ZcashColon, lead |-> lead, ps |-> ps]
KindsAndBad == Kinds \cup {"bad"}

\* ------------------------------------------------------------------ URI families
ShapeIdx == SubSeq(<< << >>, <<49>>, <<50>> >>, 1, IdxN)
ShapeItem(v, ixb, pos) ==
    CASE v = 1 -> PA(ixb, "P" \o ToString(pos), "sapling")
      [] v = 2 -> PA(ixb, "P" \o ToString(pos), "p2pkh")
      [] v = 3 -> PI(N_amount, ixb, V_zero)
      [] v = 4 -> PI(N_amount, ixb, V_1p5)
      [] v = 5 -> PI(N_memo, ixb, B64Enc(M_hi))
      [] v = 6 -> PI(N_label, ixb, V_a20b)
      [] v = 7 -> PI(N_message, ixb, << >>)
      [] v = 8 -> PI(O_foo, ixb, V_one)
      [] v = 9 -> PI(O_xb1, ixb, V_eacute)
      [] v = 10 -> PI(R_reqx, ixb, V_one)
ShapeLeads == {NoLead, LeadA("L", "sapling"), LeadA("L", "p2pkh")}
ShapeCases == {U(l, [j \in DOMAIN f |-> ShapeItem(f[j][1], ShapeIdx[f[j][2]], j)]) :
                  l \in ShapeLeads, f \in SeqsUpTo((1..10) \X (1..IdxN), MaxLen)}

IndexForms == {<<FALSE, << >>>>} \cup {<<TRUE, IndexTexts[k]>> : k \in DOMAIN IndexTexts}
IndexItem(v, form, pos) ==
    IF v = 1 THEN P(N_address, form[1], form[2], TRUE, << >>, "P" \o ToString(pos), "sapling")
    ELSE P(N_label, form[1], form[2], TRUE, V_a20b, "", "")
IndexCases == {U(l, [j \in DOMAIN f |-> IndexItem(f[j][1], f[j][2], j)]) :
                  l \in {NoLead, LeadA("L", "sapling")}, f \in SeqsUpTo((1..2) \X IndexForms, 2)}

AmountCases == {U(LeadA("L", k), <<PI(N_amount, << >>, AmountTexts[t])>>) : k \in Kinds, t \in DOMAIN AmountTexts}
               \cup {U(NoLead, <<PA(<<49>>, "P1", k), PI(N_amount, <<49>>, AmountTexts[t])>>) :
                        k \in Kinds, t \in DOMAIN AmountTexts}

Fill(n, first, fill, last) == [i \in 1..n |-> IF i = 1 THEN first ELSE IF i = n THEN last ELSE fill]
MemoBytesSmall == {<< >>, <<0>>, <<0, 0>>, <<65>>, <<65, 0>>, <<65, 0, 66>>, <<244>>, <<244, 128>>, <<245>>, <<246>>,
                   <<246, 0>>, <<246, 1>>, <<246, 0, 1>>, <<247, 1, 2>>, <<254>>, <<255>>, <<255, 0, 0>>, <<255, 1, 2, 3>>,
                   <<195, 169>>, <<195>>, <<128>>, M_hi, <<104, 105, 0, 0, 0>>}
MemoBytesBig == {Fill(n, f, x[1], x[2]) : n \in {511, 512, 513, 600}, f \in {65, 246, 255},
                                           x \in {<<0, 0>>, <<7, 7>>, <<7, 0>>}}
MemoCases == {U(LeadA("L", k), <<PI(N_memo, << >>, B64Enc(b))>>) : k \in Kinds, b \in MemoBytesSmall}
             \cup {U(LeadA("L", k), <<PI(N_memo, << >>, MemoSyntax[s])>>) : k \in {"sapling", "tex"}, s \in DOMAIN MemoSyntax}
             \cup {U(NoLead, <<PI(N_memo, <<50>>, B64Enc(b)), PA(<<50>>, "P2", k)>>) : k \in {"ua_orchard", "p2sh"}, b \in MemoBytesBig}

PctCases == {U(LeadA("L", "sapling"), <<PI(nm, << >>, Flat([j \in DOMAIN f |-> PctTokens[f[j]]]))>>) :
                nm \in {N_label, N_message, O_foo}, f \in SeqsUpTo(DOMAIN PctTokens, PctLen)}

AddrLeads == {NoLead} \cup {LeadA("L", k) : k \in KindsAndBad}
AddrCases == {U(l, ps) : l \in AddrLeads,
                 ps \in {<< >>} \cup {<<PA(i, "P1", k)>> : i \in {<< >>, <<49>>}, k \in KindsAndBad}
                       \cup {<<PA(<<49>>, "P1", k), PA(<<50>>, "P2", k2)>> : k \in {"sapling", "bad"}, k2 \in {"tex", "bad"}}}

BadSchemes == { <<122, 99, 97, 115, 104>>,            \* zcash
                <<122, 99, 97, 115, 104, 59>>,        \* zcash;
                << >>,
                <<98, 105, 116, 99, 111, 105, 110, 58>>,   \* bitcoin:
                <<32, 122, 99, 97, 115, 104, 58>>,    \*  zcash:  (leading blank)
                <<122, 99, 97, 115, 58>> }            \* zcas:
CaseSchemes == { <<90, 67, 65, 83, 72, 58>>, <<90, 99, 97, 115, 104, 58>> }      \* ZCASH:  Zcash:
L == LeadA("L", "sapling")
T == LeadA("L", "p2pkh")
Amt(t) == PI(N_amount, << >>, t)
StructCases ==
    {[sch |-> "bad", st |-> s, lead |-> NoLead, ps |-> << >>] : s \in BadSchemes}
    \cup {[sch |-> "case", st |-> s, lead |-> l, ps |-> ps] : s \in CaseSchemes, l \in {L}, ps \in {<< >>, <<Amt(V_one)>>, <<Amt(<<49, 46>>)>>}}
    \cup {U(NoLead, << >>), U(NoLead, <<EmptyItem>>), U(L, <<EmptyItem>>), U(L, <<EmptyItem, Amt(V_one)>>),
          U(L, <<Amt(V_one), EmptyItem>>), U(L, <<Amt(V_one), EmptyItem, PI(N_label, << >>, V_one)>>),
          U(L, <<NoEq(N_label, << >>)>>), U(L, <<NoEq(O_foo, << >>)>>), U(L, <<NoEq(O_foo, <<49>>)>>),
          U(L, <<NoEq(N_address, <<49>>)>>), U(L, <<NoEq(R_reqx, << >>)>>), U(L, <<NoEq(O_foo, <<48>>)>>),
          U(L, <<NoEq(O_foo, << >>), Amt(<<49, 46>>)>>), U(T, <<NoEq(O_foo, << >>), Amt(V_zero)>>),
          U(L, <<EmptyItem, Amt(V_one), Amt(V_one)>>), U(T, <<EmptyItem, PI(N_memo, << >>, << >>)>>),
          U(L, <<PI(<<65, 109, 111, 117, 110, 116>>, << >>, V_one)>>),                               \* Amount=1
          U(L, <<PI(<<65, 109, 111, 117, 110, 116>>, << >>, V_one), Amt(V_one)>>),                   \* Amount=1&amount=1
          U(L, <<PI(<<65, 109, 111, 117, 110, 116>>, << >>, V_one), PI(<<65, 109, 111, 117, 110, 116>>, << >>, V_one)>>),
          U(NoLead, <<PI(<<65, 68, 68, 82, 69, 83, 83>>, <<49>>, V_one), PI(N_label, <<49>>, V_one)>>),  \* ADDRESS.1=1&label.1=1
          U(L, <<PI(<<65, 109, 111, 117, 110, 116>>, << >>, <<49, 32>>)>>),                          \* Amount=1<blank>
          U(L, <<PI(<<82, 101, 113, 45, 120>>, << >>, V_one)>>),                                     \* Req-x=1
          U(L, <<PI(N_reqdash, << >>, V_one)>>),                                                     \* req-=1
          U(L, <<PI(<<114, 101, 113>>, << >>, V_one)>>),                                             \* req=1
          U(L, <<PI(<<114, 101, 113, 45, 108, 97, 98, 101, 108>>, << >>, V_one)>>),                  \* req-label=1
          U(L, <<PI(<<97, 95, 98>>, << >>, V_one)>>),                                                \* a_b=1
          U(L, <<PI(<<49, 97, 98, 99>>, << >>, V_one)>>),                                            \* 1abc=1
          U(L, <<PI(<< >>, << >>, V_one)>>),                                                         \* =1
          U(L, <<PI(<<45, 97>>, << >>, V_one)>>),                                                    \* -a=1
          U(L, <<PI(<<97>>, << >>, V_one)>>),                                                        \* a=1
          U(L, <<PI(<<97, 100, 100, 114, 101, 115, 115, 120>>, << >>, V_one)>>),                     \* addressx=1
          U(L, <<PI(<<109, 101, 109, 111, 45, 120>>, << >>, V_one)>>),                               \* memo-x=1
          U(T, <<PI(<<109, 101, 109, 111, 45, 120>>, << >>, V_one)>>),
          U(L, <<PI(<<108, 65, 98, 101, 108>>, << >>, V_one), PI(N_label, << >>, V_one)>>)}          \* lAbel=1&label=1

UriFams == {"shape", "index", "amount", "memo", "pct", "addr", "struct"}

\* ------------------------------------------------------------------ theorem families
D019 == {0, 1, 9}
Numerals(n) == {d \in SeqsFromTo(D019, 1, n) : Canonical(d)}
Max1 == <<2, 0>> \o [i \in 1..14 |-> 9]                                \* MAX_MONEY - 1
Big16 == {<<2>> \o <<x>> \o [i \in 1..13 |-> y] \o <<w>> : x \in {0, 1}, y \in {0, 9}, w \in {0, 1, 9}}
\* up to 16 digits: a head, a run of zeros, a tail
Sparse16 == {h \o Zeros(k) \o t : h \in Numerals(3) \ {<<0>>}, k \in 0..10, t \in SeqsUpTo(D019, 3)}
RenderDomain == Numerals(9) \cup Big16 \cup Sparse16 \cup {MaxZat, Max1, <<1>> \o Zeros(8), [i \in 1..8 |-> 9], <<1>> \o Zeros(7) \o <<1>>,
                                             <<1>> \o Zeros(15), <<9>> \o Zeros(15)}
ParseDomain == {[jk |-> FALSE, ip |-> ip, pt |-> pt, fp |-> fp] :
                   ip \in SeqsFromTo(D019, 0, 3), pt \in BOOLEAN, fp \in SeqsUpTo({0, 5}, 9)}
PctReps == {0, 10, 32, 34, 35, 37, 38, 43, 45, 47, 48, 58, 61, 63, 65, 70, 97, 102, 122, 126, 127, 128, 195, 169, 255}
PctDomain == SeqsUpTo(PctReps, 3) \cup {<<b>> : b \in 0..255}
B64Domain == SeqsUpTo({0, 1, 63, 64, 128, 255}, 4) \cup SeqsFromTo({0, 255}, 5, 7)
MemoReps == {0, 65, 128, 244, 245, 246, 247, 255}
MemoDomain == SeqsUpTo(MemoReps, 5) \cup SeqsFromTo({0, 65, 246}, 6, 7)
IdxDomain == SeqsUpTo({48, 49, 57}, 5)
TheoremFams == {"T_render", "T_parse", "T_pct", "T_b64", "T_memo", "T_idx"}

Cases(f) == CASE f = "shape" -> ShapeCases
              [] f = "index" -> IndexCases
              [] f = "amount" -> AmountCases
              [] f = "memo" -> MemoCases
              [] f = "pct" -> PctCases
              [] f = "addr" -> AddrCases
              [] f = "struct" -> StructCases
              [] f = "T_render" -> RenderDomain
              [] f = "T_parse" -> ParseDomain
              [] f = "T_pct" -> PctDomain
              [] f = "T_b64" -> B64Domain
              [] f = "T_memo" -> MemoDomain
              [] f = "T_idx" -> IdxDomain

\* ------------------------------------------------------------------ what is printed for replay
PayJ(p) == [p EXCEPT !.o = SetToSeq(p.o)]
Out(f, u) == LET v == Verdict(u)
             IN  [fam |-> f, u |-> u, v |-> v.t, why |-> v.why,
                  pays |-> IF v.t = "valid" THEN [j \in 1..Cardinality(Denote(u)) |-> PayJ(SortPays(Denote(u))[j])] ELSE << >>]

Init == fam \in Fams /\ c = << >> /\ done = FALSE
Eval == /\ ~done
        /\ c' \in Cases(fam)
        /\ done' = TRUE /\ fam' = fam
        /\ (Emit /\ fam \in UriFams) => PrintT(<<"CASE", ToJson(Out(fam, c'))>>)
Next == Eval
Spec == Init /\ [][Next]_vars

ASSUME PrintT(<<"COUNTS", ToJson([f \in Fams |-> Cardinality(Cases(f))])>>)

\* ------------------------------------------------------------------ theorems
RECURSIVE ToIntBE(_)
ToIntBE(d) == IF d = << >> THEN 0 ELSE 10 * ToIntBE(Front(d)) + Last(d)          \* native value (small numerals only)
RECURSIVE Pow10(_)
Pow10(k) == IF k = 0 THEN 1 ELSE 10 * Pow10(k - 1)

ThRender(z) ==
    LET a == Render(z) IN
    /\ ~a.jk /\ Len(a.ip) >= 1 /\ (a.pt <=> a.fp # << >>) /\ Len(a.fp) <= 8
    /\ NormAmt(a) = a                                                    \* canonical: no leading / trailing zeros
    /\ IF NumLeq(z, MaxZat) THEN ParseAmt(a) = [ok |-> TRUE, z |-> z]     \* exact inverse inside the money range
       ELSE ParseAmt(a).ok = FALSE                                       \* and nothing above it parses
    /\ AmtRec(AmtText(a)) = a                                            \* text <-> record
ThParse(a) ==
    /\ AmtRec(AmtText(a)) = (IF a.pt \/ a.fp = << >> THEN a ELSE AmtRec(AmtText(a)))
    /\ AmtGrammar(a) <=> (Len(a.ip) >= 1 /\ (IF a.pt THEN Len(a.fp) \in 1..8 ELSE Len(a.fp) = 0))
    /\ AmtOK(a) =>
          /\ Canonical(Zat(a))
          /\ Render(Zat(a)) = NormAmt(a)                                 \* Render o Parse = normalise
          /\ ParseAmt(Render(Zat(a))).z = Zat(a)
          \* the digit-wise definition against native arithmetic where that fits 31 bits
          /\ ToIntBE(a.ip) <= 19 => ToIntBE(Zat(a)) = ToIntBE(a.ip) * 100000000 + ToIntBE(a.fp) * Pow10(8 - Len(a.fp))
    /\ (AmtGrammar(a) /\ ~AmtOK(a)) => ~NumLeq(Zat(a), MaxZat)
ThPct(s) ==
    LET e == Encode(s) IN
    /\ QcharsOK(e) /\ PctWF(e)
    /\ Decode(e) = s
    /\ Len(e) = Len(s) + 2 * Cardinality({i \in DOMAIN s : ~QcharRaw(s[i])})
    /\ (\A i \in DOMAIN s : QcharRaw(s[i])) => e = s
ThB64(b) ==
    LET e == B64Enc(b) IN
    /\ B64Class(e) = "ok"
    /\ B64Dec(e) = b
    /\ Len(e) = (4 * Len(b) + 2) \div 3
    /\ QcharsOK(e)
    /\ \A i \in DOMAIN e : B64Char(Sextet(e[i])) = e[i]
ThMemo(b) ==
    /\ Small!MemoKind(b) = (IF Len(b) > 5 THEN "toolong" ELSE Small!MemoKind(b))
    /\ Len(b) <= 5 =>
          /\ Len(Small!Pad(b)) = 5
          /\ Small!Pad(StripZ(b)) = Small!Pad(b)                          \* the bytes survive stripping
          /\ StripZ(Small!Pad(b)) = StripZ(b)
          /\ Small!MemoKind(Small!Pad(b)) = Small!MemoKind(b)
          /\ Small!MemoKind(StripZ(b)) = Small!MemoKind(b)
          /\ (Small!MemoKind(b) = "empty") <=> (Small!Pad(b) = <<246, 0, 0, 0, 0>>)
          /\ Small!MemoKind(b) \in {"empty", "text", "badutf8", "future", "arbitrary"}
          /\ (Small!MemoKind(b) = "arbitrary") <=> (Small!Pad(b)[1] = 255)
          /\ (Small!MemoKind(b) \in {"text", "badutf8"}) <=> (Small!Pad(b)[1] <= 244)
    /\ Len(b) > 5 => Small!MemoKind(b) = "toolong"
ThIdx(ixb) ==
    LET p == [dot |-> TRUE, ix |-> ixb] IN
    IdxOK(p) <=> (Len(ixb) >= 1 /\ ixb[1] # 48 /\ ToIntBE(DigitsOf(ixb)) \in 1..9999)

WithLeadAsItem(u) == [u EXCEPT !.lead = NoLead,
                               !.ps = <<P(N_address, FALSE, << >>, TRUE, << >>, u.lead.a, u.lead.kd)>> \o u.ps]
ThUri(u) ==
    LET v == Verdict(u) IN
    /\ v.t \in {"valid", "invalid", "unspec"}
    \* zcash:<address>?...  ==  zcash:?address=<address>&...
    /\ u.lead.t = "addr" =>
          LET w == WithLeadAsItem(u) IN Verdict(w) = v /\ (v.t = "valid" => Denote(w) = Denote(u))
    \* "There is no significance to the ordering of parameters"
    /\ LET w == [u EXCEPT !.ps = Rev(u.ps)] IN Verdict(w) = v /\ (v.t = "valid" => Denote(w) = Denote(u))
    /\ v.t = "valid" =>
          LET D == Denote(u)  r == RenderReq(D) IN
          /\ D # {}
          /\ RulesHold(D)
          /\ Verdict(r).t = "valid" /\ Denote(r) = D                      \* re-rendering keeps the meaning
          /\ Cardinality({p.i : p \in D}) = Cardinality(D)

Theorems ==
    done => CASE fam \in UriFams -> ThUri(c)
              [] fam = "T_render" -> ThRender(c)
              [] fam = "T_parse" -> ThParse(c)
              [] fam = "T_pct" -> ThPct(c)
              [] fam = "T_b64" -> ThB64(c)
              [] fam = "T_memo" -> ThMemo(c)
              [] fam = "T_idx" -> ThIdx(c)
=========================================================================================
