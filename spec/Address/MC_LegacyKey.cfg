SPECIFICATION MCSpec
INVARIANT Theorems
CHECK_DEADLOCK FALSE
