-------------------------------- MODULE Zip316 --------------------------------
(* C10 - unified containers (ZIP 316): which raw encodings are unified addresses, unified full     *)
(* viewing keys and unified incoming viewing keys.                                                  *)
(*                                                                                                  *)
(* A container, as a decoder sees it after Bech32m and F4Jumble^-1:                                 *)
(*    kind      "addr" | "fvk" | "ivk"         (decided by the human-readable part)                 *)
(*    items     sequence of [n, lenOK]         typecode NUMBER and whether the data has the exact   *)
(*                                             length ZIP 316 prescribes for that typecode          *)
(*    padding   "hrp" | "wrong"                the last 16 bytes = HRP zero-padded to 16 bytes?     *)
(*    size      length in bytes of the raw encoding including the padding                           *)
(*    struct    "ok" | "truncated" | "noncanonical"    the item list is a sequence of complete      *)
(*                                             CompactSize typecode, CompactSize length, data       *)
(* Written from ZIP 316 ("Encoding of Unified Addresses", "Requirements for both Unified Addresses  *)
(* and Unified Viewing Keys", "Jumbling"), not from the control flow of zcash_address.               *)
EXTENDS Naturals, Sequences, FiniteSets, TLC

Kinds == {"addr", "fvk", "ivk"}

\* A typecode is a number.  Its CLASS decides how a consumer treats it:
\*   p2pkh 0, p2sh 1, sapling 2, orchard 3, unknown 4..0x02000000 (split in two intervals unkLo 4..0xFFFF and
\*   unkHi 0x10000..0x02000000 only so that the enumeration has two unknown representatives),
\*   invalid > 0x02000000 (not a typecode at all)
MaxTypecode == 33554432
TCs == << "p2pkh", "p2sh", "sapling", "orchard", "unkLo", "unkHi", "invalid" >>
TC == {TCs[i] : i \in 1..Len(TCs)}
Ord(tc) == CHOOSE i \in 1..Len(TCs) : TCs[i] = tc
TcClass(n) == CASE n = 0 -> "p2pkh" [] n = 1 -> "p2sh" [] n = 2 -> "sapling" [] n = 3 -> "orchard"
                [] n >= 4 /\ n <= 65535 -> "unkLo"
                [] n > 65535 /\ n <= MaxTypecode -> "unkHi"
                [] OTHER -> "invalid"
\* one representative number per class (the enumeration uses these; the order of the classes is the order of
\* the numbers, so any other choice inside the intervals gives the same verdicts)
Rep(tc) == CASE tc = "p2pkh" -> 0 [] tc = "p2sh" -> 1 [] tc = "sapling" -> 2 [] tc = "orchard" -> 3
             [] tc = "unkLo" -> 4 [] tc = "unkHi" -> 65536 [] tc = "invalid" -> MaxTypecode + 1

IsKnown(tc) == tc \in {"p2pkh", "p2sh", "sapling", "orchard"}
IsUnknown(tc) == tc \in {"unkLo", "unkHi"}
IsTransparent(tc) == tc \in {"p2pkh", "p2sh"}

\* Exact data lengths of the known items; 0 = this typecode is not allowed in this kind of container
\* (there is no P2SH viewing key).
KnownLen(kind, tc) ==
    CASE kind = "addr" /\ tc \in {"p2pkh", "p2sh"}     -> 20
      [] kind = "addr" /\ tc \in {"sapling", "orchard"} -> 43
      [] kind = "fvk" /\ tc = "p2pkh"   -> 65
      [] kind = "fvk" /\ tc = "sapling" -> 128
      [] kind = "fvk" /\ tc = "orchard" -> 96
      [] kind = "ivk" /\ tc = "p2pkh"   -> 65
      [] kind = "ivk" /\ tc = "sapling" -> 64
      [] kind = "ivk" /\ tc = "orchard" -> 64
      [] OTHER -> 0

\* an item: its typecode number and whether the data has the exact prescribed length
Item == [n : Nat, lenOK : BOOLEAN]
Cls(it) == TcClass(it.n)

\* ------------------------------------------------------------------ the rule
\* F4Jumble is defined on 48 .. 4194368 bytes only
JumbleMin == 48
JumbleMax == 4194368
SizeOK(n) == JumbleMin <= n /\ n <= JumbleMax

\* an item a consumer can take: a typecode at all, allowed in this kind of container, and -- if the
\* consumer knows the typecode -- of exactly the prescribed length.  Unknown items are taken as they are.
ItemOK(kind, it) ==
    /\ Cls(it) # "invalid"
    /\ IsKnown(Cls(it)) => (KnownLen(kind, Cls(it)) > 0 /\ it.lenOK)

Ascending(items) == \A i, j \in 1..Len(items) : i < j => items[i].n < items[j].n
NotBoth(items) == ~ \E i, j \in 1..Len(items) : Cls(items[i]) = "p2pkh" /\ Cls(items[j]) = "p2sh"
HasShielded(items) == \E i \in 1..Len(items) : ~IsTransparent(Cls(items[i]))

ItemsWellFormed(kind, items) ==
    /\ \A i \in 1..Len(items) : ItemOK(kind, items[i])
    /\ Ascending(items)
    /\ NotBoth(items)
    /\ HasShielded(items)

WellFormed(c) ==
    /\ SizeOK(c.size)
    /\ c.padding = "hrp"
    /\ c.struct = "ok"
    /\ ItemsWellFormed(c.kind, c.items)

\* A decoder for containers of kind k accepts exactly the well-formed containers whose HRP is of kind k.
Accepts(k, c) == k = c.kind /\ WellFormed(c)

\* ------------------------------------------------------------------ why not (informational)
Reasons(c) ==
    LET its == c.items  n == Len(c.items) IN
       (IF ~SizeOK(c.size) THEN {"size"} ELSE {})
  \cup (IF c.padding # "hrp" THEN {"padding"} ELSE {})
  \cup (IF c.struct # "ok" THEN {"struct"} ELSE {})
  \cup (IF \E i \in 1..n : ~ItemOK(c.kind, its[i]) THEN {"item"} ELSE {})
  \cup (IF \E i, j \in 1..n : i < j /\ its[i].n > its[j].n THEN {"order"} ELSE {})
  \cup (IF \E i, j \in 1..n : i < j /\ its[i].n = its[j].n THEN {"dup"} ELSE {})
  \cup (IF ~NotBoth(its) THEN {"both"} ELSE {})
  \cup (IF ~HasShielded(its) THEN {"onlyT"} ELSE {})

\* ------------------------------------------------------------------ construction from a set of items
\* (`try_from_items`: the items are sorted by typecode first, so only the SET matters)
SetValid(kind, items) ==
    /\ \A i \in 1..Len(items) : ItemOK(kind, items[i])
    /\ \A i, j \in 1..Len(items) : i # j => items[i].n # items[j].n
    /\ NotBoth(items)
    /\ HasShielded(items)

Permuted(items, p) == [i \in 1..Len(items) |-> items[p[i]]]
Perms(n) == {p \in [1..n -> 1..n] : \A i, j \in 1..n : i # j => p[i] # p[j]}
SortedByTypecode(items) ==
    CHOOSE s \in {Permuted(items, p) : p \in Perms(Len(items))} :
        \A i, j \in 1..Len(s) : i < j => s[i].n <= s[j].n

\* ------------------------------------------------------------------ theorems (checked by TLC per container)
\* T1  a well-formed container has pairwise different typecodes
ThUnique(c) == WellFormed(c) => \A i, j \in 1..Len(c.items) : i # j => c.items[i].n # c.items[j].n
\* T2  of all orders of the same items exactly one is accepted, the one sorted by typecode: a permuted
\*     container is rejected, never silently canonicalised; and some order is accepted iff the set is valid
ThOneOrder(c) ==
    LET n == Len(c.items)
        good == {p \in Perms(n) : ItemsWellFormed(c.kind, Permuted(c.items, p))}
    IN  /\ Cardinality(good) <= 1
        /\ (good # {}) = SetValid(c.kind, c.items)
        /\ SetValid(c.kind, c.items) => ItemsWellFormed(c.kind, SortedByTypecode(c.items))
        /\ ItemsWellFormed(c.kind, c.items) => SortedByTypecode(c.items) = c.items
\* T3  at least one item, at most one transparent item, and it comes first; never a P2SH item in a viewing key
ThShape(c) ==
    WellFormed(c) => /\ Len(c.items) >= 1
                     /\ \A i \in 1..Len(c.items) : IsTransparent(Cls(c.items[i])) => i = 1
                     /\ (c.kind # "addr" => \A i \in 1..Len(c.items) : Cls(c.items[i]) # "p2sh")
\* T4  rejected iff some reason applies
ThReasons(c) == WellFormed(c) = (Reasons(c) = {})
\* T5  a well-formed container without unknown items always fits the jumble domain on its own: the
\*     size clause can only ever decide for containers with unknown items (or ill-formed ones)
RawLenKnown(c) == LET f[i \in 0..Len(c.items)] == IF i = 0 THEN 16 ELSE f[i - 1] + 2 + KnownLen(c.kind, Cls(c.items[i]))
                  IN  f[Len(c.items)]
ThSizeFree(c) ==
    (ItemsWellFormed(c.kind, c.items) /\ \A i \in 1..Len(c.items) : IsKnown(Cls(c.items[i]))) => SizeOK(RawLenKnown(c))

Theorems(c) == ThUnique(c) /\ ThOneOrder(c) /\ ThShape(c) /\ ThReasons(c) /\ ThSizeFree(c)
================================================================================
