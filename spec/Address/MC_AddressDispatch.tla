--------------------------- MODULE MC_AddressDispatch ---------------------------
(* C10: every abstract string class, one state each: the per-string theorems are invariants, the    *)
(* per-value theorems are assumptions; (Emit) the decision table is printed for the replay on       *)
(* `ZcashAddress::try_from_encoded` / `encode` / `convert_if_network`.                              *)
EXTENDS AddressDispatch, Json

CONSTANT Emit
VARIABLES s, done
vars == << s, done >>

Expected(t) == LET r == Parse(t) IN
    IF r.acc THEN [acc |-> TRUE, kind |-> r.kind, net |-> r.net] ELSE [acc |-> FALSE, kind |-> "-", net |-> "-"]

Init == s \in Strings /\ done = FALSE
Eval == /\ ~done
        /\ done' = TRUE
        /\ s' = s
        /\ Emit => PrintT(<< "STR", ToJson([s |-> s, exp |-> Expected(s)]) >>)
Next == Eval
Spec == Init /\ [][Next]_vars

PerString == ThCanonical(s) /\ ThWhitespace(s)

ASSUME ThRoundTrip
ASSUME ThInjective
ASSUME ThParsed
ASSUME ThConv

\* value table: what an address value must read back as; conversion table for parsed values
ASSUME Emit => \A v \in Values :
    PrintT(<< "VAL", ToJson([kind |-> v.kind, net |-> v.net, pkind |-> Canon(v).kind, pnet |-> Canon(v).net,
                             str |-> Encode(v)]) >>)
ASSUME Emit => \A v \in ParsedValues : \A want \in Nets :
    PrintT(<< "CIN", ToJson([kind |-> v.kind, net |-> v.net, want |-> want, ok |-> ConvOK(v, want)]) >>)
ASSUME PrintT(<< "COUNTS", ToJson([strings |-> Cardinality(Strings),
                                   accepted |-> Cardinality({t \in Strings : Parse(t).acc}),
                                   values |-> Cardinality(Values)]) >>)
================================================================================
