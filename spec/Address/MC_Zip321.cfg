SPECIFICATION Spec
CONSTANTS
  MemoLen = 512
  Fams = {"shape", "index", "amount", "memo", "pct", "addr", "struct", "T_render", "T_parse", "T_pct", "T_b64", "T_memo", "T_idx"}
  MaxLen = 3
  IdxN = 2
  PctLen = 2
  Emit = FALSE
INVARIANT Theorems
CHECK_DEADLOCK FALSE
