------------------------------ MODULE Trace_Address ------------------------------
(* C10, code -> spec.  Every line of the ndjson file IOEnv.TRACE is one observation of the real     *)
(* code (zcash_address, f4jumble), abstracted by the harness with its OWN decoder / constants:      *)
(*                                                                                                  *)
(*  op = "rt"     an address VALUE (kind, net) from the crate's proptest strategies was encoded,    *)
(*                parsed and encoded again: out "ok" | "reject" | "panic"; okind/onet = what it     *)
(*                parsed as; same = the payload bytes / unified items are identical; reenc = the    *)
(*                second string equals the first                                                    *)
(*  op = "str"    a string of a known abstract class s (AddressDispatch!Strings) was parsed:        *)
(*                out "accept" | "reject" | "panic", okind/onet, canon = encode(parse(x)) = trim(x),*)
(*                data = the payload bytes are the ones the harness put in                          *)
(*  op = "fuzz"   a string of NO known class (random character edits): out, canon                   *)
(*  op = "uc"     a string whose Bech32m payload the harness un-jumbled and parsed ITSELF into a    *)
(*                container c = (hk, items, padding, size, struct) was given to decoder dec; an item *)
(*                is {n: typecode number, anything above 0x02000000 shown as 0x02000001; l: lenOK}   *)
(*                ("addr" | "fvk" | "ivk" = unified::{Address,Ufvk,Uivk}::decode, "zaddr" =         *)
(*                ZcashAddress::try_from_encoded): out, canon, same (items as parsed = the harness' *)
(*                items, in order, unknown ones verbatim), netok (network = the HRP's)              *)
(*  op = "jumble" f4jumble / f4jumble_inv on n random bytes: err, inv (inv(jumble x) = x and        *)
(*                jumble(inv x) = x), len (length kept), ref (= the harness' BLAKE2b reference      *)
(*                construction, both directions), keep (input untouched on error)                   *)
(*  op = "cin"    convert_if_network(want) on a parsed address (kind, net): ok (converted, else     *)
(*                IncorrectNetwork), good (the same kind and bytes, the wanted network, no panic)   *)
(*  op = "end"    n = number of records before it                                                   *)
(* The records are independent; a step is possible iff the logged outcome is the one the            *)
(* specification (Zip316, AddressDispatch) allows for the logged input.                             *)
EXTENDS Naturals, Sequences, TLC, Json, IOUtils

VARIABLE l

Z == INSTANCE Zip316
D == INSTANCE AddressDispatch

Rec == ndJsonDeserialize(IOEnv.TRACE)

Container(e) == [kind    |-> e.hk,
                 items   |-> [i \in 1..Len(e.items) |-> [n |-> e.items[i].n, lenOK |-> e.items[i].l]],
                 padding |-> e.padding,
                 size    |-> e.size,
                 struct  |-> e.struct]
ContainerSyntaxOK(e) ==
    /\ e.hk \in Z!Kinds \cup {"none"}
    /\ e.dec \in Z!Kinds \cup {"zaddr"}
    /\ e.padding \in {"hrp", "wrong"}
    /\ e.struct \in {"ok", "truncated", "noncanonical"}
    /\ e.size \in Nat
    /\ \A i \in 1..Len(e.items) : e.items[i].n \in 0..(Z!MaxTypecode + 1) /\ e.items[i].l \in BOOLEAN
UcExpected(e) == e.hk # "none" /\ Z!Accepts(IF e.dec = "zaddr" THEN "addr" ELSE e.dec, Container(e))

StrExpected(e) == D!Parse(e.s)

Allowed(e) ==
    CASE e.op = "rt" ->
           /\ [kind |-> e.kind, net |-> e.net] \in D!Values
           /\ e.out = "ok"
           /\ e.okind = D!Canon([kind |-> e.kind, net |-> e.net]).kind
           /\ e.onet = D!Canon([kind |-> e.kind, net |-> e.net]).net
           /\ e.same = TRUE /\ e.reenc = TRUE
      [] e.op = "str" ->
           /\ e.s \in D!Strings
           /\ IF StrExpected(e).acc
              THEN e.out = "accept" /\ e.okind = StrExpected(e).kind /\ e.onet = StrExpected(e).net
                   /\ e.canon = TRUE /\ e.data = TRUE
              ELSE e.out = "reject"
      [] e.op = "fuzz" ->
           /\ e.out \in {"accept", "reject"}
           /\ e.out = "accept" => e.canon = TRUE
      [] e.op = "uc" ->
           /\ ContainerSyntaxOK(e)
           /\ IF UcExpected(e)
              THEN e.out = "accept" /\ e.canon = TRUE /\ e.same = TRUE /\ e.netok = TRUE
              ELSE e.out = "reject"
      [] e.op = "jumble" ->
           /\ e.n \in Nat
           /\ IF Z!SizeOK(e.n)
              THEN e.err = FALSE /\ e.inv = TRUE /\ e.len = TRUE /\ e.ref = TRUE
              ELSE e.err = TRUE /\ e.keep = TRUE
      [] e.op = "cin" ->
           /\ [kind |-> e.kind, net |-> e.net] \in D!ParsedValues
           /\ e.want \in D!Nets
           /\ e.ok = D!ConvOK([kind |-> e.kind, net |-> e.net], e.want)
           /\ e.good = TRUE
      [] OTHER -> FALSE

\* for the report of a rejected record: what the specification allows there
Expected(e) ==
    CASE e.op = "rt" -> << "out ok, same, reenc, parsed as", D!Canon([kind |-> e.kind, net |-> e.net]) >>
      [] e.op = "str" -> << "parse", StrExpected(e) >>
      [] e.op = "fuzz" -> << "no panic; accepted => canonical" >>
      [] e.op = "uc" -> << IF UcExpected(e) THEN "accept, canonical, items preserved" ELSE "reject",
                           "reasons", IF e.hk = "none" THEN {"hrp"} ELSE Z!Reasons(Container(e)),
                           "decoder", e.dec, "hrp kind", e.hk >>
      [] e.op = "jumble" -> << IF Z!SizeOK(e.n) THEN "no error, inverse, length kept, equals reference" ELSE "error, input kept" >>
      [] e.op = "cin" -> << "ok =", D!ConvOK([kind |-> e.kind, net |-> e.net], e.want) >>
      [] e.op = "end" -> << "the end record must be last and carry the number of records before it" >>
      [] OTHER -> << "unknown record" >>

IsEnd(e) == e.op = "end" /\ e.n = l - 1

TraceInit == l = 1
TraceNext == /\ l <= Len(Rec)
             /\ IF Rec[l].op = "end" THEN IsEnd(Rec[l]) /\ l = Len(Rec) ELSE Allowed(Rec[l])
             /\ l' = l + 1
TraceSpec == TraceInit /\ [][TraceNext]_l

Accepted == LET n == TLCGet("stats").diameter - 1
            IN  IF n = Len(Rec) /\ n >= 1 /\ Rec[n].op = "end"
                THEN PrintT(<< "TRACE", "accepted", n >>)
                ELSE IF n = Len(Rec)
                THEN PrintT(<< "TRACE", "rejected", n + 1, "missing end record" >>) /\ FALSE
                ELSE PrintT(<< "TRACE", "rejected", n + 1, ToJson(Rec[n + 1]), "expected", ToJson(Expected(Rec[n + 1])) >>) /\ FALSE
================================================================================
