SPECIFICATION MCSpec
CONSTANTS
  MaxPath = 5
  MaxLine = 1
  Mode = "paths"
  EmitTables = TRUE
CHECK_DEADLOCK FALSE
