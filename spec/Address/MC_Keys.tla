------------------------------- MODULE MC_Keys -------------------------------
(* C11: model-checking and emission harness of Keys.tla.                                            *)
(*  Mode = "mc"    all derive/encode/decode paths of at most MaxPath steps from a unified spending    *)
(*                 key, each ended by Address/FindAddress(line, request) for every request and every   *)
(*                 line of at most MaxLine indices; the theorems below are invariants.                 *)
(*  Mode = "paths" prints every path that ends in a viewing-key value (or in a rejection) with the     *)
(*                 level and component set the specification predicts.                                *)
(*  Mode = "cases" prints the decision table (components x request x line) -> Address, FindAddress.    *)
(*  The codec and gap-list tables are printed in every emitting mode that sets EmitTables.             *)
EXTENDS Keys, Json

CONSTANTS MaxLine, Mode, EmitTables

AllLines == Lines(MaxLine)

Eval(r, l) == /\ AtEvalPoint /\ res = NoRes
              /\ res' = [k |-> "eval", r |-> r, l |-> l,
                         addr |-> AddressSpec(key.comps, r, l.idx[1]),
                         find |-> FindSpec(key.comps, r, l)]
              /\ UNCHANGED << key, hist >>

SetToSeq(X) == LET RECURSIVE F(_) F(Y) == IF Y = {} THEN << >> ELSE LET y == CHOOSE z \in Y : TRUE IN << y >> \o F(Y \ {y})
               IN F(X)

PathRec == [path |-> [i \in 1..Len(hist') |-> [a |-> hist'[i].a, n |-> hist'[i].n, c |-> SetToSeq(hist'[i].c)]],
            lvl |-> key'.lvl, comps |-> SetToSeq(key'.comps), ok |-> key'.repr # "rejected"]

CaseRec(C, r, l) ==
    LET a == AddressSpec(C, r, l.idx[1])
        f == FindSpec(C, r, l)
    IN [comps |-> SetToSeq(C), req |-> r,
        line |-> [i \in 1..Len(l.idx) |-> << l.idx[i].sv, l.idx[i].tv >>], end |-> l.end,
        addr |-> [k |-> a.k, recv |-> SetToSeq(a.recv)],
        find |-> SetToSeq({[k |-> x.k, at |-> x.at, recv |-> SetToSeq(x.recv)] : x \in f})]

MCInit == IF Mode = "cases"
          THEN /\ key \in {[lvl |-> "UIVK", repr |-> "value", comps |-> C, net |-> "-"] : C \in Subsets}
               /\ hist = << >> /\ res = NoRes
          ELSE Init

MCNext ==
    IF Mode = "mc" THEN PathStep \/ \E r \in Requests, l \in AllLines : Eval(r, l)
    ELSE IF Mode = "paths"
    THEN /\ PathStep
         /\ (key'.repr = "rejected" \/ (key'.repr = "value" /\ key'.lvl \in {"UFVK", "UIVK"}))
               => PrintT(<< "PATH", ToJson(PathRec) >>)
    ELSE \E r \in Requests, l \in AllLines :
            /\ Eval(r, l)
            /\ PrintT(<< "CASE", ToJson(CaseRec(key.comps, r, l)) >>)

MCSpec == MCInit /\ [][MCNext]_vars

\* -------------------------------------------------------------------------------------------
\* theorems

\* what a path must have produced: the full component set unless a Project step restricted it
Projected(h) == IF \E i \in 1..Len(h) : h[i].a = "Project"
                THEN h[CHOOSE i \in 1..Len(h) : h[i].a = "Project"].c
                ELSE Components
LastRejects(h) == /\ Len(h) > 0
                  /\ \/ h[Len(h)].a = "FromBytesOtherEra"
                     \/ /\ h[Len(h)].a = "Decode" /\ Len(h) > 1 /\ h[Len(h) - 1].a = "Encode"
                        /\ h[Len(h)].n # h[Len(h) - 1].n

\* COMMUTATION: whatever path of derivations, encodings and decodings led to a viewing key, the
\* address it derives is the one the rule gives for the (projected) component set: deriving commutes
\* with encoding/decoding and with address generation.
ThCommute ==
    /\ key.comps = Projected(hist)
    /\ (key.repr = "rejected") <=> LastRejects(hist)
    /\ res.k = "eval" => /\ res.addr = AddressSpec(Projected(hist), res.r, res.l.idx[1])
                         /\ res.find = FindSpec(Projected(hist), res.r, res.l)

ThAddress ==
    res.k = "eval" =>
      LET C == key.comps  r == res.r  ix == res.l.idx[1]  a == res.addr  e == Eff(C, r)
          derivable == {c \in C : e[c] # "Omit" /\ IdxValid(c, ix)}
      IN  /\ (a.k = "badreq") <=> ~Constructible(r)
          /\ a.k = "ok" =>
                /\ a.recv \subseteq (C \cap {c \in Components : e[c] # "Omit"})     \* receivers within requested and supported
                /\ a.recv = derivable                                              \* exactly the requested receivers the key supports
                /\ a.recv \cap Shielded # {}
                /\ \A c \in Components : e[c] = "Require" => c \in a.recv
                /\ DecryptSpec(C, a.recv, TRUE)                                    \* the key recovers the index
                /\ \A K \in Subsets : DecryptSpec(K, a.recv, TRUE) <=> (K \cap a.recv \cap Shielded # {})
          /\ a.k = "err" =>
                \/ \E c \in Components : e[c] = "Require" /\ c \notin derivable
                \/ derivable \cap Shielded = {}
          /\ (Constructible(r) /\ (\A c \in Components : e[c] = "Require" => c \in derivable)
                /\ derivable \cap Shielded # {}) => a.k = "ok"

ThFind ==
    res.k = "eval" =>
      LET C == key.comps  r == res.r  l == res.l  e == Eff(C, r) IN
          /\ res.find # {}
          /\ \A f \in res.find :
                f.k = "ok" => /\ AddressSpec(C, r, l.idx[f.at]).k = "ok"
                              /\ AddressSpec(C, r, l.idx[f.at]).recv = f.recv
                              /\ \A i \in 1..(f.at - 1) : AddressSpec(C, r, l.idx[i]).k # "ok" /\ ~l.idx[i].sv
          /\ res.addr.k = "ok" => res.find = {[k |-> "ok", at |-> 1, recv |-> res.addr.recv]}
          \* only a Sapling receiver can reject an index: without one there is nothing to search for
          /\ (Constructible(r) /\ (S \notin C \/ e[S] = "Omit")) =>
                res.find = {IF res.addr.k = "ok" THEN [k |-> "ok", at |-> 1, recv |-> res.addr.recv] ELSE FindErr}
          \* a required Sapling receiver is found at the first valid index unless something else is in the way
          /\ (Constructible(r) /\ S \in C /\ e[S] = "Require" /\ ~l.end
                /\ (\A c \in Components \ {S} : e[c] = "Require" => c \in C)
                /\ (e[T] = "Require" => l.idx[Len(l.idx)].tv)) =>
                \E f \in res.find : f.k = "ok" /\ f.at = Len(l.idx) /\ Cardinality(res.find) = 1

\* restriction: a key rebuilt from a subset of the parts derives, receiver by receiver, what the full
\* key derives (so every receiver depends on its own component, the index and nothing else)
ThRestrict ==
    res.k = "eval" /\ res.r.kind = "custom" =>
      \A K \in SUBSET key.comps :
          LET b == AddressSpec(K, res.r, res.l.idx[1]) IN
          (res.addr.k = "ok" /\ b.k = "ok") => b.recv = res.addr.recv \cap K

Theorems == ThCommute /\ ThAddress /\ ThFind /\ ThRestrict

\* an address derived for the meet of two requests holds exactly the receivers both requests give
ASSUME \A C \in Subsets, ix \in IndexClasses, r1 \in CustomRequests, r2 \in CustomRequests :
    LET m == IntersectSpec(r1, r2)
        a1 == AddressSpec(C, r1, ix)  a2 == AddressSpec(C, r2, ix)
    IN  (m.k = "ok" /\ a1.k = "ok" /\ a2.k = "ok") =>
           LET a == AddressSpec(C, [kind |-> "custom", o |-> m.o, s |-> m.s, t |-> m.t], ix)
           IN  a.k = "ok" /\ a.recv = a1.recv \cap a2.recv
ASSUME \A r1 \in CustomRequests, r2 \in CustomRequests :
    /\ IntersectSpec(r1, r2) = IntersectSpec(r2, r1)
    /\ IntersectSpec(r1, r1) = [k |-> "ok", o |-> r1.o, s |-> r1.s, t |-> r1.t]

ASSUME \A kind \in CodecKinds, n \in RealNets : CodecSpec(kind, n, n)                 \* round trip
ASSUME \A kind \in CodecKinds, a, b \in RealNets : CodecSpec(kind, a, b) = CodecSpec(kind, b, a)
ASSUME \A l \in AllLines : WellFormedLine(l)
ASSUME \A sc \in Scopes \ {"custom"} : ChangeLevel(sc) \in 0..2
ASSUME \A a, b \in Scopes : a # b => ChangeLevel(a) # ChangeLevel(b)

\* -------------------------------------------------------------------------------------------
\* tables

ASSUME EmitTables => \A kind \in CodecKinds, a, b \in RealNets :
    PrintT(<< "CODEC", ToJson([kind |-> kind, enc |-> a, dec |-> b, ok |-> CodecSpec(kind, a, b)]) >>)
ASSUME EmitTables => \A F \in Subsets, I \in Subsets, sc \in Scopes, rk \in BOOLEAN, r \in Requests, sv \in BOOLEAN :
    (Constructible(r) /\ (F = {} \/ I = F)) =>
    PrintT(<< "GAP", ToJson([f |-> SetToSeq(F), i |-> SetToSeq(I), scope |-> sc, change |-> ChangeLevel(sc),
                             requireKey |-> rk, req |-> r, sv |-> sv,
                             recv |-> SetToSeq(AddressSpec(I, r, [sv |-> sv, tv |-> TRUE]).recv),
                             allowed |-> SetToSeq(GapSpec(F, I, sc, rk, r, sv))]) >>)
ASSUME EmitTables => \A r1 \in CustomRequests, r2 \in CustomRequests :
    PrintT(<< "MEET", ToJson([a |-> r1, b |-> r2, res |-> IntersectSpec(r1, r2)]) >>)
ASSUME PrintT(<< "COUNTS", ToJson([lines |-> Cardinality(AllLines), requests |-> Cardinality(Requests),
                                   subsets |-> Cardinality(Subsets)]) >>)
===============================================================================
