----------------------------------- MODULE Trace_Zip321 -----------------------------------
(* C12, code -> spec.  Every line of the ndjson file IOEnv.TRACE is one observation of the real     *)
(* zip321 / zcash_protocol::memo code, judged against Zip321.tla.  Records are independent          *)
(* (whole-table form): the only variable is the line counter.                                       *)
(*                                                                                                  *)
(*  ev = "uri"   u: the layer-1 reading of a string (made by the harness' own scanner), res: what   *)
(*               TransactionRequest::from_uri returned ("ok" | "err" | "panic"), pays: the request  *)
(*               read back through payments() and the Payment accessors, back: whether              *)
(*               from_uri(to_uri(request)) == request ("eq" | "neq" | "err" | "panic" | "na")       *)
(*  ev = "rt"    req: a request built by the harness through Payment::new and                       *)
(*               TransactionRequest::new / from_indexed (described from the harness' own inputs),   *)
(*               new: outcome of the constructor, u: layer-1 reading of to_uri(), back: as above,   *)
(*               tot: TransactionRequest::total()                                                   *)
(*  ev = "pnew"  Payment::new(kind, amount?, memo?) -> res                                          *)
(*  ev = "tnew"  TransactionRequest::new of n payments, dup: some payment repeats an other-name      *)
(*  ev = "fidx"  TransactionRequest::from_indexed with largest key k (digits)                       *)
(*  ev = "memo"  MemoBytes::from_bytes / as_slice / as_array, Memo::from_bytes / encode,            *)
(*               memo_to_base64 / memo_from_base64 on the bytes b                                   *)
(*  ev = "any"   from_uri (and to_uri of what it returned) on a long or odd string: only the       *)
(*               outcome class is logged; the property says it is never a panic                     *)
(*  ev = "end"   n = number of records before it                                                    *)
EXTENDS Zip321, TLC, Json, IOUtils

VARIABLE l
Rec == ndJsonDeserialize(IOEnv.TRACE)

PayOf(p)   == [p EXCEPT !.o = Range(p.o)]
PaySet(ps) == {PayOf(ps[j]) : j \in DOMAIN ps}
\* nothing is lost by reading the logged payments as a set
NoLoss(ps) == /\ Cardinality(PaySet(ps)) = Len(ps)
              /\ \A j \in DOMAIN ps : Cardinality(Range(ps[j].o)) = Len(ps[j].o)

UriOK(e) ==
    LET v == Verdict(e.u) IN
    /\ e.res \in {"ok", "err"}                                          \* never a panic
    /\ v.t = "valid" => /\ e.res = "ok"
                        /\ NoLoss(e.pays)
                        /\ PaySet(e.pays) = Denote(e.u)                 \* exactly the request the URI means
                        /\ e.back = "eq"
    /\ v.t = "invalid" => e.res = "err"
    /\ (v.t = "unspec" /\ e.res = "ok") => /\ NoLoss(e.pays)
                                           /\ RulesHold(PaySet(e.pays))
                                           /\ e.back = "eq"

ReqWellFormed(e) == /\ Len(e.req) >= 1 /\ NoLoss(e.req) /\ RulesHold(PaySet(e.req))
                    /\ \A j \in DOMAIN e.req : LET p == e.req[j] IN
                          /\ p.kd \in Kinds
                          /\ p.hl => Utf8OK(p.l)
                          /\ p.hg => Utf8OK(p.g)
                          /\ \A x \in Range(p.o) : Utf8OK(x[2]) /\ NameClass(x[1]) = "other"
RtOK(e) ==
    /\ ReqWellFormed(e)
    /\ e.new \in {"ok", "na"}                                           \* a valid request is constructible
    /\ e.ures = "ok"                                                    \* to_uri did not panic
    /\ Verdict(e.u).t = "valid"                                         \* the rendering is a valid ZIP 321 URI
    /\ Denote(e.u) = PaySet(e.req)                                      \* that means exactly this request (amounts digit-wise)
    /\ e.back = "eq"                                                    \* and parses back to an equal request
    /\ e.tot \in TotalAllowed(e.req)

PnewOK(e) == e.res = (IF PaymentNewOK(e.kd, e.hz, e.z, e.hm) THEN "ok" ELSE "err")
TnewOK(e) == e.res = (IF e.n > 9999 \/ e.dup THEN "err" ELSE "ok")
FidxOK(e) == e.res = (IF NumLeq(e.k, <<9, 9, 9, 9>>) THEN "ok" ELSE "err")

KindShown(k) == IF k = "badutf8" THEN "err" ELSE k
MemoOK(e) ==
    IF Len(e.b) > 512
    THEN e.mb = "err" /\ e.kind = "err"                                 \* more than 512 bytes are refused
    ELSE LET s == StripZ(e.b) IN
         /\ e.mb = "ok"
         /\ e.arr = TRUE                                                \* as_array() is b padded with zeros to 512
         /\ e.sl = s                                                    \* as_slice() is b without trailing zeros
         /\ e.kind = KindShown(MemoKind(e.b))
         /\ e.kind = "text" => e.txt = s
         /\ e.kind # "err" => e.enc = s                                 \* Memo::from_bytes(b).encode() has the same bytes
         \* URI form: unpadded base64url text that decodes to the memo bytes (zero padding may or may not be spelled out)
         /\ MemoClass(e.b64) = "ok" /\ StripZ(B64Dec(e.b64)) = s
         /\ e.b64back = "eq"

Allowed(e) == CASE e.ev = "uri" -> UriOK(e)
                [] e.ev = "rt" -> RtOK(e)
                [] e.ev = "pnew" -> PnewOK(e)
                [] e.ev = "tnew" -> TnewOK(e)
                [] e.ev = "fidx" -> FidxOK(e)
                [] e.ev = "memo" -> MemoOK(e)
                [] e.ev = "any" -> e.res \in {"ok", "err"}
                [] OTHER -> FALSE

PaysJ(P) == [j \in 1..Cardinality(P) |-> LET p == SortPays(P)[j] IN [p EXCEPT !.o = SetToSeq(p.o)]]
Expected(e, n) ==
    CASE e.ev = "end" -> <<"the end record must be last and carry the number of records before it", ToString(n)>>
      [] e.ev = "uri" -> LET v == Verdict(e.u) IN
                         <<"verdict", v.t, v.why, "payments", IF v.t = "valid" THEN ToJson(PaysJ(Denote(e.u))) ELSE "">>
      [] e.ev = "rt" -> IF ~ReqWellFormed(e) THEN <<"malformed request description (harness)">>
                        ELSE LET v == Verdict(e.u) IN
                             <<"to_uri must be valid and mean the request, parse back equal, total", ToJson(TotalAllowed(e.req)),
                               "verdict of the rendering", v.t, v.why,
                               "it means", IF v.t = "valid" THEN ToJson(PaysJ(Denote(e.u))) ELSE "">>
      [] e.ev = "pnew" -> <<IF PaymentNewOK(e.kd, e.hz, e.z, e.hm) THEN "ok" ELSE "err">>
      [] e.ev = "tnew" -> <<IF e.n > 9999 \/ e.dup THEN "err" ELSE "ok">>
      [] e.ev = "fidx" -> <<IF NumLeq(e.k, <<9, 9, 9, 9>>) THEN "ok" ELSE "err">>
      [] e.ev = "memo" -> IF Len(e.b) > 512 THEN <<"refused (longer than 512 bytes)">>
                          ELSE <<"kind", KindShown(MemoKind(e.b)), "slice", ToJson(StripZ(e.b)), "base64url (canonical)", ToJson(B64Enc(StripZ(e.b)))>>
      [] e.ev = "any" -> <<"ok or err, never a panic">>
      [] OTHER -> <<"unknown event">>

IsEnd(e) == e.ev = "end" /\ e.n = l - 1

TraceInit == l = 1
TraceNext == /\ l <= Len(Rec)
             /\ IF Rec[l].ev = "end" THEN IsEnd(Rec[l]) /\ l = Len(Rec) ELSE Allowed(Rec[l])
             /\ l' = l + 1
TraceSpec == TraceInit /\ [][TraceNext]_l

\* how the specification reads the strings that were given to from_uri (vacuity guard of the check)
Stats == LET U == {i \in 1..Len(Rec) : Rec[i].ev = "uri"}
             V == [i \in U |-> Verdict(Rec[i].u).t]
             N(t, r) == Cardinality({i \in U : V[i] = t /\ Rec[i].res = r})
         IN  [valid |-> N("valid", "ok"), invalid |-> N("invalid", "err"),
              unspec_accepted |-> N("unspec", "ok"), unspec_refused |-> N("unspec", "err")]
Accepted == LET n == TLCGet("stats").diameter - 1
            IN  IF n = Len(Rec) /\ n >= 1 /\ Rec[n].ev = "end"
                THEN PrintT(<<"STATS", ToJson(Stats)>>) /\ PrintT(<<"TRACE", "accepted", n>>)
                ELSE IF n = Len(Rec)
                THEN PrintT(<<"TRACE", "rejected", n + 1, "missing end record">>) /\ FALSE
                ELSE PrintT(<<"TRACE", "rejected", n + 1, "expected", ToJson(Expected(Rec[n + 1], n))>>) /\ FALSE
============================================================================================
