----------------------------------- MODULE Zip321 -----------------------------------
(* C12.  ZIP 321 payment-request URIs, ZIP 302 memos, and the amount / percent / base64url text   *)
(* forms they use, written from the ZIP texts and the rustdoc of zip321, zcash_protocol::memo and *)
(* zcash_address (can_receive_memo / is_transparent_only) -- not from the parser's control flow.  *)
(*                                                                                                *)
(* A URI is described at the level of its TEXT (layer 1): the scheme, the lead address text, and  *)
(* the query split at '&', each item split at its first '=' and its name at its first '.'.  That  *)
(* decomposition is a bijection with the string, so Verdict/Denote below are functions of the     *)
(* string.  Bytes are 0..255; numbers are sequences of decimal digits as written (most            *)
(* significant first), so MAX_MONEY = 2.1e15 zatoshi needs no machine integer.                    *)
(*                                                                                                *)
(* Verdict is three-valued.  "invalid": ZIP 321 (or the rustdoc of Payment::new) refuses the URI. *)
(* "valid": ZIP 321 accepts it and Denote gives the request it means.  "unspec": the texts do not *)
(* settle it or the implementation documents a deviation (empty request `zcash:`, empty items     *)
(* `a=1&&b=2`, items without '=', malformed %-escapes, %-escapes that are not UTF-8, base64url    *)
(* with non-zero trailing bits, names that differ from a reserved name only by case, address      *)
(* strings the harness did not build itself); there the code is only required not to panic and,   *)
(* when it accepts, to return payments that satisfy RulesHold and survive re-rendering.           *)
EXTENDS Naturals, Sequences, FiniteSets

CONSTANT MemoLen          \* 512; small in the model-checked padding theorems

Range(s) == {s[i] : i \in DOMAIN s}
Zeros(n) == [i \in 1..n |-> 0]
Last(s)  == s[Len(s)]
Front(s) == SubSeq(s, 1, Len(s) - 1)
Rev(s)   == [i \in 1..Len(s) |-> s[Len(s) + 1 - i]]
RECURSIVE Flat(_)
Flat(ss) == IF ss = << >> THEN << >> ELSE Head(ss) \o Flat(Tail(ss))

\* ------------------------------------------------------------------ recipients
\* ua_t_unknown: unified address with a P2PKH receiver and a receiver of unknown typecode (no
\* Sapling/Orchard receiver): is_transparent_only by its rustdoc, and cannot receive a memo.
Kinds == {"p2pkh", "p2sh", "tex", "sprout", "sapling", "ua_orchard", "ua_sapling_t", "ua_t_unknown"}
CanMemo(k) == k \in {"sprout", "sapling", "ua_orchard", "ua_sapling_t"}
TOnly(k)   == k \in {"p2pkh", "p2sh", "tex", "ua_t_unknown"}

\* ------------------------------------------------------------------ numerals (digits as written)
IsDigits(d) == \A i \in DOMAIN d : d[i] \in 0..9
RECURSIVE StripLead0(_)
StripLead0(d) == IF Len(d) > 1 /\ d[1] = 0 THEN StripLead0(Tail(d)) ELSE d
RECURSIVE StripTrail0(_)
StripTrail0(d) == IF Len(d) > 0 /\ Last(d) = 0 THEN StripTrail0(Front(d)) ELSE d
Canonical(d) == Len(d) >= 1 /\ IsDigits(d) /\ (Len(d) = 1 \/ d[1] # 0)
RECURSIVE LexLeq(_, _)
LexLeq(a, b) == IF a = << >> THEN TRUE
                ELSE IF a[1] < b[1] THEN TRUE
                ELSE IF a[1] > b[1] THEN FALSE
                ELSE LexLeq(Tail(a), Tail(b))
NumLeq(a, b) == LET x == StripLead0(a)  y == StripLead0(b)
                IN  Len(x) < Len(y) \/ (Len(x) = Len(y) /\ LexLeq(x, y))
IsZeroNum(d) == \A i \in DOMAIN d : d[i] = 0
RECURSIVE AddLE(_, _, _)
AddLE(a, b, c) ==
    IF a = << >> /\ b = << >> THEN (IF c = 0 THEN << >> ELSE <<c>>)
    ELSE LET x == IF a = << >> THEN 0 ELSE a[1]
             y == IF b = << >> THEN 0 ELSE b[1]
             s == x + y + c
         IN  <<s % 10>> \o AddLE(IF a = << >> THEN a ELSE Tail(a), IF b = << >> THEN b ELSE Tail(b), s \div 10)
NumAdd(a, b) == StripLead0(Rev(AddLE(Rev(a), Rev(b), 0)))       \* for Len(a), Len(b) >= 1

MaxZat == <<2, 1>> \o Zeros(14)            \* 21 000 000.00000000 ZEC in zatoshi

\* ------------------------------------------------------------------ amounts
\* amount text:  ip "." fp  (pt: a point is present; jk: something that is neither digit nor the one point)
\* ZIP 321:  amountparam = "amount" [paramindex] "=" 1*DIGIT [ "." 1*8DIGIT ],  value <= 21 000 000
AmtGrammar(a) == /\ ~a.jk
                 /\ Len(a.ip) >= 1
                 /\ IF a.pt THEN Len(a.fp) \in 1..8 ELSE a.fp = << >>
Zat(a) == StripLead0(a.ip \o a.fp \o Zeros(8 - Len(a.fp)))        \* needs AmtGrammar(a)
AmtOK(a) == AmtGrammar(a) /\ NumLeq(Zat(a), MaxZat)
ParseAmt(a) == IF AmtOK(a) THEN [ok |-> TRUE, z |-> Zat(a)] ELSE [ok |-> FALSE, z |-> << >>]
\* the canonical text of z zatoshi (z canonical): integer part, and the 8-digit fraction without its
\* trailing zeros; no point when the fraction is zero
Render(z) == LET p  == IF Len(z) <= 8 THEN Zeros(9 - Len(z)) \o z ELSE z
                 n  == Len(p)
                 fp == StripTrail0(SubSeq(p, n - 7, n))
             IN  [jk |-> FALSE, ip |-> SubSeq(p, 1, n - 8), pt |-> fp # << >>, fp |-> fp]
NormAmt(a) == LET fp == StripTrail0(a.fp)
              IN  [jk |-> FALSE, ip |-> StripLead0(a.ip), pt |-> fp # << >>, fp |-> fp]

\* ------------------------------------------------------------------ bytes, names, indices
IsDigitB(b) == b \in 48..57
IsAlphaB(b) == b \in 65..90 \/ b \in 97..122
LowerB(b)   == IF b \in 65..90 THEN b + 32 ELSE b
LowerS(s)   == [i \in DOMAIN s |-> LowerB(s[i])]
DigitsOf(s) == [i \in DOMAIN s |-> s[i] - 48]
BytesOf(d)  == [i \in DOMAIN d |-> d[i] + 48]

N_address == <<97, 100, 100, 114, 101, 115, 115>>
N_amount  == <<97, 109, 111, 117, 110, 116>>
N_memo    == <<109, 101, 109, 111>>
N_label   == <<108, 97, 98, 101, 108>>
N_message == <<109, 101, 115, 115, 97, 103, 101>>
N_reqdash == <<114, 101, 113, 45>>
Reserved  == {N_address, N_amount, N_memo, N_label, N_message}
HasPrefix(s, p) == Len(s) >= Len(p) /\ SubSeq(s, 1, Len(p)) = p

\* paramname = ALPHA *( ALPHA / DIGIT / "+" / "-" )
NameOK(nm) == /\ Len(nm) >= 1 /\ IsAlphaB(nm[1])
              /\ \A i \in 2..Len(nm) : IsAlphaB(nm[i]) \/ IsDigitB(nm[i]) \/ nm[i] \in {43, 45}
\* "unk": equal to a reserved name / the req- prefix only up to case (ABNF literals are case-insensitive, the
\* rustdoc is silent), or the bare name "req-"
NameClass(nm) ==
    IF ~NameOK(nm) THEN "bad"
    ELSE IF nm = N_address THEN "address"
    ELSE IF nm = N_amount THEN "amount"
    ELSE IF nm = N_memo THEN "memo"
    ELSE IF nm = N_label THEN "label"
    ELSE IF nm = N_message THEN "message"
    ELSE IF LowerS(nm) \in Reserved THEN "unk"
    ELSE IF HasPrefix(nm, N_reqdash) THEN (IF Len(nm) > 4 THEN "req" ELSE "unk")
    ELSE IF HasPrefix(LowerS(nm), N_reqdash) THEN "unk"
    ELSE "other"

\* paramindex = "." NONZERO 0*3DIGIT   (1..9999, no leading zero)
IdxOK(p) == IF p.dot THEN /\ Len(p.ix) \in 1..4
                          /\ \A i \in DOMAIN p.ix : IsDigitB(p.ix[i])
                          /\ p.ix[1] # 48
            ELSE p.ix = << >>
Idx(p) == DigitsOf(p.ix)                        \* << >> is the un-indexed payment ("index 0")
IdxRuleOK(i) == i = << >> \/ (Len(i) \in 1..4 /\ IsDigits(i) /\ i[1] # 0)

AmtRec(raw) ==
    LET dots == {i \in DOMAIN raw : raw[i] = 46}
        jk   == (\E i \in DOMAIN raw : ~IsDigitB(raw[i]) /\ raw[i] # 46) \/ Cardinality(dots) > 1
    IN  IF jk THEN [jk |-> TRUE, ip |-> << >>, pt |-> FALSE, fp |-> << >>]
        ELSE IF dots = {} THEN [jk |-> FALSE, ip |-> DigitsOf(raw), pt |-> FALSE, fp |-> << >>]
        ELSE LET d == CHOOSE i \in dots : TRUE
             IN  [jk |-> FALSE, ip |-> DigitsOf(SubSeq(raw, 1, d - 1)), pt |-> TRUE,
                  fp |-> DigitsOf(SubSeq(raw, d + 1, Len(raw)))]
AmtText(a) == BytesOf(a.ip) \o (IF a.pt THEN <<46>> ELSE << >>) \o BytesOf(a.fp)     \* for ~a.jk

\* ------------------------------------------------------------------ percent-encoding (RFC 3986 / ZIP 321 qchar)
\*   unreserved = ALPHA / DIGIT / "-" / "." / "_" / "~"      allowed-delims = ! $ ' ( ) * + , ;
\*   qchar      = unreserved / pct-encoded / allowed-delims / ":" / "@"
Unreserved(b)   == IsAlphaB(b) \/ IsDigitB(b) \/ b \in {45, 46, 95, 126}
AllowedDelim(b) == b \in {33, 36, 39, 40, 41, 42, 43, 44, 59}
QcharRaw(b)     == Unreserved(b) \/ AllowedDelim(b) \/ b \in {58, 64}
IsHex(b)  == b \in 48..57 \/ b \in 65..70 \/ b \in 97..102
HexVal(b) == IF b \in 48..57 THEN b - 48 ELSE IF b \in 65..70 THEN b - 55 ELSE b - 87
HexDig(v) == IF v < 10 THEN 48 + v ELSE 55 + v                 \* upper case
QcharsOK(raw) == \A i \in DOMAIN raw : QcharRaw(raw[i]) \/ raw[i] = 37
PctWF(raw)    == \A i \in DOMAIN raw : raw[i] = 37 => (i + 2 <= Len(raw) /\ IsHex(raw[i + 1]) /\ IsHex(raw[i + 2]))
RECURSIVE DecodeR(_, _)
DecodeR(raw, i) ==
    IF i > Len(raw) THEN << >>
    ELSE IF raw[i] = 37 /\ i + 2 <= Len(raw) /\ IsHex(raw[i + 1]) /\ IsHex(raw[i + 2])
         THEN <<16 * HexVal(raw[i + 1]) + HexVal(raw[i + 2])>> \o DecodeR(raw, i + 3)
         ELSE <<raw[i]>> \o DecodeR(raw, i + 1)
Decode(raw) == DecodeR(raw, 1)
\* every byte that is not literally a qchar must be escaped ('%' itself, every reserved or non-ASCII byte)
EncodeB(b) == IF QcharRaw(b) THEN <<b>> ELSE <<37, HexDig(b \div 16), HexDig(b % 16)>>
Encode(s)  == Flat([i \in DOMAIN s |-> EncodeB(s[i])])

\* ------------------------------------------------------------------ UTF-8 (Unicode table 3-7)
Cont(b) == b \in 128..191
RECURSIVE Utf8From(_, _)
Utf8From(s, i) ==
    IF i > Len(s) THEN TRUE
    ELSE LET b == s[i]  n == Len(s) IN
         IF b <= 127 THEN Utf8From(s, i + 1)
         ELSE IF b \in 194..223 THEN i + 1 <= n /\ Cont(s[i + 1]) /\ Utf8From(s, i + 2)
         ELSE IF b \in 224..239
              THEN /\ i + 2 <= n
                   /\ s[i + 1] \in (IF b = 224 THEN 160..191 ELSE IF b = 237 THEN 128..159 ELSE 128..191)
                   /\ Cont(s[i + 2]) /\ Utf8From(s, i + 3)
         ELSE IF b \in 240..244
              THEN /\ i + 3 <= n
                   /\ s[i + 1] \in (IF b = 240 THEN 144..191 ELSE IF b = 244 THEN 128..143 ELSE 128..191)
                   /\ Cont(s[i + 2]) /\ Cont(s[i + 3]) /\ Utf8From(s, i + 4)
         ELSE FALSE
Utf8OK(s) == Utf8From(s, 1)

\* ------------------------------------------------------------------ base64url without padding (RFC 4648 section 5)
Sextet(c) == IF c \in 65..90 THEN c - 65
             ELSE IF c \in 97..122 THEN c - 71
             ELSE IF c \in 48..57 THEN c + 4
             ELSE IF c = 45 THEN 62
             ELSE IF c = 95 THEN 63
             ELSE 64                                            \* not in the alphabet ('=', '+', '/', '%', ...)
B64Char(v) == IF v < 26 THEN 65 + v ELSE IF v < 52 THEN 71 + v ELSE IF v < 62 THEN v - 4 ELSE IF v = 62 THEN 45 ELSE 95
B64Enc(b) ==
    LET n == Len(b)
        B(j) == IF j <= n THEN b[j] ELSE 0
    IN  [c \in 1..((4 * n + 2) \div 3) |->
            LET j == (6 * (c - 1)) \div 8 + 1
                r == (6 * (c - 1)) % 8
            IN  B64Char(CASE r = 0 -> B(j) \div 4
                          [] r = 6 -> (B(j) % 4) * 16 + B(j + 1) \div 16
                          [] r = 4 -> (B(j) % 16) * 4 + B(j + 1) \div 64
                          [] r = 2 -> B(j) % 64)]
\* "bad": not base64url text at all;  "unk": decodable but the unused trailing bits are not zero
B64Class(raw) ==
    IF \E i \in DOMAIN raw : Sextet(raw[i]) = 64 THEN "bad"
    ELSE IF Len(raw) % 4 = 1 THEN "bad"
    ELSE IF Len(raw) % 4 = 2 /\ Sextet(Last(raw)) % 16 # 0 THEN "unk"
    ELSE IF Len(raw) % 4 = 3 /\ Sextet(Last(raw)) % 4 # 0 THEN "unk"
    ELSE "ok"
B64Dec(raw) ==                                                  \* for B64Class(raw) # "bad"
    [k \in 1..((Len(raw) * 3) \div 4) |->
        LET j == (8 * (k - 1)) \div 6 + 1
            r == (8 * (k - 1)) % 6
            x == Sextet(raw[j])  y == Sextet(raw[j + 1])
        IN  CASE r = 0 -> x * 4 + y \div 16
              [] r = 2 -> (x % 16) * 16 + y \div 4
              [] r = 4 -> (x % 4) * 64 + y]

\* ------------------------------------------------------------------ memos (ZIP 302)
RECURSIVE LastNZ(_, _)
LastNZ(b, i) == IF i = 0 THEN 0 ELSE IF b[i] # 0 THEN i ELSE LastNZ(b, i - 1)
StripZ(b) == SubSeq(b, 1, LastNZ(b, Len(b)))                    \* without trailing zero bytes
Pad(b)    == b \o Zeros(MemoLen - Len(b))                       \* for Len(b) <= MemoLen
\* how the MemoLen-byte field Pad(b) reads:  0xF6 00.. = no memo; first byte <= 0xF4 = UTF-8 text (trailing
\* zeros are padding); 0xFF = arbitrary data; 0xF5, 0xF6 with a non-zero tail, 0xF7..0xFE = reserved ("future")
MemoKind(b) ==
    LET s == StripZ(b)
        f == IF s = << >> THEN 0 ELSE s[1]
    IN  IF Len(b) > MemoLen THEN "toolong"
        ELSE IF f = 246 /\ Len(s) = 1 THEN "empty"
        ELSE IF f = 255 THEN "arbitrary"
        ELSE IF f <= 244 THEN (IF Utf8OK(s) THEN "text" ELSE "badutf8")
        ELSE "future"

\* ------------------------------------------------------------------ URIs, layer 1
\* u = [sch, lead, ps];  sch: "ok" (the string starts with "zcash:"), "case" (up to case), "bad"
\* lead = [t |-> "none" | "addr", a |-> address id, kd |-> kind]  (the text between "zcash:" and the first '?')
\* p = [nm, dot, ix, eq, raw, a, kd]: item text = nm ["." ix] ["=" raw]; a, kd: which address `raw` is (address items)
\* kd: a member of Kinds (an address string of that kind built by the harness), "bad" (a string that is certainly not
\* an address: a checksum-breaking substitution, a non-address word) or "unknown"
IsEmptyItem(p) == p.nm = << >> /\ ~p.dot /\ ~p.eq
StrClass(raw) == IF ~QcharsOK(raw) THEN "bad"
                 ELSE IF ~PctWF(raw) THEN "unk"
                 ELSE IF ~Utf8OK(Decode(raw)) THEN "unk"
                 ELSE "ok"
AddrClass(kd) == IF kd \in Kinds THEN "ok" ELSE IF kd = "bad" THEN "bad" ELSE "unk"
MemoClass(raw) == IF ~QcharsOK(raw) THEN "bad"
                  ELSE LET c == B64Class(raw)
                       IN  IF c = "bad" THEN "bad"
                           ELSE IF (Len(raw) * 3) \div 4 > 512 THEN "bad"
                           ELSE c
\* one item on its own: <<class, reason>>
ItemClass(p) ==
    IF IsEmptyItem(p) THEN <<"unk", "empty-item">>
    ELSE LET nc == NameClass(p.nm) IN
         IF nc = "bad" THEN <<"bad", "name">>
         ELSE IF ~IdxOK(p) THEN <<"bad", "index">>
         ELSE IF nc = "req" THEN <<"bad", "req-unknown">>           \* with or without a value
         ELSE IF ~p.eq THEN <<"unk", "no-equals">>
         ELSE IF nc = "address" THEN <<AddrClass(p.kd), "address">>
         ELSE IF nc = "amount" THEN (IF AmtOK(AmtRec(p.raw)) THEN <<"ok", "">> ELSE <<"bad", "amount">>)
         ELSE IF nc = "memo" THEN <<MemoClass(p.raw), "memo-encoding">>
         ELSE IF nc = "unk" THEN (IF QcharsOK(p.raw) THEN <<"unk", "name-case">> ELSE <<"bad", "qchar">>)
         ELSE <<StrClass(p.raw), "qchar">>

WF(p) == ~IsEmptyItem(p) /\ NameOK(p.nm) /\ IdxOK(p)                 \* the item names a parameter of a payment
\* every item read once: q = [wf, cls, idx, eq, ic, p]  (cls, idx meaningful when wf)
Read(u) == [j \in DOMAIN u.ps |->
               LET p == u.ps[j]  wf == WF(p)
               IN  [wf |-> wf, cls |-> IF wf THEN NameClass(p.nm) ELSE "none", idx |-> IF wf THEN Idx(p) ELSE << >>,
                    eq |-> p.eq, ic |-> ItemClass(p), p |-> p]]
IsQ(q, cls) == q.wf /\ q.eq /\ q.cls = cls
\* all address providers: the lead address is `address=` of the un-indexed payment (ZIP 321: "A URI of the form
\* zcash:<address>?... MUST be considered equivalent to a URI of the form zcash:?address=<address>&...")
AddrsR(u, R) == (IF u.lead.t = "addr" THEN <<[idx |-> << >>, kd |-> u.lead.kd, a |-> u.lead.a]>> ELSE << >>)
                \o LET as == SelectSeq(R, LAMBDA q : IsQ(q, "address"))
                   IN  [j \in DOMAIN as |-> [idx |-> as[j].idx, kd |-> as[j].p.kd, a |-> as[j].p.a]]
IndicesR(R, A) == {q.idx : q \in {x \in Range(R) : x.wf}} \cup {x.idx : x \in Range(A)}
At(R, i, cls) == SelectSeq(R, LAMBDA q : IsQ(q, cls) /\ q.idx = i)
\* "There MUST NOT be more than one occurrence of a given parameter and paramindex"
HasDupR(R, A) ==
    LET keys == [j \in DOMAIN R |-> IF R[j].wf THEN <<R[j].p.nm, R[j].idx>> ELSE <<j>>]
        akey == [j \in DOMAIN A |-> A[j].idx]
    IN  Cardinality(Range(keys)) < Len(keys) \/ Cardinality(Range(akey)) < Len(akey)
\* per payment index: "ok" | "bad" | "unk", with the reason
PayClassR(R, A, i) ==
    LET as == SelectSeq(A, LAMBDA x : x.idx = i) IN
    IF Len(as) = 0 THEN <<"bad", "recipient-missing">>
    ELSE LET kd    == as[1].kd
             memos == At(R, i, "memo")
             amts  == SelectSeq(At(R, i, "amount"), LAMBDA q : q.ic[1] = "ok")
             zero  == \E j \in DOMAIN amts : IsZeroNum(Zat(AmtRec(amts[j].p.raw)))
         IN  IF kd \in Kinds
             THEN IF Len(memos) > 0 /\ ~CanMemo(kd) THEN <<"bad", "memo-to-transparent">>
                  ELSE IF zero /\ TOnly(kd) THEN <<"bad", "zero-transparent">>
                  ELSE <<"ok", "">>
             ELSE IF Len(memos) > 0 \/ zero THEN <<"unk", "address">> ELSE <<"ok", "">>

Reasons(u) ==
    LET R      == Read(u)
        A      == AddrsR(u, R)
        items  == {R[j].ic : j \in DOMAIN R}
        leadc  == IF u.lead.t = "addr" THEN {<<AddrClass(u.lead.kd), "address">>} ELSE {}
        \* rules that relate items are definite only if no name is of uncertain reading
        ncase  == \E j \in DOMAIN R : R[j].wf /\ R[j].cls = "unk"
        cap(c) == IF c[1] = "bad" /\ ncase THEN <<"unk", c[2]>> ELSE c
        pays   == {cap(PayClassR(R, A, i)) : i \in IndicesR(R, A)}
        dup    == IF HasDupR(R, A) THEN {<<"bad", "duplicate">>} ELSE {}
        sch    == IF u.sch = "bad" THEN {<<"bad", "scheme">>} ELSE IF u.sch = "case" THEN {<<"unk", "scheme">>} ELSE {}
        empty  == IF u.lead.t = "none" /\ u.ps = << >> THEN {<<"unk", "empty-request">>} ELSE {}
    IN  items \cup leadc \cup pays \cup dup \cup sch \cup empty
Order == <<"scheme", "name", "index", "req-unknown", "amount", "memo-encoding", "qchar", "address", "duplicate",
           "recipient-missing", "memo-to-transparent", "zero-transparent", "empty-item", "no-equals", "name-case",
           "empty-request">>
FirstWhy(rs, cls) == LET ws == {r[2] : r \in {x \in rs : x[1] = cls}}
                     IN  Order[CHOOSE j \in DOMAIN Order : Order[j] \in ws /\ \A k \in 1..(j - 1) : Order[k] \notin ws]
Verdict(u) ==
    LET rs == Reasons(u) IN
    IF \E r \in rs : r[1] = "bad" THEN [t |-> "invalid", why |-> FirstWhy(rs, "bad")]
    ELSE IF \E r \in rs : r[1] = "unk" THEN [t |-> "unspec", why |-> FirstWhy(rs, "unk")]
    ELSE [t |-> "valid", why |-> ""]

\* ------------------------------------------------------------------ what a valid URI means
\* a payment: [i: index digits (<< >> = un-indexed), a/kd: recipient, hz/z: amount in zatoshi (canonical digits),
\* hm/m: memo bytes without trailing zeros, hl/l: label bytes, hg/g: message bytes, o: set of <<name, value bytes>>]
Opt(items, F(_)) == IF Len(items) = 0 THEN << >> ELSE F(items[1])
PayAtR(R, A, i) ==
    LET ad == SelectSeq(A, LAMBDA x : x.idx = i)[1]
        am == At(R, i, "amount")
        me == At(R, i, "memo")
        la == At(R, i, "label")
        ms == At(R, i, "message")
        ot == At(R, i, "other")
    IN  [i |-> i, a |-> ad.a, kd |-> ad.kd,
         hz |-> Len(am) > 0, z |-> Opt(am, LAMBDA q : Zat(AmtRec(q.p.raw))),
         hm |-> Len(me) > 0, m |-> Opt(me, LAMBDA q : StripZ(B64Dec(q.p.raw))),
         hl |-> Len(la) > 0, l |-> Opt(la, LAMBDA q : Decode(q.p.raw)),
         hg |-> Len(ms) > 0, g |-> Opt(ms, LAMBDA q : Decode(q.p.raw)),
         o  |-> {<<q.p.nm, Decode(q.p.raw)>> : q \in Range(ot)}]
Denote(u) == LET R == Read(u)  A == AddrsR(u, R)                  \* for Verdict(u).t = "valid"
             IN  {PayAtR(R, A, i) : i \in IndicesR(R, A)}

\* the rules of the property, stated on payments (also required of whatever the code returns for "unspec" input)
PayRulesHold(p) ==
    /\ IdxRuleOK(p.i)
    /\ p.hz => (Canonical(p.z) /\ NumLeq(p.z, MaxZat))
    /\ p.hm => (Len(p.m) <= 512 /\ (p.kd \in Kinds => CanMemo(p.kd)))
    /\ (p.kd \in Kinds /\ TOnly(p.kd)) => ~(p.hz /\ IsZeroNum(p.z))
    /\ \A x, y \in p.o : x[1] = y[1] => x = y
    /\ \A x \in p.o : NameClass(x[1]) \in {"other", "unk"}
RulesHold(P) == /\ \A p \in P : PayRulesHold(p)
                /\ \A p, q \in P : p.i = q.i => p = q

\* TransactionRequest::total (rustdoc): Ok(None) if any payment does not specify an amount; Err if any summation
\* step leaves 0..MAX_MONEY.  When both apply the rustdoc does not say which wins (it depends on where the
\* amount-less payment sits in the fold), so both are allowed there.
RECURSIVE SumSeq(_)
SumSeq(zs) == IF zs = << >> THEN <<0>> ELSE NumAdd(Head(zs), SumSeq(Tail(zs)))
TotalAllowed(paySeq) ==
    LET withAmt == SelectSeq(paySeq, LAMBDA p : p.hz)
        s       == SumSeq([j \in DOMAIN withAmt |-> withAmt[j].z])
        over    == ~NumLeq(s, MaxZat)
    IN  IF Len(withAmt) < Len(paySeq)
        THEN {[t |-> "none", v |-> << >>]} \cup (IF over THEN {[t |-> "err", v |-> << >>]} ELSE {})
        ELSE IF over THEN {[t |-> "err", v |-> << >>]} ELSE {[t |-> "val", v |-> s]}

\* Payment::new (rustdoc): "Returns an error if the payment requests that a memo be sent to a recipient that cannot
\* receive a memo or a zero-valued output be sent to a transparent address."
PaymentNewOK(kd, hz, z, hm) == ~(hm /\ ~CanMemo(kd)) /\ ~(TOnly(kd) /\ hz /\ IsZeroNum(z))

\* ------------------------------------------------------------------ canonical rendering of a request (layer 1)
\* the un-indexed payment first, then ascending index; per payment address, amount, memo, label, message, others
IdxLess(i, j) == Len(i) < Len(j) \/ (Len(i) = Len(j) /\ i # j /\ LexLeq(i, j))
RECURSIVE SortPays(_)
SortPays(P) == IF P = {} THEN << >>
               ELSE LET p == CHOOSE x \in P : \A y \in P \ {x} : IdxLess(x.i, y.i)
                    IN  <<p>> \o SortPays(P \ {p})
RECURSIVE SetToSeq(_)
SetToSeq(S) == IF S = {} THEN << >> ELSE LET x == CHOOSE y \in S : TRUE IN <<x>> \o SetToSeq(S \ {x})
Item(nm, i, raw, a, kd) == [nm |-> nm, dot |-> i # << >>, ix |-> BytesOf(i), eq |-> TRUE, raw |-> raw, a |-> a, kd |-> kd]
PayItems(p, withAddr) ==
    (IF withAddr THEN <<Item(N_address, p.i, << >>, p.a, p.kd)>> ELSE << >>)
    \o (IF p.hz THEN <<Item(N_amount, p.i, AmtText(Render(p.z)), "", "")>> ELSE << >>)
    \o (IF p.hm THEN <<Item(N_memo, p.i, B64Enc(p.m), "", "")>> ELSE << >>)
    \o (IF p.hl THEN <<Item(N_label, p.i, Encode(p.l), "", "")>> ELSE << >>)
    \o (IF p.hg THEN <<Item(N_message, p.i, Encode(p.g), "", "")>> ELSE << >>)
    \o [j \in 1..Cardinality(p.o) |-> LET x == SetToSeq(p.o)[j] IN Item(x[1], p.i, Encode(x[2]), "", "")]
NoLead == [t |-> "none", a |-> "", kd |-> ""]
RenderReq(P) ==
    LET s == SortPays(P) IN
    IF Len(s) = 1 /\ s[1].i = << >>
    THEN [sch |-> "ok", lead |-> [t |-> "addr", a |-> s[1].a, kd |-> s[1].kd], ps |-> PayItems(s[1], FALSE)]
    ELSE [sch |-> "ok", lead |-> NoLead, ps |-> Flat([j \in DOMAIN s |-> PayItems(s[j], TRUE)])]
=====================================================================================
