---------------------------- MODULE Trace_Scheduling ----------------------------
(* C17, code -> spec: every record is one call (or a small batch of calls) the driver made into   *)
(* the REAL zcash_pool_migration::scheduling / zcash_protocol::zip318 functions, with the inputs,  *)
(* the stream handed in as `rng`, and the outcome.  Heights are logged as h - 2^31, so Lo = -2^31  *)
(* is height 0 and Hi = 2^31 - 1 is u32::MAX.  Each record must satisfy the postcondition the      *)
(* property states for that function (Scheduling.tla); outcome "spin" (the word budget of the      *)
(* stream ran out) is allowed only where the specification says the stream need not terminate;     *)
(* outcome "panic" is allowed nowhere.                                                             *)
EXTENDS Scheduling, Json, IOUtils
VARIABLES l
Rec == ndJsonDeserialize(IOEnv.TRACE)

TraceLo == -2147483647 - 1
TraceHi == 2147483647

\* the ZIP 318 parameter set
ZipTransferMean == 66
ZipTransferCap  == 576
ZipPrepMean     == 16
ZipPrepCap      == 96
ZipInterval     == 144

Expiries(hs, es) == Len(es) = Len(hs) /\ \A i \in 1..Len(hs) : es[i] = ExpiryHeight(hs[i])
InRange(s) == \A i \in 1..Len(s) : s[i] >= Lo /\ s[i] <= Hi

DelayRec(r) ==
    /\ r.made = DistExists(r.mean, r.cap)
    /\ CASE r.oc = "ok"   -> Len(r.ds) = r.k /\ \A i \in 1..Len(r.ds) : DelayOK(r.cap, r.ds[i])
         [] r.oc = "spin" -> ~DelayMustTerminate(r.rng, r.mean, r.cap)
         [] OTHER -> FALSE
NewDistRec(r) == r.oc = "ok" /\ r.made = DistExists(r.mean, r.cap) /\ (r.made => r.m2 = r.mean /\ r.c2 = r.cap)
HeightsRec(r) ==
    CASE r.oc = "ok"   -> /\ InRange(r.hs) /\ HeightsOK(r.start, r.cap, r.n, r.hs)
                          /\ IF r.which = "schedule" THEN Expiries(r.hs, r.es) ELSE r.es = << >>
      [] r.oc = "spin" -> ~DelayMustTerminate(r.rng, r.mean, r.cap) /\ r.n > 0
      [] OTHER -> FALSE
ZipSchedRec(r) ==
    CASE r.oc = "ok"   -> /\ r.consts = << ZipTransferMean, ZipTransferCap, ZipPrepMean, ZipPrepCap, ZipInterval >>
                          /\ InRange(r.hs) /\ HeightsOK(r.start, ZipTransferCap, r.n, r.hs) /\ Expiries(r.hs, r.es)
                          /\ InRange(r.ps) /\ HeightsOK(r.start, ZipPrepCap, r.n, r.ps)
      [] r.oc = "spin" -> ~DelayMustTerminate(r.rng, ZipTransferMean, ZipTransferCap) /\ r.n > 0
      [] OTHER -> FALSE
ExpiryRec(r) == r.oc = "ok" /\ Expiries(r.hs, r.es)
CexpRec(r) ==
    /\ r.oc = "ok" /\ Len(r.ce) = Len(r.hs) /\ Len(r.isc) = Len(r.hs) /\ Len(r.iscv) = Len(r.hs)
    /\ \A i \in 1..Len(r.hs) : /\ r.ce[i] = ExpiryHeight(r.hs[i])
                               /\ r.isc[i] = (r.pe[i] = ExpiryHeight(r.hs[i]))
                               /\ r.iscv[i] = CanonicalExpiryValue(r.pe[i])
ShuffleRec(r) ==
    CASE r.oc = "ok"   -> IsPerm(r.n, r.out)
      [] r.oc = "spin" -> ~ShuffleMustTerminate(r.rng, r.n)
      [] OTHER -> FALSE
ShuffleInRec(r) ==
    CASE r.oc = "ok"   -> SameMultiset(r.inp, r.out)
      [] r.oc = "spin" -> ~ShuffleMustTerminate(r.rng, Len(r.inp))
      [] OTHER -> FALSE
GridRec(r) ==
    /\ r.oc = "ok" /\ Len(r.below) = Len(r.hs) /\ Len(r.above) = Len(r.hs) /\ Len(r.isb) = Len(r.hs)
    /\ \A i \in 1..Len(r.hs) : /\ r.below[i] = Floor(r.hs[i], r.iv)
                               /\ r.above[i] = Ceil(r.hs[i], r.iv)
                               /\ r.isb[i] = IsBoundary(r.hs[i], r.iv)
AnchorRec(r) ==
    CASE r.oc = "ok"   -> AnchorOK(r.iv, r.act, r.fund, r.tip, r.some, r.out)
      [] r.oc = "spin" -> ~AnchorMustTerminate(r.rng, Candidates(r.iv, r.act, r.fund, r.tip))
      [] OTHER -> FALSE
RedrawRec(r) ==
    CASE r.oc = "ok"   -> RedrawOK(r.iv, r.prior, r.bcast, r.some, r.out)
      [] r.oc = "spin" -> ~AnchorMustTerminate(r.rng, RedrawCandidates(r.iv, r.prior, r.bcast))
      [] OTHER -> FALSE
EarliestRec(r) == r.oc = "ok" /\ r.out >= Lo /\ r.out <= Hi /\ EarliestOK(r.iv, r.act, r.fund, r.out)

WakeOutcome(r, tr) ==
    CASE r.oc = "ok"   -> WakeupsOK(r.margin, r.jcap, r.tip, tr, r.ws)
      [] r.oc = "err"  -> WakeupErrOK(tr, r.err)
      [] r.oc = "spin" -> ~WakeupsMustTerminate(r.rng, r.jcap) /\ \A i \in 1..Len(tr) : ~Infeasible(tr[i])
      [] OTHER -> FALSE
WakeRec(r) == WakeOutcome(r, r.tr)

\* MigrationState::sync_wakeup_schedule: the transfers that still need a proof -- kind transfer, state
\* Signed or AwaitingSignature, an anchor boundary drawn, and not dead.  Dead: unmined and (marked
\* unsatisfiable, or expired as judged at tip + 1, or depending on a dead transaction).
Unmined(t)      == t.state # "mined"
Expired(t, tip) == Unmined(t) /\ ~t.exp0 /\ t.expiry < SatAdd(tip, 1)
RECURSIVE Close(_, _, _)
Close(txs, S, n) == IF n = 0 THEN S
                    ELSE Close(txs, S \cup { txs[i].id : i \in { i \in 1..Len(txs) :
                                   Unmined(txs[i]) /\ \E j \in 1..Len(txs[i].deps) : txs[i].deps[j] \in S } }, n - 1)
Dead(txs, tip) == Close(txs, { txs[i].id : i \in { i \in 1..Len(txs) :
                                   Unmined(txs[i]) /\ (txs[i].unsat \/ Expired(txs[i], tip)) } }, Len(txs))
Needs(txs, tip) ==
    LET dead == Dead(txs, tip)
        Keep(t) == t.transfer /\ t.state \in {"signed", "awaiting"} /\ t.hasb /\ t.id \notin dead
        kept == SelectSeq(txs, Keep)
    IN  [i \in 1..Len(kept) |-> [id |-> kept[i].id, a |-> kept[i].boundary, b |-> kept[i].sched]]
StateWakeRec(r) == WakeOutcome(r, Needs(r.txs, r.tip))

Allowed(r) ==
    CASE r.a = "delay"     -> DelayRec(r)
      [] r.a = "newdist"   -> NewDistRec(r)
      [] r.a = "heights"   -> HeightsRec(r)
      [] r.a = "zipsched"  -> ZipSchedRec(r)
      [] r.a = "expiry"    -> ExpiryRec(r)
      [] r.a = "cexp"      -> CexpRec(r)
      [] r.a = "shuffle"   -> ShuffleRec(r)
      [] r.a = "shufflein" -> ShuffleInRec(r)
      [] r.a = "grid"      -> GridRec(r)
      [] r.a = "anchor"    -> AnchorRec(r)
      [] r.a = "redraw"    -> RedrawRec(r)
      [] r.a = "earliest"  -> EarliestRec(r)
      [] r.a = "wakeups"   -> WakeRec(r)
      [] r.a = "statewake" -> StateWakeRec(r)
      [] r.a = "wdefaults" -> TRUE        \* provisional values, not part of the property
      [] OTHER -> FALSE

TraceInit == l = 1
TraceNext == l <= Len(Rec) /\ Allowed(Rec[l]) /\ l' = l + 1
TraceSpec == TraceInit /\ [][TraceNext]_l
Accepted == LET n == TLCGet("stats").diameter - 1
            IN  IF n = Len(Rec) THEN PrintT(<< "TRACE", "accepted", n >>)
                ELSE PrintT(<< "TRACE", "rejected", n + 1, ToJson(Rec[n + 1]) >>) /\ FALSE
=================================================================================
