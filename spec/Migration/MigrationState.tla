--------------------------------- MODULE MigrationState ---------------------------------
(* C18 -- the state of a committed pool migration and the rules that advance it.                *)
(*                                                                                                *)
(* Written from the property statement and the rustdoc of zcash_pool_migration (state.rs,        *)
(* satisfiability.rs, engine.rs): what a transaction's life cycle is, which of them can never    *)
(* mine (the dead set), what may be offered next (the planning kernel, NextStep), and what each   *)
(* public mutator does to the state.  Everything here is a *definition* (an operator from a      *)
(* state and arguments to a state / a value); AdvanceMigration.tla adds the drive call with the   *)
(* store's oracle as environment, and MC_Migration.tla the state machine TLC explores.            *)
(*                                                                                                *)
(* Heights are "target" heights as in the code (tip + 1).  NoH stands for "no height" (None),     *)
(* an expiry of 0 means "never expires" (ZIP 203).                                               *)
EXTENDS Integers, Sequences, FiniteSets

CONSTANTS N,            \* number of transactions of the migration
          AnchorDepth   \* PROVABLE_ANCHOR_DEPTH: a transfer's boundary must sit this deep below the scanned tip

Tx  == 1..N
NoH == 0 - 1

Terminal    == {"complete", "failed", "superseded", "cancelled"}
NonTerminal == {"planning", "committed", "in_progress"}
Statuses    == Terminal \cup NonTerminal
LifeCycle   == <<"A", "S", "P", "B", "M">>   \* AwaitingSignature, Signed, Proved, Broadcast, Mined
Rank(st)    == CHOOSE k \in 1..5 : LifeCycle[k] = st
MarkKinds   == {"spent", "inval", "anchor", "inherited"}   \* UnsatisfiableKind

(* A transaction row:                                                                             *)
(*   kind "prep" | "xfer";  deps: the rows that must be mined first;  st: life-cycle state;       *)
(*   mh: mined height (NoH unless st = "M");  sched: scheduled broadcast height;  expiry;         *)
(*   bnd: drawn anchor boundary (transfers; NoH for a preparation);                               *)
(*   uh/uk: the unsatisfiability mark (stamp, kind) or NoH/"none";  rep: standing                 *)
(*   broadcast-failure report (the tip the rejecting node reported) or NoH.                      *)
(* A migration state: status, pct (the replan threshold in percent), cv (crossing value of the    *)
(* i-th crossing; transfer i crosses cv[i]), tol (the overdue-shift tolerance of the committed    *)
(* schedule), tx.                                                                                 *)

Min2(a, b) == IF a <= b THEN a ELSE b
Max2(a, b) == IF a >= b THEN a ELSE b
SetMin(S)  == CHOOSE x \in S : \A y \in S : x <= y

\* sum of the function f over the set S
RECURSIVE SumOver(_, _)
SumOver(S, f) == IF S = {} THEN 0 ELSE LET x == CHOOSE y \in S : TRUE IN f[x] + SumOver(S \ {x}, f)

----------------------------------------------------------------------------------------------
\* Kernel predicates

Mined(ms, i)     == ms.tx[i].st = "M"
DepsMined(ms, i) == \A d \in ms.tx[i].deps : Mined(ms, d)
IsTerminal(ms)   == ms.status \in Terminal

\* ZIP 203: an unmined transaction can no longer be mined in a block at height `target` or above
\* once expiry < target; expiry 0 disables expiry; a mined one is final.
Expired(t, target) == t.st # "M" /\ t.expiry # 0 /\ t.expiry < target

ExpiredSet(ms, ts) == {i \in Tx : Expired(ms.tx[i], ts)}      \* expired_transactions: at the SCANNED target

\* The transactions that can never mine: marked or expired (at the scanned target) and unmined,
\* closed over unmined dependents.
DeadSeeds(ms, ts) == {i \in Tx : ~Mined(ms, i) /\ (ms.tx[i].uh # NoH \/ Expired(ms.tx[i], ts))}
RECURSIVE CloseDead(_, _)
CloseDead(ms, D) ==
    LET D2 == D \cup {i \in Tx : ~Mined(ms, i) /\ ms.tx[i].deps \cap D # {}}
    IN  IF D2 = D THEN D ELSE CloseDead(ms, D2)
DeadSet(ms, ts) == CloseDead(ms, DeadSeeds(ms, ts))

\* ready to PROVE: not believed expired (estimate), dependencies mined, anchor resolvable
\* (a transfer: boundary settled under the SCANNED tip; a preparation: schedule due at the estimate)
ProveReady(ms, i, ts, te) ==
    LET t == ms.tx[i]
    IN  /\ ~Expired(t, te)
        /\ DepsMined(ms, i)
        /\ IF t.bnd # NoH THEN t.bnd + AnchorDepth < ts ELSE t.sched <= te

\* a set of rows as the sequence ordered by (key, id)
RECURSIVE OrderBy(_, _)
OrderBy(S, key) ==
    IF S = {} THEN << >>
    ELSE LET m == CHOOSE i \in S : \A j \in S : key[i] < key[j] \/ (key[i] = key[j] /\ i <= j)
         IN  << m >> \o OrderBy(S \ {m}, key)

ProvableSet(ms, ts, te, dead, SA) ==
    {i \in Tx : ms.tx[i].st = "S" /\ i \notin dead /\ i \notin SA /\ ProveReady(ms, i, ts, te)}
ProveKey(ms, i) == IF ms.tx[i].bnd # NoH THEN ms.tx[i].bnd ELSE ms.tx[i].sched
Provable(ms, ts, te, dead, SA) ==
    OrderBy(ProvableSet(ms, ts, te, dead, SA), [i \in Tx |-> ProveKey(ms, i)])

\* may be offered for BROADCAST: proved, due at the estimate, can still mine, not withheld by a
\* failure report, dependencies mined, not (believed) expired
BroadcastableSet(ms, ts, te, dead, SA) ==
    {i \in Tx : /\ ms.tx[i].st = "P"
                /\ ms.tx[i].sched <= te
                /\ i \notin dead /\ i \notin SA
                /\ ms.tx[i].rep = NoH
                /\ DepsMined(ms, i)
                /\ ~Expired(ms.tx[i], te)}

\* may be offered for REBUILD: an expired (scanned) transfer whose death a rebuild can cure
RebuildableSet(ms, ts, dead, SA) ==
    {i \in Tx : /\ ms.tx[i].kind = "xfer"
                /\ Expired(ms.tx[i], ts)
                /\ ms.tx[i].uh = NoH
                /\ ms.tx[i].deps \cap dead = {}
                /\ i \notin SA}

EarliestScheduled(ms, S) ==
    CHOOSE i \in S : \A j \in S : ms.tx[i].sched < ms.tx[j].sched \/ (ms.tx[i].sched = ms.tx[j].sched /\ i <= j)

\* the unsatisfiable share of planned transfer value strictly exceeds the committed threshold
ReplanRequired(ms) ==
    LET bad == {i \in Tx : ms.tx[i].kind = "xfer" /\ ms.tx[i].uh # NoH /\ ~Mined(ms, i)}
    IN  100 * SumOver(bad, ms.cv) > ms.pct * SumOver(Tx, ms.cv)

Step(k, ids) == [k |-> k, ids |-> ids]

\* The planning kernel: priority broadcast, early replan, prove (whole batch), rebuild, late replan.
NextStep(ms, ts, te, SA) ==
    IF IsTerminal(ms) THEN Step("complete", << >>)
    ELSE
    LET dead == DeadSet(ms, ts)
        bc   == BroadcastableSet(ms, ts, te, dead, SA)
        pv   == Provable(ms, ts, te, dead, SA)
        rb   == RebuildableSet(ms, ts, dead, SA)
    IN  IF bc # {} THEN Step("broadcast", << EarliestScheduled(ms, bc) >>)
        ELSE IF ReplanRequired(ms) THEN Step("replan", << >>)
        ELSE IF pv # << >> THEN Step("prove", pv)
        ELSE IF rb # {} THEN Step("rebuild", << EarliestScheduled(ms, rb) >>)
        ELSE IF dead # {} /\ SA = {} /\ (\A i \in Tx : Mined(ms, i) \/ i \in dead) THEN Step("replan", << >>)
        ELSE IF \A i \in Tx : Mined(ms, i) THEN Step("complete", << >>)
        ELSE Step("waiting", << >>)

\* transaction_statuses: <<ready, action, blocker>> per row, documented precedence
TxStatus(ms, i, ts, te) ==
    LET t    == ms.tx[i]
        dead == DeadSet(ms, ts)
    IN  IF ~Mined(ms, i) /\ (t.uh # NoH \/ t.deps \cap dead # {}) THEN << FALSE, "none", "unsatisfiable" >>
        ELSE IF ~Mined(ms, i) /\ t.rep # NoH THEN << FALSE, "none", "awaiting_reevaluation" >>
        ELSE IF Expired(t, ts) THEN << FALSE, "none", "expired" >>
        ELSE IF Expired(t, te) THEN << FALSE, "none", "expiry_imminent" >>
        ELSE IF t.st = "A" THEN << FALSE, "none", "signature" >>
        ELSE IF t.st = "S" THEN
                 IF ~DepsMined(ms, i) THEN << FALSE, "none", "dependencies" >>
                 ELSE IF ProveReady(ms, i, ts, te) THEN << TRUE, "prove", "none" >>
                 ELSE << FALSE, "none", IF t.bnd # NoH THEN "anchor_boundary" ELSE "schedule" >>
        ELSE IF t.st = "P" THEN
                 IF ~DepsMined(ms, i) THEN << FALSE, "none", "dependencies" >>
                 ELSE IF t.sched <= te THEN << TRUE, "broadcast", "none" >>
                 ELSE << FALSE, "none", "schedule" >>
        ELSE << FALSE, "none", "none" >>

----------------------------------------------------------------------------------------------
\* Mutators (one operator per public method of MigrationState)

RecomputeStatus(ms) ==
    IF IsTerminal(ms) THEN ms
    ELSE IF \A i \in Tx : Mined(ms, i) THEN [ms EXCEPT !.status = "complete"]
    ELSE IF \E i \in Tx : ms.tx[i].st \in {"B", "M"} THEN [ms EXCEPT !.status = "in_progress"]
    ELSE ms

\* contract: the consumer records the broadcast of the Proved transaction the engine handed it
MarkBroadcastOp(ms, i) == RecomputeStatus([ms EXCEPT !.tx[i].st = "B", !.tx[i].mh = NoH])

\* mining discharges the mark and the report
MarkMinedOp(ms, i, h) ==
    RecomputeStatus([ms EXCEPT !.tx[i].st = "M", !.tx[i].mh = h,
                               !.tx[i].uh = NoH, !.tx[i].uk = "none", !.tx[i].rep = NoH])

ReportFailureOp(ms, i, tip) == IF ms.tx[i].st = "P" THEN [ms EXCEPT !.tx[i].rep = tip] ELSE ms

ApplySignatureOp(ms, i) == IF ms.tx[i].st = "A" THEN [ms EXCEPT !.tx[i].st = "S"] ELSE ms
ApplySignatureRet(ms, i) == ms.tx[i].st = "A"

MarkSupersededOp(ms) == IF IsTerminal(ms) THEN ms ELSE [ms EXCEPT !.status = "superseded"]
MarkCancelledOp(ms)  == IF IsTerminal(ms) THEN ms ELSE [ms EXCEPT !.status = "cancelled"]

\* a proof stored for a Signed row (ProvedTransaction::apply through the store)
SetProvedOp(ms, i) == [ms EXCEPT !.tx[i].st = "P"]

\* the re-spread of a missed schedule: every not-yet-broadcast row moves by delta (boundaries are
\* kept: the anchor redraw has no candidate in the geometry the conformance harness uses)
ShiftScheduleOp(ms, delta) ==
    [ms EXCEPT !.tx = [i \in Tx |-> IF ms.tx[i].st \in {"A", "S", "P"}
                                    THEN [ms.tx[i] EXCEPT !.sched = @ + delta] ELSE ms.tx[i]]]

\* a chain rollback to height h: exactly the chain-derived determinations above h are withdrawn
TruncateOp(ms, h) ==
    LET T(t) == LET t1 == IF t.uh # NoH /\ t.uh > h THEN [t EXCEPT !.uh = NoH, !.uk = "none"] ELSE t
                    t2 == IF t1.rep # NoH /\ t1.rep > h THEN [t1 EXCEPT !.rep = NoH] ELSE t1
                IN  IF t2.st = "M" /\ t2.mh > h THEN [t2 EXCEPT !.st = "B", !.mh = NoH] ELSE t2
        ms1  == [ms EXCEPT !.tx = [i \in Tx |-> T(ms.tx[i])]]
    IN  IF ms1.status = "complete" /\ \E i \in Tx : ~Mined(ms1, i)
        THEN [ms1 EXCEPT !.status = "in_progress"] ELSE ms1

\* record_satisfiability.  dets: a set of [id, k, h] -- a marking answer of kind k resting on height h
\* (answers that do not mark -- satisfiable, not yet, expired -- are dropped by the caller of this operator).
DeadDepStamp(ms, d, ts) ==
    LET t == ms.tx[d]
    IN  IF t.uh # NoH /\ Expired(t, ts) THEN Min2(t.uh, t.expiry)
        ELSE IF t.uh # NoH THEN t.uh ELSE t.expiry
DeadDeps(ms, i, ts) ==
    {d \in ms.tx[i].deps : ~Mined(ms, d) /\ (ms.tx[d].uh # NoH \/ Expired(ms.tx[d], ts))}
RECURSIVE DurableClosure(_, _)
DurableClosure(ms, ts) ==
    LET inh == {i \in Tx : ~Mined(ms, i) /\ ms.tx[i].uh = NoH /\ DeadDeps(ms, i, ts) # {}}
    IN  IF inh = {} THEN ms
        ELSE DurableClosure(
               [ms EXCEPT !.tx = [i \in Tx |->
                   IF i \in inh
                   THEN [ms.tx[i] EXCEPT !.uh = SetMin({DeadDepStamp(ms, d, ts) : d \in DeadDeps(ms, i, ts)}),
                                         !.uk = "inherited"]
                   ELSE ms.tx[i]]], ts)
RecordSatisfiabilityOp(ms, ts, dets) ==
    LET direct == [ms EXCEPT !.tx = [i \in Tx |->
                     IF ~Mined(ms, i) /\ ms.tx[i].uh = NoH /\ \E d \in dets : d.id = i
                     THEN LET d == CHOOSE d \in dets : d.id = i
                          IN  [ms.tx[i] EXCEPT !.uh = d.h, !.uk = d.k]
                     ELSE ms.tx[i]]]
    IN  DurableClosure(direct, ts)

----------------------------------------------------------------------------------------------
\* Well-formedness of the states a committed migration can be in

TxOK(t) ==
    /\ t.kind \in {"prep", "xfer"} /\ t.st \in {"A", "S", "P", "B", "M"}
    /\ (t.st = "M") = (t.mh # NoH)
    /\ (t.uh = NoH) = (t.uk = "none")
    /\ (t.kind = "xfer") = (t.bnd # NoH)

\* a mined row carries neither a mark nor a report
MinedClean(ms) == \A i \in Tx : Mined(ms, i) => ms.tx[i].uh = NoH /\ ms.tx[i].rep = NoH

\* the chain-derived part of the status follows the rows
StatusFollows(ms) ==
    /\ ms.status = "complete" => \A i \in Tx : Mined(ms, i)
    /\ ms.status \in {"planning", "committed"} => \A i \in Tx : ms.tx[i].st \in {"A", "S", "P"}
    /\ ms.status = "in_progress" => \E i \in Tx : ~Mined(ms, i)

Consistent(ms) == (\A i \in Tx : TxOK(ms.tx[i]) /\ ms.tx[i].deps \subseteq 1..(i - 1)) /\ MinedClean(ms) /\ StatusFollows(ms)
=========================================================================================
