------------------------------- MODULE Rejection -------------------------------
(* C17 -- termination of the rejection loops (delay above the cap, age above the cap or outside   *)
(* the candidate range, index in Lemire's biased zone) is a LIVENESS property of the code TOGETHER *)
(* WITH THE STREAM.  The environment chooses every draw; the loop returns on the first acceptable  *)
(* one.  Under the fairness assumption "an acceptable draw, being possible at every iteration,     *)
(* eventually happens" (strong fairness of Accept) the loop terminates; without it the stream that *)
(* never produces an acceptable draw (all-zero words for ages, all-one words for a delay cap below *)
(* 36.7 means) is a counterexample -- which is why Scheduling.tla lists, per degenerate stream,    *)
(* where termination is required (DelayMustTerminate etc.).                                        *)
EXTENDS Naturals
CONSTANTS Draws,        \* the values a draw can take
          Acceptable    \* the non-empty subset the loop accepts
ASSUME Acceptable \subseteq Draws /\ Acceptable # {}
VARIABLES pc, out, tries
vars == << pc, out, tries >>
Init   == pc = "loop" /\ out = 0 /\ tries = 0
Accept == pc = "loop" /\ \E d \in Acceptable : out' = d /\ pc' = "done" /\ UNCHANGED tries
Reject == pc = "loop" /\ \E d \in Draws \ Acceptable : tries' = 1 - tries /\ UNCHANGED << pc, out >>
Next   == Accept \/ Reject
SpecUnfair == Init /\ [][Next]_vars /\ WF_vars(Next)
Spec       == Init /\ [][Next]_vars /\ SF_vars(Accept)
Terminates == <>(pc = "done")
Returned   == pc = "done" => out \in Acceptable
=================================================================================
