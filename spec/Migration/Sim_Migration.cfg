\* simulation default:  tlc2.TLC -workers 1 -simulate num=1 -depth 30000 -seed 1 -config Sim_Migration.cfg MC_Migration.tla
SPECIFICATION Spec
CONSTANTS
  AnchorDepth = 10
  FarEst = 45
  SimMode = TRUE
  Emit = FALSE
  EmitLevel = 0
  ResetEvery = 15
  N = 3
  HSet = {21, 22, 23, 24, 25}
  SchedSet = {20, 21, 22, 23, 25}
  ExpirySet = {0, 22, 24, 60, 61}
  BndSet = {9, 10, 11, 12, 13, 15}
  PctSet = {0, 20, 50, 100}
  TolSet = {16, 33}
  CvSet = {1, 2, 5}
  InitSt = {"S"}
  KindSet = {"prep", "xfer"}
  AnsSet = {"sat"}
  EstKs = {1}
  MinedSets = "some"
INVARIANTS NoViolation WellFormed
CHECK_DEADLOCK FALSE
