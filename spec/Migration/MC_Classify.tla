---------------------------- MODULE MC_Classify ----------------------------
(* Model-checking harness for Classify.tla: one state per point of the evidence lattice (reached  *)
(* in two steps so that TLC's workers share the points); the invariants are the pointwise         *)
(* theorems, the global ones are evaluated once (ASSUME).                                         *)
EXTENDS Classify
VARIABLES e, done
Bottom == [src |-> "none", dst |-> "none", ob |-> "none", sts |-> "none", val |-> "none",
           exp |-> "none", aog |-> "none", fee |-> "none"]
Init == /\ e \in { p \in Points : p.ob = "none" /\ p.sts = "none" /\ p.val = "none" /\ p.exp = "none"
                                  /\ p.aog = "none" /\ p.fee = "none" }
        /\ done = FALSE
Eval == /\ ~done /\ done' = TRUE
        /\ e' \in { p \in Points : p.src = e.src /\ p.dst = e.dst }
Spec == Init /\ [][Eval]_<<e, done>>
InvLawful == done => ThmLawfulAt(e)
InvNegObs == done => ThmNegObsAt(e)
\* Up(e) is the up-set of e (the confirmatory clauses play no role in Up, so those are fixed here)
InvUp     == (done /\ e.aog = "none" /\ e.fee = "none") => Up(e) = { f \in Points : Leq(e, f) }
ASSUME ThmBottom
ASSUME ThmCodes
ASSUME ThmOrderMatters
ASSUME Cardinality(Points) = 11664
ASSUME /\ CanonDigits(<<1, 0, 0, 0, 0, 0, 0>>) /\ CanonDigits(<<1, 0, 0, 0, 0, 0, 0, 0, 0, 0, 0, 0, 0>>)
       /\ ~CanonDigits(<<2, 0, 0, 0, 0, 0, 0, 0, 0, 0, 0, 0, 0>>) /\ ~CanonDigits(<<5, 0, 0, 0, 0, 0>>)
       /\ ~CanonDigits(<<3, 0, 0, 0, 0, 0, 0>>) /\ ~CanonDigits(<<1, 0, 0, 0, 0, 0, 1>>) /\ ~CanonDigits(<<0>>)
=============================================================================
