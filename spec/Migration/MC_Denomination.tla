--------------------------------- MODULE MC_Denomination ---------------------------------
(* Model-checking wrapper: balances as a range plus an explicit extra set. *)
EXTENDS Denomination
CONSTANTS TotalLo, TotalHi, TotalExtra
MCTotals == (TotalLo..TotalHi) \cup TotalExtra
===========================================================================================
