SPECIFICATION TraceSpec
CONSTANTS
  Accounts = {1, 2}
INVARIANTS OneNonTerminal RidsUnique ReservationsLaw
PROPERTIES RollbackLaw RefusedRewindLaw HistoryLaw ReleaseLaw ScanLaw
POSTCONDITION Accepted
CHECK_DEADLOCK FALSE
