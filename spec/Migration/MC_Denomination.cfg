\* exhaustive small-constant run (checks/c16.py generates its configurations into the work dir;
\* this one is the quick-tier main run, kept here for running TLC by hand)
SPECIFICATION Spec
CONSTANTS
  MinDenom = 1
  MaxDenom = 1000
  F = 14
  Totals <- MCTotals
  TotalLo = 0
  TotalHi = 2600
  TotalExtra = {}
  Buffers = {0, 1, 2, 3}
  Fees = {0, 1, 2, 3}
  Caps = {1, 2, 3, 13, 15, 29}
  Answers = {0, 1, 2, 3}
  Emit = FALSE
VIEW View
INVARIANT Theorems
PROPERTY SplitFixed
CHECK_DEADLOCK FALSE
