-------------------------------------- MODULE L125 --------------------------------------
(* C16: `largest_one_two_five(hi, floor)` - the largest {1,2,5} * 10^j * floor not above hi, *)
(* 0 when hi < floor (zip318.rs rustdoc).  Enumerated exhaustively for small hi and every   *)
(* floor in Floors; each value is replayed on the real function (c16_replay, "hi" lines).    *)
EXTENDS Naturals, FiniteSets, TLC, Json

CONSTANTS HiMax, Floors, Emit

Series(f) == { m * (10 ^ j) * f : m \in {1, 2, 5}, j \in 0..5 }
Largest(hi, f) == LET S == { d \in Series(f) : d <= hi }
                  IN  IF S = {} THEN 0 ELSE CHOOSE x \in S : \A y \in S : y <= x

VARIABLES hi, fl, done
vars == << hi, fl, done >>

Init == hi \in 0..HiMax /\ fl \in Floors /\ done = FALSE
Eval == /\ done = FALSE /\ done' = TRUE /\ UNCHANGED << hi, fl >>
        /\ (Emit => PrintT(<< "L125", ToJson([hi |-> hi, floor |-> fl, out |-> Largest(hi, fl)]) >>))
Spec == Init /\ [][Eval]_vars

Law == LET out == Largest(hi, fl)
       IN  /\ (out = 0 <=> hi < fl)
           /\ out <= hi
           /\ (out # 0 => out \in Series(fl) /\ out >= fl)
           /\ \A d \in Series(fl) : d <= hi => d <= out
=========================================================================================
