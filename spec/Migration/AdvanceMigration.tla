-------------------------------- MODULE AdvanceMigration --------------------------------
(* C18 -- the drive call advance_migration(store, state, targets, ..): plan, verify against the   *)
(* store's oracle, record, persist, surface one step.  The store is the ENVIRONMENT: for one      *)
(* call it is a record                                                                            *)
(*     env = [ts, est, asOf, ans, mined]                                                          *)
(* ts/est the caller's scanned and estimated targets (effective = max), ans[i] the answer         *)
(* check_step_satisfiability gives for row i in this call                                         *)
(*     "sat" | "notyet" | "spent" | "inval" | "anchor" | "expired"                                *)
(* all resting on the fully scanned height asOf, and mined[i] the height mined_height(txid_i)     *)
(* reports (NoH: not seen mined).  Nothing constrains the environment except the documented       *)
(* contract (answers rest at or below the scanned frontier).                                      *)
(*                                                                                                *)
(* The phases are separate operators in the order the rustdoc gives them: in-flight sweep,        *)
(* adjudication of broadcast-failure reports, then the loop  plan -> overdue shift -> verify ->   *)
(* record / set aside -> plan again.  The result is                                               *)
(*     [ms, step, dirty, sa]                                                                      *)
(* the state as the call leaves it, the step surfaced, whether anything was recorded (and so      *)
(* written back with replace_migration BEFORE the step is surfaced), and the candidates set       *)
(* aside in this call.                                                                            *)
EXTENDS MigrationState

Answers     == {"sat", "notyet", "spent", "inval", "anchor", "expired"}
Marks(a)    == a \in {"spent", "inval", "anchor"}     \* UnsatisfiableCause::kind() is Some

Effective(env) == Max2(env.ts, env.est)
Dets(env, S)   == {[id |-> i, k |-> env.ans[i], h |-> env.asOf] : i \in S}

\* ascending sequence of a set of rows (the order of state.transactions())
RECURSIVE AscSeq(_)
AscSeq(S) == IF S = {} THEN << >> ELSE LET m == SetMin(S) IN << m >> \o AscSeq(S \ {m})

----------------------------------------------------------------------------------------------
\* Phase 1: the in-flight sweep.  A Proved row the scan has seen mined was broadcast without the
\* record landing: it is promoted THROUGH Broadcast to Mined.  A Broadcast row seen mined is
\* promoted.  An unmarked Broadcast row not seen mined is asked about; only a foreign spend or a
\* settled anchor invalidation is a finding here.
RECURSIVE PromoteUnrecorded(_, _, _)
PromoteUnrecorded(ms, ids, env) ==
    IF ids = << >> THEN ms
    ELSE PromoteUnrecorded(MarkMinedOp(MarkBroadcastOp(ms, Head(ids)), Head(ids), env.mined[Head(ids)]), Tail(ids), env)
RECURSIVE PromoteMined(_, _, _)
PromoteMined(ms, ids, env) ==
    IF ids = << >> THEN ms
    ELSE PromoteMined(MarkMinedOp(ms, Head(ids), env.mined[Head(ids)]), Tail(ids), env)

Sweep(ms, env) ==
    LET unrec    == {i \in Tx : ms.tx[i].st = "P" /\ env.mined[i] # NoH}
        mined    == {i \in Tx : ms.tx[i].st = "B" /\ env.mined[i] # NoH}
        findings == {i \in Tx : /\ ms.tx[i].st = "B" /\ env.mined[i] = NoH /\ ms.tx[i].uh = NoH
                                /\ env.ans[i] \in {"spent", "anchor"}}
        ms1 == PromoteMined(PromoteUnrecorded(ms, AscSeq(unrec), env), AscSeq(mined), env)
        ms2 == IF findings # {} THEN RecordSatisfiabilityOp(ms1, env.ts, Dets(env, findings)) ELSE ms1
    IN  [ms |-> ms2, dirty |-> unrec # {} \/ mined # {} \/ findings # {}]

\* after any discovery: every other pending, unmarked row whose dependencies are mined is asked too
Broaden(ms, env, batch) ==
    batch \cup {i \in Tx \ batch : /\ ms.tx[i].st \notin {"B", "M"} /\ ms.tx[i].uh = NoH
                                   /\ DepsMined(ms, i) /\ Marks(env.ans[i])}

\* Phase 2: adjudicating the standing broadcast-failure reports (skipped on a terminal migration).
\* An answer resting below the reported tip decides nothing (-> Reevaluate); one at or above it
\* discharges the report, recording a mark when the answer is an obstruction.
Adjudicate(ms, env) ==
    IF IsTerminal(ms) THEN [ms |-> ms, dirty |-> FALSE, pending |-> FALSE]
    ELSE
    LET reported == {i \in Tx : ms.tx[i].rep # NoH}
        pend     == {i \in reported : env.asOf < ms.tx[i].rep}
        adj      == reported \ pend
        verdicts == {i \in adj : Marks(env.ans[i])}
        ms1 == IF verdicts # {}
               THEN RecordSatisfiabilityOp(ms, env.ts, Dets(env, Broaden(ms, env, verdicts))) ELSE ms
        ms2 == [ms1 EXCEPT !.tx = [i \in Tx |-> IF i \in adj THEN [ms1.tx[i] EXCEPT !.rep = NoH] ELSE ms1.tx[i]]]
    IN  [ms |-> ms2, dirty |-> adj # {}, pending |-> pend # {}]

\* Phase 3: plan, shift if overdue, verify, record / set aside, plan again.
\* `fuel` only bounds the recursion for TLC; AdvanceTerminates says it is never exhausted.
OverdueFrom(ms, step, i) ==
    IF step.k = "prove" /\ ms.tx[i].bnd # NoH
    THEN Max2(ms.tx[i].sched, ms.tx[i].bnd + AnchorDepth + 1) ELSE ms.tx[i].sched

RECURSIVE PlanLoop(_, _, _, _, _)
PlanLoop(ms, env, SA, dirty, fuel) ==
    LET ts   == env.ts
        te   == Effective(env)
        step == NextStep(ms, ts, te, SA)
    IN  IF fuel = 0 THEN [ms |-> ms, step |-> Step("diverged", << >>), dirty |-> dirty, sa |-> SA]
        ELSE IF step.k \notin {"prove", "broadcast", "rebuild"}
        THEN [ms |-> ms, step |-> step, dirty |-> dirty, sa |-> SA]
        ELSE
        LET cands == {step.ids[k] : k \in 1..Len(step.ids)}
            \* the most overdue candidate: least (overdue_from, scheduled)
            mo    == CHOOSE i \in cands : \A j \in cands :
                        \/ OverdueFrom(ms, step, i) < OverdueFrom(ms, step, j)
                        \/ (OverdueFrom(ms, step, i) = OverdueFrom(ms, step, j) /\ ms.tx[i].sched <= ms.tx[j].sched)
        IN  IF step.k \in {"prove", "broadcast"} /\ OverdueFrom(ms, step, mo) + ms.tol < te
            THEN PlanLoop(ShiftScheduleOp(ms, te - ms.tx[mo].sched), env, SA, TRUE, fuel - 1)
            ELSE
            LET kept     == SelectSeq(step.ids, LAMBDA i : env.ans[i] \in {"sat", "expired"})
                deferred == {i \in cands : env.ans[i] = "notyet"}
                disc     == {i \in cands : Marks(env.ans[i])}
                SA2      == SA \cup deferred
            IN  IF disc # {}
                THEN PlanLoop(RecordSatisfiabilityOp(ms, ts, Dets(env, Broaden(ms, env, disc))), env, SA2, TRUE, fuel - 1)
                ELSE IF deferred = {} THEN [ms |-> ms, step |-> step, dirty |-> dirty, sa |-> SA2]
                ELSE IF kept # << >> /\ step.k = "prove"
                THEN [ms |-> ms, step |-> Step("prove", kept), dirty |-> dirty, sa |-> SA2]
                ELSE PlanLoop(ms, env, SA2, dirty, fuel - 1)

Advance(ms, env) ==
    LET s == Sweep(ms, env)
        a == Adjudicate(s.ms, env)
    IN  IF a.pending
        THEN [ms |-> a.ms, step |-> Step("reevaluate", << >>), dirty |-> s.dirty \/ a.dirty, sa |-> {}]
        ELSE PlanLoop(a.ms, env, {}, s.dirty \/ a.dirty, 4 * N + 8)

----------------------------------------------------------------------------------------------
\* The safety clauses of the property, stated on ONE call: pre-state ms, environment env, result r.
\* Each is the name of a clause; AdvanceViolations is the set of clauses a call breaks.

Vouched(env, i) == env.ans[i] \in {"sat", "expired"}     \* the oracle did not object in this call

BroadcastSafe(ms, env, r) ==
    r.step.k = "broadcast" =>
        /\ Len(r.step.ids) = 1                                   \* at most one broadcast at a time
        /\ LET i == r.step.ids[1]  t == r.ms.tx[i]
           IN  /\ ~IsTerminal(r.ms)
               /\ t.st = "P" /\ DepsMined(r.ms, i)
               /\ t.sched <= Effective(env)
               /\ ~Expired(t, Effective(env))
               /\ t.rep = NoH /\ t.uh = NoH
               /\ i \notin DeadSet(r.ms, env.ts)
               /\ Vouched(env, i)

ProveSafe(ms, env, r) ==
    r.step.k = "prove" =>
        /\ r.step.ids # << >>
        /\ \A a, b \in 1..Len(r.step.ids) : a # b => r.step.ids[a] # r.step.ids[b]
        /\ ~IsTerminal(r.ms)
        /\ \A k \in 1..Len(r.step.ids) :
             LET i == r.step.ids[k]  t == r.ms.tx[i]
             IN  /\ t.st = "S" /\ DepsMined(r.ms, i)
                 /\ i \notin DeadSet(r.ms, env.ts)
                 /\ ~Expired(t, Effective(env))
                 /\ IF t.kind = "xfer" THEN t.bnd + AnchorDepth < env.ts ELSE t.sched <= Effective(env)
                 /\ Vouched(env, i)

RebuildSafe(ms, env, r) ==
    r.step.k = "rebuild" =>
        /\ Len(r.step.ids) = 1
        /\ LET i == r.step.ids[1]  t == r.ms.tx[i]
           IN  /\ ~IsTerminal(r.ms)
               /\ t.kind = "xfer" /\ Expired(t, env.ts) /\ t.uh = NoH
               /\ t.deps \cap DeadSet(r.ms, env.ts) = {}
               /\ Vouched(env, i)

\* a migration never ends silently holding value that can no longer move
NoSilentStrand(ms, env, r) ==
    LET unmined == {i \in Tx : ~Mined(r.ms, i)}
    IN  (/\ ~IsTerminal(r.ms) /\ unmined # {}
         /\ unmined \subseteq DeadSet(r.ms, env.ts)
         /\ r.sa = {}
         /\ \A i \in Tx : r.ms.tx[i].rep = NoH \/ Mined(r.ms, i))
        => r.step.k \in {"replan", "rebuild"}

ReevaluateOnlyOnReport(ms, env, r) ==
    r.step.k = "reevaluate" => \E i \in Tx : r.ms.tx[i].rep # NoH /\ env.asOf < r.ms.tx[i].rep

CompleteOnlyWhenDone(ms, env, r) ==
    r.step.k = "complete" => IsTerminal(r.ms)

AdvanceTerminates(ms, env, r) == r.step.k # "diverged"

\* the same step is offered until the state records its completion
Idempotent(ms, env, r) ==
    LET r2 == Advance(r.ms, env) IN r2.ms = r.ms /\ r2.step = r.step /\ ~r2.dirty

\* nothing is written when nothing was discovered, and everything discovered is written
DirtyIffChanged(ms, env, r) == r.dirty = (r.ms # ms)

AdvanceViolations(ms, env, r) ==
    {c \in {"BroadcastSafe", "ProveSafe", "RebuildSafe", "NoSilentStrand", "ReevaluateOnlyOnReport",
            "CompleteOnlyWhenDone", "AdvanceTerminates", "Idempotent", "DirtyIffChanged"} :
        CASE c = "BroadcastSafe"          -> ~BroadcastSafe(ms, env, r)
          [] c = "ProveSafe"              -> ~ProveSafe(ms, env, r)
          [] c = "RebuildSafe"            -> ~RebuildSafe(ms, env, r)
          [] c = "NoSilentStrand"         -> ~NoSilentStrand(ms, env, r)
          [] c = "ReevaluateOnlyOnReport" -> ~ReevaluateOnlyOnReport(ms, env, r)
          [] c = "CompleteOnlyWhenDone"   -> ~CompleteOnlyWhenDone(ms, env, r)
          [] c = "AdvanceTerminates"      -> ~AdvanceTerminates(ms, env, r)
          [] c = "Idempotent"             -> ~Idempotent(ms, env, r)
          [] c = "DirtyIffChanged"        -> ~DirtyIffChanged(ms, env, r)}
=========================================================================================
