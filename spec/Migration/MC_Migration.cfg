\* hand-runnable default (= Bfs_small of checks/c18.py, which generates the cfgs it runs):
\*   java -cp tla2tools.jar:CommunityModules-deps.jar tlc2.TLC -workers 8 -config MC_Migration.cfg MC_Migration.tla
SPECIFICATION Spec
CONSTANTS
  AnchorDepth = 10
  FarEst = 45
  SimMode = FALSE
  Emit = FALSE
  EmitLevel = 0
  ResetEvery = 15
  N = 2
  HSet = {22}
  SchedSet = {21}
  ExpirySet = {0, 21}
  BndSet = {10}
  PctSet = {20}
  TolSet = {16}
  CvSet = {1}
  InitSt = {"S"}
  KindSet = {"prep", "xfer"}
  AnsSet = {"sat", "spent"}
  EstKs = {1, 3}
  MinedSets = "some"
INVARIANTS NoViolation WellFormed
CHECK_DEADLOCK FALSE
