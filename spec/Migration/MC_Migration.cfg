\* breadth-first, two transactions, every event order (checks/c18.py generates the cfgs it runs;
\* this one is the hand-runnable default)
SPECIFICATION Spec
CONSTANTS
  N = 2
  AnchorDepth = 10
  SimMode = FALSE
  Emit = FALSE
  EmitLevel = 0
  HSet = {21, 22}
  FarEst = 45
  SchedSet = {21}
  ExpirySet = {0, 22}
  BndSet = {10}
  PctSet = {20}
  TolSet = {16}
  CvSet = {1}
  InitSt = {"S"}
  KindSet = {"prep", "xfer"}
  AnsSet = {"sat", "notyet", "spent"}
  EstKs = {1, 3}
  MinedSets = "some"
  ResetEvery = 25
INVARIANTS NoViolation WellFormed
CHECK_DEADLOCK FALSE
