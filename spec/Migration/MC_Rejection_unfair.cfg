SPECIFICATION SpecUnfair
CONSTANTS
  Draws = {0, 1, 2, 3, 4, 5}
  Acceptable = {1, 2}
INVARIANT Returned
PROPERTY Terminates
CHECK_DEADLOCK FALSE
