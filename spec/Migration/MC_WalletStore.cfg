SPECIFICATION Spec
VIEW View
CONSTANTS
  Accounts = {1}
  TwoRows = TRUE
  MaxH = 2
  MaxRecs = 1
  Tokens = {1}
INVARIANTS OneNonTerminal RidsUnique ReservationsLaw MinedBacked
PROPERTIES RollbackLaw RefusedRewindLaw HistoryLaw ReleaseLaw ScanLaw
CHECK_DEADLOCK FALSE
