--------------------------------- MODULE MigrationStore ---------------------------------
(* C18 -- the persistence clause: the wallet database's pool-migration store for the accounts of  *)
(* one wallet.  A table of migration records, each [acc, status, body]; `body` stands for          *)
(* everything else a MigrationState carries (the conformance harness compares whole states).       *)
(*   Replace(a, s)  replace_migration: the account's PENDING record is rewritten in place (it keeps *)
(*                  its identity); if there is none a new record is appended.  Persisting a         *)
(*                  terminal state is how a migration enters the retained history.                  *)
(*   Get(a)         get_migration: pending only.                                                    *)
(*   Latest(a)      latest_migration: the newest record whatever its status.                        *)
(*   Update(a, b)   update_transaction: the pending record's body changes, nothing else.            *)
(*   Cancel(a)      cancel_migration: the pending record becomes `cancelled`.                       *)
(*   Rollback       the wallet's truncation cascade un-completing a `complete` record: refused     *)
(*                  (atomically) when the account already has another pending record.               *)
EXTENDS Integers, Sequences, FiniteSets

CONSTANTS Accounts, Bodies, MaxRows

Terminal    == {"complete", "failed", "superseded", "cancelled"}
NonTerminal == {"committed", "in_progress"}
Statuses    == Terminal \cup NonTerminal

VARIABLES rows,     \* the table, oldest first
          last,     \* what the last Replace wrote, to state Get o Replace = id
          revived   \* a rollback has un-completed a historical record (it may then be older than a
                    \* retained terminal one: how the two coexist is left open by the store's rustdoc)
vars == << rows, last, revived >>

NoRec       == [acc |-> 0, status |-> "none", body |-> 0]
Pending(a)  == {k \in 1..Len(rows) : rows[k].acc = a /\ rows[k].status \in NonTerminal}
Get(a)      == IF Pending(a) = {} THEN NoRec ELSE rows[CHOOSE k \in Pending(a) : TRUE]
OfAcc(a)    == {k \in 1..Len(rows) : rows[k].acc = a}
Latest(a)   == IF OfAcc(a) = {} THEN NoRec ELSE rows[CHOOSE k \in OfAcc(a) : \A j \in OfAcc(a) : j <= k]

Init == rows = << >> /\ last = NoRec /\ revived = FALSE

Replace(a, st, b) ==
    LET rec == [acc |-> a, status |-> st, body |-> b]
    IN  /\ IF Pending(a) # {}
           THEN rows' = [rows EXCEPT ![CHOOSE k \in Pending(a) : TRUE] = rec]
           ELSE Len(rows) < MaxRows /\ rows' = Append(rows, rec)
        /\ last' = rec /\ UNCHANGED revived

Update(a, b) ==
    /\ Pending(a) # {}
    /\ rows' = [rows EXCEPT ![CHOOSE k \in Pending(a) : TRUE].body = b]
    /\ last' = [Get(a) EXCEPT !.body = b] /\ UNCHANGED revived

Cancel(a) ==
    /\ Pending(a) # {}
    /\ rows' = [rows EXCEPT ![CHOOSE k \in Pending(a) : TRUE].status = "cancelled"]
    /\ last' = NoRec /\ UNCHANGED revived

Rollback(k) ==
    /\ k \in 1..Len(rows) /\ rows[k].status = "complete"
    /\ IF Pending(rows[k].acc) = {} THEN rows' = [rows EXCEPT ![k].status = "in_progress"] /\ revived' = TRUE
       ELSE UNCHANGED << rows, revived >>      \* constraint error: the whole truncation is refused
    /\ last' = NoRec

Next == \/ \E a \in Accounts, st \in Statuses, b \in Bodies : Replace(a, st, b)
        \/ \E a \in Accounts, b \in Bodies : Update(a, b)
        \/ \E a \in Accounts : Cancel(a)
        \/ \E k \in 1..MaxRows : Rollback(k)
Spec == Init /\ [][Next]_vars

\* at most one non-terminal migration per account, across any sequence
OnePending == \A a \in Accounts : Cardinality(Pending(a)) <= 1
\* a migration saved and loaded back is the one saved (pending only; a terminal one is history)
GetReplace == last # NoRec =>
                 /\ Get(last.acc) = (IF last.status \in NonTerminal THEN last ELSE NoRec)
                 /\ ~revived => Latest(last.acc) = last
\* policy-terminal records are never rewritten, and history is never dropped
History == [][/\ Len(rows') >= Len(rows)
              /\ \A k \in 1..Len(rows) : rows[k].status \in {"failed", "superseded", "cancelled"} => rows'[k] = rows[k]]_vars
=========================================================================================
