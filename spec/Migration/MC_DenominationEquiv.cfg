SPECIFICATION Spec
CONSTANTS
  MinDenom = 1
  MinExp = 0
  MaxDenom = 100
  F = 14
  Totals = {0,1,2,3,4,5,6,7,8,9,10,11,12,13,14,15,16,17,18,19,20,21,22,23,24,25,26,27,28,29,30,49,50,51,52,53,99,100,101,102,103,104,105,199,200,201,210,250,251,260}
  Buffers = {0, 1, 3}
  Fees = {0, 1, 3}
  Caps = {1, 2, 3, 29}
  Answers = {0, 1, 2, 3}
  Emit = FALSE
VIEW View
INVARIANT Equiv
CHECK_DEADLOCK FALSE
