------------------------------- MODULE Classify -------------------------------
(* C17 -- ZIP 318 shape classification over the lattice of evidence.                              *)
(*                                                                                                *)
(* Evidence has eight optional clauses.  A clause is unanswered ("none") or carries a value; the  *)
(* values are abstracted to the classes the ZIP 318 shapes distinguish:                           *)
(*   src  source-pool (Orchard) actions   none | two (crossing) | sixteen (preparation) | other   *)
(*   dst  destination (Ironwood) actions  none | zero | one | other                               *)
(*   ob   other bundles present           none | t | f                                            *)
(*   sts  source outputs are send-to-self none | t | f                                            *)
(*   val  sole destination value          none | canon (1-2-5 denomination in range) | noncanon   *)
(*   exp  expiry is the canonical one     none | t | f                                            *)
(*   aog  anchor on the grid (CONFIRMATORY)   none | t | f                                        *)
(*   fee  fee is canonical  (CONFIRMATORY)    none | t | f                                        *)
(* 4*4*3*3*3*3*3*3 = 11 664 points.                                                               *)
(*                                                                                                *)
(* The information order e1 [= e2: every answered clause of e1 is answered identically in e2,    *)
(* and the two confirmatory clauses are EQUAL (they reflect a fixed capability of the source;     *)
(* without that obligation monotonicity is false by design and is not claimed).                   *)
(*                                                                                                *)
(* What the property promises about a classifier C (predicate Lawful):                            *)
(*   Complete   on fully answered evidence C returns the ZIP 318 shape (ShapeOf);                 *)
(*   Sound      a decision (anything but Unknown) is the shape of EVERY completion of the         *)
(*              evidence -- in particular nothing is refuted unless every completion is, i.e.     *)
(*              only on a negative observation (NegObs);                                          *)
(*   Monotone   e1 [= e2 and C(e1) decided  =>  C(e2) = C(e1).                                    *)
(* `Classify` is the documented decision procedure; TLC checks that it is Lawful.  The trace spec *)
(* judges the implementation's table by Lawful (a classifier that decides earlier or later than   *)
(* `Classify` but obeys the three laws is not rejected; the difference is only reported).         *)
EXTENDS Naturals, Sequences, FiniteSets, TLC

SrcV == {"none", "two", "sixteen", "other"}
DstV == {"none", "zero", "one", "other"}
TriV == {"none", "t", "f"}
ValV == {"none", "canon", "noncanon"}

Points == [src : SrcV, dst : DstV, ob : TriV, sts : TriV, val : ValV, exp : TriV, aog : TriV, fee : TriV]
Required == {"src", "dst", "ob", "sts", "val", "exp"}   \* the non-confirmatory clauses
Results == {"U", "N", "P", "T"}     \* Unknown, Nonconforming, Conforms(Preparation), Conforms(Transfer)

Full(e) == \A c \in Required : e[c] # "none"
Leq(e1, e2) == /\ \A c \in Required : e1[c] = "none" \/ e1[c] = e2[c]
               /\ e1.aog = e2.aog /\ e1.fee = e2.fee

\* The ZIP 318 shapes, on fully answered evidence.  A confirmatory clause refutes when answered
\* negatively and is simply absent otherwise.
ShapeOf(e) ==
    IF e.aog = "f" \/ e.fee = "f" THEN "N"
    ELSE IF e.ob = "t" \/ e.exp = "f" THEN "N"
    ELSE IF e.dst = "zero" /\ e.src = "sixteen" /\ e.sts = "t" THEN "P"
    ELSE IF e.dst = "one" /\ e.src = "two" /\ e.val = "canon" THEN "T"
    ELSE "N"

\* everything above e in the order: the unanswered non-confirmatory clauses filled in any way
Up(e) == [src : IF e.src = "none" THEN SrcV ELSE {e.src},
          dst : IF e.dst = "none" THEN DstV ELSE {e.dst},
          ob  : IF e.ob  = "none" THEN TriV ELSE {e.ob},
          sts : IF e.sts = "none" THEN TriV ELSE {e.sts},
          val : IF e.val = "none" THEN ValV ELSE {e.val},
          exp : IF e.exp = "none" THEN TriV ELSE {e.exp},
          aog : {e.aog}, fee : {e.fee}]
Completions(e) == { f \in Up(e) : Full(f) }

\* A negative observation: an answered clause that no ZIP 318 shape admits, or answered clauses
\* that between them rule out both shapes.
CommonOK(e) == e.aog # "f" /\ e.fee # "f" /\ e.ob # "t" /\ e.exp # "f"
CompatP(e)  == e.dst \in {"none", "zero"} /\ e.src \in {"none", "sixteen"} /\ e.sts \in {"none", "t"}
CompatT(e)  == e.dst \in {"none", "one"} /\ e.src \in {"none", "two"} /\ e.val \in {"none", "canon"}
NegObs(e)   == ~CommonOK(e) \/ (~CompatP(e) /\ ~CompatT(e))

\* -- the three laws, pointwise on a table C : Points -> Results
CompleteAt(C, e) == Full(e) => C[e] = ShapeOf(e)
SoundAt(C, e)    == C[e] # "U" => \A f \in Completions(e) : ShapeOf(f) = C[e]
MonotoneAt(C, e1, e2) == (Leq(e1, e2) /\ C[e1] # "U") => C[e2] = C[e1]
LawfulAt(C, e) == /\ CompleteAt(C, e) /\ SoundAt(C, e)
                  /\ \A e2 \in Up(e) : MonotoneAt(C, e, e2)
Lawful(C) == \A e \in Points : LawfulAt(C, e)

\* -- the documented decision procedure
Classify(e) ==
    IF e.aog = "f" \/ e.fee = "f" THEN "N"
    ELSE IF e.src = "none" \/ e.dst = "none" \/ e.ob = "none" \/ e.exp = "none" THEN "U"
    ELSE IF e.ob = "t" \/ e.exp = "f" THEN "N"
    ELSE IF e.dst = "zero" THEN
            IF e.src # "sixteen" THEN "N"
            ELSE IF e.sts = "none" THEN "U" ELSE IF e.sts = "f" THEN "N" ELSE "P"
    ELSE IF e.dst = "one" THEN
            IF e.src # "two" THEN "N"
            ELSE IF e.val = "none" THEN "U" ELSE IF e.val = "noncanon" THEN "N" ELSE "T"
    ELSE "N"
ClassifyTable == [e \in Points |-> Classify(e)]

\* -- the persisted encoding
ToCode(r)   == CASE r = "U" -> 0 [] r = "N" -> 1 [] r = "P" -> 2 [] r = "T" -> 3
FromCode(c) == IF c = 1 THEN "N" ELSE IF c = 2 THEN "P" ELSE IF c = 3 THEN "T" ELSE "U"

\* -- canonical denominations, on decimal digits (most significant first): 1, 2 or 5 followed by
\*    zeros, between 0.01 ZEC = 10^6 zatoshi (7 digits) and 10 000 ZEC = 10^12 zatoshi (13 digits)
CanonDigits(d) == /\ Len(d) >= 7 /\ Len(d) <= 13
                  /\ d[1] \in {1, 2, 5}
                  /\ \A i \in 2..Len(d) : d[i] = 0
                  /\ (Len(d) = 13 => d[1] = 1)

-------------------------------------------------------------------------------
\* Theorems (checked by TLC through MC_Classify.tla: one state per lattice point)

ThmLawfulAt(e) == LawfulAt(ClassifyTable, e)
\* nothing is refuted without a negative observation -- and NegObs is exactly "every completion is refuted"
ThmNegObsAt(e) == /\ Classify(e) = "N" => NegObs(e)
                  /\ NegObs(e) <=> \A f \in Completions(e) : ShapeOf(f) = "N"
ThmBottom      == Classify([src |-> "none", dst |-> "none", ob |-> "none", sts |-> "none", val |-> "none",
                            exp |-> "none", aog |-> "none", fee |-> "none"]) = "U"
ThmCodes       == /\ \A r \in Results : FromCode(ToCode(r)) = r
                  /\ \A r1, r2 \in Results : ToCode(r1) = ToCode(r2) => r1 = r2
                  /\ \A c \in 0..64 : c \notin {ToCode(r) : r \in Results} => FromCode(c) = "U"
\* without the obligation on the confirmatory clauses monotonicity fails (so the order matters)
LeqLoose(e1, e2) == \A c \in Required \cup {"aog", "fee"} : e1[c] = "none" \/ e1[c] = e2[c]
ThmOrderMatters ==
    LET e1 == [src |-> "sixteen", dst |-> "zero", ob |-> "f", sts |-> "t", val |-> "none", exp |-> "t",
               aog |-> "none", fee |-> "none"]
        e2 == [e1 EXCEPT !.aog = "f"]
    IN  LeqLoose(e1, e2) /\ Classify(e1) = "P" /\ Classify(e2) = "N"
===============================================================================
