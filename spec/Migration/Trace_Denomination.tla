------------------------------- MODULE Trace_Denomination -------------------------------
(* C16, code -> spec: validates the ndjson trace written by harness/h_tx/src/bin/c16_driver.rs.   *)
(* Amounts are little-endian decimal digit sequences; the rule is DenominationD.tla.  Records are  *)
(* independent; the only variable is the line counter.  Every line must be Allowed.  The first    *)
(* line of a file is a header {a: "chunk", base, stride, count}: the file must hold exactly       *)
(* `count` more lines and they must carry the sequence numbers base + stride, base + 2*stride, .. *)
(* that the driver wrote, so that a dropped line is rejected as well.                             *)
EXTENDS DenominationD, Json, IOUtils

VARIABLE l
Rec == ndJsonDeserialize(IOEnv.TRACE)

\* TLC evaluates a constant definition once, before the search, and in that context it caches LET
\* definitions and operator arguments; evaluated inside the action the recursive operators above
\* would be re-evaluated at every use (measured: 3 s per line instead of milliseconds).
Verdict == [i \in 1..Len(Rec) |->
               IF i = 1 THEN Rec[1].a = "chunk" /\ Rec[1].count = Len(Rec) - 1
               ELSE Rec[i].seq = Rec[1].base + (i - 1) * Rec[1].stride /\ Allowed(Rec[i])]

TraceInit == l = 1
TraceNext == l <= Len(Rec) /\ Verdict[l] /\ l' = l + 1
TraceSpec == TraceInit /\ [][TraceNext]_l

Accepted == LET n == TLCGet("stats").diameter - 1
            IN  IF n = Len(Rec) THEN PrintT(<< "TRACE", "accepted", n >>)
                ELSE PrintT(<< "TRACE", "rejected", n + 1, ToJson(Rec[n + 1]) >>) /\ FALSE
===========================================================================================
