--------------------------------- MODULE DenominationD ---------------------------------
(* C16: the rule of Denomination.tla restated over DecNat (little-endian decimal digit sequences), *)
(* for amounts at the normative scale (MAX_MONEY = 2.1e15 zatoshi does not fit a TLC integer).    *)
(* MC_DenominationEquiv.tla checks that CanonSplitD / ReconcileD agree with CanonSplit and the reconcile  *)
(* machine of Denomination.tla on every small input.  `XAllowed(r)` judge one trace line each.     *)
EXTENDS Integers, Sequences, TLC, DecNat

F == 14                     \* FUNDING_OUTPUTS_PER_TX (ZIP 318: 16-action preparation transactions, two reserved)
MaxMoney == << 0,0,0,0,0,0,0,0,0,0,0,0,0,0,1,2 >>        \* 21 000 000 * 10^8 zatoshi

Txs(k) == (k + F - 1) \div F

-------------------------------------------------------------------------------------------
\* the denomination series m * 10^(minExp + j) not above maxD, ascending
RECURSIVE DenomSeqR(_, _, _, _)
DenomSeqR(e, mi, maxD, acc) ==
    LET d == Shift(<< << 1 >>, << 2 >>, << 5 >> >>[mi], e)
    IN  IF ~Leq(d, maxD) THEN acc
        ELSE IF mi = 3 THEN DenomSeqR(e + 1, 1, maxD, Append(acc, d))
        ELSE DenomSeqR(e, mi + 1, maxD, Append(acc, d))
DenomSeq(minExp, maxD) == DenomSeqR(minExp, 1, maxD, << >>)

\* index of the largest denomination d with base + d <= total, searching downwards from i; 0 if none
RECURSIVE LargestFit(_, _, _, _)
LargestFit(D, i, base, total) ==
    IF i = 0 THEN 0
    ELSE IF Leq(Add(base, D[i]), total) THEN i
    ELSE LargestFit(D, i - 1, base, total)

Member(D, x) == \E i \in 1..Len(D) : Eq(D[i], x)

SingleExactD(D, total, single, buffer, cap) ==
    single /\ cap > 0 /\ Leq(buffer, total) /\ Member(D, Sub(total, buffer))

RECURSIVE GreedyD(_, _, _, _, _, _, _)
GreedyD(D, parts, committed, total, fee, buffer, cap) ==
    IF Len(parts) >= cap THEN parts
    ELSE LET base == Add(Add(committed, buffer), MulSmall(fee, Txs(Len(parts) + 1)))
             i == LargestFit(D, Len(D), base, total)
         IN  IF i = 0 THEN parts
             ELSE GreedyD(D, Append(parts, D[i]), Add(Add(committed, D[i]), buffer), total, fee, buffer, cap)

CanonSplitD(D, total, single, fee, buffer, cap) ==
    IF SingleExactD(D, total, single, buffer, cap) THEN << Sub(total, buffer) >>
    ELSE GreedyD(D, << >>, Zero, total, fee, buffer, cap)

\* ps[j] = sum of the first j prepared notes (part + buffer)
RECURSIVE PrefixSumsR(_, _, _, _)
PrefixSumsR(s, buffer, j, acc) ==
    IF j > Len(s) THEN acc
    ELSE PrefixSumsR(s, buffer, j + 1,
                     Append(acc, Add(Add(IF j = 1 THEN Zero ELSE acc[j - 1], s[j]), buffer)))
PrefixSums(s, buffer) == PrefixSumsR(s, buffer, 1, << >>)
NotesSumD(ps, k) == IF k = 0 THEN Zero ELSE ps[k]

\* Oracle answers are logged as DecNats (counts up to usize::MAX occur), None as << -1 >>.
NoAnswer == << -1 >>

\* the reconcile loop driven by the logged answers: result [k, n, used, honest] with n a DecNat;
\* k = -1 when the log holds fewer answers than the rule needs.  An answer fits iff
\* notes + n * fee <= balance, in exact arithmetic (a count whose fees exceed every u64 never fits).
RECURSIVE ReconcileD(_, _, _, _, _, _, _)
ReconcileD(ps, k, i, answers, total, fee, assumedZero) ==
    IF k = 0 THEN [k |-> 0, n |-> Zero, used |-> i - 1, honest |-> TRUE]
    ELSE IF i > Len(answers) THEN [k |-> -1, n |-> Zero, used |-> i - 1, honest |-> FALSE]
    ELSE LET a == answers[i]
             h == a # NoAnswer /\ Eq(a, FromInt(IF assumedZero THEN 0 ELSE Txs(k)))
         IN  IF a # NoAnswer /\ Leq(Add(NotesSumD(ps, k), Mul(fee, a)), total)
             THEN [k |-> k, n |-> Norm(a), used |-> i, honest |-> h]
             ELSE LET r == ReconcileD(ps, k - 1, i + 1, answers, total, fee, assumedZero)
                  IN  [r EXCEPT !.honest = FALSE]

SeqEq(x, y) == Len(x) = Len(y) /\ \A i \in 1..Len(x) : Eq(x[i], y[i])

-------------------------------------------------------------------------------------------
\* plan lines

PlanAllowed(r) ==
    LET total  == Norm(r.total)
        buffer == Norm(r.buffer)
        fee    == Norm(r.fee)
        maxD   == Norm(r.maxDenom)
        minD   == Pow10(r.minExp)
        D      == DenomSeq(r.minExp, maxD)
        single == (r.nc = 1)
        split  == CanonSplitD(D, total, single, fee, buffer, r.cap)
        exact  == SingleExactD(D, total, single, buffer, r.cap)
        ps     == PrefixSums(split, buffer)
        want   == [j \in 1..Len(split) |-> Add(split[j], buffer)]       \* the prepared notes of the split
        rc     == ReconcileD(ps, Len(split), 1, r.answers, total, fee, exact)
        notes  == NotesSumD(ps, rc.k)
        fees   == Mul(fee, rc.n)
        change == Sub(total, Add(notes, fees))
    IN  /\ r.outcome = "ok"
        \* the oracle was consulted exactly as the rule says, each time about a prefix of the split
        /\ rc.k >= 0 /\ rc.used = Len(r.answers)
        /\ r.qPrefixOk
        /\ r.qlens = [j \in 1..Len(r.answers) |-> Len(split) - j + 1]
        /\ (Len(r.answers) > 0 => SeqEq(r.q0, want))
        \* the plan is exactly the prefix the rule determines
        /\ SeqEq(r.crossings, SubSeq(split, 1, rc.k))
        /\ SeqEq(r.outputs, SubSeq(want, 1, rc.k))
        /\ Eq(r.prepFees, fees)
        /\ Leq(Add(notes, fees), total)
        /\ Eq(r.change, change) /\ (r.changeNone <=> IsZero(change))
        /\ Eq(r.totalInput, total) /\ Eq(r.bufferOut, buffer)
        /\ Eq(r.migratable, Sum(SubSeq(split, 1, rc.k)))
        \* the theorems, re-checked on the implementation's own data
        /\ \A j \in 1..Len(r.crossings) :
              Is125(r.crossings[j]) /\ Leq(minD, r.crossings[j]) /\ Leq(r.crossings[j], maxD)
        /\ \A j \in 1..(Len(r.crossings) - 1) : Leq(r.crossings[j + 1], r.crossings[j])
        /\ Len(r.crossings) <= r.cap
        /\ Eq(Add(Add(Sum(r.outputs), r.prepFees), r.change), r.totalInput)
        /\ Eq(r.migratable, Sum(r.crossings))
        /\ ((rc.honest /\ Len(r.crossings) < r.cap) => Lt(r.change, Add(Add(minD, buffer), fee)))
        \* independence of the generator and of the note count beyond `== 1`; persistence inverse
        /\ r.rngSame /\ r.ncSame /\ r.storedSame

-------------------------------------------------------------------------------------------
\* from_stored_parts lines: Ok (verbatim) iff every crossing + buffer is a valid amount, else Overflow

StoredAllowed(r) ==
    LET fitsAll == \A j \in 1..Len(r.crossings) : Leq(Add(r.crossings[j], r.buffer), MaxMoney)
    IN  IF fitsAll
        THEN /\ r.result = "ok" /\ ~r.outputsPanic
             /\ SeqEq(r.gCrossings, r.crossings)
             /\ SeqEq(r.gOutputs, [j \in 1..Len(r.crossings) |-> Add(r.crossings[j], r.buffer)])
             /\ Eq(r.gBuffer, r.buffer)
             /\ (r.gChangeNone <=> r.changeNone) /\ Eq(r.gChange, r.change)
             /\ Eq(r.gPrepFees, r.prepFees) /\ Eq(r.gTotalInput, r.totalInput)
             /\ Eq(r.gMigratable, r.migratable)
        ELSE r.result = "overflow"

-------------------------------------------------------------------------------------------
\* largest_one_two_five(hi, 10^floorExp) and is_canonical_denomination(v)

Lead(d) == d[Len(d)]
NextDenom(d) == IF Lead(d) = 1 THEN [d EXCEPT ![Len(d)] = 2]
                ELSE IF Lead(d) = 2 THEN [d EXCEPT ![Len(d)] = 5]
                ELSE Shift(<< 1 >>, Len(d))

L125Allowed(r) ==
    LET hi == Norm(r.hi)  floor == Pow10(r.floorExp)  out == Norm(r.out)
    IN  /\ r.outcome = "ok"
        /\ IF Lt(hi, floor) THEN IsZero(out)
           ELSE /\ Is125(out) /\ Leq(floor, out) /\ Leq(out, hi)
                /\ Lt(hi, NextDenom(out))

CanonAllowed(r) ==
    /\ r.outcome = "ok"
    /\ r.out <=> (Is125(r.v) /\ Leq(Pow10(6), r.v) /\ Leq(r.v, Pow10(12)))

-------------------------------------------------------------------------------------------
Allowed(r) == CASE r.a = "plan"   -> PlanAllowed(r)
                [] r.a = "stored" -> StoredAllowed(r)
                [] r.a = "l125"   -> L125Allowed(r)
                [] r.a = "canon"  -> CanonAllowed(r)
                [] OTHER -> FALSE
===========================================================================================
