---------------------------------- MODULE WalletStore ----------------------------------
(* C18 -- the pool-migration store INSIDE a wallet database: the persisted migrations of the      *)
(* wallet's accounts, the note reservations (advisory locks) their never-broadcast transactions   *)
(* hold on received-note rows, and the chain the wallet has scanned -- as far as the store's       *)
(* public surface (PoolMigrations: get/latest/list/get_by_id, replace_migration,                  *)
(* update_transaction, store_proved_transaction, take_transaction_for_broadcast, cancel_migration,*)
(* mined_height, check_step_satisfiability, migration_lock_owners) and the wallet's rewinds show  *)
(* it.  Written from the property text and the rustdoc of zcash_client_sqlite::pool_migration     *)
(* (store.rs, orchard_ironwood.rs) and of MigrationState::truncate_to_height.                     *)
(*                                                                                                *)
(* A migration record:  [rid, status, pct, fr, tx]   rid: the record's identity (a record keeps   *)
(*                      it for life: the pending record is rewritten in place); fr: a digest of   *)
(*                      the parts no event changes (denominations, preparation plan, grid);       *)
(* a transaction row:   [id, kind, deps, st, mh, sched, expiry, bnd, uh, uk, rep, lock, u, pz,    *)
(*                       pd, nfs]   st in A/S/P/B/M, mh the mined height (NoH unless st = M),     *)
(*                      uh/uk the unsatisfiability mark, rep the broadcast-failure report, lock   *)
(*                      the lock-owner token (0: none), u the transaction id, pz the anchor the   *)
(*                      stored PCZT carries (an abstract root id; -1: none installed), pd a       *)
(*                      digest of the stored PCZT, nfs the cached spend nullifiers as the notes   *)
(*                      they belong to (0: nobody's).                                             *)
(* Heights are relative to the block before the wallet's birthday (block 1 is the first one).     *)
EXTENDS Integers, Sequences, FiniteSets

CONSTANTS Accounts

NoH == 0 - 1
Terminal       == {"complete", "failed", "superseded", "cancelled"}
PolicyTerminal == {"failed", "superseded", "cancelled"}   \* decisions, not chain state
NeverBroadcast == {"A", "S", "P"}

VARIABLES tbl,      \* account -> the records of its migrations, oldest first (the store's table)
          nextRid,  \* the identity the next appended record gets
          held,     \* {<<note, token>>}: reservations standing on the wallet's received-note rows
          chain,    \* the harness chain: height -> [txs: transaction ids mined there, spends: notes spent,
                    \*                               outs: {<<note, account>>} received, root: Orchard root id]
          scanned,  \* heights in the wallet's block table
          sq,       \* heights the scan queue holds as Scanned (a rewind_to_chain_state re-queues blocks it keeps)
          seen,     \* {<<note, account>>}: notes the wallet has ever received (never deleted)
          known,    \* transaction ids the wallet keeps a row for without having seen them mined (broadcast seam)
          ev        \* the last event (history variable: the laws below are stated over it)
vars == << tbl, nextRid, held, chain, scanned, sq, seen, known, ev >>

SetMax(S) == CHOOSE x \in S : \A y \in S : y <= x
Range(s)  == {s[i] : i \in DOMAIN s}

----------------------------------------------------------------------------------------------
\* the wallet's chain view: ground truth of the oracle

\* fully scanned: every block from the birthday up to it is Scanned
Fs == IF 1 \notin sq THEN 0 ELSE SetMax({h \in sq : \A x \in 1..h : x \in sq})

\* OracleLaw (mined_height): the height at which the chain mined the transaction, iff that block is
\* on the current chain, in the wallet's block table, and inside the fully scanned region
MinedAtSet(u) == {h \in 1..Len(chain) : u \in chain[h].txs /\ h \in scanned /\ h <= Fs}
MinedAt(u)    == IF MinedAtSet(u) = {} THEN NoH ELSE SetMax(MinedAtSet(u))

\* the wallet has seen the note spent in a transaction mined inside the fully scanned region
SpentAsOf(n) == \E h \in 1..Len(chain) : h \in scanned /\ h <= Fs /\ n \in chain[h].spends
Obs(a, n) == IF n = 0 \/ << n, a >> \notin seen THEN "unknown"
             ELSE IF SpentAsOf(n) THEN "spent" ELSE "unspent"
RowExpired(r) == r.st # "M" /\ r.expiry # 0 /\ r.expiry <= Fs    \* judged at the next block, as_of + 1
\* answer precedence: spent inputs > expired > not yet > satisfiable
Classified(a, r) ==
    IF \E i \in DOMAIN r.nfs : Obs(a, r.nfs[i]) = "spent" THEN "spent"
    ELSE IF RowExpired(r) THEN "expired"
    ELSE IF \E i \in DOMAIN r.nfs : Obs(a, r.nfs[i]) = "unknown" THEN "notyet"
    ELSE "sat"
\* the anchor judgment may conclude only for a broadcast, unmined transfer whose boundary lies `settle`
\* blocks inside the fully scanned region and whose installed anchor is the Orchard root of NO block of
\* the scanned chain (an exhaustive negative); it may always decline
RootsSeen == {chain[h].root : h \in {x \in 1..Len(chain) : x \in scanned /\ x <= Fs}} \cup {0}   \* 0: the empty tree
AnchorMayConclude(a, r, settle) ==
    /\ r.st = "B" /\ r.bnd # NoH /\ r.bnd <= Fs /\ Fs - r.bnd >= settle
    /\ Classified(a, r) \in {"sat", "notyet"}
    /\ r.pz \notin RootsSeen
\* OracleLaw (check_step_satisfiability): [k: the answer's class, asof: the height it rests on]
SatAnswerOK(a, r, settle, ans) ==
    IF r.nfs = << >> /\ r.st # "M" THEN ans.k = "corrupt"          \* an empty cache on an unmined row is corruption
    ELSE IF Fs = 0 THEN ans.k = "nochain"                             \* no view to answer from
    ELSE /\ ans.asof = Fs
         /\ \/ ans.k = Classified(a, r)
            \/ ans.k = "anchor" /\ AnchorMayConclude(a, r, settle)

----------------------------------------------------------------------------------------------
\* the table

PendingIdx(a) == {k \in 1..Len(tbl[a]) : tbl[a][k].status \notin Terminal}
HasPending(a) == PendingIdx(a) # {}
PendingK(a)   == CHOOSE k \in PendingIdx(a) : TRUE
RowIdx(rec, id) == {i \in 1..Len(rec.tx) : rec.tx[i].id = id}

\* the tokens under which a record's never-broadcast transactions reserved their notes
OwnersOf(rec) == {rec.tx[i].lock : i \in {j \in 1..Len(rec.tx) : rec.tx[j].st \in NeverBroadcast /\ rec.tx[j].lock # 0}}
Release(H, owners) == {p \in H : p[2] \notin owners}

\* a rollback to height h as one record sees it: exactly the chain-derived determinations above h go
TruncRow(t, h) ==
    LET t1 == IF t.uh # NoH /\ t.uh > h THEN [t EXCEPT !.uh = NoH, !.uk = "none"] ELSE t
        t2 == IF t1.rep # NoH /\ t1.rep > h THEN [t1 EXCEPT !.rep = NoH] ELSE t1
    IN  IF t2.st = "M" /\ t2.mh > h THEN [t2 EXCEPT !.st = "B", !.mh = NoH] ELSE t2
TruncRec(rec, h) ==
    LET r1 == [rec EXCEPT !.tx = [i \in 1..Len(rec.tx) |-> TruncRow(rec.tx[i], h)]]
    IN  IF r1.status = "complete" /\ \E i \in 1..Len(r1.tx) : r1.tx[i].st # "M"
        THEN [r1 EXCEPT !.status = "in_progress"] ELSE r1
\* the cascade walks the records whose determinations chain state can still revise: the pending ones
\* and the Complete ones; policy-terminal records stay put
Cascade(T, h) == [a \in Accounts |-> [k \in 1..Len(T[a]) |->
                    IF T[a][k].status \in PolicyTerminal THEN T[a][k] ELSE TruncRec(T[a][k], h)]]
\* the documented sharp edge: un-completing a record of an account that already has another live
\* record violates "at most one non-terminal migration per account" -- the whole rewind is refused
Conflict(T) == \E a \in Accounts : Cardinality({k \in 1..Len(T[a]) : T[a][k].status \notin Terminal}) > 1

----------------------------------------------------------------------------------------------
\* events

Init == /\ tbl = [a \in Accounts |-> << >>] /\ nextRid = 1 /\ held = {}
        /\ chain = << >> /\ scanned = {} /\ sq = {} /\ seen = {} /\ known = {}
        /\ ev = [op |-> "init"]

WalletSame == UNCHANGED << chain, scanned, sq, seen >>
StoreSame  == UNCHANGED << tbl, nextRid >>

\* replace_migration: the account's pending record is rewritten in place (keeping its identity), else a
\* new record is appended; a state persisted as terminal releases the reservations of its
\* never-broadcast transactions in the same write
PersistEffectTo(a, rec, H) ==
    /\ IF HasPending(a)
       THEN /\ tbl' = [tbl EXCEPT ![a][PendingK(a)] = [rec EXCEPT !.rid = tbl[a][PendingK(a)].rid]]
            /\ nextRid' = nextRid
       ELSE /\ tbl' = [tbl EXCEPT ![a] = Append(@, [rec EXCEPT !.rid = nextRid])]
            /\ nextRid' = nextRid + 1
    /\ held' = H
PersistEffect(a, rec) == PersistEffectTo(a, rec, IF rec.status \in Terminal THEN Release(held, OwnersOf(rec)) ELSE held)

Persist(a, rec) ==
    /\ PersistEffect(a, rec)
    /\ WalletSame /\ UNCHANGED known
    /\ ev' = [op |-> "persist", a |-> a, res |-> "ok"]

\* update_transaction: one row's life-cycle state (and mined height) of the PENDING record, nothing else
\* -- not the status, not the transaction id the row was built with
UpdateTx(a, id, st, mh, res) ==
    /\ IF HasPending(a) /\ RowIdx(tbl[a][PendingK(a)], id) # {}
       THEN /\ res = "ok"
            /\ LET k == PendingK(a)  i == CHOOSE i \in RowIdx(tbl[a][k], id) : TRUE
               IN  tbl' = [tbl EXCEPT ![a][k].tx[i].st = st, ![a][k].tx[i].mh = IF st = "M" THEN mh ELSE NoH]
       ELSE res = "err" /\ UNCHANGED tbl
    /\ UNCHANGED << nextRid, held, known >> /\ WalletSame
    /\ ev' = [op |-> "update_tx", a |-> a, res |-> res]

\* store_proved_transaction(state, proof): the proof is applied to the caller's state (the row becomes
\* Proved, its stored PCZT the proven one, its lock owner the proof's) and that state is persisted
ProveRec(rec, id, pz, pd, lock) ==
    [rec EXCEPT !.tx = [i \in 1..Len(rec.tx) |-> IF rec.tx[i].id = id
                                                 THEN [rec.tx[i] EXCEPT !.st = "P", !.pz = pz, !.pd = pd, !.lock = lock]
                                                 ELSE rec.tx[i]]]
StoreProved(a, rec, id, pz, pd, lock) ==
    /\ PersistEffect(a, ProveRec(rec, id, pz, pd, lock))
    /\ WalletSame /\ UNCHANGED known
    /\ ev' = [op |-> "store_proved", a |-> a, res |-> "ok"]

\* take_transaction_for_broadcast(state, id): only a Proved row of the caller's state ("unknown" / "notproved"
\* otherwise), and only bytes that extract into a transaction ("finalize" otherwise) -- a refusal writes
\* nothing.  On success the state is persisted and, in the same write, the wallet records the transaction
\* (its id may be asked after from now on) and hard-spends the notes it really spends (`spent`), which
\* discharges their advisory reservations
TakeForBroadcast(a, rec, id, spent, res) ==
    LET I == RowIdx(rec, id)
        t == rec.tx[CHOOSE i \in I : TRUE]
    IN  /\ IF I = {} THEN res = "unknown"
           ELSE IF t.st # "P" THEN res = "notproved"
           ELSE res \in {"ok", "finalize"}
        /\ IF res = "ok"
           THEN /\ PersistEffectTo(a, rec, {p \in (IF rec.status \in Terminal THEN Release(held, OwnersOf(rec)) ELSE held) : p[1] \notin spent})
                /\ known' = known \cup {t.u}
           ELSE UNCHANGED << tbl, nextRid, held, known >>
        /\ WalletSame
        /\ ev' = [op |-> "take", a |-> a, res |-> res]

\* cancel_migration: the pending record's never-broadcast reservations are released and it becomes
\* Cancelled; with no pending record only the release half runs, on the latest record, whose status is
\* left as recorded; the outcome classifies the rows by their life-cycle column
IdsWhere(rec, S) == LET sel == SelectSeq(rec.tx, LAMBDA t : t.st \in S) IN [i \in 1..Len(sel) |-> sel[i].id]
OutcomeOf(rec) == [inflight |-> IdsWhere(rec, {"B"}), mined |-> IdsWhere(rec, {"M"}), released |-> IdsWhere(rec, NeverBroadcast)]
NoOutcome == [inflight |-> << >>, mined |-> << >>, released |-> << >>]
Cancel(a, out) ==
    /\ IF HasPending(a)
       THEN /\ tbl' = [tbl EXCEPT ![a][PendingK(a)].status = "cancelled"]
            /\ held' = Release(held, OwnersOf(tbl[a][PendingK(a)]))
            /\ out = OutcomeOf(tbl[a][PendingK(a)])
       ELSE IF tbl[a] # << >>
       THEN /\ UNCHANGED tbl
            /\ held' = Release(held, OwnersOf(tbl[a][Len(tbl[a])]))
            /\ out = OutcomeOf(tbl[a][Len(tbl[a])])
       ELSE UNCHANGED << tbl, held >> /\ out = NoOutcome
    /\ UNCHANGED << nextRid, known >> /\ WalletSame
    /\ ev' = [op |-> "cancel", a |-> a, res |-> "ok"]

\* a new block of the harness chain
Block(b) ==
    /\ \A u \in b.txs : \A h \in 1..Len(chain) : u \notin chain[h].txs      \* a transaction is mined once per chain
    /\ chain' = Append(chain, b)
    /\ UNCHANGED << tbl, nextRid, held, scanned, sq, seen, known >>
    /\ ev' = [op |-> "block"]

\* the wallet scans blocks from..to of the chain: nothing in the store moves -- only the oracle's answers
Scan(from, to) ==
    /\ 1 <= from /\ from <= to /\ to <= Len(chain)
    /\ scanned' = scanned \cup (from..to) /\ sq' = sq \cup (from..to)
    /\ seen' = seen \cup UNION {chain[h].outs : h \in from..to}
    /\ UNCHANGED << tbl, nextRid, held, chain, known >>
    /\ ev' = [op |-> "scan"]

\* the environment of the store: another flow (the prover) reserves notes under a token
Lock(notes, token) ==
    /\ \A n \in notes : \A p \in held : p[1] = n => p[2] = token
    /\ held' = held \cup {<< n, token >> : n \in notes}
    /\ StoreSame /\ WalletSame /\ UNCHANGED known
    /\ ev' = [op |-> "lock"]

\* a wallet rewind that settled on height `to` (truncate_to_height reports it; truncate_to_chain_state
\* settles on the requested height; rewind_to_chain_state keeps the blocks up to the checkpoint it found
\* at or above the target `tgt` and re-queues everything above the target).  cut: the height above which
\* the harness replaces the chain afterwards (Len(chain): no fork).  The cascade runs at `to`, inside the
\* same database transaction: refused as a whole when it would leave an account with two live records.
Rewind(tgt, to, cut, res) ==
    /\ tgt <= to /\ cut >= to /\ cut <= Len(chain)
    /\ IF Conflict(Cascade(tbl, to))
       THEN /\ res = "err" /\ UNCHANGED << tbl, scanned, sq, chain >>
       ELSE /\ res = "ok"
            /\ tbl' = Cascade(tbl, to)
            /\ scanned' = {h \in scanned : h <= to} /\ sq' = {h \in sq : h <= tgt}
            /\ chain' = SubSeq(chain, 1, cut)
    /\ UNCHANGED << nextRid, held, seen, known >>
    /\ ev' = [op |-> "rewind", to |-> to, res |-> res]
\* a rewind the wallet refuses for reasons of its own (no height it can truncate to), or one that has
\* nothing to truncate: nothing moves
RewindNoop ==
    /\ UNCHANGED << tbl, nextRid, held, chain, scanned, sq, seen, known >>
    /\ ev' = [op |-> "rewind_noop"]

----------------------------------------------------------------------------------------------
\* the laws (checked by TLC on the model; the conformance trace is held to the actions above and to
\* LoadEqualsSpec / the oracle laws record by record)

\* at most one non-terminal migration per account, across any sequence
OneNonTerminal == \A a \in Accounts : Cardinality(PendingIdx(a)) <= 1

RidsUnique == \A a, b \in Accounts : \A i \in 1..Len(tbl[a]), j \in 1..Len(tbl[b]) :
                 tbl[a][i].rid = tbl[b][j].rid => (a = b /\ i = j)

\* RollbackLaw: exactly the rows mined above the settled height go back to Broadcast (keeping their
\* id), marks and reports stamped above it go, a Complete status a demotion unsettles reverts to
\* InProgress, and NOTHING else changes -- no other status, no policy-terminal record, no record
\* appears or disappears
RollbackLaw ==
    [][(ev'.op = "rewind" /\ ev'.res = "ok") =>
        \A a \in Accounts :
          /\ Len(tbl'[a]) = Len(tbl[a])
          /\ \A k \in 1..Len(tbl[a]) :
               LET r == tbl[a][k]  r2 == tbl'[a][k]
                   dem == {i \in 1..Len(r.tx) : r.tx[i].st = "M" /\ r.tx[i].mh > ev'.to}
               IN  IF r.status \in PolicyTerminal THEN r2 = r
                   ELSE /\ r2.rid = r.rid /\ r2.pct = r.pct /\ r2.fr = r.fr /\ Len(r2.tx) = Len(r.tx)
                        /\ r2.status = IF r.status = "complete" /\ dem # {} THEN "in_progress" ELSE r.status
                        /\ \A i \in 1..Len(r.tx) :
                             LET t == r.tx[i]  t2 == r2.tx[i]
                             IN  /\ t2.st = (IF i \in dem THEN "B" ELSE t.st)
                                 /\ t2.mh = (IF i \in dem THEN NoH ELSE t.mh)
                                 /\ t2.uh = (IF t.uh > ev'.to THEN NoH ELSE t.uh)
                                 /\ t2.uk = (IF t.uh > ev'.to THEN "none" ELSE t.uk)
                                 /\ t2.rep = (IF t.rep > ev'.to THEN NoH ELSE t.rep)
                                 /\ [t2 EXCEPT !.st = "x", !.mh = 0, !.uh = 0, !.uk = "x", !.rep = 0]
                                      = [t EXCEPT !.st = "x", !.mh = 0, !.uh = 0, !.uk = "x", !.rep = 0]]_vars

\* a refused rewind leaves everything as it was
RefusedRewindLaw == [][(ev'.op = "rewind" /\ ev'.res = "err") => UNCHANGED << tbl, held, scanned, sq, chain >>]_vars

\* terminal statuses are never left, except Complete by a rollback; history is never dropped or
\* rewritten (a policy-terminal record is immutable)
HistoryLaw ==
    [][ev'.op # "init" => \A a \in Accounts :           \* ("init": the conformance trace starts a new wallet)
         /\ Len(tbl'[a]) >= Len(tbl[a])
         /\ \A k \in 1..Len(tbl[a]) :
              /\ tbl[a][k].status \in PolicyTerminal => tbl'[a][k] = tbl[a][k]
              /\ tbl[a][k].status = "complete" =>
                   \/ tbl'[a][k] = tbl[a][k]
                   \/ ev'.op = "rewind" /\ tbl'[a][k].status \in {"complete", "in_progress"}
              /\ tbl'[a][k].rid = tbl[a][k].rid]_vars

\* ReservationsLaw: reservations are released exactly by a terminal persist / a cancel (those of the
\* never-broadcast rows of the record concerned, nobody else's) or by the broadcast seam hard-spending
\* the inputs; scans, rewinds and row updates leave them alone ...
ReleaseLaw ==
    [][(held' # held /\ ev'.op # "init") =>
         \/ ev'.op = "lock" /\ held \subseteq held'
         \/ ev'.op \in {"persist", "store_proved", "cancel", "take"} /\ held' \subseteq held]_vars
\* ... and no record that left service through the store keeps one: a terminal record's never-broadcast
\* rows hold no reservation (the driver never re-locks under a retired token)
ReservationsLaw ==
    \A a \in Accounts : \A k \in 1..Len(tbl[a]) :
        tbl[a][k].status \in Terminal => \A p \in held : p[2] \notin OwnersOf(tbl[a][k])

\* scanning never touches the store
ScanLaw == [][ev'.op \in {"scan", "block", "lock"} => UNCHANGED << tbl, nextRid >>]_vars

\* what a rewind leaves standing is backed by the chain the wallet still holds -- for migrations whose
\* rows were marked mined from the oracle's own answers (MC: Backed mode)
MinedBacked ==
    \A a \in Accounts : \A k \in 1..Len(tbl[a]) :
        tbl[a][k].status \notin PolicyTerminal =>
            \A i \in 1..Len(tbl[a][k].tx) :
                tbl[a][k].tx[i].st = "M" =>
                    /\ tbl[a][k].tx[i].mh \in scanned /\ tbl[a][k].tx[i].mh <= Len(chain)
                    /\ tbl[a][k].tx[i].u \in chain[tbl[a][k].tx[i].mh].txs
=========================================================================================
