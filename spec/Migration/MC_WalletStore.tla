-------------------------------- MODULE MC_WalletStore --------------------------------
(* C18 -- TLC explores the wallet-level store model in the small: two accounts, migrations of one *)
(* and two transactions, a chain of at most MaxH blocks, every order of store events (persist of   *)
(* every life-cycle move, update_transaction, store_proved_transaction, the broadcast seam,        *)
(* cancel, policy-terminal persists, fresh migrations), scans, rewinds (with and without a         *)
(* different continuation, settling at or above the target) and reservations.  Rows are marked     *)
(* mined only from the oracle's own answer (MinedAt), which is what lets MinedBacked be stated.    *)
EXTENDS WalletStore, TLC

CONSTANTS MaxH, MaxRecs, Tokens,
          TwoRows   \* account 1 commits two transactions (a preparation and a transfer depending on it)

Row(id, deps, u, n) ==
    [id |-> id, kind |-> IF deps = << >> THEN "prep" ELSE "xfer", deps |-> deps, st |-> "S", mh |-> NoH, sched |-> 1,
     expiry |-> 0, bnd |-> NoH, uh |-> NoH, uk |-> "none", rep |-> NoH, lock |-> 0, u |-> u, pz |-> 1, pd |-> "s", nfs |-> << n >>]
\* account 1 commits a preparation and a transfer depending on it, account 2 a single transaction
FreshRec(a) == [rid |-> 0, status |-> "committed", pct |-> 20, fr |-> "x",
                tx |-> IF a = 1 /\ TwoRows THEN << Row(0, << >>, 1, 1), Row(1, << 0 >>, 2, 2) >> ELSE << Row(0, << >>, 2 + a, 2 + a) >>]
Uids == {1, 2} \cup {2 + a : a \in Accounts}

Recompute(rec) ==
    IF rec.status \in Terminal THEN rec
    ELSE IF \A i \in 1..Len(rec.tx) : rec.tx[i].st = "M" THEN [rec EXCEPT !.status = "complete"]
    ELSE IF \E i \in 1..Len(rec.tx) : rec.tx[i].st \in {"B", "M"} THEN [rec EXCEPT !.status = "in_progress"]
    ELSE rec

Pend(a) == tbl[a][PendingK(a)]

\* the life-cycle moves a consumer persists (under the mutators' documented contract)
Moves(a) ==
    LET rec == Pend(a)
    IN  {Recompute([rec EXCEPT !.tx[i].st = "B"]) : i \in {j \in 1..Len(rec.tx) : rec.tx[j].st = "P"}}
        \cup {Recompute([rec EXCEPT !.tx[i].st = "M", !.tx[i].mh = MinedAt(rec.tx[i].u)]) :
                i \in {j \in 1..Len(rec.tx) : rec.tx[j].st = "B" /\ MinedAt(rec.tx[j].u) # NoH}}
        \cup {[rec EXCEPT !.status = s] : s \in {"superseded", "failed"}}

DoFresh   == \E a \in Accounts : ~HasPending(a) /\ Len(tbl[a]) < MaxRecs /\ Persist(a, FreshRec(a))
DoMove    == \E a \in Accounts : HasPending(a) /\ \E rec \in Moves(a) : Persist(a, rec)
DoUpdate  == \E a \in Accounts : HasPending(a) /\ \E i \in 1..Len(Pend(a).tx) :
                /\ Pend(a).tx[i].st = "B" /\ MinedAt(Pend(a).tx[i].u) # NoH
                /\ UpdateTx(a, Pend(a).tx[i].id, "M", MinedAt(Pend(a).tx[i].u), "ok")
DoUpdateErr == \E a \in Accounts : UpdateTx(a, 7, "B", NoH, "err")
DoProve   == \E a \in Accounts : HasPending(a) /\ \E i \in 1..Len(Pend(a).tx), t \in Tokens \cup {0} :
                /\ Pend(a).tx[i].st = "S"
                /\ t # 0 => \A b \in Accounts : \A k \in 1..Len(tbl[b]) : \A j \in 1..Len(tbl[b][k].tx) : tbl[b][k].tx[j].lock # t   \* a fresh token
                /\ StoreProved(a, Pend(a), Pend(a).tx[i].id, 2, "p", t)
DoTake    == \E a \in Accounts : HasPending(a) /\ \E i \in 1..Len(Pend(a).tx) :
                TakeForBroadcast(a, Pend(a), Pend(a).tx[i].id, Range(Pend(a).tx[i].nfs), IF Pend(a).tx[i].st = "P" THEN "ok" ELSE "notproved")
DoCancel  == \E a \in Accounts :
                \E out \in {IF HasPending(a) THEN OutcomeOf(Pend(a)) ELSE IF tbl[a] # << >> THEN OutcomeOf(tbl[a][Len(tbl[a])]) ELSE NoOutcome} : Cancel(a, out)
\* the prover's reservation: taken for a row that was just proved under that token
DoLock    == \E a \in Accounts : HasPending(a) /\ \E i \in 1..Len(Pend(a).tx) :
                /\ Pend(a).tx[i].st = "P" /\ Pend(a).tx[i].lock # 0
                /\ Lock(Range(Pend(a).tx[i].nfs), Pend(a).tx[i].lock)
DoBlock   == /\ Len(chain) < MaxH
             /\ \E U \in {S \in SUBSET Uids : Cardinality(S) <= 1} :
                   /\ \A u \in U : \E a \in Accounts : \E k \in 1..Len(tbl[a]) : \E i \in 1..Len(tbl[a][k].tx) :
                                      tbl[a][k].tx[i].u = u /\ tbl[a][k].tx[i].st \in {"B", "M"}       \* only what was broadcast is mined
                   /\ Block([txs |-> U, spends |-> {}, outs |-> {}, root |-> Len(chain) + 1])
\* the next blocks in order, or the top block ahead of a gap
DoScan    == \E to \in 1..Len(chain) : LET from == IF scanned = {} THEN 1 ELSE SetMax(scanned) + 1
                                        IN  (from <= to /\ Scan(from, to)) \/ (from < to /\ to = Len(chain) /\ Scan(to, to))
RewindArgs(to, d, cut) == /\ scanned # {} /\ to <= SetMax(scanned) /\ (d = 1 => to \in scanned /\ to >= 1) /\ cut \in {to, Len(chain)}
DoRewind  == \E to \in 0..MaxH, d \in {0, 1}, cut \in 0..MaxH :
                RewindArgs(to, d, cut) /\ ~Conflict(Cascade(tbl, to)) /\ Rewind(to - d, to, cut, "ok")
DoRewindRefused == \E to \in 0..MaxH, d \in {0, 1}, cut \in 0..MaxH :
                RewindArgs(to, d, cut) /\ Conflict(Cascade(tbl, to)) /\ Rewind(to - d, to, cut, "err")

Next == DoFresh \/ DoMove \/ DoUpdate \/ DoUpdateErr \/ DoProve \/ DoTake \/ DoCancel \/ DoLock \/ DoBlock \/ DoScan
        \/ DoRewind \/ DoRewindRefused
Spec == Init /\ [][Next]_vars

View == << tbl, nextRid, held, chain, scanned, sq, seen, known >>    \* the history variable is not part of the state's identity
=========================================================================================
