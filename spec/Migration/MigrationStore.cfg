SPECIFICATION Spec
CONSTANTS
  Accounts = {1, 2}
  Bodies = {1, 2}
  MaxRows = 3
INVARIANTS OnePending GetReplace
PROPERTY History
CHECK_DEADLOCK FALSE
