---------------------------------- MODULE MC_Migration ----------------------------------
(* C18 -- the state machine TLC explores: a committed migration under every order of life-cycle   *)
(* events (the public mutators of MigrationState under their documented contract) and drive       *)
(* calls (Advance, with the store's answers chosen by the environment).                           *)
(*                                                                                                *)
(* Two modes, one next-state relation:                                                            *)
(*   SimMode = FALSE  breadth-first, every event from the finite sets below in every reachable    *)
(*                    state (exhaustive in the small);                                            *)
(*   SimMode = TRUE   `tlc -simulate`: the next event is drawn with RandomElement (seeded by      *)
(*                    -seed) from much larger sets, and a "reset" event re-draws the whole        *)
(*                    migration (any dependency DAG, any consistent combination of row states).   *)
(* In both modes every step is checked against the step clauses (bad' = the clauses it breaks,    *)
(* INVARIANT NoViolation) and, when Emit, printed as an EDGE for replay on the real code:         *)
(* [pre, ev, post, ret, obs] -- the harness builds `pre` with MigrationState::from_parts, applies *)
(* `ev` to the real object, and compares with `post`/`ret`/`obs`.                                 *)
EXTENDS AdvanceMigration, TLC, Json

CONSTANTS SimMode, Emit,
          EmitLevel,   \* breadth-first: only edges leaving states at most this deep are printed
          HSet,        \* heights events use (targets, mined heights, truncation heights, reported tips)
          FarEst,      \* an estimated target far enough ahead to make a due step overdue
          SchedSet, ExpirySet, BndSet, PctSet, TolSet, CvSet, InitSt, KindSet,
          AnsSet,      \* answers the oracle may give in breadth-first mode
          EstKs,       \* breadth-first: which estimates are tried (1: = scanned, 2: scanned + 1, 3: FarEst)
          MinedSets,   \* breadth-first: "all" = every subset of rows may be reported mined, "some" = none or all
          ResetEvery   \* SimMode: one event in ResetEvery is a reset

VARIABLES ms, env, bad
vars == << ms, env, bad >>

HMin == SetMin(HSet)
HMax == CHOOSE x \in HSet : \A y \in HSet : y <= x

----------------------------------------------------------------------------------------------
\* Events.  One record shape for all (unused fields carry defaults) so that edges are uniform.

NoAns   == [i \in Tx |-> "sat"]
NoMined == [i \in Tx |-> NoH]
Ev(op, i, h) == [op |-> op, i |-> i, h |-> h, ts |-> HMin, est |-> HMin, asOf |-> HMin - 1,
                 ans |-> NoAns, mined |-> NoMined, sel |-> {}]
EvRecord(ts, est, asOf, ans, sel) == [Ev("record", 1, NoH) EXCEPT !.ts = ts, !.est = est, !.asOf = asOf, !.ans = ans, !.sel = sel]
EvAdvance(ts, est, asOf, ans, mined) == [Ev("advance", 1, NoH) EXCEPT !.ts = ts, !.est = est, !.asOf = asOf, !.ans = ans, !.mined = mined]

\* the mutators are driven under their documented contract: a broadcast is recorded for a Proved
\* row, mining for a Broadcast row, a proof is stored for a Signed row
MutatorEvents(s) ==
    {Ev("mark_broadcast", i, NoH) : i \in {j \in Tx : s.tx[j].st = "P"}}
    \cup {Ev("mark_mined", i, h) : i \in {j \in Tx : s.tx[j].st = "B"}, h \in HSet}
    \cup {Ev("prove", i, NoH) : i \in {j \in Tx : s.tx[j].st = "S"}}
    \cup {Ev("report", i, h) : i \in Tx, h \in HSet}
    \cup {Ev("sign", i, NoH) : i \in Tx}
    \cup {Ev("truncate", 1, h) : h \in HSet \cup {HMin - 1}}
    \cup {Ev("supersede", 1, NoH), Ev("cancel", 1, NoH), Ev("recompute", 1, NoH)}

BfsEvents(s) ==
    MutatorEvents(s)
    \cup {EvRecord(ts, ts, ts - 1, ans, Tx) : ts \in HSet, ans \in [Tx -> AnsSet \cap {"sat", "spent", "expired"}]}
    \cup {EvAdvance(ts, << ts, ts + 1, FarEst >>[ek], ts - 1, ans, [i \in Tx |-> IF i \in M THEN ts - 1 ELSE NoH]) :
            ts \in HSet, ek \in EstKs, ans \in [Tx -> AnsSet],
            M \in (IF MinedSets = "all" THEN SUBSET Tx ELSE {{}, Tx})}

----------------------------------------------------------------------------------------------
\* Applying an event.  Result: [ms, step, dirty, sa, ok]

Plain(s)      == [ms |-> s, step |-> Step("none", << >>), dirty |-> FALSE, sa |-> {}, ok |-> TRUE]

Apply(s, ev) ==
    CASE ev.op = "mark_broadcast" -> Plain(MarkBroadcastOp(s, ev.i))
      [] ev.op = "mark_mined"     -> Plain(MarkMinedOp(s, ev.i, ev.h))
      [] ev.op = "prove"          -> Plain(SetProvedOp(s, ev.i))
      [] ev.op = "report"         -> Plain(ReportFailureOp(s, ev.i, ev.h))
      [] ev.op = "sign"           -> [Plain(ApplySignatureOp(s, ev.i)) EXCEPT !.ok = ApplySignatureRet(s, ev.i)]
      [] ev.op = "truncate"       -> Plain(TruncateOp(s, ev.h))
      [] ev.op = "supersede"      -> Plain(MarkSupersededOp(s))
      [] ev.op = "cancel"         -> Plain(MarkCancelledOp(s))
      [] ev.op = "recompute"      -> Plain(RecomputeStatus(s))
      [] ev.op = "record"         -> Plain(RecordSatisfiabilityOp(s, ev.ts, Dets(ev, {i \in ev.sel : Marks(ev.ans[i])})))
      [] ev.op = "advance"        -> LET r == Advance(s, ev)
                                     IN  [ms |-> r.ms, step |-> r.step, dirty |-> r.dirty, sa |-> r.sa, ok |-> TRUE]
      [] ev.op = "reset"          -> Plain(ev.newms)

----------------------------------------------------------------------------------------------
\* The step clauses of the property (every event)

\* rows only move forward through the life cycle, except that a rollback un-mines exactly the rows
\* mined above the rollback height
Forward(s, ev, s2) ==
    \A i \in Tx :
      IF ev.op = "truncate" /\ s.tx[i].st = "M" /\ s.tx[i].mh > ev.h
      THEN s2.tx[i].st = "B"
      ELSE /\ Rank(s2.tx[i].st) >= Rank(s.tx[i].st)
           /\ s.tx[i].st = "M" => s2.tx[i].mh = s.tx[i].mh

\* policy terminal statuses are never left; Complete only by a rollback that un-mines a row
TerminalSticky(s, ev, s2) ==
    /\ s.status \in {"failed", "superseded", "cancelled"} => s2.status = s.status
    /\ s.status = "complete" =>
          \/ s2.status = "complete"
          \/ /\ ev.op = "truncate" /\ s2.status = "in_progress"
             /\ \E i \in Tx : s.tx[i].st = "M" /\ s.tx[i].mh > ev.h

\* a row that becomes (or stays) mined carries no mark and no report
MinedCleanStep(s, ev, s2) == MinedClean(s) => MinedClean(s2)

\* every new mark rests on an answer of this call (its asOf, its kind) or is inherited from a dead
\* direct dependency; a standing mark is never restamped; marks and reports disappear only by
\* mining, by a rollback below them, or (reports) by adjudication
MarksBacked(s, ev, s2) ==
    \A i \in Tx :
      LET a == s.tx[i]  b == s2.tx[i]
      IN  /\ (a.uh = NoH /\ b.uh # NoH) =>
                /\ ev.op \in {"record", "advance"} /\ b.st # "M"
                /\ IF b.uk = "inherited"
                   THEN \E d \in b.deps : /\ s2.tx[d].st # "M"
                                          /\ \/ (s2.tx[d].uh # NoH /\ b.uh = s2.tx[d].uh)
                                             \/ (Expired(s2.tx[d], ev.ts) /\ b.uh = s2.tx[d].expiry)
                   ELSE b.uh = ev.asOf /\ b.uk = ev.ans[i] /\ (ev.op = "record" => i \in ev.sel)
          /\ (a.uh # NoH /\ b.uh # NoH) => (b.uh = a.uh /\ b.uk = a.uk)
          /\ (a.uh # NoH /\ b.uh = NoH) => (b.st = "M" /\ a.st # "M") \/ (ev.op = "truncate" /\ a.uh > ev.h)
          /\ (ev.op = "truncate" /\ a.uh # NoH /\ a.uh > ev.h) => b.uh = NoH
          /\ (ev.op = "truncate" /\ a.rep # NoH) => (b.rep = NoH) = (a.rep > ev.h)
          /\ (a.rep = NoH /\ b.rep # NoH) => ev.op = "report" /\ ev.i = i /\ a.st = "P" /\ b.rep = ev.h
          /\ (a.rep # NoH /\ b.rep = NoH) => \/ (b.st = "M" /\ a.st # "M")
                                              \/ (ev.op = "truncate" /\ a.rep > ev.h)
                                              \/ (ev.op = "advance" /\ ev.asOf >= a.rep)

\* the static part of the plan never changes (schedules only by the overdue shift of a drive call)
FrameOK(s, ev, s2) ==
    /\ s2.pct = s.pct /\ s2.cv = s.cv /\ s2.tol = s.tol
    /\ \A i \in Tx : /\ s2.tx[i].kind = s.tx[i].kind /\ s2.tx[i].deps = s.tx[i].deps
                     /\ s2.tx[i].expiry = s.tx[i].expiry /\ s2.tx[i].bnd = s.tx[i].bnd
                     /\ (s2.tx[i].sched # s.tx[i].sched => ev.op = "advance" /\ s.tx[i].st \in {"A", "S", "P"}
                                                            /\ s2.tx[i].sched > s.tx[i].sched)

StepViolations(s, ev, r) ==
    IF ev.op = "reset" THEN {}
    ELSE {c \in {"Forward", "TerminalSticky", "MinedClean", "MarksBacked", "Frame"} :
            CASE c = "Forward"        -> ~Forward(s, ev, r.ms)
              [] c = "TerminalSticky" -> ~TerminalSticky(s, ev, r.ms)
              [] c = "MinedClean"     -> ~MinedCleanStep(s, ev, r.ms)
              [] c = "MarksBacked"    -> ~MarksBacked(s, ev, r.ms)
              [] c = "Frame"          -> ~FrameOK(s, ev, r.ms)}
         \cup (IF ev.op = "advance" THEN AdvanceViolations(s, ev, [ms |-> r.ms, step |-> r.step, dirty |-> r.dirty, sa |-> r.sa]) ELSE {})

----------------------------------------------------------------------------------------------
\* Edge emission.  Rows travel as tuples, sets as ascending sequences.

RowJ(t)  == << t.kind, AscSeq(t.deps), t.st, t.mh, t.sched, t.expiry, t.bnd, t.uh, t.uk, t.rep >>
StateJ(s) == [status |-> s.status, pct |-> s.pct, tol |-> s.tol, cv |-> [i \in Tx |-> s.cv[i]],
              tx |-> [i \in Tx |-> RowJ(s.tx[i])]]
EvJ(ev)  == [op |-> ev.op, i |-> ev.i, h |-> ev.h, ts |-> ev.ts, est |-> ev.est, asOf |-> ev.asOf,
             ans |-> [i \in Tx |-> ev.ans[i]], mined |-> [i \in Tx |-> ev.mined[i]], sel |-> AscSeq(ev.sel)]

\* the observers are compared at one target pair per edge: the event's own for events that carry
\* targets, otherwise a pair that varies with the state
ObsTs(s, ev) == IF ev.op \in {"advance", "record"} THEN ev.ts
                ELSE HMin + ((SumOver(Tx, [i \in Tx |-> s.tx[i].sched + s.tx[i].expiry + Rank(s.tx[i].st)])) % (HMax - HMin + 2))
ObsTe(s, ev) == IF ev.op \in {"advance", "record"} THEN Max2(ev.ts, ev.est)
                ELSE ObsTs(s, ev) + (SumOver(Tx, [i \in Tx |-> s.tx[i].sched + Rank(s.tx[i].st)]) % 3)
ObsJ(s, ts, te) == [ts |-> ts, te |-> te,
                    terminal |-> IsTerminal(s), replan |-> ReplanRequired(s),
                    expired |-> AscSeq(ExpiredSet(s, ts)),
                    dead |-> AscSeq(DeadSet(s, ts)),
                    status |-> [i \in Tx |-> TxStatus(s, i, ts, te)]]

EdgeJ(s, ev, r) == [pre |-> StateJ(s), ev |-> EvJ(ev), post |-> StateJ(r.ms),
                    ret |-> [step |-> r.step.k, ids |-> r.step.ids, dirty |-> r.dirty, sa |-> AscSeq(r.sa), ok |-> r.ok],
                    obs |-> ObsJ(r.ms, ObsTs(r.ms, ev), ObsTe(r.ms, ev))]

----------------------------------------------------------------------------------------------
\* Initial states: a freshly committed migration (breadth-first), any consistent one (reset)

MkRow(kind, deps, st, sched, expiry, bnd) ==
    [kind |-> kind, deps |-> deps, st |-> st, mh |-> NoH, sched |-> sched, expiry |-> expiry,
     bnd |-> IF kind = "xfer" THEN bnd ELSE NoH, uh |-> NoH, uk |-> "none", rep |-> NoH]

Committed ==
    {s \in [status : {"committed"}, pct : PctSet, tol : TolSet, cv : [Tx -> CvSet],
            tx : [Tx -> [kind : KindSet, deps : SUBSET Tx, st : InitSt, mh : {NoH}, sched : SchedSet,
                         expiry : ExpirySet, bnd : BndSet \cup {NoH}, uh : {NoH}, uk : {"none"}, rep : {NoH}]]] :
        \A i \in Tx : /\ s.tx[i].deps \subseteq 1..(i - 1)
                      /\ \A d \in s.tx[i].deps : s.tx[d].kind = "prep"      \* transfers are leaves
                      /\ (s.tx[i].kind = "xfer") = (s.tx[i].bnd # NoH)}

\* SimMode.  `env` holds RAW independent random draws (a value in the state); the event proper and
\* the reset state are deterministic functions of it (Canon / CanonState), computed when the step
\* is taken -- so nothing depends on how often TLC re-evaluates a RandomElement expression.
Pick(seq) == seq[RandomElement(1..Len(seq))]
RndSub(S) == {x \in S : RandomElement({TRUE, FALSE})}
StW  == << "A", "S", "S", "S", "P", "P", "P", "B", "B", "M", "M" >>
UkW  == << "none", "none", "none", "none", "spent", "inval", "anchor", "inherited" >>
AnsW == << "sat", "sat", "sat", "sat", "sat", "notyet", "notyet", "spent", "inval", "anchor", "expired" >>
Ops  == << "advance", "advance", "advance", "advance", "advance", "advance", "advance", "advance", "advance",
           "advance", "advance", "advance", "mark_broadcast", "mark_broadcast", "mark_broadcast", "mark_broadcast",
           "mark_mined", "mark_mined", "mark_mined", "prove", "prove", "prove", "prove", "report", "sign",
           "truncate", "record", "record", "recompute", "policy" >>
HAll == HSet \cup {HMin - 1}

\* (a parameter keeps TLC from evaluating the draw once as a constant definition)
RawDraw(salt) ==
    [opn |-> RandomElement(1..Len(Ops)), rst |-> RandomElement(1..ResetEvery),
     i |-> RandomElement(Tx), h |-> RandomElement(HAll), ts |-> RandomElement(HSet),
     estk |-> RandomElement(1..6), asok |-> RandomElement(1..5),
     ans |-> [i \in Tx |-> Pick(AnsW)], mnd |-> [i \in Tx |-> RandomElement(1..6)], sel |-> RndSub(Tx),
     \* raw material of a reset
     fresh |-> RandomElement(1..3), pol |-> RandomElement(1..12), pst |-> RandomElement({"failed", "superseded", "cancelled"}),
     pct |-> RandomElement(PctSet), tol |-> RandomElement(TolSet), cv |-> [i \in Tx |-> RandomElement(CvSet)],
     rows |-> [i \in Tx |-> [kind |-> RandomElement(KindSet), deps |-> {d \in 1..(i - 1) : RandomElement(1..3) = 1}, st |-> Pick(StW),
                             mh |-> RandomElement(HSet), sched |-> RandomElement(SchedSet),
                             expiry |-> RandomElement(ExpirySet), bnd |-> RandomElement(BndSet),
                             uk |-> Pick(UkW), uh |-> RandomElement(HAll),
                             repk |-> RandomElement(1..4), rep |-> RandomElement(HSet)]]]

\* any consistent migration state: rows normalised, the chain-derived status follows the rows
CanonState(raw) ==
    LET rows == [i \in Tx |->
                   LET w0 == raw.rows[i]
                       \* one reset in three is a freshly committed migration: every row pre-signed
                       \* (or awaiting its external signature), nothing marked, nothing reported
                       w  == IF raw.fresh = 1
                             THEN [w0 EXCEPT !.st = IF w0.repk = 1 /\ w0.uk # "none" THEN "A" ELSE "S", !.uk = "none", !.repk = 2]
                             ELSE w0
                       uk == IF w.st = "M" THEN "none" ELSE w.uk
                   IN  [kind |-> w.kind, deps |-> w.deps, st |-> w.st,
                        mh |-> IF w.st = "M" THEN w.mh ELSE NoH,
                        sched |-> w.sched, expiry |-> w.expiry,
                        bnd |-> IF w.kind = "xfer" THEN w.bnd ELSE NoH,
                        uh |-> IF uk = "none" THEN NoH ELSE w.uh, uk |-> uk,
                        rep |-> IF w.st \in {"P", "B"} /\ w.repk = 1 THEN w.rep ELSE NoH]]
        allM == \A i \in Tx : rows[i].st = "M"
        anyS == \E i \in Tx : rows[i].st \in {"B", "M"}
    IN  [status |-> IF raw.pol = 1 THEN raw.pst
                    ELSE IF allM THEN "complete" ELSE IF anyS THEN "in_progress" ELSE "committed",
         pct |-> raw.pct, tol |-> raw.tol, cv |-> raw.cv, tx |-> rows]

\* the event a raw draw stands for in state s (mutators only under their contract)
Nth(S, k) == AscSeq(S)[(k % Cardinality(S)) + 1]
Canon(s, raw) ==
    LET op  == Ops[raw.opn]
        ts  == raw.ts
        est == << ts - 1, ts, ts, ts + 1, ts + 2, FarEst >>[raw.estk]
        aso == << ts - 1, ts - 1, ts - 1, ts - 2, ts >>[raw.asok]
        mnd == [i \in Tx |-> IF raw.mnd[i] = 1 THEN aso ELSE IF raw.mnd[i] = 2 THEN aso - 1 ELSE NoH]
        P   == {j \in Tx : s.tx[j].st = "P"}
        B   == {j \in Tx : s.tx[j].st = "B"}
        S   == {j \in Tx : s.tx[j].st = "S"}
    IN  IF raw.rst = 1 \/ (IsTerminal(s) /\ raw.estk <= 3 /\ op # "truncate")     \* do not linger in terminal states
        THEN [Ev("reset", 1, NoH) EXCEPT !.op = "reset"]
        ELSE IF op = "advance" THEN EvAdvance(ts, est, aso, raw.ans, mnd)
        ELSE IF op = "record" THEN EvRecord(ts, est, aso, raw.ans, raw.sel)
        ELSE IF op = "mark_broadcast" /\ P # {} THEN Ev(op, Nth(P, raw.i), NoH)
        ELSE IF op = "mark_mined" /\ B # {} THEN Ev(op, Nth(B, raw.i), raw.ts)
        ELSE IF op = "prove" /\ S # {} THEN Ev(op, Nth(S, raw.i), NoH)
        ELSE IF op = "report" THEN Ev(op, raw.i, raw.ts)
        ELSE IF op = "sign" THEN Ev(op, raw.i, NoH)
        ELSE IF op = "truncate" THEN Ev(op, 1, raw.h)
        ELSE IF op = "policy" /\ raw.asok = 1 THEN Ev(IF raw.i % 2 = 0 THEN "supersede" ELSE "cancel", 1, NoH)
        ELSE Ev("recompute", 1, NoH)

----------------------------------------------------------------------------------------------
Init == /\ IF SimMode THEN ms = CanonState(RawDraw(0)) /\ env = RawDraw(1)
                      ELSE ms \in Committed /\ env = Ev("recompute", 1, NoH)
        /\ bad = {}

DoStep(ev) ==
    LET r == Apply(ms, ev)
    IN  /\ ms' = r.ms
        /\ bad' = StepViolations(ms, ev, r)
        /\ (Emit /\ ev.op # "reset" /\ TLCGet("level") <= EmitLevel) => PrintT(<< "EDGE", ToJson(EdgeJ(ms, ev, r)) >>)

Next == IF SimMode THEN DoStep(Canon(ms, env) @@ [newms |-> CanonState(env)]) /\ env' = RawDraw(ms')
        ELSE \E ev \in BfsEvents(ms) : DoStep(ev) /\ env' = env

Spec == Init /\ [][Next]_vars

NoViolation == bad = {}
WellFormed  == Consistent(ms)
=========================================================================================
