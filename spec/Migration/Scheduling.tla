------------------------------- MODULE Scheduling -------------------------------
(* C17 -- pool-migration schedules, anchors, expiries and wake-ups (ZIP 318).                      *)
(*                                                                                                 *)
(* The random generator is the ENVIRONMENT.  Every definition below that consumes randomness takes *)
(* the abstract draws as an argument (a sequence of raw delay candidates, of swap indices, of      *)
(* coin-flip ages, of jitters); nothing is assumed about them beyond their type.  The theorems at  *)
(* the end hold for EVERY such sequence ("for every random stream"); TLC checks them exhaustively  *)
(* over the small domain of MC_Scheduling.cfg.  The postcondition predicates (DelayOK, HeightsOK,  *)
(* ExpiryHeight, IsPerm, AnchorOK, RedrawOK, EarliestOK, WakeupsOK) are what the property states;  *)
(* Trace_Scheduling.tla evaluates exactly those predicates on every call the real code made.       *)
(* The transcribed algorithms (DrawDelay, CumulativeHeights, FisherYates, DrawAnchor, RedrawAnchor,*)
(* ScheduleWakeups) exist to show that the postconditions are satisfiable by the documented        *)
(* procedure for every draw sequence (no vacuity, greedy = brute-force minimum).                   *)
(*                                                                                                 *)
(* Heights.  A height is an integer in Lo..Hi; Lo stands for height 0 and Hi for the largest       *)
(* height.  The model-checking configuration uses Lo = 0 and a small Hi (so both the bottom and    *)
(* the saturating top are reached); trace validation uses Lo = -2^31, Hi = 2^31 - 1, i.e. the      *)
(* offset-binary image of the full u32 range, which fits TLC's 32-bit integers exactly.  All       *)
(* arithmetic below is written so that no intermediate value leaves Lo..Hi (+ small deltas).       *)
EXTENDS Integers, Sequences, FiniteSets, TLC

CONSTANTS Lo, Hi,          \* smallest / largest height
          ExpMod, ExpWin,  \* expiry modulus and window            (ZIP 318: 34 560 and 69 120)
          AgeCap           \* largest anchor age, in boundaries     (ZIP 318: 4)

Max2(a, b) == IF a >= b THEN a ELSE b
Min2(a, b) == IF a <= b THEN a ELSE b

---------------------------------------------------------------------------------
\* Height arithmetic

\* residue of the height x modulo m (the height of x is x - Lo)
HMod(x, m)   == ((x % m) + (m - (Lo % m))) % m
IsBoundary(x, m) == HMod(x, m) = 0
\* x + d, saturating at the top (d >= 0)
SatAdd(x, d) == IF x > Hi - d THEN Hi ELSE x + d
\* x - d, or "no such height" (d >= 0)
Sub(x, d)    == IF x < Lo + d THEN [ok |-> FALSE, v |-> Lo] ELSE [ok |-> TRUE, v |-> x - d]
\* rounding to the grid of m: down (always exists), up (saturating, so possibly the non-boundary Hi)
Floor(x, m)  == x - HMod(x, m)
Ceil(x, m)   == IF HMod(x, m) = 0 THEN x ELSE SatAdd(x, m - HMod(x, m))

---------------------------------------------------------------------------------
\* Delays and cumulative broadcast heights

\* a distribution exists iff its cap is not below its mean
DistExists(mean, cap) == cap >= mean

\* rejection sampling: the first raw candidate that does not exceed the cap
Accepting(cap, raw) == \E i \in 1..Len(raw) : raw[i] <= cap
DrawDelay(cap, raw) == raw[CHOOSE i \in 1..Len(raw) : raw[i] <= cap /\ \A j \in 1..(i - 1) : raw[j] > cap]

DelayOK(cap, d) == d >= 0 /\ d <= cap

RECURSIVE CumulativeHeights(_, _)
CumulativeHeights(start, ds) ==
    IF ds = << >> THEN << >>
    ELSE << SatAdd(start, Head(ds)) >> \o CumulativeHeights(SatAdd(start, Head(ds)), Tail(ds))

\* n heights, each the previous one (the commit height first) advanced by some delay within the cap,
\* saturating: hence non-decreasing and never below the commit height
HeightsOK(start, cap, n, hs) ==
    /\ Len(hs) = n
    /\ \A i \in 1..n : LET prev == IF i = 1 THEN start ELSE hs[i - 1]
                       IN  prev <= hs[i] /\ hs[i] <= SatAdd(prev, cap)

---------------------------------------------------------------------------------
\* The canonical rolling expiry

ExpiryHeight(h) == SatAdd(Floor(h, ExpMod), ExpWin)
\* the height-independent test: could e be the canonical expiry of SOME height (one whole window
\* above the bottom, on the modulus)
CanonicalExpiryValue(e) == IsBoundary(e, ExpMod) /\ e >= Lo + ExpWin

---------------------------------------------------------------------------------
\* Shuffles

Swap(p, i, j) == [p EXCEPT ![i] = p[j], ![j] = p[i]]
\* downward Fisher-Yates over positions n, n-1, .., 2 (1-based); js[i] \in 1..i is the draw for i
RECURSIVE FY(_, _, _)
FY(p, i, js) == IF i < 2 THEN p ELSE FY(Swap(p, i, js[i]), i - 1, js)
FisherYates(n, js) == FY([i \in 1..n |-> i - 1], n, js)

IsPerm(n, out) == Len(out) = n /\ {out[i] : i \in 1..Len(out)} = 0..(n - 1)
Count(s, v) == Cardinality({i \in 1..Len(s) : s[i] = v})
SameMultiset(inp, out) ==
    /\ Len(inp) = Len(out)
    /\ \A v \in {inp[i] : i \in 1..Len(inp)} \cup {out[i] : i \in 1..Len(out)} : Count(inp, v) = Count(out, v)

---------------------------------------------------------------------------------
\* Anchors

\* the boundary `a` intervals below mr, if there is one
RECURSIVE Back(_, _, _)
Back(mr, iv, a) == IF a = 0 THEN [ok |-> TRUE, v |-> mr]
                   ELSE LET b == Back(mr, iv, a - 1)
                        IN  IF b.ok THEN Sub(b.v, iv) ELSE b
\* boundaries strictly below mr whose age does not exceed the cap
Aged(mr, iv) == { Back(mr, iv, a).v : a \in { a \in 1..AgeCap : Back(mr, iv, a).ok } }

\* The candidate anchors: grid boundaries strictly above the activation height, not before the
\* funding note, strictly below the most recent boundary at the tip, of age at most AgeCap.
Candidates(iv, act, fund, tip) == { c \in Aged(Floor(tip, iv), iv) : c > act /\ c >= fund }
AnchorOK(iv, act, fund, tip, some, out) ==
    IF Candidates(iv, act, fund, tip) = {} THEN ~some
    ELSE some /\ out \in Candidates(iv, act, fund, tip)

\* replacement anchor: floored at the boundary being replaced, judged at the new broadcast height
RedrawCandidates(iv, prior, bcast) == { c \in Aged(Floor(bcast, iv), iv) : c >= prior }
RedrawOK(iv, prior, bcast, some, out) ==
    IF RedrawCandidates(iv, prior, bcast) = {} THEN ~some
    ELSE some /\ out \in RedrawCandidates(iv, prior, bcast)

\* the first tip at which an anchor can be drawn: no earlier tip is viable, and if any tip is
\* viable at all then this one is
Viable(iv, act, fund, tip) == Candidates(iv, act, fund, tip) # {}
EarliestOK(iv, act, fund, out) ==
    /\ (out > Lo => ~Viable(iv, act, fund, out - 1))
    /\ (Viable(iv, act, fund, Hi) => Viable(iv, act, fund, out))

\* -- the documented procedure: bounds, then a recency-weighted age with rejection
LowestCandidate(iv, act, fund) == Max2(SatAdd(Floor(act, iv), iv), Ceil(fund, iv))
CandidateBounds(iv, act, fund, mr) ==
    LET hi == Sub(mr, iv)
        lo == LowestCandidate(iv, act, fund)
    IN  IF hi.ok /\ lo <= hi.v THEN [ok |-> TRUE, lo |-> lo, hi |-> hi.v] ELSE [ok |-> FALSE, lo |-> Lo, hi |-> Lo]
AgeAccepted(mr, iv, lo, hi, a) ==
    /\ a >= 1 /\ a <= AgeCap
    /\ Back(mr, iv, a).ok
    /\ lo <= Back(mr, iv, a).v /\ Back(mr, iv, a).v <= hi
SampleBoundary(mr, iv, lo, hi, ages) ==
    Back(mr, iv, ages[CHOOSE i \in 1..Len(ages) :
                          /\ AgeAccepted(mr, iv, lo, hi, ages[i])
                          /\ \A j \in 1..(i - 1) : ~AgeAccepted(mr, iv, lo, hi, ages[j])]).v
DrawAnchor(iv, act, fund, tip, ages) ==
    LET mr == Floor(tip, iv)
        b  == CandidateBounds(iv, act, fund, mr)
    IN  IF b.ok THEN [some |-> TRUE, v |-> SampleBoundary(mr, iv, b.lo, b.hi, ages)] ELSE [some |-> FALSE, v |-> Lo]
RedrawAnchor(iv, prior, bcast, ages) ==
    LET mr == Floor(bcast, iv)
        hi == Sub(mr, iv)
        lo == Ceil(prior, iv)
    IN  IF hi.ok /\ lo <= hi.v THEN [some |-> TRUE, v |-> SampleBoundary(mr, iv, lo, hi.v, ages)]
        ELSE [some |-> FALSE, v |-> Lo]
EarliestBroadcast(iv, act, fund) == SatAdd(LowestCandidate(iv, act, fund), iv)

---------------------------------------------------------------------------------
\* Sync / proving wake-ups.  A transfer is a record [id, a, b]: anchor boundary a, broadcast height b.

Margin(m)        == Max2(1, m)
Infeasible(t)    == t.b <= SatAdd(t.a, 1)
Deadline(t)      == t.b - 1
Overdue(t, tip)  == Deadline(t) < tip
\* the proving window of a transfer that is not overdue is Ready..Deadline
Ready(t, m, tip) == Max2(tip, Min2(SatAdd(t.a, Margin(m)), Deadline(t)))

Pierces(P, W) == \A w \in W : \E p \in P : w.r <= p /\ p <= w.d
\* fewest points of `pts` piercing every window of W, the points of `forced` being mandatory
MinPiercing(W, pts, forced) ==
    LET sols == { P \in SUBSET pts : forced \subseteq P /\ Pierces(P, W) }
    IN  CHOOSE k \in 0..Cardinality(pts) :
            /\ \E P \in sols : Cardinality(P) = k
            /\ \A P \in sols : Cardinality(P) >= k

Windows(m, tip, tr) == { [r |-> Ready(tr[i], m, tip), d |-> Deadline(tr[i])] : i \in { i \in 1..Len(tr) : ~Overdue(tr[i], tip) } }
Forced(tip, tr)     == IF \E i \in 1..Len(tr) : Overdue(tr[i], tip) THEN {tip} ELSE {}
\* brute force over the window ends (+ the forced point); MinWakeupsAll ranges over every height
MinWakeups(m, tip, tr)    == MinPiercing(Windows(m, tip, tr), { w.d : w \in Windows(m, tip, tr) } \cup Forced(tip, tr), Forced(tip, tr))
MinWakeupsAll(m, tip, tr) == MinPiercing(Windows(m, tip, tr), tip..Hi, Forced(tip, tr))

\* ws: sequence of wake-ups [h |-> height, c |-> sequence of transfer ids]
WakeupsOK(m, jcap, tip, tr, ws) ==
    LET ids    == { tr[i].id : i \in 1..Len(tr) }
        T(id)  == tr[CHOOSE i \in 1..Len(tr) : tr[i].id = id]
        slots  == { << i, j >> \in (1..Len(ws)) \X (1..Len(tr)) : j <= Len(ws[i].c) }
    IN  /\ \A i \in 1..Len(tr) : ~Infeasible(tr[i])
        \* never in the past, strictly increasing
        /\ \A i \in 1..Len(ws) : ws[i].h >= tip /\ ws[i].h <= Hi /\ Len(ws[i].c) <= Len(tr)
        /\ \A i \in 1..(Len(ws) - 1) : ws[i].h < ws[i + 1].h
        \* every transfer is covered exactly once, and nothing else is
        /\ \A s \in slots : ws[s[1]].c[s[2]] \in ids
        /\ \A id \in ids : Cardinality({ s \in slots : ws[s[1]].c[s[2]] = id }) = 1
        \* inside the proving window of everything it covers (an overdue transfer: right now)
        /\ \A s \in slots :
              LET t == T(ws[s[1]].c[s[2]])  h == ws[s[1]].h
              IN  IF Overdue(t, tip) THEN h = tip ELSE Ready(t, m, tip) <= h /\ h <= Deadline(t)
        \* jitter within its cap: no later than jcap past the latest window opening it covers
        /\ \A i \in 1..Len(ws) :
              \A j \in 1..Len(ws[i].c) :
                 LET t == T(ws[i].c[j])
                 IN  (~Overdue(t, tip) /\ \A k \in 1..Len(ws[i].c) :
                                             ~Overdue(T(ws[i].c[k]), tip) => Ready(T(ws[i].c[k]), m, tip) <= Ready(t, m, tip))
                        => ws[i].h <= SatAdd(Ready(t, m, tip), jcap)
        \* the fewest wake-ups possible
        /\ Len(ws) = MinWakeups(m, tip, tr)

WakeupErrOK(tr, id) == \E i \in 1..Len(tr) : tr[i].id = id /\ Infeasible(tr[i])

\* -- the documented procedure: windows in deadline order, overdue folding, greedy grouping, jitter
Key(w)       == << w.d, w.r, w.ix >>
KeyLess(x, y) == \/ x.d < y.d
                 \/ x.d = y.d /\ x.r < y.r
                 \/ x.d = y.d /\ x.r = y.r /\ x.ix < y.ix
RECURSIVE InsertSorted(_, _)
InsertSorted(s, w) == IF s = << >> THEN << w >>
                      ELSE IF KeyLess(w, Head(s)) THEN << w >> \o s
                      ELSE << Head(s) >> \o InsertSorted(Tail(s), w)
RECURSIVE SortWindows(_)
SortWindows(s) == IF s = << >> THEN << >> ELSE InsertSorted(SortWindows(Tail(s)), Head(s))
SelectSeq2(s, Test(_)) == SelectSeq(s, Test)

RECURSIVE Group(_, _)
\* groups so far (last one open), remaining sorted windows
Group(gs, ws) ==
    IF ws = << >> THEN gs
    ELSE LET w == Head(ws) IN
         IF gs # << >> /\ w.r <= gs[Len(gs)].first
         THEN Group([gs EXCEPT ![Len(gs)] = [first |-> @.first, maxr |-> Max2(@.maxr, w.r), c |-> Append(@.c, w.id)]], Tail(ws))
         ELSE Group(Append(gs, [first |-> w.d, maxr |-> w.r, c |-> << w.id >>]), Tail(ws))

Plan(m, tip, tr) ==
    LET all   == [i \in 1..Len(tr) |-> [ix |-> i, id |-> tr[i].id, d |-> Deadline(tr[i]), r |-> Ready(tr[i], m, tip),
                                        od |-> Overdue(tr[i], tip)]]
        IsOd(w) == w.od
        NotOd(w) == ~w.od
        od    == SelectSeq(all, IsOd)
        live  == SortWindows(SelectSeq(all, NotOd))
        AtTip(w) == w.r = tip
        NotAtTip(w) == w.r # tip
        fold  == IF od # << >> THEN SelectSeq(live, AtTip) ELSE << >>
        rest  == IF od # << >> THEN SelectSeq(live, NotAtTip) ELSE live
        now   == [i \in 1..(Len(od) + Len(fold)) |-> IF i <= Len(od) THEN od[i].id ELSE fold[i - Len(od)].id]
    IN  [now |-> now, groups |-> Group(<< >>, rest)]
JitterBound(g, jcap) == Min2(jcap, g.first - g.maxr)
\* the schedule for one choice of jitters (jit[i] \in 0..JitterBound(groups[i]))
Assemble(tip, plan, jit) ==
    (IF plan.now # << >> THEN << [h |-> tip, c |-> plan.now] >> ELSE << >>)
    \o [i \in 1..Len(plan.groups) |-> [h |-> plan.groups[i].maxr + jit[i], c |-> plan.groups[i].c]]
FirstInfeasible(tr) == tr[CHOOSE i \in 1..Len(tr) : Infeasible(tr[i]) /\ \A j \in 1..(i - 1) : ~Infeasible(tr[j])].id

---------------------------------------------------------------------------------
\* Which degenerate streams must terminate (the rejection loops are a liveness matter: they
\* terminate under the fairness assumption "the stream eventually produces an acceptable draw").
\* A word w yields: the unit u = 1 - (w >> 11) / 2^53 and the raw delay round(-mean ln u); the
\* Lemire index (w * bound) >> 64, rejected iff (w * bound) mod 2^64 < 2^64 mod bound; the age
\* 1 + (number of trailing zero bits), a zero word continuing into the next word.
\*   chacha  : acceptable everywhere (an acceptable draw has probability >= 1/2 resp. 1 - 1/e).
\*   lemire  : words ceil(j 2^64 / b), b in 2..9 and j < b chosen at random: such a word is in the
\*             index sampler's rejection zone when the bound is b, has >= 61 trailing zeros (age > cap)
\*             when b is a power of two, and is otherwise generic; j = 0 is the zero word; acceptable
\*             everywhere (an acceptable draw has probability >= 1/9).
\*   ages    : words 2^(a-1), a uniform in 1..8 at random: age a; index 0 and raw delay 0 (accepted);
\*             acceptable everywhere (age 1 has probability 1/8).
\*   zero    : u = 1, raw delay 0 (accepted); index: low = 0 is rejected unless bound is a power
\*             of two; age: never returns.
\*   ones    : u = 2^-53, raw delay round(36.74 mean) (accepted iff <= cap); index bound - 1
\*             (accepted); age 1 (the most recent candidate, always accepted).
\*   alt     : words 0x55.., 0xAA.. alternately: first raw delay round(0.405 mean) <= mean <= cap;
\*             index accepted (low is about 2^64/3 or 2^65/3); ages 1, 2, 1, ..
\*   counter : words 0, 1, 2, ..: u = 1, raw delay 0; index: word 0 may be rejected, every word
\*             k >= 1 has low = k * bound >= bound (accepted); ages 65, 65, 2, 1 within four words.
IsPow2(n) == n \in {1, 2, 4, 8, 16, 32, 64}
DelayMustTerminate(rng, mean, cap) == rng \in {"chacha", "lemire", "ages", "zero", "alt", "counter"} \/ (rng = "ones" /\ cap >= 37 * mean)
ShuffleMustTerminate(rng, n)       == rng \in {"chacha", "lemire", "ages", "ones", "alt", "counter"} \/ (rng = "zero" /\ n <= 2)
AnchorMustTerminate(rng, cands)    == rng \in {"chacha", "lemire", "ages", "ones", "alt", "counter"} \/ (rng = "zero" /\ cands = {})
WakeupsMustTerminate(rng, jcap)    == rng \in {"chacha", "lemire", "ages", "ones", "alt", "counter"} \/ (rng = "zero" /\ jcap = 0)

=================================================================================
