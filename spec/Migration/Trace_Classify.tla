---------------------------- MODULE Trace_Classify ----------------------------
(* C17, code -> spec: the table of the REAL zip318::classify over a representative of every point *)
(* of the evidence lattice (records 2 .. 11 665, in the mixed-radix order decoded by Idx), chains  *)
(* of growing concrete evidence with other representatives, and the to_code / from_code tables.   *)
(* The laws of Classify.tla (Complete, Sound, Monotone) are evaluated ON THE LOGGED TABLE.        *)
(* "dtx" records: classify_decrypted_tx on assembled v6 transactions -- the evidence a decrypted    *)
(* transaction provides is assembled HERE from the logged projection of the transaction.          *)
EXTENDS Integers, Json, IOUtils, Classify
VARIABLES l
Rec == ndJsonDeserialize(IOEnv.TRACE)
\* heights (the expiry) are logged as h - 2^31, as in Trace_Scheduling
S == INSTANCE Scheduling WITH Lo <- -2147483647 - 1, Hi <- 2147483647, ExpMod <- 34560, ExpWin <- 69120, AgeCap <- 4

\* -- abstraction of logged (concrete) evidence; counts: -1 = unanswered; tri-state: 0 = unanswered,
\*    1 = true, 2 = false; the value as decimal digits
ASrc(n) == IF n = -1 THEN "none" ELSE IF n = 2 THEN "two" ELSE IF n = 16 THEN "sixteen" ELSE "other"
ADst(n) == IF n = -1 THEN "none" ELSE IF n = 0 THEN "zero" ELSE IF n = 1 THEN "one" ELSE "other"
ATri(n) == IF n = 0 THEN "none" ELSE IF n = 1 THEN "t" ELSE "f"
AVal(r) == IF ~r.vs THEN "none" ELSE IF CanonDigits(r.val) THEN "canon" ELSE "noncanon"
Abs(r)  == [src |-> ASrc(r.src), dst |-> ADst(r.dst), ob |-> ATri(r.ob), sts |-> ATri(r.sts), val |-> AVal(r),
            exp |-> ATri(r.exp), aog |-> ATri(r.aog), fee |-> ATri(r.fee)]
\* concrete order: an answered clause keeps its concrete value; confirmatory clauses equal
SameVal(r1, r2) == r1.vs = r2.vs /\ r1.val = r2.val
CLeq(r1, r2) == /\ (r1.src = -1 \/ r1.src = r2.src) /\ (r1.dst = -1 \/ r1.dst = r2.dst)
                /\ (r1.ob = 0 \/ r1.ob = r2.ob) /\ (r1.sts = 0 \/ r1.sts = r2.sts)
                /\ (~r1.vs \/ SameVal(r1, r2)) /\ (r1.exp = 0 \/ r1.exp = r2.exp)
                /\ r1.aog = r2.aog /\ r1.fee = r2.fee

\* -- position of a lattice point in the logged table
NSrc(v) == CASE v = "none" -> 0 [] v = "two" -> 1 [] v = "sixteen" -> 2 [] v = "other" -> 3
NDst(v) == CASE v = "none" -> 0 [] v = "zero" -> 1 [] v = "one" -> 2 [] v = "other" -> 3
NTri(v) == CASE v = "none" -> 0 [] v = "t" -> 1 [] v = "f" -> 2
NVal(v) == CASE v = "none" -> 0 [] v = "canon" -> 1 [] v = "noncanon" -> 2
TBase == 1
Idx(p) == TBase + 1 + ((((((NSrc(p.src) * 4 + NDst(p.dst)) * 3 + NTri(p.ob)) * 3 + NTri(p.sts)) * 3 + NVal(p.val)) * 3
                          + NTri(p.exp)) * 3 + NTri(p.aog)) * 3 + NTri(p.fee)
TableSize == 11664
T(p) == Rec[Idx(p)].r

\* the laws at one logged answer r for the abstract point p
PointOK(p, r) == /\ r \in Results
                 /\ (Full(p) => r = ShapeOf(p))
                 /\ (r # "U" => \A f \in Completions(p) : ShapeOf(f) = r)
\* the points immediately below p (one answered non-confirmatory clause forgotten)
Below(p) == { [p EXCEPT ![c] = "none"] : c \in { c \in Required : p[c] # "none" } }

PtOK(i) == LET rec == Rec[i]  p == Abs(rec) IN
    /\ rec.oc = "ok"
    /\ i = Idx(p)                       \* the table is complete and in the canonical order
    /\ PointOK(p, rec.r)
    /\ \A q \in Below(p) : T(q) # "U" => rec.r = T(q)
    /\ (rec.r # Classify(p) => PrintT(<< "EAGER", i, ToJson(rec) >>))

ChainOK(rec) == LET n == Len(rec.pts) IN
    /\ \A i \in 1..n : rec.pts[i].oc = "ok" /\ PointOK(Abs(rec.pts[i]), rec.pts[i].r)
    /\ \A i \in 1..(n - 1) : /\ CLeq(rec.pts[i], rec.pts[i + 1])
                             /\ rec.pts[i].r # "U" => rec.pts[i + 1].r = rec.pts[i].r

\* Evidence from a decrypted transaction (zcash_client_backend::data_api::zip318): source = number
\* of Orchard actions (0 without a bundle), destination = number of Ironwood actions, another bundle
\* is present iff the transparent or the Sapling part is non-empty, send-to-self iff the wallet
\* decrypted some account-internal Orchard output and no other kind, the sole destination value
\* is answered iff exactly one Ironwood output was decrypted, the expiry is judged by the
\* height-independent test, and neither confirmatory clause is answered.
DtxPoint(r) ==
    [src |-> ASrc(r.src), dst |-> ADst(r.dst),
     ob  |-> IF r.tpin + r.tpout > 0 \/ r.ssp + r.sout > 0 THEN "t" ELSE "f",
     sts |-> IF (\E i \in 1..Len(r.oouts) : r.oouts[i] = "int") /\ (\A i \in 1..Len(r.oouts) : r.oouts[i] = "int")
             THEN "t" ELSE "f",
     val |-> IF Len(r.ivals) # 1 THEN "none" ELSE IF CanonDigits(r.ivals[1]) THEN "canon" ELSE "noncanon",
     exp |-> IF S!CanonicalExpiryValue(r.expiry) THEN "t" ELSE "f",
     aog |-> "none", fee |-> "none"]
DtxOK(r) == r.oc = "ok" /\ PointOK(DtxPoint(r), r.r)

\* the persisted encoding: decode o encode = id, encode injective, Unknown is 0 (the column
\* default), every other code decodes to the label that encodes to it, or to Unknown
CodesOK(rec) ==
    /\ rec.oc = "ok"
    /\ {x.l : x \in {rec.to[i] : i \in 1..Len(rec.to)}} = Results
    /\ \A i \in 1..Len(rec.to) : rec.to[i].back = rec.to[i].l
    /\ \A i, j \in 1..Len(rec.to) : rec.to[i].code = rec.to[j].code => rec.to[i].l = rec.to[j].l
    /\ \A i \in 1..Len(rec.to) : rec.to[i].l = "U" => rec.to[i].code = 0
    /\ \A i \in 1..Len(rec.from) :
          IF \E j \in 1..Len(rec.to) : rec.to[j].code = rec.from[i].code
          THEN \E j \in 1..Len(rec.to) : rec.to[j].code = rec.from[i].code /\ rec.to[j].l = rec.from[i].l
          ELSE rec.from[i].l = "U"
    /\ \A i \in 1..Len(rec.far) : rec.far[i].l = "U"

IsEvent(k) == l <= Len(Rec) /\ Rec[l].a = k /\ l' = l + 1
TCodes == IsEvent("codes") /\ l = 1 /\ CodesOK(Rec[l])
TPt    == IsEvent("pt") /\ PtOK(l)
TChain == IsEvent("chain") /\ l > TBase + TableSize /\ ChainOK(Rec[l])
TraceInit == l = 1
TDtx   == IsEvent("dtx") /\ l > TBase + TableSize /\ DtxOK(Rec[l])
TraceNext == TCodes \/ TPt \/ TChain \/ TDtx
TraceSpec == TraceInit /\ [][TraceNext]_l
Accepted == LET n == TLCGet("stats").diameter - 1
            IN  IF n = Len(Rec) /\ n > TBase + TableSize THEN PrintT(<< "TRACE", "accepted", n >>)
                ELSE PrintT(<< "TRACE", "rejected", n + 1, IF n < Len(Rec) THEN ToJson(Rec[n + 1]) ELSE "truncated" >>) /\ FALSE
===============================================================================
