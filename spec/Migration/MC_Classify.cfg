SPECIFICATION Spec
INVARIANTS InvLawful InvNegObs InvUp
CHECK_DEADLOCK FALSE
