SPECIFICATION Spec
CONSTANTS
  HiMax = 2600
  Floors = {1, 10, 100}
  Emit = FALSE
INVARIANT Law
CHECK_DEADLOCK FALSE
