---------------------------- MODULE MC_Scheduling ----------------------------
(* Model-checking harness for Scheduling.tla.  A state is one case: first the parameters `p` of a *)
(* theorem family are chosen (initial states), then the remaining inputs and the environment's    *)
(* draws `x` (one step), so that TLC's workers share the cases.  The invariants are the theorems: *)
(* they hold for EVERY sequence of draws the environment can produce.                             *)
EXTENDS Scheduling
CONSTANTS Kinds,    \* theorem families explored by this configuration
          MaxT,     \* transfers per wake-up instance
          MaxIv     \* grid intervals 1..MaxIv
VARIABLES p, x, done
H == Lo..Hi
P(k, a, b, c) == [k |-> k, a |-> a, b |-> b, c |-> c]
SeqsUpTo(S, n) == UNION { [1..m -> S] : m \in 0..n }

Params ==
    { q \in
         { P("delay", cap, 0, 0) : cap \in 1..3 }
    \cup { P("heights", cap, start, 0) : cap \in 1..3, start \in H }
    \cup { P("expiry", h, 0, 0) : h \in H }
    \cup { P("shuffle", n, 0, 0) : n \in 0..5 }
    \cup { P("anchor", iv, act, fund) : iv \in 1..MaxIv, act \in H, fund \in H }
    \cup { P("redraw", iv, prior, 0) : iv \in 1..MaxIv, prior \in H }
    \cup { P("earliest", iv, act, 0) : iv \in 1..MaxIv, act \in H }
    \cup { P("wake", m, jcap, tip) : m \in {0, 2, 3}, jcap \in 0..2, tip \in H }
      : q.k \in Kinds }

\* age sequences the environment may produce: anything (ages 1 .. AgeCap + 1 stand for every age;
\* an age above the cap is rejected whatever it is), eventually an acceptable one (age 1)
AgeSeqs == { s \o << 1 >> : s \in SeqsUpTo(1..(AgeCap + 1), 2) }
Pairs == { ab \in H \X H : ab[2] >= ab[1] + 2 }
         \cup { ab \in H \X H : ab[2] = ab[1] + 1 /\ ab[1] \in {Lo, Hi - 1} } \cup { << Hi, Hi >> }
TransferSeqs == { [i \in 1..Len(s) |-> [id |-> 10 - i, a |-> s[i][1], b |-> s[i][2]]] : s \in SeqsUpTo(Pairs, MaxT) }

Choices(q) ==
    CASE q.k = "delay"    -> { r \in SeqsUpTo(0..(q.a + 2), 3) : Accepting(q.a, r) }
      [] q.k = "heights"  -> SeqsUpTo(0..q.a, 3)
      [] q.k = "expiry"   -> { << >> }
      [] q.k = "shuffle"  -> { js \in [1..q.a -> 1..Max2(q.a, 1)] : \A i \in 1..q.a : js[i] <= i }
      [] q.k = "anchor"   -> { << tip, ages >> : tip \in H, ages \in AgeSeqs }
      [] q.k = "redraw"   -> { << bcast, ages >> : bcast \in H, ages \in AgeSeqs }
      [] q.k = "earliest" -> { << fund >> : fund \in H }
      [] q.k = "wake"     -> TransferSeqs

Init == p \in Params /\ x = << >> /\ done = FALSE
Eval == ~done /\ done' = TRUE /\ x' \in Choices(p) /\ UNCHANGED p
Spec == Init /\ [][Eval]_<< p, x, done >>

---------------------------------------------------------------------------------
Is(k) == done /\ p.k = k

\* delays: whatever the raw draws, the accepted one is within the cap
ThmDelay == Is("delay") => DelayOK(p.a, DrawDelay(p.a, x))

\* heights: the cumulative sums satisfy HeightsOK; in particular non-decreasing from the commit
\* height and saturating at the top
ThmHeights == Is("heights") =>
    LET hs == CumulativeHeights(p.b, x) IN
    /\ HeightsOK(p.b, p.a, Len(x), hs)
    /\ \A i \in 1..Len(hs) : hs[i] >= p.b /\ hs[i] <= Hi /\ (i > 1 => hs[i] >= hs[i - 1])
    /\ \A i \in 1..Len(hs) : hs[i] = ExpiryHeight(hs[i]) \/ ExpiryHeight(hs[i]) > hs[i]

\* the canonical expiry: on the modulus, strictly in the future, between one and two periods of
\* validity -- or saturated at the top
ThmExpiry == Is("expiry") =>
    LET h == p.a  e == ExpiryHeight(h) IN
    /\ e >= h /\ e <= Hi
    /\ \/ e = Hi /\ Floor(h, ExpMod) + ExpWin >= Hi
       \/ IsBoundary(e, ExpMod) /\ e - h > ExpMod /\ e - h <= ExpWin /\ e = Floor(h, ExpMod) + ExpWin
    /\ \A g \in H : Floor(g, ExpMod) = Floor(h, ExpMod) => ExpiryHeight(g) = e   \* shared by the whole period
    /\ (e < Hi => CanonicalExpiryValue(e))
    /\ (CanonicalExpiryValue(h) <=> \E g \in H : Floor(g, ExpMod) + ExpWin = h)

\* shuffles: every sequence of swap draws yields a permutation, and every permutation is reachable
ThmShuffle == Is("shuffle") => IsPerm(p.a, FisherYates(p.a, x))

\* anchors: the constructive candidate set is the set the property describes; the procedure returns
\* a member, or nothing exactly when there is none
CandidatesDef(iv, act, fund, tip) ==
    { c \in H : /\ IsBoundary(c, iv) /\ c > act /\ c >= fund /\ c < Floor(tip, iv)
                /\ Floor(tip, iv) - c <= AgeCap * iv }
ThmAnchor == Is("anchor") =>
    LET iv == p.a  act == p.b  fund == p.c  tip == x[1]
        r == DrawAnchor(iv, act, fund, tip, x[2]) IN
    /\ Candidates(iv, act, fund, tip) = CandidatesDef(iv, act, fund, tip)
    /\ AnchorOK(iv, act, fund, tip, r.some, r.v)
    /\ r.some => /\ IsBoundary(r.v, iv) /\ r.v > act /\ r.v >= fund /\ r.v < Floor(tip, iv) /\ r.v <= tip - iv
                 /\ Floor(tip, iv) - r.v <= AgeCap * iv
    /\ (Viable(iv, act, fund, tip) /\ tip < Hi) => Viable(iv, act, fund, tip + 1)
ThmRedraw == Is("redraw") =>
    LET iv == p.a  prior == p.b  bcast == x[1]
        r == RedrawAnchor(iv, prior, bcast, x[2]) IN
    /\ RedrawCandidates(iv, prior, bcast)
          = { c \in H : IsBoundary(c, iv) /\ c >= prior /\ c < Floor(bcast, iv) /\ Floor(bcast, iv) - c <= AgeCap * iv }
    /\ RedrawOK(iv, prior, bcast, r.some, r.v)
ThmEarliest == Is("earliest") =>
    LET iv == p.a  act == p.b  fund == x[1]  e == EarliestBroadcast(iv, act, fund) IN
    /\ EarliestOK(iv, act, fund, e)
    /\ \A t \in H : Viable(iv, act, fund, t) <=> (t >= e /\ Viable(iv, act, fund, Hi))

\* wake-ups: the greedy procedure, for every choice of jitters, satisfies WakeupsOK -- whose last
\* conjunct is minimality against brute force -- and brute force over the window ends agrees with
\* brute force over all heights
ThmWake == Is("wake") =>
    LET m == p.a  jcap == p.b  tip == p.c  tr == x IN
    IF \E i \in 1..Len(tr) : Infeasible(tr[i]) THEN WakeupErrOK(tr, FirstInfeasible(tr))
    ELSE LET plan == Plan(m, tip, tr)
             n == Len(plan.groups)
         IN  /\ MinWakeups(m, tip, tr) = MinWakeupsAll(m, tip, tr)
             /\ \A jit \in { j \in [1..n -> 0..jcap] : \A i \in 1..n : j[i] <= JitterBound(plan.groups[i], jcap) } :
                    WakeupsOK(m, jcap, tip, tr, Assemble(tip, plan, jit))
=============================================================================
