SPECIFICATION TraceSpec
CONSTANTS
  Lo <- TraceLo
  Hi <- TraceHi
  ExpMod = 34560
  ExpWin = 69120
  AgeCap = 4
POSTCONDITION Accepted
CHECK_DEADLOCK FALSE
