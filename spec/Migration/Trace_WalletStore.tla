-------------------------------- MODULE Trace_WalletStore --------------------------------
(* C18, code -> spec: every line is one event the driver ran against the REAL pool-migration      *)
(* store of a real SQLite wallet on the harness chain (c18_store_driver), with its arguments, its  *)
(* result class and -- after EVERY event -- everything the public readers show for both accounts.  *)
(* Each line must be a step of WalletStore.tla, and the logged projection must equal the           *)
(* specification's state (LoadEqualsSpec); oracle lines must give the answers OracleLaw states.    *)
EXTENDS WalletStore, Json, IOUtils, TLC

VARIABLES l
Rec == ndJsonDeserialize(IOEnv.TRACE)
tvars == << vars, l >>

SeqSet(s) == {s[i] : i \in DOMAIN s}
IsEvent(e) == l <= Len(Rec) /\ Rec[l].a = e /\ l' = l + 1

\* ---- LoadEqualsSpec: what the readers return is the specification's (primed) state, record by
\* record and field by field; at most one live record per account; get_migration is the live record,
\* latest_migration the newest one; the lock owners are the live record's; the wallet's reserved notes
\* are the ones the specification holds reserved
PendingOf(T, a) == {k \in 1..Len(T[a]) : T[a][k].status \notin Terminal}
FsOf(S) == IF 1 \notin S THEN 0 ELSE SetMax({h \in S : \A x \in 1..h : x \in S})
AcctOK(p, a) ==
    /\ p.err = ""
    /\ p.recs = tbl'[a]
    /\ p.same
    /\ Cardinality(PendingOf(tbl', a)) <= 1
    /\ p.npend = Cardinality(PendingOf(tbl', a))
    /\ p.pend = (IF PendingOf(tbl', a) = {} THEN 0 ELSE tbl'[a][CHOOSE k \in PendingOf(tbl', a) : TRUE].rid)
    /\ p.latest = (IF tbl'[a] = << >> THEN 0 ELSE tbl'[a][Len(tbl'[a])].rid)
    /\ SeqSet(p.owners) = (IF PendingOf(tbl', a) = {} THEN {}
                           ELSE LET r == tbl'[a][CHOOSE k \in PendingOf(tbl', a) : TRUE]
                                IN  {r.tx[i].lock : i \in 1..Len(r.tx)} \ {0})
    /\ SeqSet(p.locked) = {q[1] : q \in {q \in held' : << q[1], a >> \in seen'}}
PostAgrees(post) == post.fs = FsOf(sq') /\ \A a \in Accounts : AcctOK(post.acct[a], a)
\* EXPLAIN=1 (debugging aid): a disagreeing projection is printed and the trace continues
PostOK(post) == \/ PostAgrees(post)
                \/ /\ IOEnv.EXPLAIN = "1"
                   /\ PrintT(<< "EXPLAIN", l, [fs |-> FsOf(sq'), tbl |-> tbl', held |-> held', seen |-> seen'] >>)

\* a logged record becomes a specification record (the driver logs rid 0 for states it hands in)
TReset == /\ IsEvent("reset")
          /\ tbl' = [a \in Accounts |-> << >>] /\ nextRid' = 1 /\ held' = {}
          /\ chain' = << >> /\ scanned' = {} /\ sq' = {} /\ seen' = {} /\ known' = {}
          /\ ev' = [op |-> "init"]
          /\ PostOK(Rec[l].post)

TBlock == /\ IsEvent("block")
          /\ Rec[l].h = Len(chain) + 1
          /\ Block([txs |-> SeqSet(Rec[l].txs), spends |-> SeqSet(Rec[l].spends),
                    outs |-> {<< o[1], o[2] >> : o \in SeqSet(Rec[l].outs)}, root |-> Rec[l].root])
          /\ PostOK(Rec[l].post)

TScan == /\ IsEvent("scan")
         /\ \/ Rec[l].res = "ok" /\ Scan(Rec[l].from, Rec[l].to)
            \* a scan the wallet's commitment trees refuse (C06's subject): nothing moves, here or in the store
            \/ Rec[l].res = "err" /\ UNCHANGED vars
         /\ PostOK(Rec[l].post)

TTip == /\ IsEvent("tip") /\ Rec[l].res = "ok" /\ UNCHANGED vars /\ PostOK(Rec[l].post)

TLock == /\ IsEvent("lock") /\ Rec[l].res = "ok"
         /\ Lock(SeqSet(Rec[l].notes), Rec[l].token)
         /\ PostOK(Rec[l].post)

TPersist == /\ IsEvent("persist") /\ Rec[l].res = "ok"
            /\ Persist(Rec[l].acct, Rec[l].rec)
            /\ PostOK(Rec[l].post)

TUpdateTx == /\ IsEvent("update_tx")
             /\ UpdateTx(Rec[l].acct, Rec[l].id, Rec[l].st, Rec[l].mh, Rec[l].res)
             /\ PostOK(Rec[l].post)

\* the caller holds afterwards the state the store holds
TStoreProved == /\ IsEvent("store_proved") /\ Rec[l].res = "ok" /\ Rec[l].same
                /\ StoreProved(Rec[l].acct, Rec[l].rec, Rec[l].id, Rec[l].pz, Rec[l].pd, Rec[l].lock)
                /\ PostOK(Rec[l].post)

\* on success the wallet keeps the extracted transaction, under the id the row was built with
TTake == /\ IsEvent("take")
         /\ TakeForBroadcast(Rec[l].acct, Rec[l].rec, Rec[l].id, SeqSet(Rec[l].spent), Rec[l].res)
         /\ (Rec[l].res = "ok" => Rec[l].recorded)
         /\ PostOK(Rec[l].post)

TCancel == /\ IsEvent("cancel") /\ Rec[l].res = "ok"
           /\ Cancel(Rec[l].acct, Rec[l].out)
           /\ PostOK(Rec[l].post)

\* a rewind.  ok: the wallet settled on `to` (reported by truncate_to_height, the requested height for
\* truncate_to_chain_state, the highest block kept by rewind_to_chain_state), never above the request
\* unless the wallet keeps confirmed blocks (rewind_to_chain_state; `wiped`: no pool keeps a checkpoint at
\* or above the target, and the wallet fell back to its pruning floor, below everything scanned).  err: either the documented
\* refusal (the cascade would leave two live records for an account -- at whatever height the wallet
\* would have settled on) or a refusal of the wallet's own ("invalid": no height it can truncate to).
TRewind ==
    /\ IsEvent("rewind")
    /\ LET r == Rec[l]
       IN  CASE r.res = "ok"   -> /\ (r.mode = "height" => r.to <= r.req /\ r.tgt = r.to)
                                  /\ (r.mode = "cs" => r.to = r.req /\ r.tgt = r.to)
                                  /\ (r.mode = "rewind_cs" /\ r.wiped => r.tgt = 0 /\ r.to = 0)
                                  /\ (r.mode # "rewind_cs" => ~r.wiped)
                                  \* rewind_to_chain_state does not report the height it settled on, and the driver cannot infer it
                                  \* from the blocks that are left (the wallet may keep blocks above the target, or -- the open C15
                                  \* finding -- settle below it): it is any height that explains what the store shows afterwards
                                  /\ IF r.mode = "rewind_cs" /\ ~r.wiped
                                     THEN \E eff \in 0..Len(chain) :
                                             /\ eff <= r.cut
                                             /\ ~Conflict(Cascade(tbl, eff))
                                             /\ Rewind(IF eff < r.req THEN eff ELSE r.req, eff, r.cut, "ok")
                                     ELSE /\ ~Conflict(Cascade(tbl, r.to))
                                          /\ Rewind(r.tgt, r.to, r.cut, "ok")
             [] r.res = "noop" -> /\ r.mode = "rewind_cs" /\ (scanned = {} \/ r.req >= SetMax(scanned))
                                  /\ RewindNoop
             [] r.res = "err"  -> IF r.errc = "invalid" THEN RewindNoop
                                  ELSE /\ \E to \in 0..r.req : (r.mode = "cs" => to = r.req) /\ Conflict(Cascade(tbl, to))
                                       /\ UNCHANGED << tbl, nextRid, held, chain, scanned, sq, seen, known >>
                                       /\ ev' = [op |-> "rewind", to |-> r.req, res |-> "err"]
             [] OTHER -> FALSE
    /\ PostOK(Rec[l].post)

\* OracleLaw: mined_height and check_step_satisfiability through the account's store, for rows of its
\* own records and of the other account's (the note lookup is scoped to the store's account)
TOracle ==
    /\ IsEvent("oracle")
    /\ \A i \in DOMAIN Rec[l].q :
          LET q == Rec[l].q[i]
          IN  /\ q.mh = MinedAt(q.row.u)
              /\ SatAnswerOK(Rec[l].acct, q.row, Rec[l].settle, [k |-> q.k, asof |-> q.asof])
    /\ Rec[l].probe = NoH
    /\ UNCHANGED vars
    /\ PostOK(Rec[l].post)

TraceInit == Init /\ l = 1
TraceNext == TReset \/ TBlock \/ TScan \/ TTip \/ TLock \/ TPersist \/ TUpdateTx \/ TStoreProved \/ TTake \/ TCancel
             \/ TRewind \/ TOracle
TraceSpec == TraceInit /\ [][TraceNext]_tvars

Accepted == LET n == TLCGet("stats").diameter - 1
            IN  IF n = Len(Rec) THEN PrintT(<< "TRACE", "accepted", n >>)
                ELSE PrintT(<< "TRACE", "rejected", n + 1, ToJson(Rec[n + 1]) >>) /\ FALSE
=========================================================================================
