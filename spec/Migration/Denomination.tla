---------------------------------- MODULE Denomination ----------------------------------
(* C16 - pool-migration denomination plans (ZIP 318 canonical 1-2-5 quantization).               *)
(*                                                                                                *)
(* Written from the rule as the ZIP / the rustdoc of `DenominationStrategy::plan`,                *)
(* `CanonicalOneTwoFive` and the module documentation of `denomination.rs` state it (principles   *)
(* 1-5), not from the control flow of the implementation:                                         *)
(*                                                                                                *)
(*  * the denomination set is {1,2,5} * 10^j * MinDenom within [MinDenom, MaxDenom];              *)
(*  * the canonical split of a balance takes, at each step, the LARGEST denomination that the     *)
(*    balance can still fund together with everything taken before it, every note carrying its    *)
(*    transfer-fee buffer, and with one preparation fee reserved per F notes started              *)
(*    (the optimistic layout: ceil(k / F) transactions for k notes); at most Cap parts;           *)
(*  * one exception: a balance held as ONE note that is exactly one denomination plus its buffer  *)
(*    is that single part, with no preparation fee reserved (the note is used directly);          *)
(*  * the plan is the split reconciled against the wallet's preparation-cost oracle: the oracle   *)
(*    is asked about the current multiset of prepared notes; if it refuses (None) or its answer   *)
(*    n does not fit (notes + n * fee > balance) the SMALLEST part is dropped and the oracle is   *)
(*    asked again; nothing is ever replaced.  An empty plan needs no preparation.                 *)
(*                                                                                                *)
(* The oracle is the ENVIRONMENT here: at every question it answers any element of                *)
(* Answers \cup {None}, with no consistency between answers.  The theorems below are invariants   *)
(* over every reachable state, hence over every oracle behaviour.                                 *)
EXTENDS Integers, Sequences, FiniteSets, TLC, Json

CONSTANTS MinDenom,    \* smallest denomination, a power of ten
          MaxDenom,    \* largest admissible crossing value (need not itself be a denomination)
          F,           \* funding notes minted per preparation transaction (FUNDING_OUTPUTS_PER_TX = 14)
          Totals,      \* set of balances explored
          Buffers,     \* set of per-note transfer-fee buffers
          Fees,        \* set of preparation-transaction fees
          Caps,        \* set of note caps
          Answers,     \* set of transaction counts the oracle may answer (besides None)
          Emit         \* TRUE: print one CASE line per completed plan (spec -> code replay)

None == -1

-------------------------------------------------------------------------------------------
\* The rule

Denoms == { d \in { m * (10 ^ j) * MinDenom : m \in {1, 2, 5}, j \in 0..6 } : d >= MinDenom /\ d <= MaxDenom }

SetMax(S) == CHOOSE x \in S : \A y \in S : y <= x

\* largest denomination not above hi, 0 if there is none
L125(hi) == LET S == { d \in Denoms : d <= hi } IN IF S = {} THEN 0 ELSE SetMax(S)

\* transactions the optimistic layout needs for k notes
Txs(k) == (k + F - 1) \div F

SingleExact(total, single, buffer, cap) ==
    single /\ cap > 0 /\ total >= buffer /\ (total - buffer) \in Denoms

\* greedy: parts so far, sum of (part + buffer) so far
RECURSIVE Greedy(_, _, _, _, _, _)
Greedy(parts, committed, total, fee, buffer, cap) ==
    IF Len(parts) >= cap THEN parts
    ELSE LET fits == { d \in Denoms : committed + d + buffer + Txs(Len(parts) + 1) * fee <= total }
         IN  IF fits = {} THEN parts
             ELSE Greedy(Append(parts, SetMax(fits)), committed + SetMax(fits) + buffer, total, fee, buffer, cap)

CanonSplit(total, single, fee, buffer, cap) ==
    IF SingleExact(total, single, buffer, cap) THEN << total - buffer >>
    ELSE Greedy(<< >>, 0, total, fee, buffer, cap)

\* what the planner assumed preparation would cost for the first k parts of the split
Assumed(total, single, buffer, cap, k) ==
    IF SingleExact(total, single, buffer, cap) THEN 0 ELSE Txs(k)

RECURSIVE SumFirst(_, _)
SumFirst(s, k) == IF k = 0 THEN 0 ELSE s[k] + SumFirst(s, k - 1)
NotesSum(s, k, buffer) == SumFirst(s, k) + k * buffer

-------------------------------------------------------------------------------------------
\* The reconcile loop against an adversarial oracle

VARIABLES par,      \* [total, single, fee, buffer, cap]
          split,    \* CanonSplit(par), fixed
          k,        \* number of parts still in the plan
          phase,    \* "init" (split not yet computed) | "ask" | "done"
          n,        \* accepted transaction count (meaningful when done)
          honest,   \* every answer so far was what the planner assumed
          lastRef,  \* kind of the latest refusal: "-" none yet, "none" (None), "over" (does not fit)
          hist      \* answers given so far (hidden by VIEW)

vars == << par, split, k, phase, n, honest, lastRef, hist >>

Params == [ total : Totals, single : BOOLEAN, fee : Fees, buffer : Buffers, cap : Caps ]

\* (the split is computed by its own action so that TLC's workers share that work; initial states
\* are generated by one thread)
Init == /\ par \in Params
        /\ split = << >> /\ k = 0
        /\ phase = "init" /\ n = 0 /\ honest = TRUE /\ lastRef = "-" /\ hist = << >>

Quantize == /\ phase = "init"
            /\ split' = CanonSplit(par.total, par.single, par.fee, par.buffer, par.cap)
            /\ k' = Len(split')
            /\ phase' = "ask"
            /\ UNCHANGED << par, n, honest, lastRef, hist >>

Change(kk, nn) == par.total - NotesSum(split, kk, par.buffer) - nn * par.fee

Result(kk, nn, h) ==
    [ minDenom |-> MinDenom, maxDenom |-> MaxDenom,
      total |-> par.total, single |-> par.single, fee |-> par.fee, buffer |-> par.buffer, cap |-> par.cap,
      split |-> split, answers |-> h,
      crossings |-> SubSeq(split, 1, kk), n |-> nn, prepFees |-> nn * par.fee,
      change |-> Change(kk, nn), migratable |-> SumFirst(split, kk) ]

Finish(kk, nn, h) ==
    /\ phase' = "done" /\ k' = kk /\ n' = nn /\ hist' = h
    /\ (Emit => PrintT(<< "CASE", ToJson(Result(kk, nn, h)) >>))

\* an empty plan is final without consulting the oracle
Empty == /\ phase = "ask" /\ k = 0
         /\ Finish(0, 0, hist)
         /\ UNCHANGED << par, split, honest, lastRef >>

Fits(a) == a # None /\ NotesSum(split, k, par.buffer) + a * par.fee <= par.total

Answer(a) ==
    /\ phase = "ask" /\ k > 0
    /\ honest' = (honest /\ a = Assumed(par.total, par.single, par.buffer, par.cap, k))
    /\ IF Fits(a)
       THEN /\ Finish(k, a, Append(hist, a))
            /\ UNCHANGED lastRef
       ELSE /\ k' = k - 1 /\ hist' = Append(hist, a)
            /\ lastRef' = (IF a = None THEN "none" ELSE "over")
            /\ UNCHANGED << phase, n >>
    /\ UNCHANGED << par, split >>

Next == Quantize \/ Empty \/ \E a \in Answers \cup {None} : Answer(a)

Spec == Init /\ [][Next]_vars
View == << par, k, phase, n, honest, lastRef >>

-------------------------------------------------------------------------------------------
\* Theorems (the property), for every oracle behaviour

Plan == SubSeq(split, 1, k)

TypeOK == /\ k \in 0..Len(split) /\ phase \in {"init", "ask", "done"} /\ n \in Nat

\* the theorems about the split alone are evaluated once per input, in the state Quantize produces
Fresh == phase = "ask" /\ k = Len(split) /\ lastRef = "-"

\* every crossing is a canonical 1-2-5 denomination within the bounds
Canonical == Fresh => \A i \in 1..Len(split) :
                /\ split[i] \in Denoms
                /\ split[i] >= MinDenom /\ split[i] <= MaxDenom
                /\ \E m \in {1, 2, 5}, j \in 0..6 : split[i] = m * (10 ^ j) * MinDenom

NonIncreasing == Fresh => \A i \in 1..(Len(split) - 1) : split[i] >= split[i + 1]

WithinCap == Len(split) <= par.cap /\ k <= par.cap

\* the plan is a prefix of the canonical split; the split is a function of (balance, single, fee,
\* buffer, cap) by the signature of CanonSplit, and no oracle answer ever changes it
PrefixOfCanon == /\ Len(Plan) <= Len(split)
                 /\ \A i \in 1..Len(Plan) : Plan[i] = split[i]
SplitFixed == [][phase # "init" => split' = split]_vars

\* prepared notes + reserved preparation fees + change = balance, with nothing negative
Conservation == phase = "done" =>
                   /\ Change(k, n) >= 0
                   /\ NotesSum(split, k, par.buffer) + n * par.fee + Change(k, n) = par.total

\* an empty plan reserves nothing
EmptyIsFree == (phase = "done" /\ k = 0) => (n = 0 /\ Change(k, n) = par.total)

\* the split itself is always fundable under the assumed cost (so an honest oracle never forces a drop)
AssumedFits == Fresh => NotesSum(split, Len(split), par.buffer)
                 + Assumed(par.total, par.single, par.buffer, par.cap, Len(split)) * par.fee <= par.total

HonestKeepsAll == (phase = "done" /\ honest) => k = Len(split)

\* drained: cap not reached and preparation cost what the planner assumed => the change cannot form
\* another self-funding note together with the preparation fee it might trigger
ChangeBound == (phase = "done" /\ honest /\ k < par.cap) =>
                   Change(k, n) < MinDenom + par.buffer + par.fee

\* greedy maximality, stated independently of the recursion: no part could have been larger, and
\* when the cap is not reached no further minimum note fits (general path only)
Maximal == (Fresh /\ ~SingleExact(par.total, par.single, par.buffer, par.cap)) =>
              /\ \A i \in 1..Len(split) : \A d \in Denoms :
                    d > split[i] =>
                       NotesSum(split, i - 1, par.buffer) + d + par.buffer + Txs(i) * par.fee > par.total
              /\ (Len(split) < par.cap =>
                    NotesSum(split, Len(split), par.buffer) + MinDenom + par.buffer
                        + Txs(Len(split) + 1) * par.fee > par.total)

\* the single-note bit matters only in the exact-funding case
SingleBitOnly == (Fresh /\ ~SingleExact(par.total, TRUE, par.buffer, par.cap)) =>
                    CanonSplit(par.total, TRUE, par.fee, par.buffer, par.cap)
                      = CanonSplit(par.total, FALSE, par.fee, par.buffer, par.cap)

Theorems == /\ TypeOK /\ Canonical /\ NonIncreasing /\ WithinCap /\ PrefixOfCanon /\ Conservation
            /\ EmptyIsFree /\ AssumedFits /\ HonestKeepsAll /\ ChangeBound /\ Maximal /\ SingleBitOnly
===========================================================================================
