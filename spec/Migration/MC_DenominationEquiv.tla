----------------------------------- MODULE MC_DenominationEquiv -----------------------------------
(* The DecNat restatement used for trace validation (DenominationD.tla) agrees with the native  *)
(* rule (Denomination.tla): same canonical split for every input of the model, and the logged-  *)
(* answer reconcile function reproduces the machine's result on every completed behaviour.      *)
EXTENDS Denomination

CONSTANT MinExp                 \* MinDenom = 10 ^ MinExp
ASSUME MinDenom = 10 ^ MinExp

TD == INSTANCE DenominationD
DN == INSTANCE DecNat

ToInts(s) == [i \in 1..Len(s) |-> DN!ToInt(s[i])]
DSeq == TD!DenomSeq(MinExp, DN!FromInt(MaxDenom))

SplitD == TD!CanonSplitD(DSeq, DN!FromInt(par.total), par.single, DN!FromInt(par.fee),
                         DN!FromInt(par.buffer), par.cap)

SameSeries == { DN!ToInt(DSeq[i]) : i \in 1..Len(DSeq) } = Denoms

SameSplit == Fresh => ToInts(SplitD) = split

SameReconcile ==
    phase = "done" =>
        LET exact == TD!SingleExactD(DSeq, DN!FromInt(par.total), par.single, DN!FromInt(par.buffer), par.cap)
            ps == TD!PrefixSums(SplitD, DN!FromInt(par.buffer))
            logged == [i \in 1..Len(hist) |-> IF hist[i] = None THEN TD!NoAnswer ELSE DN!FromInt(hist[i])]
            rc == TD!ReconcileD(ps, Len(split), 1, logged, DN!FromInt(par.total), DN!FromInt(par.fee), exact)
        IN  /\ exact = SingleExact(par.total, par.single, par.buffer, par.cap)
            /\ rc.k = k /\ DN!ToInt(rc.n) = n /\ rc.used = Len(hist) /\ rc.honest = honest

Equiv == SameSeries /\ SameSplit /\ SameReconcile
=============================================================================================
