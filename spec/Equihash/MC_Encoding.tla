---------------------------------- MODULE MC_Encoding ----------------------------------
(* TLC theorems about the minimal encoding, the length rule and the parameter rule of            *)
(* Equihash.tla. No behaviour: everything is an assumption evaluated once by TLC.                 *)
EXTENDS Equihash, TLC

\* Minimal encoding (evaluated once, as assumptions): round trip in both directions and the
\* bytewise decoder equals the bit-by-bit definition.

Fields(w, cnt) == [1..cnt -> 0..(2^w - 1)]
Bytes(len)     == [1..len -> 0..255]
RandFields(w, cnt, num) == { [p \in 1..cnt |-> RandomElement(0..(2^w - 1))] : r \in 1..num }
RandBytes(len, num)     == { [p \in 1..len |-> RandomElement(0..255)] : r \in 1..num }

RoundTrip(w, cnt, S) ==
    \A idx \in S : /\ Len(Encode(idx, w)) * 8 = cnt * w
                   /\ Decode(Encode(idx, w), w) = idx
                   /\ DecodeFast(Encode(idx, w), w) = idx
ByteTrip(w, len, S) ==
    \A b \in S : /\ Encode(Decode(b, w), w) = b
                 /\ DecodeFast(b, w) = Decode(b, w)

CONSTANTS Big,        \* TRUE: exhaustive on all two-byte strings as well (thorough tier)
          EncSamples  \* random lists / byte strings per real width

\* exhaustive on one-byte strings (and two-byte strings when Big), sampled for the real widths c+1 = 9 .. 25
ASSUME EncSmall == /\ RoundTrip(2, 4, Fields(2, 4)) /\ RoundTrip(4, 2, Fields(4, 2))
                   /\ RoundTrip(1, 8, Fields(1, 8)) /\ RoundTrip(8, 1, Fields(8, 1))
                   /\ ByteTrip(2, 1, Bytes(1)) /\ ByteTrip(4, 1, Bytes(1)) /\ ByteTrip(1, 1, Bytes(1))
                   /\ ByteTrip(8, 1, Bytes(1))
                   /\ \A w \in {1, 2, 4, 8, 16} : ByteTrip(w, 2, RandBytes(2, EncSamples))
ASSUME EncTwoBytes == Big => /\ RoundTrip(2, 8, Fields(2, 8)) /\ RoundTrip(4, 4, Fields(4, 4))
                             /\ ByteTrip(4, 2, Bytes(2)) /\ ByteTrip(1, 2, Bytes(2))
                             /\ ByteTrip(8, 2, Bytes(2)) /\ ByteTrip(16, 2, Bytes(2))
ASSUME EncReal == \A w \in {3, 5, 7, 9, 10, 11, 13, 17, 21, 25} :
                     /\ RoundTrip(w, 8, RandFields(w, 8, EncSamples))
                     /\ ByteTrip(w, w, RandBytes(w, EncSamples))
                     /\ RoundTrip(w, 8, { [p \in 1..8 |-> 2^w - 1], [p \in 1..8 |-> 0],
                                          [p \in 1..8 |-> IF p % 2 = 0 THEN 2^w - 1 ELSE 0],
                                          [p \in 1..8 |-> 2^(w - 1)], [p \in 1..8 |-> 1] })
\* a byte string whose length is not a whole number of fields decodes to the whole fields only
ASSUME EncLen == /\ Len(Decode(<< 255, 255, 255 >>, 9)) = 2
                 /\ Len(Decode(<< >>, 9)) = 0
                 /\ Decode(<< 255, 128 >>, 9) = << 511 >>

\* the length rule
ASSUME LenRule == /\ LenMatches(48, 5, 36) /\ ~LenMatches(48, 5, 35) /\ ~LenMatches(48, 5, 37)
                  /\ LenMatches(200, 9, 1344) /\ LenMatches(96, 5, 68) /\ LenMatches(8, 3, 3)
                  /\ ~LenMatches(64, 63, 0) /\ ~LenMatches(520, 64, 0) /\ ~LenMatches(48, 5, 0)
                  /\ \A k \in 3..12, c \in 1..30 : \A len \in 0..600 :
                        LenMatches(c * (k + 1), k, len) <=> (len * 8 = 2^k * (c + 1))
ASSUME ParamRule == /\ ParamsValid(200, 9) /\ ParamsValid(48, 5) /\ ParamsValid(96, 5)
                    /\ ~ParamsValid(0, 3) /\ ~ParamsValid(8, 8) /\ ~ParamsValid(48, 2)
                    /\ ~ParamsValid(44, 3) /\ ~ParamsValid(48, 4) /\ ~ParamsValid(4, 3)
=========================================================================================
