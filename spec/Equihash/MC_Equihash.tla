---------------------------------- MODULE MC_Equihash ----------------------------------
(* TLC theorems about Equihash.tla on tiny parameters. One state per hash table H; the theorems  *)
(* are invariants quantifying over index lists.                                                   *)
(*   K levels, C bits per segment, NIdx indices (the tree logic does not depend on NIdx = 2^(C+1),*)
(*   so NIdx is free: 2^K <= NIdx is needed for solutions to exist).                              *)
(*   Samples = 0: every table [Idx -> Rows]; Samples > 0: that many random tables (-seed).        *)
(*   AllLists = TRUE: every index list of length 2^K (and the neighbouring lengths around         *)
(*   solutions); FALSE: the constructed solutions, all their sibling-swap arrangements, all       *)
(*   single-index replacements, plus RandLists random lists.                                      *)
EXTENDS Equihash, TLC

CONSTANTS K, C, NIdx, Samples, AllLists, RandLists
VARIABLES H,      \* the table, grown one row at a time (so that TLC's workers share the tables)
          tag     \* sample number (0 in exhaustive mode)

Idx     == 0..(NIdx - 1)
SegVals == 0..(2^C - 1)
Rows    == [1..(K + 1) -> SegVals]
Lists   == [1..(2^K) -> Idx]
AllNodes == Nodes(1, K)
Done    == DOMAIN H = Idx

Init == /\ H = << >>
        /\ tag \in (IF Samples = 0 THEN {0} ELSE 1..Samples)
Next == /\ ~Done
        /\ UNCHANGED tag
        /\ IF Samples = 0
           THEN \E r \in Rows : H' = [i \in 0..Cardinality(DOMAIN H) |-> IF i \in DOMAIN H THEN H[i] ELSE r]
           ELSE H' = [i \in Idx |-> [j \in 1..(K + 1) |-> RandomElement(SegVals)]]
Spec == Init /\ [][Next]_<< H, tag >>

Sols == Solutions(H, K)

TestLists ==
    IF AllLists THEN Lists
    ELSE Sols
         \cup { Arrange(s, T, 1, K) : s \in Sols, T \in SUBSET AllNodes }
         \cup { [s EXCEPT ![p] = i] : s \in Sols, p \in 1..(2^K), i \in Idx }
         \cup { [p \in 1..(2^K) |-> RandomElement(Idx)] : r \in 1..RandLists }

\* T1: the definition and the transcription of tree_validator accept exactly the same lists
Agree == Done => \A idx \in TestLists : (ImplVerdict(H, idx, K) = "Ok") <=> Valid(H, idx, K)

\* T2: every solution has distinct indices in the canonical order: every subtree starts with its
\* smallest index, and no other arrangement of the same tree (exchanging the halves of any non-empty
\* set of nodes) is a solution
Shape == Done => \A idx \in TestLists :
            Valid(H, idx, K) =>
                /\ Injective(idx)
                /\ MinFirst(idx, 1, K)
                /\ \A T \in (SUBSET AllNodes) \ {{}} : ~Valid(H, Arrange(idx, T, 1, K), K)

\* T3: the constructive characterisation yields exactly the valid lists (so the theorems above are
\* not vacuous, and a solver that keeps every colliding pair finds every solution)
Complete ==
    Done => /\ \A s \in Sols : Valid(H, s, K) /\ ImplVerdict(H, s, K) = "Ok"
            /\ AllLists => Sols = { idx \in Lists : Valid(H, idx, K) }
            /\ (Sols # {}) => PrintT(<< "NSOL", Cardinality(Sols) >>)

\* T4: wrong numbers of indices are rejected by both (prefixes and extensions of solutions, and the
\* short lists that are themselves valid smaller trees)
WrongCount ==
    Done =>
    /\ \A s \in Sols : \A m \in 1..(2^K - 1) :
          LET t == SubSeq(s, 1, m) IN ~Valid(H, t, K) /\ ImplVerdict(H, t, K) # "Ok"
    /\ \A s \in Sols : \A i \in Idx :
          LET t == Append(s, i) IN ~Valid(H, t, K) /\ ImplVerdict(H, t, K) # "Ok"
    /\ ~Valid(H, << >>, K)

\* T5: a list in which one index occurs twice is never a solution (used by the grid clause: constant
\* fills decode to equal indices)
NoRepeats == Done => \A idx \in TestLists : (~Injective(idx)) => ~Valid(H, idx, K)

=========================================================================================
