--------------------------------- MODULE Trace_Equihash ---------------------------------
(* C19, code -> spec: evaluates the specification on every record the driver logged while        *)
(* calling the real equihash::is_valid_solution (harness/h_core/src/bin/c19_driver.rs).            *)
(*                                                                                                *)
(* Records are independent; the only variable is the line number.                                 *)
(*   t = "sol"    one call on a parameter set the driver can compute rows for:                    *)
(*                n, k, len (bytes of the solution), soln (the bytes, only when len is the right  *)
(*                length), idx (what the driver's decoder read), rows (rows[p] = the k+1          *)
(*                segments of the leaf hash of idx[p], computed by the driver's own BLAKE2b path  *)
(*                from the *logged* input and nonce), verdict "ok" | "err" | "panic".             *)
(*                Allowed iff the record is well formed (idx = Decode(soln), rows in range) and   *)
(*                verdict = SolVerdict.                                                           *)
(*   t = "grid"   one (n, k) pair: cells << len, fill, verdict >> for constant-fill solutions of  *)
(*                the matching length and its neighbours. Every decoded index is the same, so no  *)
(*                cell can be a solution (theorem NoRepeats): every verdict must be "err".        *)
(*   t = "sweep"  many random solutions for one (n, k, len): counts of ok / err / panic.          *)
(*                Invalid parameters: all "err". Valid parameters: no panic.                      *)
(* IOEnv.C19MODE = "wf" checks well-formedness of "sol" records only (used to tell a harness      *)
(* defect from a verdict disagreement after a rejection).                                         *)
EXTENDS Equihash, TLC, Json, IOUtils

VARIABLE l

Rec == ndJsonDeserialize(IOEnv.TRACE)
WfOnly == "C19MODE" \in DOMAIN IOEnv /\ IOEnv.C19MODE = "wf"

SolWellFormed(r) ==
    IF ParamsValid(r.n, r.k) /\ LenMatches(r.n, r.k, r.len)
    THEN LET c == CBits(r.n, r.k) IN
         /\ Len(r.soln) = r.len
         /\ \A m \in DOMAIN r.soln : r.soln[m] \in 0..255
         /\ r.idx = DecodeFast(r.soln, c + 1)                 \* the indices are those the encoding defines
         /\ Len(r.rows) = Len(r.idx)
         /\ \A p \in DOMAIN r.rows : /\ Len(r.rows[p]) = r.k + 1
                                     /\ \A j \in 1..(r.k + 1) : r.rows[p][j] \in 0..(2^c - 1)
    ELSE TRUE

SolAllowed(r) ==
    /\ SolWellFormed(r)
    /\ WfOnly \/ r.verdict = SolVerdict(r.n, r.k, r.len, r.idx, r.rows)

GridVerdict(n, k, len, fill) ==
    IF ~ParamsValid(n, k) THEN "err"
    ELSE IF ~LenMatches(n, k, len) THEN "err"
    ELSE "err"      \* fill in {0, 255}: 2^k >= 8 equal indices, never distinct (MC_Equihash!NoRepeats)

GridAllowed(r) ==
    \A i \in DOMAIN r.cells :
        /\ r.cells[i][2] \in {0, 255}
        /\ WfOnly \/ r.cells[i][3] = GridVerdict(r.n, r.k, r.cells[i][1], r.cells[i][2])

SweepAllowed(r) ==
    /\ r.ok + r.err + r.panic = r.tries
    /\ WfOnly \/ r.panic = 0
    /\ WfOnly \/ (~ParamsValid(r.n, r.k) \/ ~LenMatches(r.n, r.k, r.len)) => r.ok = 0

Allowed(r) ==
    CASE r.t = "sol"   -> SolAllowed(r)
      [] r.t = "grid"  -> GridAllowed(r)
      [] r.t = "sweep" -> SweepAllowed(r)
      [] OTHER         -> FALSE

TraceInit == l = 1
TraceNext == l <= Len(Rec) /\ Allowed(Rec[l]) /\ l' = l + 1
TraceSpec == TraceInit /\ [][TraceNext]_l

\* small projection of a record for the rejection message (the full record can be large)
Brief(r) == [t |-> r.t, n |-> r.n, k |-> r.k]

Accepted == LET n == TLCGet("stats").diameter - 1
            IN IF n = Len(Rec) THEN PrintT(<< "TRACE", "accepted", n >>)
               ELSE PrintT(<< "TRACE", "rejected", n + 1, ToJson(Brief(Rec[n + 1])) >>) /\ FALSE
=========================================================================================
