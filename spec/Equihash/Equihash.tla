------------------------------------ MODULE Equihash ------------------------------------
(* C19 - Equihash verification accepts exactly the valid solutions.                               *)
(*                                                                                                *)
(* Pure definitions (no variables). Sources: the property text, the Zcash protocol specification  *)
(* section 7.6.1 (generalised birthday condition, algorithm binding conditions, minimal encoding) *)
(* and, for the second definition only, components/equihash/src/verify.rs.                        *)
(*                                                                                                *)
(*   n, k          parameters;  c = n/(k+1) the collision bit length                              *)
(*   H             a hash table: index -> row, a row being the k+1 collision segments (integers   *)
(*                 below 2^c) of the n-bit leaf hash of that index, first segment first           *)
(*   idx           a list of indices (what the minimal encoding decodes to)                       *)
(*                                                                                                *)
(*   Valid(H, idx, k)        the DEFINITION of a valid solution                                   *)
(*   ImplVerdict(H, idx, k)  a transcription of tree_validator's order of checks                  *)
(*   Decode / Encode         the minimal encoding ((c+1)-bit big-endian fields, MSB first)        *)
(*   SolVerdict              accept/reject for one call, from parameters, length, indices, rows   *)
(*                                                                                                *)
(* MC_Equihash checks with TLC that the two definitions agree, that solutions have distinct,      *)
(* canonically ordered indices, and the encoding round trip; Trace_Equihash evaluates SolVerdict  *)
(* on every call the driver logged against the real equihash::is_valid_solution.                  *)
EXTENDS Integers, Sequences, FiniteSets, Bitwise

-----------------------------------------------------------------------------------------
\* Parameters and lengths

ParamsValid(n, k) == /\ n % 8 = 0          \* the hash output has an exact byte length
                     /\ k >= 3             \* encoded solutions have an exact byte length
                     /\ k < n              \* the collision bit length is at least 1
                     /\ n % (k + 1) = 0    \* integer collision bit length

CBits(n, k) == n \div (k + 1)

\* len = 2^k * (c+1) / 8, written so that nothing exceeds TLC's 32-bit integers (len < 2^31, k >= 3):
\* len * 8 = 2^k * (c+1)  <=>  len = 2^(k-3) * (c+1)
LenMatches(n, k, len) ==
    IF k - 3 <= 30
    THEN len % (2^(k - 3)) = 0 /\ len \div (2^(k - 3)) = CBits(n, k) + 1
    ELSE FALSE     \* 2^(k-3) * (c+1) >= 2^31 > len

-----------------------------------------------------------------------------------------
\* DEFINITION of validity, over the rows of the listed indices.
\* X[p] is the row of idx[p] (positions 1..2^k). Subtree of height j at position lo covers
\* positions lo .. lo + 2^j - 1.

RECURSIVE XorSeg(_, _, _, _)
XorSeg(X, lo, m, j) ==                    \* XOR of segment j over positions lo .. lo+m-1
    IF m = 0 THEN 0 ELSE X[lo][j] ^^ XorSeg(X, lo + 1, m - 1, j)

IdxSet(idx, lo, m) == { idx[p] : p \in lo..(lo + m - 1) }

RECURSIVE ValidTree(_, _, _, _)
ValidTree(X, idx, lo, j) ==
    IF j = 0 THEN TRUE
    ELSE LET h == 2^(j - 1) IN
         /\ ValidTree(X, idx, lo, j - 1)
         /\ ValidTree(X, idx, lo + h, j - 1)
         /\ XorSeg(X, lo, h, j) = XorSeg(X, lo + h, h, j)          \* the halves collide on segment j
         /\ idx[lo] < idx[lo + h]                                  \* ordered as the algorithm requires
         /\ IdxSet(idx, lo, h) \cap IdxSet(idx, lo + h, h) = {}    \* no index used twice

ValidRows(X, idx, k) ==
    /\ Len(idx) = 2^k /\ Len(X) = 2^k
    /\ ValidTree(X, idx, 1, k)
    /\ XorSeg(X, 1, 2^k, k + 1) = 0       \* with the k collisions: the total XOR is zero

Valid(H, idx, k) ==
    /\ \A p \in DOMAIN idx : idx[p] \in DOMAIN H
    /\ ValidRows([p \in DOMAIN idx |-> H[idx[p]]], idx, k)

\* Properties of solutions (theorems checked by MC_Equihash)
Injective(idx) == \A p, q \in DOMAIN idx : p # q => idx[p] # idx[q]

RECURSIVE MinFirst(_, _, _)
MinFirst(idx, lo, j) ==                   \* every subtree starts with its smallest index
    IF j = 0 THEN TRUE
    ELSE /\ \A p \in lo..(lo + 2^j - 1) : idx[lo] <= idx[p]
         /\ MinFirst(idx, lo, j - 1) /\ MinFirst(idx, lo + 2^(j - 1), j - 1)

\* the arrangement of idx in which the two halves of every node in S (a set of <<lo, j>>) are exchanged
RECURSIVE Arrange(_, _, _, _)
Arrange(idx, S, lo, j) ==
    IF j = 0 THEN << idx[lo] >>
    ELSE LET L == Arrange(idx, S, lo, j - 1)
             R == Arrange(idx, S, lo + 2^(j - 1), j - 1)
         IN IF << lo, j >> \in S THEN R \o L ELSE L \o R

RECURSIVE Nodes(_, _)
Nodes(lo, j) == IF j = 0 THEN {} ELSE {<< lo, j >>} \cup Nodes(lo, j - 1) \cup Nodes(lo + 2^(j - 1), j - 1)

-----------------------------------------------------------------------------------------
\* Second definition: transcription of verify.rs (Node, validate_subtrees, tree_validator,
\* is_valid_solution_recursive), keeping its order of checks and its error kinds.

NodeNew(H, i) == [hash |-> H[i], indices |-> << i >>]
HasCollision(a, b) == a.hash[1] = b.hash[1]                       \* first collision_byte_length bytes
IndicesBefore(a, b) == a.indices[1] < b.indices[1]
DistinctIndices(a, b) == \A i \in DOMAIN a.indices, j \in DOMAIN b.indices : a.indices[i] # b.indices[j]

ValidateSubtrees(a, b) ==
    IF ~HasCollision(a, b) THEN "Collision"
    ELSE IF IndicesBefore(b, a) THEN "OutOfOrder"
    ELSE IF ~DistinctIndices(a, b) THEN "DuplicateIdxs"
    ELSE "Ok"

FromChildren(a, b) ==                                             \* trim one segment, XOR the rest
    [hash    |-> [s \in 1..(Len(a.hash) - 1) |-> a.hash[s + 1] ^^ b.hash[s + 1]],
     indices |-> IF IndicesBefore(a, b) THEN a.indices \o b.indices ELSE b.indices \o a.indices]

RECURSIVE TreeValidator(_, _)
TreeValidator(H, indices) ==
    IF Len(indices) > 1
    THEN LET mid == Len(indices) \div 2
             a == TreeValidator(H, SubSeq(indices, 1, mid))
         IN IF a.err # "Ok" THEN a
            ELSE LET b == TreeValidator(H, SubSeq(indices, mid + 1, Len(indices)))
                 IN IF b.err # "Ok" THEN b
                    ELSE LET v == ValidateSubtrees(a.node, b.node)
                         IN IF v # "Ok" THEN [err |-> v, node |-> a.node]
                            ELSE [err |-> "Ok", node |-> FromChildren(a.node, b.node)]
    ELSE [err |-> "Ok", node |-> NodeNew(H, indices[1])]

ImplVerdict(H, idx, k) ==
    IF Len(idx) # 2^k THEN "InvalidParams"                        \* the length test of indices_from_minimal
    ELSE LET r == TreeValidator(H, idx)
         IN IF r.err # "Ok" THEN r.err
            ELSE IF r.node.hash[1] = 0 THEN "Ok" ELSE "NonZeroRootHash"

-----------------------------------------------------------------------------------------
\* Third, constructive characterisation (Wagner's algorithm keeping every pair): the set of all
\* valid subtrees of height j over a table. Used by MC_Equihash for non-vacuity and completeness.

RowXor(H, s, j) == LET X == [p \in DOMAIN s |-> H[s[p]]] IN XorSeg(X, 1, Len(s), j)
Range(s) == { s[p] : p \in DOMAIN s }

RECURSIVE Subtrees(_, _)
Subtrees(H, j) ==
    IF j = 0 THEN { << i >> : i \in DOMAIN H }
    ELSE LET S == Subtrees(H, j - 1)
         IN { l \o r : << l, r >> \in { pr \in S \X S : /\ pr[1][1] < pr[2][1]
                                                        /\ RowXor(H, pr[1], j) = RowXor(H, pr[2], j)
                                                        /\ Range(pr[1]) \cap Range(pr[2]) = {} } }
Solutions(H, k) == { s \in Subtrees(H, k) : RowXor(H, s, k + 1) = 0 }

-----------------------------------------------------------------------------------------
\* Minimal encoding: a list of w-bit fields, big-endian, packed most significant bit first.
\* Bits are numbered from 0, bit 0 being the most significant bit of the first byte.

BitAt(bytes, b) == (bytes[(b \div 8) + 1] \div 2^(7 - (b % 8))) % 2

RECURSIVE Field(_, _, _)
Field(bytes, off, w) ==                   \* the integer written in bits off .. off+w-1
    IF w = 0 THEN 0 ELSE 2 * Field(bytes, off, w - 1) + BitAt(bytes, off + w - 1)

Decode(bytes, w) == [j \in 1..((Len(bytes) * 8) \div w) |-> Field(bytes, (j - 1) * w, w)]

IdxBit(idx, w, b) == (idx[(b \div w) + 1] \div 2^(w - 1 - (b % w))) % 2
Encode(idx, w) ==
    [m \in 1..((Len(idx) * w) \div 8) |->
        LET B(t) == IdxBit(idx, w, 8 * (m - 1) + t)
        IN 128 * B(0) + 64 * B(1) + 32 * B(2) + 16 * B(3) + 8 * B(4) + 4 * B(5) + 2 * B(6) + B(7)]

\* The same decoding computed bytewise (what the trace validator evaluates; MC_Equihash checks
\* DecodeFast = Decode). Field value v accumulates at most w <= 25 bits.
RECURSIVE TakeBits(_, _, _, _)
TakeBits(bytes, pos, need, v) ==          \* pos: 0-based bit position, byte-aligned on entry
    IF need = 0 THEN v
    ELSE IF need >= 8 THEN TakeBits(bytes, pos + 8, need - 8, v * 256 + bytes[(pos \div 8) + 1])
    ELSE v * 2^need + (bytes[(pos \div 8) + 1] \div 2^(8 - need))
FieldFast(bytes, off, w) ==
    LET s     == off % 8
        avail == 8 - s                                  \* bits left in the first byte
        first == bytes[(off \div 8) + 1] % 2^avail
    IN IF w <= avail THEN first \div 2^(avail - w)
       ELSE TakeBits(bytes, off + avail, w - avail, first)
DecodeFast(bytes, w) == [j \in 1..((Len(bytes) * 8) \div w) |-> FieldFast(bytes, (j - 1) * w, w)]

-----------------------------------------------------------------------------------------
\* Verdict of one call is_valid_solution(n, k, input, nonce, soln), by class (accept / reject):
\* accepted iff the parameters are valid, the length is right, and the decoded indices form a
\* valid solution for the rows of input || nonce. Anything else is an error - never a panic.

SolVerdict(n, k, len, idx, rows) ==
    IF ~ParamsValid(n, k) THEN "err"
    ELSE IF ~LenMatches(n, k, len) THEN "err"
    ELSE IF ValidRows(rows, idx, k) THEN "ok" ELSE "err"

=========================================================================================
