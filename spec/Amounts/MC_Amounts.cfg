SPECIFICATION Spec
CONSTANTS
  SeqLen = 3
INVARIANT Theorems
CHECK_DEADLOCK FALSE
