------------------------------------ MODULE Amounts ------------------------------------
(* C09 -- monetary amounts never leave the valid range or wrap.                                   *)
(*                                                                                                *)
(* The rule, for every public constructor, parser, conversion and arithmetic operator of the     *)
(* non-negative amount type (Zatoshis, "Z", valid range 0..MAXM) and of the signed amount type    *)
(* (ZatBalance, "B", valid range -MAXM..MAXM):                                                    *)
(*                                                                                                *)
(*     Spec(op, args) == IF Math(op, args) lies in the valid range of op's result                 *)
(*                       THEN that exact integer                                                  *)
(*                       ELSE the failure op is documented to signal                              *)
(*                            (None | Err(underflow/overflow) | io error | documented panic)      *)
(*                                                                                                *)
(* where Math is the exact result over the (unbounded) integers.  Written from the property       *)
(* statement and the rustdoc of components/zcash_protocol/src/value.rs, not from its control      *)
(* flow: there is no machine arithmetic in this module, only exact integers and range tests.      *)
(*                                                                                                *)
(* The module is parameterised over a number algebra so that it can be instantiated twice:        *)
(*   * natively (MC_Amounts) with tiny constants, where TLC checks the theorems exhaustively;     *)
(*   * over DecInt (Trace_Amounts) with the real constants MAX_MONEY = 21e6 * 1e8, 2^63-1,        *)
(*     2^64-1, where TLC evaluates Spec on every record logged from the real code.                *)
(* Division is never computed: a logged quotient (and remainder) is checked against               *)
(*     q*d <= v < q*d + d        /        q*d + r = v /\ 0 <= r < d.                               *)
EXTENDS Naturals, Sequences, TLC

CONSTANTS
    Plus(_, _), Minus(_, _), Times(_, _), LeqN(_, _),  \* exact integer +, -, *, <=
    Num(_),            \* native natural -> number
    MAXM,              \* MAX_MONEY
    I64MAX, U64MAX,    \* the machine types in which arguments arrive (i64, u64 = usize)
    HALFM, QI, QU,     \* floor(MAXM/2), floor(I64MAX/MAXM), floor(U64MAX/MAXM): checked in ConstOK, not computed
    P62,               \* a quarter of 2^64 (a multiplier that wraps to 0 in 64 bits when times 4)
    REPMAX,            \* the longest run of equal summands of a "long sum" (argument type "rep"); at least 2*(QU+1)
    BYTEBASE, NBYTES   \* native: 256 and 8 -- the fixed-width little-endian encodings

Zero == Num(0)
One  == Num(1)
Two  == Num(2)
NegN(a) == Minus(Zero, a)
LtN(a, b) == LeqN(a, b) /\ a # b            \* numbers have unique representations in both instances
Between(lo, v, hi) == LeqN(lo, v) /\ LeqN(v, hi)

I64MIN == Minus(NegN(I64MAX), One)
TWO64  == Plus(U64MAX, One)

InZ(v) == Between(Zero, v, MAXM)            \* valid Zatoshis
InB(v) == Between(NegN(MAXM), v, MAXM)      \* valid ZatBalance
InI64(v) == Between(I64MIN, v, I64MAX)
InU64(v) == Between(Zero, v, U64MAX)

\* ------------------------------------------------------------------ checked (never computed) division
DivOK(v, d, q) == /\ LeqN(Zero, q)
                  /\ LeqN(Times(q, d), v)
                  /\ LtN(v, Plus(Times(q, d), d))
QuotRemOK(v, d, q, r) == /\ LeqN(Zero, q)
                         /\ Plus(Times(q, d), r) = v
                         /\ LeqN(Zero, r) /\ LtN(r, d)

\* ------------------------------------------------------------------ fixed-width encodings
\* The 8-byte little-endian string b1..b8 denotes the pattern number sum b_i * 256^(i-1) in 0..2^64-1;
\* the signed reading of a pattern is two's complement.
IsBytes(bs) == /\ Len(bs) = NBYTES
               /\ \A i \in 1..NBYTES : bs[i] \in 0..(BYTEBASE - 1)
RECURSIVE LEFrom(_, _, _)
LEFrom(bs, i, n) == IF i > n THEN Zero ELSE Plus(Num(bs[i]), Times(Num(BYTEBASE), LEFrom(bs, i + 1, n)))
LEValue(bs) == LEFrom(bs, 1, NBYTES)        \* of the first NBYTES bytes

EncI64(v) == IF LeqN(Zero, v) THEN v ELSE Plus(v, TWO64)       \* i64 value -> pattern
DecI64(p) == IF LeqN(p, I64MAX) THEN p ELSE Minus(p, TWO64)    \* pattern -> i64 value

RECURSIVE PowN(_, _)
PowN(b, e) == IF e = 0 THEN One ELSE Times(b, PowN(b, e - 1))

\* what the instantiating module must ASSUME about its constants
ConstOK ==
    /\ BYTEBASE \in Nat /\ NBYTES \in Nat /\ BYTEBASE >= 2 /\ NBYTES >= 1
    /\ TWO64 = PowN(Num(BYTEBASE), NBYTES)
    /\ U64MAX = Plus(Plus(I64MAX, I64MAX), One)
    /\ Times(Num(4), P62) = TWO64
    /\ LeqN(Num(5), MAXM)
    /\ LeqN(Plus(Plus(MAXM, MAXM), One), I64MAX)
    /\ DivOK(MAXM, Two, HALFM)
    /\ DivOK(I64MAX, MAXM, QI)
    /\ DivOK(U64MAX, MAXM, QU)
    /\ LeqN(Plus(Plus(QU, QU), Two), REPMAX)    \* a long sum can carry the exact total past 2^64 twice

\* ------------------------------------------------------------------ results
Val(v)   == [t |-> "val", v |-> v]          \* Some(v) / Ok(v) / a plain return value
NoneR    == [t |-> "none"]
Err(k)   == [t |-> "err", k |-> k]          \* "underflow" | "overflow" | "io"
PanicR   == [t |-> "panic"]
Unspecified == [t |-> "unspecified"]        \* never produced for well-typed arguments (theorem Total)

\* ------------------------------------------------------------------ the public operations
(* sig:  argument types  "i64" "u64" "mul" (a u64/usize multiplier) "nz64" (NonZeroU64) "pat" (8     *)
(*       bytes, as their pattern number) "Z" "B" "oZ" "oB" (Option<..>) "seqZ" "seqB" (iterators)   *)
(*       "raw" (any byte string)   "rep" (0..REPMAX: how many copies of the preceding amount an     *)
(*       iterator yields -- the compact argument form of the long sums)                            *)
(* res:  range of the result  "Z" 0..MAXM | "B" -MAXM..MAXM | "i64" | "u64"                         *)
(* mode: what happens outside the range                                                            *)
(*       "total"  cannot happen (theorem)            "enc"    total; the result is a byte pattern  *)
(*       "opt"    None                               "lift"   Option-lifted lhs: None absorbs      *)
(*       "res"    Err(Underflow below / Overflow above)       "io"  io::Error                      *)
(*       "assert" documented panic                   "fold"   left fold of the checked addition    *)
(*       "div" / "quotrem"  relational (DivOK / QuotRemOK)    "readn" see ReadSpec                  *)
(*       "foldrep" the fold of  rep copies of the first amount, then the third  (RepFold)           *)
(*                                                                                                *)
(* Long sums.  An iterator sum has no bound on its length, so its exact total has no bound either:  *)
(* it can exceed not only MAXM but the machine words i64 / u64 in which a single amount travels     *)
(* (from QI + 1 resp. QU + 1 summands of MAXM on).  The rule is the same -- Some(exact total) iff    *)
(* the total is a valid amount, None otherwise, never a panic, never the total reduced modulo 2^64  *)
(* -- and  *.sum_rep / *.isum_rep / *.isum_ref_rep (v, n)  state it for the iterator that yields n  *)
(* copies of v: the exact total is n * v.  For equal summands the running sums k * v (k <= n) are    *)
(* monotone, so the left fold and the exact total coincide (theorem in MC_Amounts) and the         *)
(* operation is functional ("opt").  *.rep_then (v, n, w) appends one more summand w, so that the   *)
(* running sum can leave the range and come back: there both readings are allowed (RepOutcomes),    *)
(* as for the short sums.                                                                          *)
E(n, s, r, m) == n :> [sig |-> s, res |-> r, mode |-> m]
Ops ==
    \* ---- ZatBalance
       E("B.zero",                         << >>,            "B",   "total")
    @@ E("B.const_from_i64",               <<"i64">>,        "B",   "assert")  \* "Panics: if the amount is outside the range {-MAX_BALANCE..MAX_BALANCE}"
    @@ E("B.const_from_u64",               <<"u64">>,        "Z",   "assert")  \* "Panics: ... outside the range {0..MAX_BALANCE}"
    @@ E("B.from_i64",                     <<"i64">>,        "B",   "res")
    @@ E("B.try_from_i64",                 <<"i64">>,        "B",   "res")     \* TryFrom<i64>
    @@ E("B.from_nonnegative_i64",         <<"i64">>,        "Z",   "res")     \* "outside the range {0..MAX_BALANCE}"
    @@ E("B.from_u64",                     <<"u64">>,        "Z",   "res")
    @@ E("B.from_i64_le_bytes",            <<"pat">>,        "B",   "res")
    @@ E("B.from_nonnegative_i64_le_bytes", <<"pat">>,       "Z",   "res")
    @@ E("B.from_u64_le_bytes",            <<"pat">>,        "Z",   "res")
    @@ E("B.to_i64_le_bytes",              <<"B">>,          "u64", "enc")
    @@ E("B.into_i64",                     <<"B">>,          "i64", "total")   \* i64::from(ZatBalance)
    @@ E("B.ref_into_i64",                 <<"B">>,          "i64", "total")   \* i64::from(&ZatBalance)
    @@ E("B.try_into_u64",                 <<"B">>,          "u64", "res")     \* u64::try_from(ZatBalance)
    @@ E("B.add",                          <<"B", "B">>,     "B",   "opt")
    @@ E("B.oadd",                         <<"oB", "B">>,    "B",   "lift")
    @@ E("B.sub",                          <<"B", "B">>,     "B",   "opt")
    @@ E("B.osub",                         <<"oB", "B">>,    "B",   "lift")
    @@ E("B.add_z",                        <<"B", "Z">>,     "B",   "opt")
    @@ E("B.oadd_z",                       <<"oB", "Z">>,    "B",   "lift")
    @@ E("B.sub_z",                        <<"B", "Z">>,     "B",   "opt")
    @@ E("B.osub_z",                       <<"oB", "Z">>,    "B",   "lift")
    @@ E("B.neg",                          <<"B">>,          "B",   "total")
    @@ E("B.mul_usize",                    <<"B", "mul">>,   "B",   "opt")     \* Mul<usize>
    @@ E("B.sum",                          <<"seqB">>,       "B",   "fold")    \* ZatBalance::sum
    @@ E("B.isum",                         <<"seqB">>,       "B",   "fold")    \* Sum<ZatBalance> for Option<ZatBalance>
    @@ E("B.isum_ref",                     <<"seqB">>,       "B",   "fold")    \* Sum<&ZatBalance>
    @@ E("B.sum_rep",                      <<"B", "rep">>,   "B",   "opt")     \* ZatBalance::sum of rep copies
    @@ E("B.isum_rep",                     <<"B", "rep">>,   "B",   "opt")     \* Sum<ZatBalance> of rep copies
    @@ E("B.isum_ref_rep",                 <<"B", "rep">>,   "B",   "opt")     \* Sum<&ZatBalance> of rep copies
    @@ E("B.sum_rep_then",                 <<"B", "rep", "B">>, "B", "foldrep") \* ZatBalance::sum of rep copies, then one more
    @@ E("B.isum_rep_then",                <<"B", "rep", "B">>, "B", "foldrep") \* Sum<ZatBalance>
    @@ E("B.isum_ref_rep_then",            <<"B", "rep", "B">>, "B", "foldrep") \* Sum<&ZatBalance>
    \* ---- Zatoshis
    @@ E("Z.zero",                         << >>,            "Z",   "total")   \* Zatoshis::ZERO
    @@ E("Z.from_u64",                     <<"u64">>,        "Z",   "res")
    @@ E("Z.try_from_u64",                 <<"u64">>,        "Z",   "res")     \* TryFrom<u64>
    @@ E("Z.const_from_u64",               <<"u64">>,        "Z",   "assert")  \* "Panics: if the amount is outside the range {0..MAX_MONEY}"
    @@ E("Z.zats",                         <<"u64">>,        "Z",   "assert")  \* testing::zats, "Panics if amount exceeds MAX_MONEY"
    @@ E("Z.from_nonnegative_i64",         <<"i64">>,        "Z",   "res")
    @@ E("Z.try_from_balance",             <<"B">>,          "Z",   "res")     \* TryFrom<ZatBalance>
    @@ E("Z.from_u64_le_bytes",            <<"pat">>,        "Z",   "res")
    @@ E("Z.from_nonnegative_i64_le_bytes", <<"pat">>,       "Z",   "res")
    @@ E("Z.read",                         <<"pat">>,        "Z",   "io")      \* "mapping an out-of-range amount to io::ErrorKind::InvalidData"
    @@ E("Z.read_n",                       <<"raw">>,        "Z",   "readn")   \* read from a reader holding any number of bytes
    @@ E("Z.to_i64_le_bytes",              <<"Z">>,          "u64", "enc")
    @@ E("Z.to_u64_le_bytes",              <<"Z">>,          "u64", "enc")
    @@ E("Z.write",                        <<"Z">>,          "u64", "enc")
    @@ E("Z.into_u64",                     <<"Z">>,          "u64", "total")
    @@ E("Z.u64_from",                     <<"Z">>,          "u64", "total")   \* u64::from(Zatoshis)
    @@ E("Z.into_balance",                 <<"Z">>,          "B",   "total")   \* ZatBalance::from(Zatoshis)
    @@ E("Z.ref_into_balance",             <<"Z">>,          "B",   "total")   \* ZatBalance::from(&Zatoshis)
    @@ E("Z.add",                          <<"Z", "Z">>,     "Z",   "opt")
    @@ E("Z.oadd",                         <<"oZ", "Z">>,    "Z",   "lift")
    @@ E("Z.sub",                          <<"Z", "Z">>,     "Z",   "opt")
    @@ E("Z.osub",                         <<"oZ", "Z">>,    "Z",   "lift")
    @@ E("Z.mul_u64",                      <<"Z", "mul">>,   "Z",   "opt")     \* Mul<u64>
    @@ E("Z.mul_usize",                    <<"Z", "mul">>,   "Z",   "opt")     \* Mul<usize>
    @@ E("Z.isum",                         <<"seqZ">>,       "Z",   "fold")    \* Sum<Zatoshis> for Option<Zatoshis>
    @@ E("Z.isum_ref",                     <<"seqZ">>,       "Z",   "fold")    \* Sum<&Zatoshis>
    @@ E("Z.isum_rep",                     <<"Z", "rep">>,   "Z",   "opt")     \* Sum<Zatoshis> of rep copies
    @@ E("Z.isum_ref_rep",                 <<"Z", "rep">>,   "Z",   "opt")     \* Sum<&Zatoshis> of rep copies
    @@ E("Z.div",                          <<"Z", "nz64">>,  "Z",   "div")
    @@ E("Z.div_with_remainder",           <<"Z", "nz64">>,  "Z",   "quotrem")
    @@ E("Z.neg",                          <<"Z">>,          "B",   "total")   \* Neg for Zatoshis: Output = ZatBalance
OpNames == DOMAIN Ops

FunctionalModes == {"total", "enc", "opt", "res", "assert", "io", "lift", "fold", "foldrep"}
FallibleModes == {"opt", "res", "assert", "io", "lift", "fold", "readn", "foldrep"}
RepSumOps == {"B.sum_rep", "B.isum_rep", "B.isum_ref_rep", "Z.isum_rep", "Z.isum_ref_rep"}

Lo(res) == CASE res = "Z" -> Zero [] res = "B" -> NegN(MAXM) [] res = "i64" -> I64MIN [] res = "u64" -> Zero
Hi(res) == CASE res = "Z" -> MAXM [] res = "B" -> MAXM       [] res = "i64" -> I64MAX [] res = "u64" -> U64MAX
InRes(res, v) == Between(Lo(res), v, Hi(res))

\* scalar argument types
InType(t, v) == CASE t = "i64" -> InI64(v)
                  [] t \in {"u64", "mul", "pat"} -> InU64(v)
                  [] t = "nz64" -> Between(One, v, U64MAX)
                  [] t = "Z" -> InZ(v)
                  [] t = "B" -> InB(v)
                  [] t = "rep" -> Between(Zero, v, REPMAX)
BaseOf(t) == CASE t \in {"oZ", "seqZ"} -> "Z" [] t \in {"oB", "seqB"} -> "B"
\* an argument as the specification sees it: a number | NoneR or Val(number) | a sequence of numbers
WellTypedArg(t, a) ==
    CASE t \in {"oZ", "oB"} -> a = NoneR \/ (a.t = "val" /\ InType(BaseOf(t), a.v))
      [] t \in {"seqZ", "seqB"} -> \A i \in 1..Len(a) : InType(BaseOf(t), a[i])
      [] t = "raw" -> \A i \in 1..Len(a) : a[i] \in 0..(BYTEBASE - 1)
      [] OTHER -> InType(t, a)
WellTyped(op, x) == /\ op \in OpNames
                    /\ Len(x) = Len(Ops[op].sig)
                    /\ \A i \in 1..Len(x) : WellTypedArg(Ops[op].sig[i], x[i])

\* the exact integer result (x: scalar arguments; for "lift" the left operand already unwrapped)
Math(op, x) ==
    CASE op \in {"B.zero", "Z.zero"} -> Zero
      [] op \in {"B.const_from_i64", "B.const_from_u64", "B.from_i64", "B.try_from_i64",
                 "B.from_nonnegative_i64", "B.from_u64", "B.from_u64_le_bytes",
                 "B.into_i64", "B.ref_into_i64", "B.try_into_u64",
                 "Z.from_u64", "Z.try_from_u64", "Z.const_from_u64", "Z.zats", "Z.from_nonnegative_i64",
                 "Z.try_from_balance", "Z.from_u64_le_bytes", "Z.read", "Z.to_u64_le_bytes", "Z.write",
                 "Z.into_u64", "Z.u64_from", "Z.into_balance", "Z.ref_into_balance"} -> x[1]
      [] op \in {"B.from_i64_le_bytes", "B.from_nonnegative_i64_le_bytes",
                 "Z.from_nonnegative_i64_le_bytes"} -> DecI64(x[1])
      [] op \in {"B.to_i64_le_bytes", "Z.to_i64_le_bytes"} -> EncI64(x[1])
      [] op \in {"B.add", "B.oadd", "B.add_z", "B.oadd_z", "Z.add", "Z.oadd"} -> Plus(x[1], x[2])
      [] op \in {"B.sub", "B.osub", "B.sub_z", "B.osub_z", "Z.sub", "Z.osub"} -> Minus(x[1], x[2])
      [] op \in {"B.neg", "Z.neg"} -> NegN(x[1])
      [] op \in {"B.mul_usize", "Z.mul_u64", "Z.mul_usize"} -> Times(x[1], x[2])
      [] op \in RepSumOps -> Times(x[1], x[2])           \* the exact total of x[2] copies of x[1]

Judge(mode, res, m) ==
    IF InRes(res, m) THEN Val(m)
    ELSE CASE mode \in {"opt", "lift"} -> NoneR
           [] mode = "res" -> Err(IF LtN(m, Lo(res)) THEN "underflow" ELSE "overflow")
           [] mode = "io" -> Err("io")
           [] mode = "assert" -> PanicR
           [] mode \in {"total", "enc"} -> Unspecified

\* iterator sums: the left fold of the checked addition starting from zero (an intermediate sum that
\* leaves the range ends the fold with None)
RECURSIVE FoldFrom(_, _, _, _)
FoldFrom(res, acc, s, i) ==
    IF i > Len(s) THEN Val(acc)
    ELSE LET n == Plus(acc, s[i])
         IN  IF InRes(res, n) THEN FoldFrom(res, n, s, i + 1) ELSE NoneR
Fold(res, s) == FoldFrom(res, Zero, s, 1)
\* The property text can also be read as "the exact total, or None iff the total is out of range".  The two
\* readings differ only for signed sums whose running sum leaves the range and comes back; there both
\* outcomes are allowed (SumOutcomes), everywhere else they coincide (theorem in MC_Amounts).
RECURSIVE TotalFrom(_, _)
TotalFrom(s, i) == IF i > Len(s) THEN Zero ELSE Plus(s[i], TotalFrom(s, i + 1))
ExactTotal(res, s) == LET t == TotalFrom(s, 1) IN IF InRes(res, t) THEN Val(t) ELSE NoneR
SumOutcomes(res, s) == {Fold(res, s), ExactTotal(res, s)}

\* Long sums in closed form: n copies of v, then w.  The running sums are k * v (k <= n), which lie between
\* zero and n * v, then n * v + w: the fold gets through the copies iff n * v is in range (theorem in
\* MC_Amounts: RepFold = Fold and RepTotal = ExactTotal on the sequence written out).
RepFold(res, v, n, w) == LET t == Times(v, n)
                         IN  IF InRes(res, t) THEN Judge("opt", res, Plus(t, w)) ELSE NoneR
RepTotal(res, v, n, w) == Judge("opt", res, Plus(Times(v, n), w))
RepOutcomes(res, v, n, w) == {RepFold(res, v, n, w), RepTotal(res, v, n, w)}

\* Zatoshis::read from a reader holding the bytes bs: fewer than 8 bytes is an io error, otherwise the
\* first 8 are decoded
ReadSpec(bs) == IF Len(bs) < NBYTES THEN Err("io") ELSE Judge("io", "Z", LEValue(bs))

\* the specified result of a functional operation on well-typed arguments
Spec(op, x) ==
    LET e == Ops[op]
    IN  CASE e.mode \in {"total", "enc", "opt", "res", "assert", "io"} -> Judge(e.mode, e.res, Math(op, x))
          [] e.mode = "lift" -> IF x[1] = NoneR THEN NoneR ELSE Judge("lift", e.res, Math(op, <<x[1].v, x[2]>>))
          [] e.mode = "fold" -> Fold(e.res, x[1])
          [] e.mode = "foldrep" -> RepFold(e.res, x[1], x[2], x[3])
          [] e.mode = "readn" -> ReadSpec(x[1])

\* ------------------------------------------------------------------ the boundary lattice (DESIGN C09)
Neigh(v) == {Minus(v, One), v, Plus(v, One)}
LatZ   == {Zero, One, Two, Num(3), Num(4), Minus(MAXM, Two), Minus(MAXM, One), MAXM}
LatB   == LatZ \cup {NegN(v) : v \in LatZ}
LatOutI == {Plus(MAXM, One), Plus(MAXM, MAXM), Plus(Plus(MAXM, MAXM), One)}
LatI64 == LatB \cup LatOutI \cup {NegN(v) : v \in LatOutI}
               \cup {I64MAX, Minus(I64MAX, One), I64MIN, Plus(I64MIN, One)}
LatU64 == {v \in LatI64 : LeqN(Zero, v)} \cup {Plus(I64MAX, One), Plus(I64MAX, Two), Minus(U64MAX, One), U64MAX}
LatPat == LatU64 \cup {EncI64(v) : v \in LatI64}
LatMul == {Zero, One, Two, Num(3), HALFM, Plus(HALFM, One), Minus(MAXM, One), MAXM, Plus(MAXM, One),
           QI, Plus(QI, One), QU, Plus(QU, One), P62, I64MAX, Plus(I64MAX, One), Minus(U64MAX, One), U64MAX}
LatDiv == {One, Two, Num(3), Minus(MAXM, One), MAXM, Plus(MAXM, One), I64MAX, Plus(I64MAX, One), U64MAX}
SeqsUpTo2(S) == {<< >>} \cup {<<a>> : a \in S} \cup {<<a, b>> : a \in S, b \in S}
Triples(S) == {<<a, b, c>> : a \in S, b \in S, c \in S}
LatSeqZ == SeqsUpTo2(LatZ) \cup Triples({Zero, One, Minus(MAXM, One), MAXM})
LatSeqB == SeqsUpTo2(LatB) \cup Triples({Zero, One, NegN(One), MAXM, NegN(MAXM)})
\* lengths of long sums: short ones, then both sides of every machine-word boundary the exact total of
\* copies of MAXM crosses: I64MAX (QI | QI+1), U64MAX (QU | QU+1), I64MAX + 2^64 (within one of QI+QU+1),
\* 2 * 2^64 (2*(QU+1) is past it), and the longest
LatRep == {Zero, One, Two, Num(3),
           QI, Plus(QI, One), Plus(QI, Two), QU, Plus(QU, One), Plus(QU, Two),
           Plus(QI, QU), Plus(Plus(QI, QU), One), Plus(Plus(QI, QU), Two),
           Plus(Plus(QU, QU), Two), REPMAX}
Lat(t) == CASE t = "i64" -> LatI64 [] t = "u64" -> LatU64 [] t = "mul" -> LatMul [] t = "nz64" -> LatDiv
            [] t = "pat" -> LatPat [] t = "Z" -> LatZ [] t = "B" -> LatB
            [] t = "oZ" -> {NoneR} \cup {Val(v) : v \in LatZ}
            [] t = "oB" -> {NoneR} \cup {Val(v) : v \in LatB}
            [] t = "seqZ" -> LatSeqZ [] t = "seqB" -> LatSeqB
            [] t = "rep" -> LatRep
            [] t = "raw" -> {}
=========================================================================================
