SPECIFICATION TraceSpec
CONSTANTS
  StrictKinds = TRUE
  AllowSpuriousNone = FALSE
POSTCONDITION Accepted
CHECK_DEADLOCK FALSE
