INIT Init
NEXT Next
