SPECIFICATION TraceSpec
CONSTANTS
  StrictKinds = FALSE
  AllowSpuriousNone = TRUE
POSTCONDITION Accepted
CHECK_DEADLOCK FALSE
