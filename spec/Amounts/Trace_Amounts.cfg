SPECIFICATION TraceSpec
CONSTANTS
  StrictKinds = FALSE
  AllowSpuriousNone = FALSE
POSTCONDITION Accepted
CHECK_DEADLOCK FALSE
