----------------------------------- MODULE Trace_Amounts -----------------------------------
(* C09, code -> spec.  Every line of the ndjson file IOEnv.TRACE is one call of a public operation  *)
(* of Zatoshis / ZatBalance on the real code:                                                       *)
(*    op   name of the operation (a key of Amounts!Ops)                                             *)
(*    a    its arguments as decimal numerals ("none" for an absent Option operand; for the          *)
(*         iterator sums the list of summands; for the long sums <<amount, number of copies>> or    *)
(*         <<amount, number of copies, last summand>>; for byte parsers the pattern number)          *)
(*    b    input bytes (byte parsers; otherwise empty)                                              *)
(*    r    the outcome: <<numeral>> | <<"none">> | <<"err:overflow">> | <<"err:underflow">> |       *)
(*         <<"err:io">> | <<"panic">> | <<"bytes">> | <<quotient, remainder>>                       *)
(*    ob   output bytes (encoders; otherwise empty)                                                 *)
(* The records are independent (whole-table form): the only variable is the line counter, and a     *)
(* step is possible iff the logged outcome is the one Amounts!Spec allows for the logged arguments, *)
(* evaluated over DecInt at the real constants.  Quotients are checked, not computed.  The final    *)
(* record  op = "end", a = <<number of records>>  guards against truncation.                        *)
EXTENDS RealAmounts, Json, IOUtils

CONSTANTS StrictKinds,        \* TRUE: Err must carry the kind the rustdoc convention suggests (informational runs only)
          AllowSpuriousNone   \* TRUE: tolerate  ZatBalance(0) * (usize > i64::MAX) = None  (see notes/c09-report.md)
VARIABLE l

Rec == ndJsonDeserialize(IOEnv.TRACE)

ErrStrings == {<<"err:overflow">>, <<"err:underflow">>, <<"err:io">>}
Shown(r) == CASE r.t = "val" -> {<<DecToString(r.v)>>}
              [] r.t = "none" -> {<<"none">>}
              [] r.t = "panic" -> {<<"panic">>}
              [] r.t = "err" -> IF StrictKinds THEN {<<"err:" \o r.k>>} ELSE ErrStrings

ArgSyntaxOK(ty, s) == CASE ty \in OptTypes -> s = "none" \/ IsNumeral(s)
                        [] OTHER -> IsNumeral(s)
ArgOf(ty, s) == CASE ty \in OptTypes -> (IF s = "none" THEN A!NoneR ELSE A!Val(N(s)))
                  [] OTHER -> N(s)

SyntaxOK(e) ==
    /\ e.op \in A!OpNames
    /\ LET sig == A!Ops[e.op].sig
       IN  CASE sig \in {<<"seqZ">>, <<"seqB">>} -> \A i \in 1..Len(e.a) : IsNumeral(e.a[i])
             [] sig = <<"raw">> -> e.a = << >>
             [] OTHER -> Len(e.a) = Len(sig) /\ \A i \in 1..Len(sig) : ArgSyntaxOK(sig[i], e.a[i])

Args(e) ==
    LET sig == A!Ops[e.op].sig
    IN  CASE sig \in {<<"seqZ">>, <<"seqB">>} -> << [i \in 1..Len(e.a) |-> N(e.a[i])] >>
          [] sig = <<"raw">> -> << e.b >>
          [] OTHER -> [i \in 1..Len(sig) |-> ArgOf(sig[i], e.a[i])]

\* The one place where the pinned code signals failure although the exact result is in range:
\* Mul<usize> for ZatBalance converts the multiplier to i64 first, so 0 * k is None for k > i64::MAX.
SpuriousNone(op, x) ==
    IF AllowSpuriousNone /\ op = "B.mul_usize" /\ x[1] = Zero /\ Lt(RI64MAX, x[2]) THEN {<<"none">>} ELSE {}

Allowed(e) ==
    /\ SyntaxOK(e)
    /\ LET ent == A!Ops[e.op]
           x == Args(e)
       IN  /\ A!WellTyped(e.op, x)
           /\ IF ent.sig = <<"pat">> THEN A!IsBytes(e.b) /\ A!LEValue(e.b) = x[1]     \* the bytes denote the pattern
              ELSE IF ent.sig = <<"raw">> THEN TRUE ELSE e.b = << >>
           /\ CASE ent.mode = "enc" ->
                     /\ e.r = <<"bytes">> /\ A!IsBytes(e.ob)
                     /\ A!Spec(e.op, x) = A!Val(A!LEValue(e.ob))
                [] ent.mode = "div" ->
                     /\ e.ob = << >> /\ Len(e.r) = 1 /\ IsNumeral(e.r[1])
                     /\ A!InZ(N(e.r[1]))
                     /\ A!DivOK(x[1], x[2], N(e.r[1]))
                [] ent.mode = "quotrem" ->
                     /\ e.ob = << >> /\ Len(e.r) = 2 /\ IsNumeral(e.r[1]) /\ IsNumeral(e.r[2])
                     /\ A!InZ(N(e.r[1])) /\ A!InZ(N(e.r[2]))
                     /\ A!QuotRemOK(x[1], x[2], N(e.r[1]), N(e.r[2]))
                [] ent.mode = "fold" ->
                     /\ e.ob = << >>
                     /\ e.r \in UNION {Shown(o) : o \in A!SumOutcomes(ent.res, x[1])}
                [] ent.mode = "foldrep" ->
                     /\ e.ob = << >>
                     /\ e.r \in UNION {Shown(o) : o \in A!RepOutcomes(ent.res, x[1], x[2], x[3])}
                [] OTHER ->
                     /\ e.ob = << >>
                     /\ e.r \in (Shown(A!Spec(e.op, x)) \cup SpuriousNone(e.op, x))

\* for the report of a rejected record: what the specification allows there
Expected(e, n) ==
    IF e.op = "end" THEN <<"the end record must be last and carry the number of records before it", ToString(n)>>
    ELSE IF ~SyntaxOK(e) THEN <<"malformed record">>
    ELSE IF ~A!WellTyped(e.op, Args(e)) THEN <<"ill-typed arguments">>
    ELSE LET ent == A!Ops[e.op]  x == Args(e)
         IN  CASE ent.mode = "enc" -> <<"the 8 little-endian bytes of", DecToString(A!Spec(e.op, x).v)>>
               [] ent.mode \in {"div", "quotrem"} -> <<"q*d + r = v, 0 <= r < d">>
               [] ent.mode = "fold" -> <<"one of", UNION {Shown(o) : o \in A!SumOutcomes(ent.res, x[1])}>>
               [] ent.mode = "foldrep" -> <<"one of", UNION {Shown(o) : o \in A!RepOutcomes(ent.res, x[1], x[2], x[3])}>>
               [] OTHER -> <<"one of", Shown(A!Spec(e.op, x)) \cup SpuriousNone(e.op, x)>>

IsEnd(e) == e.op = "end" /\ e.a = <<ToString(l - 1)>>

TraceInit == l = 1
TraceNext == /\ l <= Len(Rec)
             /\ IF Rec[l].op = "end" THEN IsEnd(Rec[l]) /\ l = Len(Rec) ELSE Allowed(Rec[l])
             /\ l' = l + 1
TraceSpec == TraceInit /\ [][TraceNext]_l

\* the last record must be the end marker (a trace cut short is not accepted)
Accepted == LET n == TLCGet("stats").diameter - 1
            IN  IF n = Len(Rec) /\ n >= 1 /\ Rec[n].op = "end"
                THEN PrintT(<<"TRACE", "accepted", n>>)
                ELSE IF n = Len(Rec)
                THEN PrintT(<<"TRACE", "rejected", n + 1, "missing end record">>) /\ FALSE
                ELSE PrintT(<<"TRACE", "rejected", n + 1, ToJson(Rec[n + 1]), "expected", ToJson(Expected(Rec[n + 1], n))>>) /\ FALSE
============================================================================================
