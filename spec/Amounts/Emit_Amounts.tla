----------------------------------- MODULE Emit_Amounts -----------------------------------
(* Prints the operation table and the boundary lattice of the specification at the real constants  *)
(* (decimal numerals).  The driver evaluates every operation on every tuple of its lattice; the     *)
(* check requires the trace to contain exactly those tuples (plus the seeded random ones).          *)
EXTENDS RealAmounts, Json

ShowArg(t, a) == CASE t \in OptTypes -> (IF a = A!NoneR THEN "none" ELSE DecToString(a.v))
                   [] t \in SeqTypes -> [i \in 1..Len(a) |-> DecToString(a[i])]
                   [] OTHER -> DecToString(a)
Types == ScalarTypes \cup OptTypes \cup SeqTypes \cup {"raw"}

ASSUME PrintT(<<"SIGS", ToJson([op \in A!OpNames |-> A!Ops[op]])>>)
ASSUME PrintT(<<"LAT", ToJson([t \in Types |-> {ShowArg(t, a) : a \in A!Lat(t)}])>>)
ASSUME PrintT(<<"CONSTS", ToJson([maxm |-> DecToString(RMAXM), i64max |-> DecToString(RI64MAX),
                                   i64min |-> DecToString(A!I64MIN), u64max |-> DecToString(RU64MAX),
                                   repmax |-> DecToString(RREPMAX)])>>)
VARIABLE u
Init == u = 0
Next == UNCHANGED u
===========================================================================================
