----------------------------------- MODULE RealAmounts -----------------------------------
(* Amounts instantiated over DecInt with the real constants of the protocol and of the machine.    *)
(* The constants are digit literals, checked against their derivations (21 000 000 * 10^8,         *)
(* 2^63 - 1, 2^64 - 1) and against their decimal numerals; the three floor-quotients are *checked*  *)
(* by Amounts!ConstOK (q*d <= v < q*d + d), never computed.                                         *)
EXTENDS DecInt, TLC

\* literals (little-endian digits), so that no evaluation ever recomputes them; derivations are checked below
RMAXM   == [neg |-> FALSE, d |-> <<0,0,0,0,0,0,0,0,0,0,0,0,0,0,1,2>>]                \* 2100000000000000
RI64MAX == [neg |-> FALSE, d |-> <<7,0,8,5,7,7,4,5,8,6,3,0,2,7,3,3,2,2,9>>]       \* 9223372036854775807
RU64MAX == [neg |-> FALSE, d |-> <<5,1,6,1,5,5,9,0,7,3,7,0,4,4,7,6,4,4,8,1>>]     \* 18446744073709551615
RHALFM  == [neg |-> FALSE, d |-> <<0,0,0,0,0,0,0,0,0,0,0,0,0,5,0,1>>]                  \* 1050000000000000
RREPMAX == FromInt(20000)         \* the longest run of equal summands the harness materialises (long sums)
RP62    == [neg |-> FALSE, d |-> <<4,0,9,7,8,3,7,2,4,8,1,0,6,8,6,1,1,6,4>>]       \* 4611686018427387904

A == INSTANCE Amounts WITH
        Plus <- Add, Minus <- Sub, Times <- Mul, LeqN <- Leq, Num <- FromInt,
        MAXM <- RMAXM, I64MAX <- RI64MAX, U64MAX <- RU64MAX,
        HALFM <- RHALFM, QI <- FromInt(4392), QU <- FromInt(8784), P62 <- RP62, REPMAX <- RREPMAX,
        BYTEBASE <- 256, NBYTES <- 8

\* MAX_MONEY = 21_000_000 * COIN, COIN = 1_0000_0000 (value.rs); i64 and u64 are 64-bit two's complement
ASSUME RMAXM = MulSmall(FromInt(21000000), 100000000)
ASSUME RU64MAX = Sub(Pow(FromInt(2), 64), One)
ASSUME RI64MAX = Sub(Pow(FromInt(2), 63), One)
ASSUME RP62 = Pow(FromInt(2), 62)
ASSUME IsDec(RMAXM) /\ IsDec(RI64MAX) /\ IsDec(RU64MAX) /\ IsDec(RHALFM) /\ IsDec(RP62)
ASSUME A!ConstOK
ASSUME DecToString(RMAXM) = "2100000000000000"
ASSUME DecToString(RI64MAX) = "9223372036854775807"
ASSUME DecToString(A!I64MIN) = "-9223372036854775808"
ASSUME DecToString(RU64MAX) = "18446744073709551615"
ASSUME \A t \in {"i64", "u64", "mul", "nz64", "pat", "Z", "B", "oZ", "oB", "seqZ", "seqB", "rep"} :
          \A a \in A!Lat(t) : A!WellTypedArg(t, a)
\* the lengths of the long sums straddle both machine words: QI (QU) copies of MAX_MONEY still fit i64 (u64),
\* one more does not; the longest sums pass 2^64 twice
ASSUME /\ Leq(Mul(RMAXM, FromInt(4392)), RI64MAX) /\ Lt(RI64MAX, Mul(RMAXM, FromInt(4393)))
       /\ Leq(Mul(RMAXM, FromInt(8784)), RU64MAX) /\ Lt(RU64MAX, Mul(RMAXM, FromInt(8785)))
       /\ Lt(Add(A!TWO64, A!TWO64), Mul(RMAXM, FromInt(17570)))
       /\ {FromInt(n) : n \in {4392, 4393, 8784, 8785, 17570, 20000}} \subseteq A!LatRep

N(s) == DecFromString(s)
ScalarTypes == {"i64", "u64", "mul", "nz64", "pat", "Z", "B", "rep"}
OptTypes == {"oZ", "oB"}
SeqTypes == {"seqZ", "seqB"}
==========================================================================================
