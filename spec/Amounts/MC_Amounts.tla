----------------------------------- MODULE MC_Amounts -----------------------------------
(* Amounts instantiated with TLC's native integers and a tiny world:                               *)
(*     MAX_MONEY = 5,   "bytes" are base-4 digits, 3 of them:  u64 = 0..63,  i64 = -32..31.        *)
(* TLC checks the theorems of C09 for EVERY operation on EVERY well-typed argument tuple of that   *)
(* world (one state per case): totality, closure, exactness against an independently written       *)
(* native-arithmetic table, inverse / commutation / lifting laws, the machine-range lemma, sums,   *)
(* uniqueness of checked quotients, and the encode/decode theorems (round trip, canonicity,        *)
(* rejection of every out-of-range pattern).  Long sums (0..30 equal summands, so that the exact    *)
(* total passes i64 at 7, u64 at 13 and 2 * 2^64 at 26 copies of MAX_MONEY): the closed forms of      *)
(* Amounts are the fold / the exact total of the sequence written out, and for equal summands the    *)
(* two coincide.                                                                                   *)
EXTENDS Integers, Sequences, FiniteSets, TLC, Json

M   == 5
IMX == 31
UMX == 63
NPlus(a, b) == a + b
NMinus(a, b) == a - b
NTimes(a, b) == a * b
NLeq(a, b) == a <= b
NNum(n) == n
A == INSTANCE Amounts WITH
        Plus <- NPlus, Minus <- NMinus, Times <- NTimes, LeqN <- NLeq, Num <- NNum,
        MAXM <- M, I64MAX <- IMX, U64MAX <- UMX, HALFM <- 2, QI <- 6, QU <- 12, P62 <- 16, REPMAX <- 30,
        BYTEBASE <- 4, NBYTES <- 3

ASSUME A!ConstOK

CONSTANT SeqLen      \* longest iterator checked (sums)

VARIABLES fam, c, done
vars == <<fam, c, done>>

\* ------------------------------------------------------------------ the case space
ScalarOps == {op \in A!OpNames : A!Ops[op].mode \in {"total", "enc", "opt", "res", "assert", "io", "lift"}}
MixOps == {op \in A!OpNames : A!Ops[op].mode = "foldrep"}
Families == ScalarOps \cup {"seqZ", "seqB", "div", "bytes", "mixB"}

Dom(t) == CASE t = "i64" -> (-32)..31
            [] t \in {"u64", "mul", "pat"} -> 0..63
            [] t = "nz64" -> 1..63
            [] t = "Z" -> 0..M
            [] t = "B" -> (-M)..M
            [] t = "rep" -> 0..30
            [] t = "oZ" -> {A!NoneR} \cup {A!Val(v) : v \in 0..M}
            [] t = "oB" -> {A!NoneR} \cup {A!Val(v) : v \in (-M)..M}
Tuples(sig, D(_)) == CASE Len(sig) = 0 -> {<< >>}
                       [] Len(sig) = 1 -> {<<a>> : a \in D(sig[1])}
                       [] Len(sig) = 2 -> {<<a, b>> : a \in D(sig[1]), b \in D(sig[2])}
SeqsOver(S, n) == UNION {[1..k -> S] : k \in 0..n}
Cases(f) == CASE f \in ScalarOps -> Tuples(A!Ops[f].sig, Dom)
              [] f = "seqZ" -> SeqsOver(0..M, SeqLen)
              [] f = "seqB" -> SeqsOver((-M)..M, SeqLen)
              [] f = "div" -> (0..M) \X (1..63)
              [] f = "bytes" -> SeqsOver(0..3, 4)
              [] f = "mixB" -> ((-M)..M) \X (0..30) \X ((-M)..M)

Init == fam \in Families /\ c = << >> /\ done = FALSE
Eval == ~done /\ c' \in Cases(fam) /\ done' = TRUE /\ fam' = fam
Next == Eval
Spec == Init /\ [][Next]_vars

\* ------------------------------------------------------------------ independent native table
S(p) == IF p <= IMX THEN p ELSE p - 64              \* signed reading of a pattern
P(v) == IF v >= 0 THEN v ELSE v + 64                \* pattern of a signed value
LiftOps == {"B.oadd", "B.osub", "B.oadd_z", "B.osub_z", "Z.oadd", "Z.osub"}
Lhs(op, x) == IF op \in LiftOps THEN x[1].v ELSE x[1]   \* unwrap a present Option operand
NMath(op, x) ==
    CASE op \in {"B.zero", "Z.zero"} -> 0
      [] op \in {"B.from_i64_le_bytes", "B.from_nonnegative_i64_le_bytes", "Z.from_nonnegative_i64_le_bytes"} -> S(x[1])
      [] op \in {"B.to_i64_le_bytes", "Z.to_i64_le_bytes"} -> P(x[1])
      [] op \in {"B.add", "B.oadd", "B.add_z", "B.oadd_z", "Z.add", "Z.oadd"} -> Lhs(op, x) + x[2]
      [] op \in {"B.sub", "B.osub", "B.sub_z", "B.osub_z", "Z.sub", "Z.osub"} -> Lhs(op, x) - x[2]
      [] op \in {"B.neg", "Z.neg"} -> -x[1]
      [] op \in {"B.mul_usize", "Z.mul_u64", "Z.mul_usize"} -> x[1] * x[2]
      [] op \in {"B.sum_rep", "B.isum_rep", "B.isum_ref_rep", "Z.isum_rep", "Z.isum_ref_rep"} -> x[1] * x[2]
      [] OTHER -> x[1]
NLo(res) == CASE res = "Z" -> 0 [] res = "B" -> -5 [] res = "i64" -> -32 [] res = "u64" -> 0
NHi(res) == CASE res = "Z" -> 5 [] res = "B" -> 5  [] res = "i64" -> 31  [] res = "u64" -> 63
Failure(mode, below) == CASE mode \in {"opt", "lift"} -> A!NoneR
                          [] mode = "res" -> A!Err(IF below THEN "underflow" ELSE "overflow")
                          [] mode = "io" -> A!Err("io")
                          [] mode = "assert" -> A!PanicR

Encoders == {"B.to_i64_le_bytes", "Z.to_i64_le_bytes", "Z.to_u64_le_bytes", "Z.write"}
Decoders == {"B.from_i64_le_bytes", "B.from_nonnegative_i64_le_bytes", "B.from_u64_le_bytes",
             "Z.from_u64_le_bytes", "Z.from_nonnegative_i64_le_bytes", "Z.read"}
AddOps == {"Z.add", "B.add", "B.add_z"}
SubOps == {"Z.sub", "B.sub", "B.sub_z"}
SubOf(op) == CASE op = "Z.add" -> "Z.sub" [] op = "B.add" -> "B.sub" [] op = "B.add_z" -> "B.sub_z"
AddOf(op) == CASE op = "Z.sub" -> "Z.add" [] op = "B.sub" -> "B.add" [] op = "B.sub_z" -> "B.add_z"
BaseOf(op) == CASE op = "Z.oadd" -> "Z.add" [] op = "Z.osub" -> "Z.sub" [] op = "B.oadd" -> "B.add"
                [] op = "B.osub" -> "B.sub" [] op = "B.oadd_z" -> "B.add_z" [] op = "B.osub_z" -> "B.sub_z"

\* ------------------------------------------------------------------ theorems, per case
OpTheorems(op, x) ==
    LET e == A!Ops[op]
        r == A!Spec(op, x)
        lo == NLo(e.res)  hi == NHi(e.res)
        absent == e.mode = "lift" /\ x[1] = A!NoneR
        m == NMath(op, x)
    IN  /\ A!WellTyped(op, x)
        \* totality: an outcome of the documented kind, never "unspecified"
        /\ r.t \in (CASE e.mode \in {"total", "enc"} -> {"val"}
                      [] e.mode \in {"opt", "lift"} -> {"val", "none"}
                      [] e.mode \in {"res", "io"} -> {"val", "err"}
                      [] e.mode = "assert" -> {"val", "panic"})
        \* closure
        /\ (r.t = "val" => lo <= r.v /\ r.v <= hi)
        \* exactness: the exact integer when it is in range, the documented failure exactly otherwise
        /\ IF absent THEN r = A!NoneR
           ELSE IF lo <= m /\ m <= hi THEN r = A!Val(m)
           ELSE r = Failure(e.mode, m < lo)
        \* a lifted operator with a present operand is the plain operator
        /\ (e.mode = "lift" /\ ~absent => r = A!Spec(BaseOf(op), <<x[1].v, x[2]>>))
        \* machine-range lemma: + and - of valid amounts never leave i64 before the range test
        /\ (~absent /\ (op \in AddOps \cup SubOps \/ e.mode = "lift") => -32 <= m /\ m <= 31)
        \* inverse and commutation laws
        /\ (op \in AddOps /\ r.t = "val" => A!Spec(SubOf(op), <<r.v, x[2]>>) = A!Val(x[1]))
        /\ (op \in SubOps /\ r.t = "val" => A!Spec(AddOf(op), <<r.v, x[2]>>) = A!Val(x[1]))
        /\ (op \in {"Z.add", "B.add"} => A!Spec(op, <<x[2], x[1]>>) = r)
        /\ (op = "B.sub" => A!Spec("B.add", <<x[1], A!Spec("B.neg", <<x[2]>>).v>>) = r)
        /\ (op = "B.neg" => A!Spec("B.neg", <<r.v>>) = A!Val(x[1]))
        /\ (op = "Z.neg" => r = A!Spec("B.neg", <<A!Spec("Z.into_balance", x).v>>))
        /\ (op = "Z.sub" => (r = A!NoneR) = (A!Spec("B.sub", x).v < 0))
        /\ (op = "Z.into_balance" => A!Spec("Z.try_from_balance", <<r.v>>) = A!Val(x[1]))
        /\ (op = "B.try_into_u64" => (r.t = "val") = (x[1] >= 0)
                                     /\ (r.t = "val") = (A!Spec("Z.try_from_balance", x).t = "val"))
        \* multiplication by a small k is k-fold checked addition
        /\ (op \in {"Z.mul_u64", "Z.mul_usize", "B.mul_usize"} /\ x[2] <= 7
                => r = A!Fold(e.res, [i \in 1..x[2] |-> x[1]]))
        \* long sums: the sum of n equal summands is the left fold of the checked addition over the sequence
        \* written out, and the exact total of that sequence (the two readings of "sum" coincide); it is the
        \* short-sum operation on that sequence; and it is the checked multiplication
        /\ (op \in A!RepSumOps =>
                LET s == [i \in 1..x[2] |-> x[1]]
                IN  /\ r = A!Fold(e.res, s)
                    /\ r = A!ExactTotal(e.res, s)
                    /\ A!SumOutcomes(e.res, s) = {r}
                    /\ r = A!Spec(IF e.res = "Z" THEN "Z.isum" ELSE "B.sum", <<s>>)
                    /\ r = A!Spec(IF e.res = "Z" THEN "Z.mul_usize" ELSE "B.mul_usize", x)
                    /\ r = A!RepFold(e.res, x[1], x[2], 0) /\ r = A!RepTotal(e.res, x[1], x[2], 0)
                    /\ (r.t = "val") = (\A k \in 0..x[2] : lo <= k * x[1] /\ k * x[1] <= hi))
        \* encodings: every decoder inverts every encoder on the decoder's own range and rejects the rest;
        \* a decoded value re-encodes to the very same pattern (one pattern per value)
        /\ (op \in Encoders =>
                \A d \in Decoders :
                    IF NLo(A!Ops[d].res) <= x[1] /\ x[1] <= NHi(A!Ops[d].res)
                    THEN A!Spec(d, <<r.v>>) = A!Val(x[1])
                    ELSE A!Spec(d, <<r.v>>).t # "val")
        /\ (op \in Decoders /\ r.t = "val" =>
                \A en \in Encoders :
                    A!WellTyped(en, <<r.v>>) => A!Spec(en, <<r.v>>) = A!Val(x[1]))
        /\ (op \in Decoders => (r.t = "val") = (lo <= m /\ m <= hi))

RECURSIVE SumTo(_, _)
SumTo(s, n) == IF n = 0 THEN 0 ELSE SumTo(s, n - 1) + s[n]
RECURSIVE LiftFold(_, _, _, _)
LiftFold(op, acc, s, i) == IF i > Len(s) THEN acc ELSE LiftFold(op, A!Spec(op, <<acc, s[i]>>), s, i + 1)

SeqTheorems(kind, s) ==
    LET res == IF kind = "seqZ" THEN "Z" ELSE "B"
        r == A!Fold(res, s)
        total == SumTo(s, Len(s))
        prefixesOK == \A n \in 0..Len(s) : NLo(res) <= SumTo(s, n) /\ SumTo(s, n) <= NHi(res)
    IN  /\ r.t \in {"val", "none"}
        /\ (r.t = "val" => r.v = total /\ NLo(res) <= r.v /\ r.v <= NHi(res))    \* never a wrong or out-of-range sum
        /\ (r.t = "val") = prefixesOK                                            \* fails iff a running sum leaves the range
        /\ (kind = "seqZ" => (r.t = "val") = (total <= M))                       \* non-negative: iff the total fits
        /\ A!TotalFrom(s, 1) = total
        /\ (r.t = "val" => A!ExactTotal(res, s) = r)                             \* the two readings of "sum" agree ...
        /\ (kind = "seqZ" => A!ExactTotal(res, s) = r)                           \* ... always for non-negative amounts
        /\ (A!ExactTotal(res, s) # r => ~prefixesOK /\ NLo(res) <= total /\ total <= NHi(res))
        /\ r = LiftFold(IF kind = "seqZ" THEN "Z.oadd" ELSE "B.oadd", A!Val(0), s, 1)
        /\ (kind = "seqZ" => A!Spec("Z.isum", <<s>>) = r /\ A!Spec("Z.isum_ref", <<s>>) = r)
        /\ (kind = "seqB" => A!Spec("B.sum", <<s>>) = r /\ A!Spec("B.isum", <<s>>) = r /\ A!Spec("B.isum_ref", <<s>>) = r)

\* n copies of v, then w: the closed forms are the fold / the exact total of the sequence written out
MixTheorems(v, n, w) ==
    LET s == [i \in 1..(n + 1) |-> IF i <= n THEN v ELSE w]
        f == A!Fold("B", s)
        t == A!ExactTotal("B", s)
    IN  /\ \A op \in MixOps : A!WellTyped(op, <<v, n, w>>) /\ A!Ops[op].res = "B" /\ A!Spec(op, <<v, n, w>>) = f
        /\ MixOps # {}
        /\ A!RepFold("B", v, n, w) = f
        /\ A!RepTotal("B", v, n, w) = t
        /\ A!RepOutcomes("B", v, n, w) = A!SumOutcomes("B", s)
        /\ t = (IF -M <= n * v + w /\ n * v + w <= M THEN A!Val(n * v + w) ELSE A!NoneR)
        /\ (f.t = "val") = ((-M <= n * v /\ n * v <= M) /\ t.t = "val")
        /\ (f # t => f = A!NoneR /\ t.t = "val")          \* the readings differ only by a spurious None
        \* with non-negative amounts the two readings coincide here too
        /\ (v >= 0 /\ w >= 0 => A!RepFold("Z", v, n, w) = A!RepTotal("Z", v, n, w)
                                 /\ A!RepFold("Z", v, n, w) = A!Fold("Z", s))

DivTheorems(v, d) ==
    /\ {q \in 0..63 : A!DivOK(v, d, q)} = {v \div d}                   \* the check pins the quotient
    /\ {qr \in (0..63) \X (0..63) : A!QuotRemOK(v, d, qr[1], qr[2])} = {<<v \div d, v % d>>}
    /\ A!InZ(v \div d) /\ A!InZ(v % d)                                  \* quotient and remainder of a valid amount are valid

ByteTheorems(bs) ==
    /\ (Len(bs) < 3 => A!ReadSpec(bs) = A!Err("io") /\ ~A!IsBytes(bs))
    /\ (Len(bs) = 3 => /\ A!IsBytes(bs)
                       /\ A!LEValue(bs) = bs[1] + 4 * bs[2] + 16 * bs[3]
                       /\ A!ReadSpec(bs) = A!Spec("Z.read", <<A!LEValue(bs)>>)
                       /\ A!Spec("Z.read_n", <<bs>>) = A!ReadSpec(bs))
    /\ (Len(bs) = 4 => A!ReadSpec(bs) = A!ReadSpec(SubSeq(bs, 1, 3)))  \* only the first 8 bytes are consumed

Theorems ==
    done => CASE fam \in ScalarOps -> OpTheorems(fam, c)
              [] fam \in {"seqZ", "seqB"} -> SeqTheorems(fam, c)
              [] fam = "div" -> DivTheorems(c[1], c[2])
              [] fam = "bytes" -> ByteTheorems(c)
              [] fam = "mixB" -> MixTheorems(c[1], c[2], c[3])

\* ------------------------------------------------------------------ global facts (evaluated once)
ASSUME PrintT(<<"CASES", ToJson([f \in Families |-> Cardinality(Cases(f))])>>)
\* little-endian value is a bijection between byte strings and patterns
ASSUME LET V == {A!LEValue(bs) : bs \in [1..3 -> 0..3]} IN V = 0..63
\* two's complement
ASSUME \A v \in (-32)..31 : A!DecI64(A!EncI64(v)) = v /\ A!EncI64(v) \in 0..63
ASSUME \A p \in 0..63 : A!EncI64(A!DecI64(p)) = p /\ A!DecI64(p) \in (-32)..31
\* re-validation after a machine-checked multiplication is necessary, and machine overflow is possible
ASSUME \E a \in 0..M, k \in 0..63 : a * k <= 63 /\ a * k > M
ASSUME \E a \in 0..M, k \in 0..63 : a * k > 63
\* the exact total of a long sum leaves the machine words (both ways for signed amounts), and the lattice of
\* lengths has both sides of each crossing for summands equal to MAX_MONEY
ASSUME /\ {6, 7, 12, 13, 18, 19, 20, 26, 30} \subseteq A!LatRep
       /\ 6 * M <= IMX /\ 7 * M > IMX /\ 12 * M <= UMX /\ 13 * M > UMX
       /\ \E n \in A!LatRep : IMX + 64 - M < n * M /\ n * M <= IMX + 64
       /\ \E n \in A!LatRep : IMX + 64 < n * M /\ n * M <= IMX + 64 + M
       /\ 26 * M > 2 * 64 /\ \A n \in A!LatRep : n \in 0..30
\* a 64-bit wrap of an out-of-range total can land inside the valid range (so a range test of the wrapped
\* total is not enough): 13 * 5 = 65 = 1 mod 64
ASSUME \E n \in A!LatRep, v \in A!LatZ : n * v > UMX /\ (n * v) % 64 <= M
\* the lattice is well typed ...
ASSUME \A t \in {"i64", "u64", "mul", "nz64", "pat", "Z", "B", "oZ", "oB", "seqZ", "seqB", "rep"} :
          \A a \in A!Lat(t) : A!WellTypedArg(t, a)
\* ... and adequate: whenever an operation can produce an exact result at or next to a bound of its
\* range at all, some lattice tuple produces exactly that result
LatTuples(op) == Tuples(A!Ops[op].sig, A!Lat)
ASSUME \A op \in ScalarOps :
          LET e == A!Ops[op]
              plain(x) == ~(e.mode = "lift" /\ x[1] = A!NoneR)
          IN  \A b \in {NLo(e.res) - 1, NLo(e.res), NHi(e.res), NHi(e.res) + 1} :
                  (\E x \in Cases(op) : plain(x) /\ NMath(op, x) = b)
                      => (\E x \in LatTuples(op) : plain(x) /\ NMath(op, x) = b)
\* every fallible operation both succeeds and fails somewhere on the lattice
ASSUME \A op \in ScalarOps :
          A!Ops[op].mode \in A!FallibleModes
              => /\ \E x \in LatTuples(op) : A!Spec(op, x).t = "val"
                 /\ \E x \in LatTuples(op) : A!Spec(op, x).t # "val"
=========================================================================================
