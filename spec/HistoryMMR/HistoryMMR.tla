------------------------------- MODULE HistoryMMR -------------------------------
(* C20 - the chain-history tree (ZIP 221 Merkle mountain range) of zcash_history.                  *)
(*                                                                                                  *)
(* Node data is a FREE TERM ALGEBRA: a leaf is <<id>>, a combination is <<l, r>>.  Nothing is ever  *)
(* simplified, so two nodes are equal iff they were combined from the same leaves in the same shape *)
(* and order.  The persistent form is the array representation `arr` (entries with a term and the   *)
(* array indices of the children, 1-based here, 0 = no child; emitted 0-based).                     *)
(*                                                                                                  *)
(*   Build(ls), RebuildRoot(ls)    from-scratch construction from the current leaves only           *)
(*   AppendOp, TruncOp             the operations, defined over a PARTIAL view (a function whose    *)
(*                                  domain is the set of loaded indices - reading anything else is  *)
(*                                  a TLC evaluation error, i.e. a tool error on the model alone)   *)
(*   NeededA(n), NeededT(n)        closed-form index sets an operation may touch                    *)
(*   Fields(v), CompactClasses     ZIP 221 node layout + combination rule per field, as DATA that   *)
(*                                  the conformance harness interprets (it does not call the crate) *)
(*                                                                                                  *)
(* Theorems (invariants, checked by TLC in every explored state): ArrIsBuild, RootIsRebuild,        *)
(* LenLaw, AppendTruncateRestores, ViewSuffices, NeededExact, FieldLaws (each field rule computes   *)
(* the meaning ZIP 221 gives the field: first / last / total over the leaf interval), HeightLaw     *)
(* (with consecutive leaf heights, end - start + 1 is the number of leaves of every node).          *)
EXTENDS Naturals, Sequences, FiniteSets, TLC, Json

CONSTANTS StartSizes,   \* leaf counts the exploration starts from (array built from scratch)
          MaxSteps,     \* operations explored from each start (free mode)
          MaxLeaves,    \* cap on the number of leaves
          Scheds,       \* << >> : free mode (all interleavings).  Otherwise a sequence of schedules,
                        \* each a sequence of op codes 0 = truncate, 1 = truncate on a fresh view,
                        \* 2 = append, 3 = append on a fresh view; a behaviour follows one schedule.
          Emit          \* print INIT / EDGE lines for the conformance replay

VARIABLES leaves,   \* sequence of leaf ids currently in the tree (distinct naturals)
          arr,      \* array representation
          view,     \* indices currently loaded in the partial view (the Tree object's stored map)
          fresh,    \* next unused leaf id (a re-appended leaf is a new leaf)
          step,     \* operations performed
          sid,      \* schedule followed (0 in free mode)
          start,    \* the start size of this behaviour
          hist      \* emitted step records so far (free mode only; hidden by VIEW)

vars == << leaves, arr, view, fresh, step, sid, start, hist >>

Range(s) == { s[i] : i \in DOMAIN s }

-----------------------------------------------------------------------------------
\* Terms

LeafT(i) == << i >>
Comb(l, r) == << l, r >>
IsLeafT(t) == Len(t) = 1

RECURSIVE NLeaves(_)
NLeaves(t) == IF IsLeafT(t) THEN 1 ELSE NLeaves(t[1]) + NLeaves(t[2])

RECURSIVE LeafSeq(_)
LeafSeq(t) == IF IsLeafT(t) THEN << t[1] >> ELSE LeafSeq(t[1]) \o LeafSeq(t[2])

\* bagging of the peaks, left to right:  ((p1 . p2) . p3) . ...
RECURSIVE BagFrom(_, _, _)
BagFrom(ts, i, acc) == IF i > Len(ts) THEN acc ELSE BagFrom(ts, i + 1, Comb(acc, ts[i]))
Bag(ts) == BagFrom(ts, 2, ts[1])

LeafEntry(i) == [t |-> LeafT(i), l |-> 0, r |-> 0]

-----------------------------------------------------------------------------------
\* Shape arithmetic: everything that follows from the number of leaves alone

RECURSIVE Pow2Le(_, _)
Pow2Le(n, p) == IF 2 * p <= n THEN Pow2Le(n, 2 * p) ELSE p        \* largest power of two <= n (n >= 1)

RECURSIVE PeakSizes(_)                                            \* binary decomposition, largest first
PeakSizes(n) == IF n = 0 THEN << >> ELSE LET p == Pow2Le(n, 1) IN << p >> \o PeakSizes(n - p)

RECURSIVE PrefixSum(_, _)
PrefixSum(sz, k) == IF k = 0 THEN 0 ELSE PrefixSum(sz, k - 1) + (2 * sz[k] - 1)

\* a complete subtree of s leaves occupies 2s-1 consecutive entries, its root last
PeakIdx(n) == LET sz == PeakSizes(n) IN [k \in 1..Len(sz) |-> PrefixSum(sz, k)]
ArrLen(n) == LET sz == PeakSizes(n) IN PrefixSum(sz, Len(sz))

\* the right spine of the complete subtree rooted at index p with s leaves, and the left children
\* hanging off it: right child at p-1, left child at p-s
RECURSIVE SpineIdx(_, _)
SpineIdx(p, s) == IF s = 1 THEN { p } ELSE { p, p - s } \cup SpineIdx(p - 1, s \div 2)

NeededA(n) == Range(PeakIdx(n))
NeededT(n) == LET sz == PeakSizes(n)  pk == PeakIdx(n)  k == Len(pk)
              IN  Range(pk) \cup SpineIdx(pk[k], sz[k])

-----------------------------------------------------------------------------------
\* From-scratch construction (uses the leaves only)

RECURSIVE Perfect(_, _, _)
Perfect(ls, a, s) == IF s = 1 THEN LeafT(ls[a])
                     ELSE Comb(Perfect(ls, a, s \div 2), Perfect(ls, a + s \div 2, s \div 2))

RECURSIVE Layout(_, _, _, _)      \* entries of the complete subtree over ls[a .. a+s-1], placed after offset off
Layout(ls, a, s, off) ==
    IF s = 1 THEN << LeafEntry(ls[a]) >>
    ELSE Layout(ls, a, s \div 2, off) \o Layout(ls, a + s \div 2, s \div 2, off + s - 1)
         \o << [t |-> Perfect(ls, a, s), l |-> off + s - 1, r |-> off + 2 * s - 2] >>

RECURSIVE BuildFrom(_, _, _, _, _)
BuildFrom(ls, sz, k, a, off) ==
    IF k > Len(sz) THEN << >>
    ELSE Layout(ls, a, sz[k], off) \o BuildFrom(ls, sz, k + 1, a + sz[k], off + 2 * sz[k] - 1)
Build(ls) == BuildFrom(ls, PeakSizes(Len(ls)), 1, 1, 0)

RECURSIVE ChunkTerms(_, _, _, _)
ChunkTerms(ls, sz, k, a) == IF k > Len(sz) THEN << >>
                            ELSE << Perfect(ls, a, sz[k]) >> \o ChunkTerms(ls, sz, k + 1, a + sz[k])
RebuildRoot(ls) == Bag(ChunkTerms(ls, PeakSizes(Len(ls)), 1, 1))

-----------------------------------------------------------------------------------
\* The operations on a (partial) view.  `a` is a function from loaded indices to entries, `len` the
\* length of the whole array, `pk` the peak indices (left to right).

EntryAt(a, new, len, i) == IF i > len THEN new[i - len] ELSE a[i]

\* merge the two rightmost peaks while they hold the same number of leaves
RECURSIVE MergeUp(_, _, _, _)
MergeUp(a, new, len, stack) ==
    LET k == Len(stack) IN
    IF k >= 2 /\ NLeaves(EntryAt(a, new, len, stack[k - 1]).t) = NLeaves(EntryAt(a, new, len, stack[k]).t)
    THEN LET li == stack[k - 1]
             ri == stack[k]
             e  == [t |-> Comb(EntryAt(a, new, len, li).t, EntryAt(a, new, len, ri).t), l |-> li, r |-> ri]
         IN  MergeUp(a, Append(new, e), len, Append(SubSeq(stack, 1, k - 2), len + Len(new) + 1))
    ELSE [new |-> new, peaks |-> stack]

AppendOp(a, len, pk, x) ==
    LET m == MergeUp(a, << LeafEntry(x) >>, len, Append(pk, len + 1))
    IN  [new   |-> m.new,                 \* entries to persist: the leaf, then each completed parent
         peaks |-> m.peaks,
         root  |-> Bag([i \in 1..Len(m.peaks) |-> EntryAt(a, m.new, len, m.peaks[i]).t]),
         reads |-> Range(pk)]

\* walk down the right spine of the last peak; every left child passed becomes a peak again
RECURSIVE Spine(_, _, _, _)
Spine(a, i, lefts, reads) ==
    IF a[i].l = 0 THEN [lefts |-> lefts, reads |-> reads \cup { i }]
    ELSE Spine(a, a[i].r, Append(lefts, a[i].l), reads \cup { i, a[i].l })

TruncOp(a, len, pk) ==                    \* requires at least two leaves
    LET k   == Len(pk)
        sp  == Spine(a, pk[k], << >>, { })
        npk == SubSeq(pk, 1, k - 1) \o sp.lefts
    IN  [count |-> Len(sp.lefts) + 1,     \* the last leaf and the parents it had completed
         peaks |-> npk,
         root  |-> Bag([i \in 1..Len(npk) |-> a[npk[i]].t]),
         reads |-> Range(pk) \cup sp.reads]

RootOf(a, pk) == Bag([i \in 1..Len(pk) |-> a[pk[i]].t])

-----------------------------------------------------------------------------------
\* Node layout and combination rule (ZIP 221; V2 = NU5 extension; V3 = Ironwood extension), as data.
\*   ty:   b32 = 32 raw bytes, u32 = 4 bytes little endian, u256 = 32 bytes little endian,
\*         cs  = CompactSize of a 64-bit value, NOT limited to 0x02000000
\*   rule: how a parent's field is computed from its children
\*   sem:  what the field means for the node's leaf interval (checked against rule by FieldLaws)
F(f, ty, rule, sem) == [f |-> f, ty |-> ty, rule |-> rule, sem |-> sem]

FieldsV1 == <<
    F("subtree_commitment", "b32",  "hash",  "commit"),
    F("start_time",         "u32",  "left",  "first"),
    F("end_time",           "u32",  "right", "last"),
    F("start_target",       "u32",  "left",  "first"),
    F("end_target",         "u32",  "right", "last"),
    F("start_sapling_root", "b32",  "left",  "first"),
    F("end_sapling_root",   "b32",  "right", "last"),
    F("subtree_total_work", "u256", "sum",   "total"),
    F("start_height",       "cs",   "left",  "first"),
    F("end_height",         "cs",   "right", "last"),
    F("sapling_tx",         "cs",   "sum",   "total") >>
FieldsV2 == FieldsV1 \o <<
    F("start_orchard_root", "b32",  "left",  "first"),
    F("end_orchard_root",   "b32",  "right", "last"),
    F("orchard_tx",         "cs",   "sum",   "total") >>
FieldsV3 == FieldsV2 \o <<
    F("start_ironwood_root", "b32", "left",  "first"),
    F("end_ironwood_root",   "b32", "right", "last"),
    F("ironwood_tx",         "cs",  "sum",   "total") >>
Fields(v) == CASE v = 1 -> FieldsV1 [] v = 2 -> FieldsV2 [] v = 3 -> FieldsV3

\* subtree_commitment of a parent = BLAKE2b-256(personal = Personal || branch id (4 bytes LE),
\*                                               ser(left) || ser(right)),  ser = fields in table order
Personal == "ZcashHistory"

\* CompactSize classes: values up to `max` are written as the tag byte (0: none) followed by
\* `width` little-endian bytes; an encoding is canonical iff the value exceeds the previous max.
\* Bounds are decimal strings (beyond TLC's integers).
CompactClasses == <<
    [max |-> "252",                  tag |-> 0,   width |-> 1],
    [max |-> "65535",                tag |-> 253, width |-> 2],
    [max |-> "4294967295",           tag |-> 254, width |-> 4],
    [max |-> "18446744073709551615", tag |-> 255, width |-> 8] >>

ASSUME Emit => \A v \in 1..3 :
    PrintT(<< "TABLE", ToJson([version |-> v, fields |-> Fields(v), personal |-> Personal,
                               compact |-> CompactClasses]) >>)

\* The CompactSize rule on the part of its range TLC's integers reach (classes 1-3, values < 2^31):
\* decoding inverts encoding and encodings are the shortest possible.
RECURSIVE LEBytes(_, _)
LEBytes(v, w) == IF w = 0 THEN << >> ELSE << v % 256 >> \o LEBytes(v \div 256, w - 1)
RECURSIVE LEVal(_, _)
LEVal(bs, i) == IF i > Len(bs) THEN 0 ELSE bs[i] + 256 * LEVal(bs, i + 1)
CsEnc(v) == IF v <= 252 THEN << v >>
            ELSE IF v <= 65535 THEN << 253 >> \o LEBytes(v, 2)
            ELSE << 254 >> \o LEBytes(v, 4)
CsDec(bs) == IF bs[1] <= 252 THEN bs[1] ELSE LEVal(bs, 2)
CsSamples == { 0, 1, 127, 252, 253, 254, 255, 256, 65534, 65535, 65536, 65537, 16777216, 33554432,
               33554433, 2147483647 }
ASSUME \A v \in CsSamples : /\ CsDec(CsEnc(v)) = v
                            /\ Len(CsEnc(v)) = (IF v <= 252 THEN 1 ELSE IF v <= 65535 THEN 3 ELSE 5)
                            /\ \A w \in CsSamples : w # v => CsEnc(w) # CsEnc(v)

\* abstract evaluation of one field rule on a term, a leaf being valued by `val`
RECURSIVE AVal(_, _, _)
AVal(rule, t, val) ==
    IF IsLeafT(t) THEN val[t[1]]
    ELSE CASE rule = "left"  -> AVal(rule, t[1], val)
           [] rule = "right" -> AVal(rule, t[2], val)
           [] rule = "sum"   -> AVal(rule, t[1], val) + AVal(rule, t[2], val)
           [] OTHER          -> 0

RECURSIVE SumSeq(_, _)
SumSeq(s, i) == IF i > Len(s) THEN 0 ELSE s[i] + SumSeq(s, i + 1)

-----------------------------------------------------------------------------------
\* State machine

SchedIds == IF Scheds = << >> THEN { 0 } ELSE 1..Len(Scheds)

Z(s) == [i \in 1..Len(s) |-> s[i] - 1]                       \* indices are emitted 0-based
EntriesJ(es) == [i \in 1..Len(es) |->
                   [k |-> IF es[i].l = 0 THEN 0 ELSE 1,       \* 0 leaf, 1 node
                    l |-> IF es[i].l = 0 THEN 0 ELSE es[i].l - 1,
                    r |-> IF es[i].l = 0 THEN 0 ELSE es[i].r - 1,
                    t |-> es[i].t]]
SetSeq(S) == LET RECURSIVE Go(_, _)
                 Go(T, acc) == IF T = { } THEN acc
                               ELSE LET m == CHOOSE x \in T : \A y \in T : x <= y
                                    IN  Go(T \ { m }, Append(acc, m))
             IN  Go(S, << >>)

Init == \E n0 \in StartSizes, s \in SchedIds :
    /\ leaves = [i \in 1..n0 |-> i]
    /\ arr = Build(leaves)
    /\ view = { }
    /\ fresh = n0 + 1
    /\ step = 0
    /\ sid = s
    /\ start = n0
    /\ hist = << >>
    /\ Emit => PrintT(<< "INIT", ToJson([n0 |-> n0, sid |-> s, entries |-> EntriesJ(arr),
                                         len |-> Len(arr), peaks |-> Z(PeakIdx(n0)),
                                         root |-> RebuildRoot(leaves)]) >>)

Record(rec) ==
    /\ hist' = IF Scheds = << >> THEN Append(hist, rec) ELSE hist
    /\ Emit => PrintT(<< "EDGE", ToJson([n0 |-> start, sid |-> sid, idx |-> step + 1,
                                         pre |-> hist, step |-> rec]) >>)

\* `req`: the operation runs on a freshly loaded minimal view (exactly Needed); otherwise on the
\* view the previous operations left behind, which is possible only if it holds what is needed.
DoAppend(req) ==
    LET n    == Len(leaves)
        len  == Len(arr)
        pk   == PeakIdx(n)
        need == NeededA(n)
        v    == IF req THEN need ELSE view
        a    == [i \in v |-> arr[i]]
        res  == AppendOp(a, len, pk, fresh)
    IN  /\ n < MaxLeaves
        /\ (IF req THEN TRUE ELSE need \subseteq view)     \* (not a disjunction: TLC would split it)
        /\ leaves' = Append(leaves, fresh)
        /\ arr' = arr \o res.new
        /\ view' = v \cup ((len + 1)..(len + Len(res.new)))
        /\ fresh' = fresh + 1
        /\ step' = step + 1
        /\ UNCHANGED << sid, start >>
        /\ Record([op |-> "A", reload |-> req, peaks |-> Z(pk), extra |-> << >>, leaf |-> fresh,
                   pos |-> n, new |-> EntriesJ(res.new), count |-> 0,
                   len |-> len + Len(res.new), n |-> n + 1, root |-> res.root,
                   peaksAfter |-> Z(res.peaks)])

DoTruncate(req) ==
    LET n    == Len(leaves)
        len  == Len(arr)
        pk   == PeakIdx(n)
        need == NeededT(n)
        v    == IF req THEN need ELSE view
        a    == [i \in v |-> arr[i]]
        res  == TruncOp(a, len, pk)
    IN  /\ n >= 2
        /\ (IF req THEN TRUE ELSE need \subseteq view)     \* (not a disjunction: TLC would split it)
        /\ leaves' = SubSeq(leaves, 1, n - 1)
        /\ arr' = SubSeq(arr, 1, len - res.count)
        /\ view' = v \cap (1..(len - res.count))
        /\ step' = step + 1
        /\ UNCHANGED << fresh, sid, start >>
        /\ Record([op |-> "T", reload |-> req, peaks |-> Z(pk),
                   extra |-> Z(SetSeq(need \ Range(pk))), leaf |-> 0, pos |-> 0, new |-> << >>,
                   count |-> res.count, len |-> len - res.count, n |-> n - 1, root |-> res.root,
                   peaksAfter |-> Z(res.peaks)])

NextFree == /\ Scheds = << >>
            /\ step < MaxSteps
            /\ \E req \in BOOLEAN : DoAppend(req) \/ DoTruncate(req)

\* schedule mode: one deterministic successor; "keep the view" falls back to a reload when the view
\* lacks something the operation needs
NextSched ==
    /\ Scheds # << >>
    /\ step < Len(Scheds[sid])
    /\ LET c == Scheds[sid][step + 1]  n == Len(leaves) IN
       IF c >= 2 THEN DoAppend(c = 3 \/ ~(NeededA(n) \subseteq view))
                 ELSE DoTruncate(c = 1 \/ ~(NeededT(n) \subseteq view))

Next == NextFree \/ NextSched
Spec == Init /\ [][Next]_vars
View == << leaves, arr, view, fresh, step, sid, start >>

-----------------------------------------------------------------------------------
\* Theorems

N == Len(leaves)

ArrIsBuild == arr = Build(leaves)

RootIsRebuild == RootOf(arr, PeakIdx(N)) = RebuildRoot(leaves)

RECURSIVE PopCount(_)
PopCount(n) == IF n = 0 THEN 0 ELSE (n % 2) + PopCount(n \div 2)
LenLaw == Len(arr) = 2 * N - PopCount(N) /\ Len(arr) = ArrLen(N)

\* appending any new leaf and truncating again gives back the array, the peaks and the root, and
\* the truncation count is the number of entries the append added
AppendTruncateRestores ==
    LET ap   == AppendOp(arr, Len(arr), PeakIdx(N), fresh)
        arr2 == arr \o ap.new
        tr   == TruncOp(arr2, Len(arr2), ap.peaks)
    IN  /\ ap.peaks = PeakIdx(N + 1)
        /\ tr.count = Len(ap.new)
        /\ SubSeq(arr2, 1, Len(arr2) - tr.count) = arr
        /\ tr.peaks = PeakIdx(N)
        /\ tr.root = RootOf(arr, PeakIdx(N))
        \* and it can be done on the view the append leaves behind
        /\ NeededT(N + 1) \subseteq NeededA(N) \cup ((Len(arr) + 1)..Len(arr2))

\* an operation on exactly the needed entries equals the operation on the whole array
ViewSuffices ==
    /\ AppendOp([i \in NeededA(N) |-> arr[i]], Len(arr), PeakIdx(N), fresh)
          = AppendOp(arr, Len(arr), PeakIdx(N), fresh)
    /\ N >= 2 => TruncOp([i \in NeededT(N) |-> arr[i]], Len(arr), PeakIdx(N))
                    = TruncOp(arr, Len(arr), PeakIdx(N))

\* and it reads all of them
NeededExact ==
    /\ AppendOp(arr, Len(arr), PeakIdx(N), fresh).reads = NeededA(N)
    /\ N >= 2 => TruncOp(arr, Len(arr), PeakIdx(N)).reads = NeededT(N)

\* the loaded view never names an index outside the array
ViewInArray == view \subseteq 1..Len(arr)

\* Every node covers a contiguous run of the current leaves; each field rule yields the meaning of
\* the field on that run (leaf i carries the abstract value i in every field)
\* ids are handed out in increasing order and removed from the end only, so `leaves` is strictly
\* increasing (invariant Sorted) and the position of an id is found by bisection
Sorted == \A p \in 1..(N - 1) : leaves[p] < leaves[p + 1]
RECURSIVE Bisect(_, _, _)
Bisect(id, lo, hi) == IF lo >= hi THEN lo
                      ELSE LET mid == (lo + hi) \div 2
                           IN  IF leaves[mid] >= id THEN Bisect(id, lo, mid) ELSE Bisect(id, mid + 1, hi)
PosOf == [id \in Range(leaves) |-> Bisect(id, 1, N)]
Covers(t, pos) == LET ids == LeafSeq(t)  a == pos[ids[1]]
                  IN  a + Len(ids) - 1 <= N /\ SubSeq(leaves, a, a + Len(ids) - 1) = ids
\* Entries never change once written (ArrIsBuild: arr is a function of the leaves, and a prefix of the
\* leaves gives a prefix of arr), so the per-entry laws are checked on all entries in initial states
\* and afterwards on the entries the last append wrote; the root is checked in every state.
Unchecked == IF step = 0 THEN 1..Len(arr) ELSE (ArrLen(N - 1) + 1)..Len(arr)

\* the rule each meaning must be computed by ...
RuleFor(sem) == CASE sem = "first" -> "left" [] sem = "last" -> "right" [] sem = "total" -> "sum"
                  [] sem = "commit" -> "hash"
ASSUME \A v \in 1..3 : \A k \in 1..Len(Fields(v)) : Fields(v)[k].rule = RuleFor(Fields(v)[k].sem)
\* ... and that it does compute it, on every node of every explored state
FieldLawsOn(t, val) ==
    LET ids == LeafSeq(t) IN
    /\ AVal(RuleFor("first"), t, val) = ids[1]
    /\ AVal(RuleFor("last"),  t, val) = ids[Len(ids)]
    /\ AVal(RuleFor("total"), t, val) = SumSeq(ids, 1)
FieldLaws == LET val  == [i \in 1..(fresh - 1) |-> i]
                 pos  == PosOf
                 root == RootOf(arr, PeakIdx(N))
             IN  /\ \A i \in Unchecked : Covers(arr[i].t, pos) /\ FieldLawsOn(arr[i].t, val)
                 /\ FieldLawsOn(root, val) /\ LeafSeq(root) = leaves

\* leaf heights are consecutive by position, so end_height - start_height + 1 counts the leaves
HeightLawOn(t, pos) == AVal("right", t, pos) - AVal("left", t, pos) + 1 = NLeaves(t)
HeightLaw == LET pos == PosOf IN
             /\ \A i \in Unchecked : HeightLawOn(arr[i].t, pos)
             /\ HeightLawOn(RootOf(arr, PeakIdx(N)), pos)
=================================================================================
