---- MODULE MC_HistoryMMR ----
(* Hand-runnable instance (checks/c20.py generates its own MC_<name>.tla/.cfg into the work dir):  *)
(*   java -cp $TLA_CP tlc2.TLC -config MC_HistoryMMR.cfg MC_HistoryMMR.tla                          *)
EXTENDS HistoryMMR
StartDef == 1..24
SchedsDef == << >>
====
