SPECIFICATION Spec
CONSTANTS
  StartSizes <- StartDef
  MaxSteps = 3
  MaxLeaves = 100000
  Scheds <- SchedsDef
  Emit = FALSE
VIEW View
INVARIANTS ArrIsBuild RootIsRebuild LenLaw AppendTruncateRestores ViewSuffices NeededExact ViewInArray Sorted FieldLaws HeightLaw
CHECK_DEADLOCK FALSE
