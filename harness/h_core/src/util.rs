use std::io::{BufRead, BufWriter, Write};
use std::panic::{AssertUnwindSafe, catch_unwind};

/// Runs `f` (a call into the code under test); a panic is data, returned as `Err(message)`.
pub fn guarded<T>(f: impl FnOnce() -> T) -> Result<T, String> {
    catch_unwind(AssertUnwindSafe(f)).map_err(|e| {
        if let Some(s) = e.downcast_ref::<&str>() {
            (*s).to_string()
        } else if let Some(s) = e.downcast_ref::<String>() {
            s.clone()
        } else {
            "panic".to_string()
        }
    })
}

/// Silences the default panic hook (panics of the code under test are recorded, not printed).
pub fn quiet_panics() {
    // VERIF_LOUD=1 (debugging the harness itself): keep the default hook
    if std::env::var("VERIF_LOUD").map(|v| v == "1").unwrap_or(false) {
        return;
    }
    std::panic::set_hook(Box::new(|_| {}));
}

pub fn seed_from_env() -> u64 {
    std::env::var("VERIF_SEED").ok().and_then(|s| s.parse::<i64>().ok()).map(|v| v as u64).unwrap_or(1)
}

pub struct NdjsonWriter(BufWriter<std::fs::File>, pub usize);
impl NdjsonWriter {
    pub fn create(path: &str) -> Self {
        NdjsonWriter(BufWriter::new(std::fs::File::create(path).expect("create trace file")), 0)
    }
    pub fn emit(&mut self, v: &serde_json::Value) {
        serde_json::to_writer(&mut self.0, v).expect("write");
        self.0.write_all(b"\n").expect("write");
        self.1 += 1;
    }
    pub fn finish(mut self) -> usize {
        self.0.flush().expect("flush");
        self.1
    }
}

pub fn read_ndjson(path: &str) -> Vec<serde_json::Value> {
    let f = std::fs::File::open(path).unwrap_or_else(|e| panic!("open {path}: {e}"));
    std::io::BufReader::new(f)
        .lines()
        .map(|l| l.expect("read line"))
        .filter(|l| !l.trim().is_empty())
        .map(|l| serde_json::from_str(&l).unwrap_or_else(|e| panic!("bad json line {l}: {e}")))
        .collect()
}
