//! Shared helpers for the conformance harness binaries (trace I/O, panic capture).
pub mod util;
