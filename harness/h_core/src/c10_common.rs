//! C10 — code shared by `c10_replay` and `c10_driver` (included with `#[path]`, not part of the lib).
//!
//! Everything here is the harness' OWN reading of the Zcash protocol specification (§5.6 address
//! encodings), ZIP 316 (raw encoding of unified containers, padding, F4Jumble) and ZIP 320 (TEX):
//! constants, CompactSize, the F4Jumble reference construction on `blake2b_simd`, raw container
//! encoder / decoder. Nothing in this file calls `zcash_address`, `f4jumble` or the constants of
//! `zcash_protocol` — those are the code under test. Bech32 / Bech32m / Base58Check arithmetic is
//! delegated to the `bech32` and `bs58` crates (trusted third-party codecs, listed as such in the
//! design).
#![allow(dead_code)]

use bech32::primitives::decode::CheckedHrpstring;
use bech32::{Bech32, Bech32m, Checksum, Hrp};
use rand::{Rng, RngCore, SeedableRng};
use rand_chacha::ChaCha8Rng;
use zcash_address::unified::{self, Container};
use zcash_address::{ConversionError, TryFromAddress, ZcashAddress};
use zcash_protocol::consensus::NetworkType;

// ------------------------------------------------------------------------------------------------
// constants, from the protocol specification / ZIP 316 / ZIP 320 (NOT from zcash_protocol)

pub const NETS: [&str; 3] = ["main", "test", "regtest"];

pub fn net_type(net: &str) -> NetworkType {
    match net {
        "main" => NetworkType::Main,
        "test" => NetworkType::Test,
        "regtest" => NetworkType::Regtest,
        _ => panic!("harness: unknown net {net}"),
    }
}
pub fn net_name(n: NetworkType) -> &'static str {
    match n {
        NetworkType::Main => "main",
        NetworkType::Test => "test",
        NetworkType::Regtest => "regtest",
    }
}

/// Human-readable parts. family: ua | ufvk | uivk | sapling | tex
pub fn hrp_of(family: &str, net: &str) -> &'static str {
    match (family, net) {
        ("ua", "main") => "u",
        ("ua", "test") => "utest",
        ("ua", "regtest") => "uregtest",
        ("ufvk", "main") => "uview",
        ("ufvk", "test") => "uviewtest",
        ("ufvk", "regtest") => "uviewregtest",
        ("uivk", "main") => "uivk",
        ("uivk", "test") => "uivktest",
        ("uivk", "regtest") => "uivkregtest",
        ("sapling", "main") => "zs",
        ("sapling", "test") => "ztestsapling",
        ("sapling", "regtest") => "zregtestsapling",
        ("tex", "main") => "tex",
        ("tex", "test") => "textest",
        ("tex", "regtest") => "texregtest",
        _ => panic!("harness: no hrp for {family}/{net}"),
    }
}

pub const FAMILIES: [&str; 5] = ["ua", "ufvk", "uivk", "sapling", "tex"];

pub fn is_known_hrp(h: &str) -> bool {
    FAMILIES.iter().any(|f| NETS.iter().any(|n| hrp_of(f, n) == h))
}

/// A human-readable part that is NOT one of Zcash's: foreign ones and near misses of the real ones
/// (one character more, one character less).
pub fn foreign_hrp(rng: &mut ChaCha8Rng) -> String {
    const FIXED: [&str; 8] = ["bc", "tb", "zsx", "uu", "zview", "zxviews", "zxviewtestsapling", "uinvalid"];
    loop {
        let h: String = match rng.gen_range(0..3) {
            0 => FIXED[rng.gen_range(0..FIXED.len())].to_string(),
            1 => format!("{}{}", hrp_of(FAMILIES[rng.gen_range(0..5)], NETS[rng.gen_range(0..3)]),
                         ["x", "t", "1", "test", "main", "q"][rng.gen_range(0..6)]),
            _ => {
                let k = hrp_of(FAMILIES[rng.gen_range(0..5)], NETS[rng.gen_range(0..3)]);
                k[..k.len() - 1].to_string()
            }
        };
        if !h.is_empty() && !is_known_hrp(&h) {
            return h;
        }
    }
}

/// A known HRP followed by further characters, not itself a known HRP.
pub fn longer_hrp(base: &str, rng: &mut ChaCha8Rng) -> String {
    loop {
        let h = format!("{}{}", base, ["x", "t", "1", "test", "main", "q", "regtest", "view"][rng.gen_range(0..8)]);
        if !is_known_hrp(&h) {
            return h;
        }
    }
}

/// Container kind of the specification ("addr" | "fvk" | "ivk") -> HRP family.
pub fn family_of_kind(kind: &str) -> &'static str {
    match kind {
        "addr" => "ua",
        "fvk" => "ufvk",
        "ivk" => "uivk",
        _ => panic!("harness: unknown container kind {kind}"),
    }
}

/// Base58Check two-byte lead bytes; regtest shares testnet's (protocol spec §5.6.1.1, §5.6.2).
pub fn b58_prefix(kind: &str, net: &str) -> [u8; 2] {
    match (kind, net) {
        ("p2pkh", "main") => [0x1c, 0xb8],
        ("p2sh", "main") => [0x1c, 0xbd],
        ("sprout", "main") => [0x16, 0x9a],
        ("p2pkh", _) => [0x1d, 0x25],
        ("p2sh", _) => [0x1c, 0xba],
        ("sprout", _) => [0x16, 0xb6],
        _ => panic!("harness: no base58 prefix for {kind}/{net}"),
    }
}

pub fn legacy_len(kind: &str) -> usize {
    match kind {
        "sprout" => 64,
        "sapling" => 43,
        "p2pkh" | "p2sh" | "tex" => 20,
        _ => panic!("harness: no length for {kind}"),
    }
}

/// Exact data lengths of known items (ZIP 316): typecode 0..=3 per container kind; None = the
/// typecode is not allowed in this kind of container.
pub fn known_len(kind: &str, typecode: u64) -> Option<usize> {
    match (kind, typecode) {
        ("addr", 0) | ("addr", 1) => Some(20),
        ("addr", 2) | ("addr", 3) => Some(43),
        ("fvk", 0) => Some(65),
        ("fvk", 2) => Some(128),
        ("fvk", 3) => Some(96),
        ("ivk", 0) => Some(65),
        ("ivk", 2) => Some(64),
        ("ivk", 3) => Some(64),
        _ => None,
    }
}

pub const MAX_TYPECODE: u64 = 0x0200_0000;
pub const JUMBLE_MIN: usize = 48;
pub const JUMBLE_MAX: usize = 4_194_368;
pub const PADDING_LEN: usize = 16;

// ------------------------------------------------------------------------------------------------
// CompactSize (Bitcoin): own writer / reader

pub fn cs_write(out: &mut Vec<u8>, v: u64) {
    if v < 253 {
        out.push(v as u8);
    } else if v <= 0xFFFF {
        out.push(253);
        out.extend_from_slice(&(v as u16).to_le_bytes());
    } else if v <= 0xFFFF_FFFF {
        out.push(254);
        out.extend_from_slice(&(v as u32).to_le_bytes());
    } else {
        out.push(255);
        out.extend_from_slice(&v.to_le_bytes());
    }
}

/// Deliberately non-canonical: `width` in {3, 5, 9} whatever the value.
pub fn cs_write_wide(out: &mut Vec<u8>, v: u64, width: usize) {
    match width {
        3 => {
            out.push(253);
            out.extend_from_slice(&(v as u16).to_le_bytes());
        }
        5 => {
            out.push(254);
            out.extend_from_slice(&(v as u32).to_le_bytes());
        }
        9 => {
            out.push(255);
            out.extend_from_slice(&v.to_le_bytes());
        }
        _ => panic!("harness: bad CompactSize width"),
    }
}

pub enum CsRead {
    Ok(u64, usize), // value, bytes consumed
    NonCanonical(u64, usize),
    Truncated,
}

pub fn cs_read(b: &[u8]) -> CsRead {
    if b.is_empty() {
        return CsRead::Truncated;
    }
    let (w, min) = match b[0] {
        253 => (3usize, 253u64),
        254 => (5, 0x1_0000),
        255 => (9, 0x1_0000_0000),
        _ => return CsRead::Ok(b[0] as u64, 1),
    };
    if b.len() < w {
        return CsRead::Truncated;
    }
    let mut le = [0u8; 8];
    le[..w - 1].copy_from_slice(&b[1..w]);
    let v = u64::from_le_bytes(le);
    if v < min { CsRead::NonCanonical(v, w) } else { CsRead::Ok(v, w) }
}

// ------------------------------------------------------------------------------------------------
// F4Jumble reference (ZIP 316, "Jumbling"): 4-round unbalanced Feistel over BLAKE2b.
//   l_L = min(64, floor(l_M / 2)), l_R = l_M - l_L
//   H_i(u) = BLAKE2b-(8 l_L)("UA_F4Jumble_H" || [i, 0, 0], u)
//   G_i(u) = first l_R bytes of  ||_{j = 0 .. ceil(l_R/64)-1}  BLAKE2b-512("UA_F4Jumble_G" || [i] || I2LEOSP_16(j), u)
//   x = b xor G_0(a);  y = a xor H_0(x);  d = x xor G_1(y);  c = y xor H_1(d);  output c || d

fn ref_h(i: u8, u: &[u8], out_len: usize) -> Vec<u8> {
    let mut pers = *b"UA_F4Jumble_H\0\0\0";
    pers[13] = i;
    blake2b_simd::Params::new().hash_length(out_len).personal(&pers).hash(u).as_bytes().to_vec()
}

fn ref_g(i: u8, u: &[u8], out_len: usize) -> Vec<u8> {
    let mut out = Vec::with_capacity(out_len + 64);
    let mut j: u32 = 0;
    while out.len() < out_len {
        assert!(j < 65536, "harness: G index does not fit the personalization");
        let mut pers = *b"UA_F4Jumble_G\0\0\0";
        pers[13] = i;
        pers[14] = (j & 0xff) as u8;
        pers[15] = (j >> 8) as u8;
        out.extend_from_slice(blake2b_simd::Params::new().hash_length(64).personal(&pers).hash(u).as_bytes());
        j += 1;
    }
    out.truncate(out_len);
    out
}

fn xor(a: &[u8], b: &[u8]) -> Vec<u8> {
    assert_eq!(a.len(), b.len());
    a.iter().zip(b).map(|(x, y)| x ^ y).collect()
}

pub fn ref_valid_len(n: usize) -> bool {
    (JUMBLE_MIN..=JUMBLE_MAX).contains(&n)
}

pub fn ref_f4jumble(m: &[u8]) -> Option<Vec<u8>> {
    if !ref_valid_len(m.len()) {
        return None;
    }
    let ll = std::cmp::min(64, m.len() / 2);
    let lr = m.len() - ll;
    let (a, b) = m.split_at(ll);
    let x = xor(b, &ref_g(0, a, lr));
    let y = xor(a, &ref_h(0, &x, ll));
    let d = xor(&x, &ref_g(1, &y, lr));
    let c = xor(&y, &ref_h(1, &d, ll));
    let mut out = c;
    out.extend_from_slice(&d);
    Some(out)
}

pub fn ref_f4jumble_inv(m: &[u8]) -> Option<Vec<u8>> {
    if !ref_valid_len(m.len()) {
        return None;
    }
    let ll = std::cmp::min(64, m.len() / 2);
    let lr = m.len() - ll;
    let (c, d) = m.split_at(ll);
    let y = xor(c, &ref_h(1, d, ll));
    let x = xor(d, &ref_g(1, &y, lr));
    let a = xor(&y, &ref_h(0, &x, ll));
    let b = xor(&x, &ref_g(0, &a, lr));
    let mut out = a;
    out.extend_from_slice(&b);
    Some(out)
}

// ------------------------------------------------------------------------------------------------
// Bech32 / Bech32m without the BIP 173 length limit (ZIP 316 lifts it)

#[derive(Copy, Clone, PartialEq, Eq, PartialOrd, Ord, Hash)]
pub enum Bech32mLong {}
impl Checksum for Bech32mLong {
    type MidstateRepr = <Bech32m as Checksum>::MidstateRepr;
    const CODE_LENGTH: usize = usize::MAX;
    const CHECKSUM_LENGTH: usize = Bech32m::CHECKSUM_LENGTH;
    const GENERATOR_SH: [u32; 5] = Bech32m::GENERATOR_SH;
    const TARGET_RESIDUE: u32 = Bech32m::TARGET_RESIDUE;
}
#[derive(Copy, Clone, PartialEq, Eq, PartialOrd, Ord, Hash)]
pub enum Bech32Long {}
impl Checksum for Bech32Long {
    type MidstateRepr = <Bech32 as Checksum>::MidstateRepr;
    const CODE_LENGTH: usize = usize::MAX;
    const CHECKSUM_LENGTH: usize = Bech32::CHECKSUM_LENGTH;
    const GENERATOR_SH: [u32; 5] = Bech32::GENERATOR_SH;
    const TARGET_RESIDUE: u32 = Bech32::TARGET_RESIDUE;
}

/// variant: "bech32m" | "bech32" | "bad" (a Bech32m checksum with one checksum character changed)
pub fn bech_encode(variant: &str, hrp: &str, data: &[u8], rng: &mut ChaCha8Rng) -> String {
    let h = Hrp::parse(hrp).expect("harness: hrp");
    match variant {
        "bech32m" => bech32::encode_lower::<Bech32mLong>(h, data).expect("harness: bech32m"),
        "bech32" => bech32::encode_lower::<Bech32Long>(h, data).expect("harness: bech32"),
        "bad" => {
            let base = if rng.gen_bool(0.5) {
                bech32::encode_lower::<Bech32mLong>(h, data).expect("harness: bech32m")
            } else {
                bech32::encode_lower::<Bech32Long>(h, data).expect("harness: bech32")
            };
            // change one character of the data part (or of the checksum) to another charset character and
            // make sure (with the harness' own unlimited-length codes) that the result is valid under
            // NEITHER checksum
            let sep = base.rfind('1').unwrap();
            let orig: Vec<char> = base.chars().collect();
            const CHARSET: &[u8] = b"qpzry9x8gf2tvdw0s3jn54khce6mua7l";
            loop {
                let mut chars = orig.clone();
                let pos = sep + 1 + rng.gen_range(0..chars.len() - sep - 1);
                let c = CHARSET[rng.gen_range(0..32)] as char;
                if c == chars[pos] {
                    continue;
                }
                chars[pos] = c;
                let s: String = chars.into_iter().collect();
                if CheckedHrpstring::new::<Bech32mLong>(&s).is_err() && CheckedHrpstring::new::<Bech32Long>(&s).is_err() {
                    return s;
                }
            }
        }
        _ => panic!("harness: variant {variant}"),
    }
}

/// Own decoding of a Bech32m string of any length: (hrp, bytes) or None.
pub fn bech32m_decode_long(s: &str) -> Option<(String, Vec<u8>)> {
    let p = bech32::primitives::decode::CheckedHrpstring::new::<Bech32mLong>(s).ok()?;
    Some((p.hrp().as_str().to_string(), p.byte_iter().collect()))
}

pub fn b58check_encode(prefix: &[u8], data: &[u8]) -> String {
    let mut v = prefix.to_vec();
    v.extend_from_slice(data);
    bs58::encode(v).with_check().into_string()
}

// ------------------------------------------------------------------------------------------------
// raw unified containers

#[derive(Clone, Debug, PartialEq, Eq)]
pub struct RawItem {
    pub typecode: u64,
    pub data: Vec<u8>,
}

pub fn padding_for(hrp: &str) -> [u8; PADDING_LEN] {
    // (an HRP longer than 16 bytes has no padding; only foreign HRPs are that long, cut them)
    let mut p = [0u8; PADDING_LEN];
    let n = hrp.len().min(PADDING_LEN);
    p[..n].copy_from_slice(&hrp.as_bytes()[..n]);
    p
}

pub fn raw_encode(items: &[RawItem], padding: &[u8]) -> Vec<u8> {
    let mut out = Vec::new();
    for it in items {
        cs_write(&mut out, it.typecode);
        cs_write(&mut out, it.data.len() as u64);
        out.extend_from_slice(&it.data);
    }
    out.extend_from_slice(padding);
    out
}

/// raw (unjumbled) bytes -> string, using the REFERENCE jumble. None if the length is outside the
/// F4Jumble domain.
pub fn container_string(hrp: &str, raw: &[u8], variant: &str, rng: &mut ChaCha8Rng) -> Option<String> {
    let j = ref_f4jumble(raw)?;
    Some(bech_encode(variant, hrp, &j, rng))
}

/// The harness' own structural decoding of raw bytes (after un-jumbling).
#[derive(Clone, Debug)]
pub struct OwnDecoded {
    pub size: usize,
    pub padding: Vec<u8>,
    pub items: Vec<RawItem>,
    /// "ok" | "truncated" | "noncanonical" | "toolarge" (a CompactSize above 0x02000000 in length position)
    pub structure: &'static str,
}

pub fn raw_decode(raw: &[u8]) -> OwnDecoded {
    let size = raw.len();
    if size < PADDING_LEN {
        return OwnDecoded { size, padding: vec![], items: vec![], structure: "truncated" };
    }
    let (body, pad) = raw.split_at(size - PADDING_LEN);
    let mut items = vec![];
    let mut pos = 0usize;
    let mut structure = "ok";
    while pos < body.len() {
        let (tc, n) = match cs_read(&body[pos..]) {
            CsRead::Ok(v, n) => (v, n),
            CsRead::NonCanonical(..) => {
                structure = "noncanonical";
                break;
            }
            CsRead::Truncated => {
                structure = "truncated";
                break;
            }
        };
        pos += n;
        let (len, n) = match cs_read(&body[pos..]) {
            CsRead::Ok(v, n) => (v, n),
            CsRead::NonCanonical(..) => {
                structure = "noncanonical";
                break;
            }
            CsRead::Truncated => {
                structure = "truncated";
                break;
            }
        };
        pos += n;
        if len > (body.len() - pos) as u64 {
            structure = "truncated";
            break;
        }
        items.push(RawItem { typecode: tc, data: body[pos..pos + len as usize].to_vec() });
        pos += len as usize;
    }
    OwnDecoded { size, padding: pad.to_vec(), items, structure }
}

/// Typecode class of the specification (Zip316!TC): classes are intervals of the number line.
pub const UNK_LO_MAX: u64 = 0xFFFF;
pub fn tc_class(tc: u64) -> &'static str {
    match tc {
        0 => "p2pkh",
        1 => "p2sh",
        2 => "sapling",
        3 => "orchard",
        4..=UNK_LO_MAX => "unkLo",
        v if v <= MAX_TYPECODE => "unkHi",
        _ => "invalid",
    }
}

// ------------------------------------------------------------------------------------------------
// observing the code under test

/// What `ZcashAddress::convert` shows of a parsed address.
#[derive(Clone, Debug, PartialEq, Eq)]
pub struct Obs {
    pub kind: &'static str,
    pub net: &'static str,
    pub data: Vec<u8>,
    pub ua: Option<unified::Address>,
}

impl TryFromAddress for Obs {
    type Error = ();
    fn try_from_sprout(net: NetworkType, data: [u8; 64]) -> Result<Self, ConversionError<()>> {
        Ok(Obs { kind: "sprout", net: net_name(net), data: data.to_vec(), ua: None })
    }
    fn try_from_sapling(net: NetworkType, data: [u8; 43]) -> Result<Self, ConversionError<()>> {
        Ok(Obs { kind: "sapling", net: net_name(net), data: data.to_vec(), ua: None })
    }
    fn try_from_unified(net: NetworkType, data: unified::Address) -> Result<Self, ConversionError<()>> {
        Ok(Obs { kind: "unified", net: net_name(net), data: vec![], ua: Some(data) })
    }
    fn try_from_transparent_p2pkh(net: NetworkType, data: [u8; 20]) -> Result<Self, ConversionError<()>> {
        Ok(Obs { kind: "p2pkh", net: net_name(net), data: data.to_vec(), ua: None })
    }
    fn try_from_transparent_p2sh(net: NetworkType, data: [u8; 20]) -> Result<Self, ConversionError<()>> {
        Ok(Obs { kind: "p2sh", net: net_name(net), data: data.to_vec(), ua: None })
    }
    fn try_from_tex(net: NetworkType, data: [u8; 20]) -> Result<Self, ConversionError<()>> {
        Ok(Obs { kind: "tex", net: net_name(net), data: data.to_vec(), ua: None })
    }
}

pub fn observe(a: &ZcashAddress) -> Obs {
    a.clone().convert::<Obs>().expect("harness: Obs conversion is total")
}

pub fn receiver_raw(r: &unified::Receiver) -> RawItem {
    match r {
        unified::Receiver::P2pkh(d) => RawItem { typecode: 0, data: d.to_vec() },
        unified::Receiver::P2sh(d) => RawItem { typecode: 1, data: d.to_vec() },
        unified::Receiver::Sapling(d) => RawItem { typecode: 2, data: d.to_vec() },
        unified::Receiver::Orchard(d) => RawItem { typecode: 3, data: d.to_vec() },
        unified::Receiver::Unknown { typecode, data } => RawItem { typecode: *typecode as u64, data: data.clone() },
    }
}
pub fn fvk_raw(r: &unified::Fvk) -> RawItem {
    match r {
        unified::Fvk::P2pkh(d) => RawItem { typecode: 0, data: d.to_vec() },
        unified::Fvk::Sapling(d) => RawItem { typecode: 2, data: d.to_vec() },
        unified::Fvk::Orchard(d) => RawItem { typecode: 3, data: d.to_vec() },
        unified::Fvk::Unknown { typecode, data } => RawItem { typecode: *typecode as u64, data: data.clone() },
    }
}
pub fn ivk_raw(r: &unified::Ivk) -> RawItem {
    match r {
        unified::Ivk::P2pkh(d) => RawItem { typecode: 0, data: d.to_vec() },
        unified::Ivk::Sapling(d) => RawItem { typecode: 2, data: d.to_vec() },
        unified::Ivk::Orchard(d) => RawItem { typecode: 3, data: d.to_vec() },
        unified::Ivk::Unknown { typecode, data } => RawItem { typecode: *typecode as u64, data: data.clone() },
    }
}

pub fn ua_items(a: &unified::Address) -> Vec<RawItem> {
    a.items_as_parsed().iter().map(receiver_raw).collect()
}
pub fn ufvk_items(a: &unified::Ufvk) -> Vec<RawItem> {
    a.items_as_parsed().iter().map(fvk_raw).collect()
}
pub fn uivk_items(a: &unified::Uivk) -> Vec<RawItem> {
    a.items_as_parsed().iter().map(ivk_raw).collect()
}

/// Typed items for `try_from_items` (only possible for well-typed raw items).
pub fn typed_receiver(it: &RawItem) -> Option<unified::Receiver> {
    Some(match it.typecode {
        0 => unified::Receiver::P2pkh(it.data.clone().try_into().ok()?),
        1 => unified::Receiver::P2sh(it.data.clone().try_into().ok()?),
        2 => unified::Receiver::Sapling(it.data.clone().try_into().ok()?),
        3 => unified::Receiver::Orchard(it.data.clone().try_into().ok()?),
        t if t <= MAX_TYPECODE => unified::Receiver::Unknown { typecode: t as u32, data: it.data.clone() },
        _ => return None,
    })
}
pub fn typed_fvk(it: &RawItem) -> Option<unified::Fvk> {
    Some(match it.typecode {
        0 => unified::Fvk::P2pkh(it.data.clone().try_into().ok()?),
        1 => return None,
        2 => unified::Fvk::Sapling(it.data.clone().try_into().ok()?),
        3 => unified::Fvk::Orchard(it.data.clone().try_into().ok()?),
        t if t <= MAX_TYPECODE => unified::Fvk::Unknown { typecode: t as u32, data: it.data.clone() },
        _ => return None,
    })
}
pub fn typed_ivk(it: &RawItem) -> Option<unified::Ivk> {
    Some(match it.typecode {
        0 => unified::Ivk::P2pkh(it.data.clone().try_into().ok()?),
        1 => return None,
        2 => unified::Ivk::Sapling(it.data.clone().try_into().ok()?),
        3 => unified::Ivk::Orchard(it.data.clone().try_into().ok()?),
        t if t <= MAX_TYPECODE => unified::Ivk::Unknown { typecode: t as u32, data: it.data.clone() },
        _ => return None,
    })
}

// ------------------------------------------------------------------------------------------------
// deterministic randomness: a case's bytes are a function of (VERIF_SEED, the case text) only, so a
// replay of one case reproduces exactly the same strings.

pub fn case_rng(seed: u64, case_text: &str) -> ChaCha8Rng {
    let h = blake2b_simd::Params::new()
        .hash_length(32)
        .personal(b"verif_C10_case__")
        .to_state()
        .update(&seed.to_le_bytes())
        .update(case_text.as_bytes())
        .finalize();
    let mut s = [0u8; 32];
    s.copy_from_slice(h.as_bytes());
    ChaCha8Rng::from_seed(s)
}

pub fn rand_bytes(rng: &mut ChaCha8Rng, n: usize) -> Vec<u8> {
    let mut v = vec![0u8; n];
    rng.fill_bytes(&mut v);
    v
}

/// The whitespace of copy-paste accidents: a string surrounded by these must parse as the string itself.
pub const WS_CHARS: &[char] = &[' ', '\t', '\n', '\r'];
/// Rarer Unicode White_Space characters: used only where no verdict is predicted.
pub const EXOTIC_WS: &[char] = &['\u{0b}', '\u{0c}', '\u{85}', '\u{a0}', '\u{2003}', '\u{2028}', '\u{3000}'];

pub fn rand_ws(rng: &mut ChaCha8Rng) -> String {
    let n = rng.gen_range(1..=3);
    (0..n).map(|_| WS_CHARS[rng.gen_range(0..WS_CHARS.len())]).collect()
}

thread_local! {
    static IN_CUT: std::cell::Cell<bool> = const { std::cell::Cell::new(false) };
}

/// `h_core::util::guarded` plus a marker, so that the panic hook can tell a panic of the code under
/// test (data, silent) from a panic of the harness itself (printed; the process then fails).
pub fn cut<T>(f: impl FnOnce() -> T) -> Result<T, String> {
    IN_CUT.with(|c| c.set(true));
    let r = h_core::util::guarded(f);
    IN_CUT.with(|c| c.set(false));
    r
}

pub fn harness_hook() {
    std::panic::set_hook(Box::new(|info| {
        if !IN_CUT.with(|c| c.get()) {
            eprintln!("harness panic: {info}");
        }
    }));
}
